import QuillModel.Backend.LiftObsStep
/-!
`Step` for `enqFlow`, `frontCall`, `resume` and every frontend operation (`front_step`). Helper lemmas only.
-/
namespace Backend.PC
open Backend Backend.PA Spsc

theorem enqFlow_step (s : BSt) (a : Nat) (st : Stmt) (cont : Nat) (first initial : Bool) (hd : s.cfg.dropping = true)
    (ha : AOK s) (hw : wfSC st cont) :
    Step cont s (enqFlow s a st cont first initial).1 (enqFlow s a st cont first initial).2 := by
  obtain ⟨e1, e2, e3, e4, e5, e6⟩ := ensureCtx_facts s a ha
  unfold Backend.enqFlow
  generalize Backend.ensureCtx s a = e at e1 e2 e3 e4 e5 e6 ⊢
  obtain ⟨s1, ci⟩ := e
  dsimp only at e1 e2 e3 e4 e5 e6 ⊢
  obtain ⟨t1, t2, t3, t4, t5, t6⟩ := tryEnq_facts s1 ci st e6
  generalize Backend.tryEnq s1 ci st = e' at t1 t2 t3 t4 t5 t6 ⊢
  obtain ⟨s2, ok⟩ := e'
  dsimp only at t1 t2 t3 t4 t5 t6 ⊢
  have a2 : AOK s2 := e5.of_eq t3 (by omega)
  have hdr : s2.cfg.dropping = s.cfg.dropping := by rw [t1, e1]
  have hlg : injT s2.log = injT s.log := by rw [t2, e2]
  have hlk := hw.1.log_iff
  cases ok with
  | true =>
    simp only [if_true]
    by_cases hc : cont = 0 ∨ cont = 5
    · have hk : st.kind = .log := by
        rcases hw.1 with ⟨hk, _⟩ | ⟨rfl, _⟩ | ⟨rfl, _⟩ | ⟨rfl, _⟩ | ⟨rfl, _⟩
        · exact hk
        all_goals (rcases hc with hc | hc <;> cases hc)
      rw [afterEnq_log _ a st cont hk hc]
      refine ⟨hdr, hlg, a2.setMisc a _ (fun _ => rfl) (fun _ _ => trivial), ?_⟩
      refine .acc ?_ ?_ hc ⟨st, hw.2 hk, rfl⟩
      · show dsum s2 = dsum s
        rw [t5, e3]
      · show asum s2 = asum s + 1
        rw [t6, e4, if_pos ⟨rfl, hlk.mpr hc⟩]
    · have hnl : isLogKind st.kind = false := by
        cases h : isLogKind st.kind
        · rfl
        · exact absurd (hlk.mp h) hc
      have hout : ∀ (s3 : BSt) (t : String), s3.ths = s2.ths → Quiet t →
          Out cont (dsum s) (asum s) (dsum s3) (asum s3) t := by
        intro s3 t h3 hq
        refine .quiet ?_ ?_ hq
        · have : dsum s3 = dsum s2 := by simp only [dsum, dk, h3]
          rw [this, t5, e3]
        · have : asum s3 = asum s2 := by simp only [asum, dk, h3]
          rw [this, t6, e4, hnl]; simp
      have a3 : AOK (s2.setActor a (fun x => { x with pend := .none })) :=
        a2.setMisc a _ (fun _ => rfl) (fun _ _ => trivial)
      rcases hw.1 with ⟨_, hc'⟩ | ⟨rfl, f, hk⟩ | ⟨rfl, c, f, hk⟩ | ⟨rfl, hk⟩ | ⟨rfl, f, hk⟩
      · exact absurd hc' hc
      · unfold Backend.afterEnq; rw [hk]
        exact ⟨hdr, hlg, a3.setMisc a _ (fun _ => rfl) (fun _ _ => trivial), hout _ _ rfl .sleep⟩
      · unfold Backend.afterEnq; rw [hk]
        exact ⟨hdr, hlg, a3.of_eq rfl (by simp [BSt.setLg]), hout _ _ rfl .done⟩
      · unfold Backend.afterEnq
        exact ⟨hdr, hlg, a3, hout _ _ rfl .done⟩
      · unfold Backend.afterEnq; rw [hk]
        refine ⟨hdr, hlg, ?_, hout _ _ rfl .sleep⟩
        exact AOK.setMisc (s := { (s2.setActor a (fun x => { x with pend := .none })).setLg st.lg
            (fun l => { l with valid := false }) with hasInvalidLoggers := true })
          (a3.of_eq rfl (by simp [BSt.setLg])) a _ (fun _ => rfl) (fun _ _ => trivial)
  | false =>
    simp only [Bool.false_eq_true, if_false, hd, if_true]
    by_cases hc : cont = 0 ∨ cont = 5
    · have hk : isLogKind st.kind = true := hlk.mpr hc
      rw [if_pos hc]
      simp only [hk, if_true]
      have hci : ci < s2.ths.length := by omega
      refine ⟨hdr, hlg, ?_, ?_⟩
      · refine AOK.setMisc (s := s2.setTh ci _) (a2.of_eq rfl (by simp)) a _ ?_ ?_ <;> intros <;> first | rfl | exact True.intro
      have hD : ∀ f : Th → Th, (∀ t, (f t).discarded = t.discarded + 1) → (∀ t, (f t).accepted = t.accepted) →
          dsum (s2.setTh ci f) = dsum s + 1 ∧ asum (s2.setTh ci f) = asum s := by
        intro f h1 h2
        constructor
        · rw [dsum_ths, sum_setTh s2 ci f (·.discarded) hci 1 (h1 _), ← dsum_ths, t5, e3]
        · rw [asum_ths, sum_setTh s2 ci f _ hci 0 (by rw [h2]; rfl), ← asum_ths, t6, e4]; simp
      by_cases h0 : cont = 0
      · rw [if_pos h0]
        refine .drop0 ?_ ?_ h0 ⟨st.id, rfl⟩
        · show dsum (s2.setTh ci _) = _
          refine (hD _ ?_ ?_).1 <;> intro _ <;> rfl
        · show asum (s2.setTh ci _) = _
          refine (hD _ ?_ ?_).2 <;> intro _ <;> rfl
      · rw [if_neg h0]
        have h5 : cont = 5 := by rcases hc with h | h; exact absurd h h0; exact h
        refine .drop5 ?_ ?_ h5 ⟨st.id, rfl⟩
        · show dsum (s2.setTh ci _) = _
          refine (hD _ ?_ ?_).1 <;> intro _ <;> rfl
        · show asum (s2.setTh ci _) = _
          refine (hD _ ?_ ?_).2 <;> intro _ <;> rfl
    · have hnl : isLogKind st.kind = false := by
        cases h : isLogKind st.kind
        · rfl
        · exact absurd (hlk.mp h) hc
      rw [if_neg hc]
      simp only [hnl, Bool.false_eq_true, if_false]
      refine ⟨hdr, hlg, a2.setMisc a _ (fun _ => rfl) (fun _ _ => hw), .quiet ?_ ?_ .sleep⟩
      · show dsum s2 = dsum s
        rw [t5, e3]
      · show asum s2 = asum s
        rw [t6, e4]; simp

theorem Step.recont {c : Nat} {s s' : BSt} {t : String} (h : Step c s s' t) (h0 : c ≠ 0) (h5 : c ≠ 5) {c' : Nat} :
    Step c' s s' t := by
  refine ⟨h.drp, h.log, h.aok, ?_⟩
  cases h.out with
  | quiet a b q => exact .quiet a b q
  | acc _ _ hc _ => rcases hc with hc | hc <;> contradiction
  | drop0 _ _ hc _ => contradiction
  | drop5 _ _ hc _ => contradiction

theorem dk_setTh (s : BSt) (i : Nat) (f : Th → Th)
    (h : ∀ t, (f t).discarded = t.discarded ∧ (f t).accepted = t.accepted) : dk (s.setTh i f) = dk s := by
  simp only [dk, BSt.setTh]
  exact map_updAt s.ths i f _ (fun t => by rw [(h t).1, (h t).2])

theorem frontCall_step (s : BSt) (a lgi : Nat) (kind : Kind) (lvl len cont : Nat) (dyn : Bool) (id : Nat) (named : Bool)
    (hd : s.cfg.dropping = true) (ha : AOK s) (hkc : KC kind cont)
    (hsz : kind = .log → 0 < stmtSize s.cfg kind id len dyn (s.lgOf lgi).gid) :
    Step cont s (frontCall s a lgi kind lvl len cont dyn id named).1 (frontCall s a lgi kind lvl len cont dyn id named).2 := by
  unfold Backend.frontCall
  dsimp only
  split
  · refine Step.same rfl rfl rfl ?_ ?_
    · exact ha.setMisc a _ (fun _ => rfl) (fun _ _ => ⟨hkc, hsz⟩)
    · split
      · exact .idStall id
      · exact .stall
  · exact enqFlow_step s a _ cont true true hd ha ⟨hkc, hsz⟩

/-- the continuation a frontend operation runs with (what its observation reports) -/
def contOf (s : BSt) : FOp → Nat
  | .log _ _ _ _ dyn => if dyn then 0 else 5
  | .resume a =>
    match ((s.actor a).map (·.pend) : Option Pend) with
    | some (Pend.stall _ c) => c
    | some (Pend.retry _ c) => c
    | _ => 1
  | .logNamed .. => 5
  | .logBt .. => 5
  | _ => 1

theorem resume_step (s : BSt) (a : Nat) (hd : s.cfg.dropping = true) (ha : AOK s) :
    Step (contOf s (.resume a)) s (resume s a).1 (resume s a).2 := by
  cases hx : s.actor a with
  | none =>
    have hr : resume s a = (s, "noop") := by unfold Backend.resume; simp [hx]
    rw [hr]; exact Step.same rfl rfl rfl ha .noop
  | some x =>
    have hw := (ha.actor hx).2
    cases hp : x.pend with
    | none =>
      have hr : resume s a = (s, "noop") := by unfold Backend.resume; simp [hx, hp]
      rw [hr]; exact Step.same rfl rfl rfl ha .noop
    | stall st c =>
      rw [hp] at hw
      have hr : resume s a = enqFlow s a st c true false := by unfold Backend.resume; simp [hx, hp]
      have hcv : contOf s (.resume a) = c := by simp [contOf, hx, hp]
      rw [hr, hcv]
      exact enqFlow_step s a st c true false hd ha hw
    | retry st c =>
      rw [hp] at hw
      have hr : resume s a = enqFlow s a { st with ts := s.now } c true false := by
        unfold Backend.resume; simp [hx, hp, hd]
      have hcv : contOf s (.resume a) = c := by simp [contOf, hx, hp]
      rw [hr, hcv]
      exact enqFlow_step s a { st with ts := s.now } c true false hd ha hw
    | flag f =>
      have hr : resume s a = if s.flags.contains f then (s.setActor a (fun x => { x with pend := .none }), "done")
          else (s, "parked:sleep") := by unfold Backend.resume; simp [hx, hp]
      rw [hr]
      split
      · exact Step.same rfl rfl rfl (ha.setMisc a _ (fun _ => rfl) (fun _ _ => True.intro)) .done
      · exact Step.same rfl rfl rfl ha .sleep

theorem Step.noteCall {c : Nat} {s : BSt} {r : BSt × String} (h : Step c s r.1 r.2) (a g : Nat) :
    Step c s (noteCall r a g).1 (noteCall r a g).2 :=
  h.post rfl rfl rfl (h.aok.setMisc a _ (fun _ => rfl) (fun _ hx => hx))

theorem withLogger_step {c : Nat} (s : BSt) (a g : Nat) (k : Nat → BSt × String) (ha : AOK s)
    (hk : ∀ lgi, Step c s (k lgi).1 (k lgi).2) : Step c s (withLogger s a g k).1 (withLogger s a g k).2 := by
  unfold Backend.withLogger
  split
  · exact (hk _).noteCall a g
  · exact Step.same rfl rfl rfl ha .noop

theorem KC_log0 : KC .log 0 := Or.inl ⟨rfl, Or.inl rfl⟩
theorem KC_log5 : KC .log 5 := Or.inl ⟨rfl, Or.inr rfl⟩

/-- **one frontend operation**, on a dropping queue, from a state with well-formed actors -/
theorem front_step (s : BSt) (f : FOp) (hd : s.cfg.dropping = true) (ha : AOK s) :
    Step (contOf s f) s (applyFront s f).1 (applyFront s f).2 := by
  cases f <;> simp only [applyFront]
  case tick => exact Step.same rfl rfl rfl (ha.of_eq rfl (Nat.le_refl _)) .ok
  case tstart a =>
    split
    · exact Step.same rfl rfl rfl ha .noop
    · refine Step.same rfl rfl rfl ?_ .ok
      intro x hx
      rcases List.mem_append.mp hx with hx | hx
      · exact ha x hx
      · simp only [List.mem_singleton] at hx
        subst hx
        exact ⟨fun i hi => (by cases hi), True.intro⟩
  case texit a =>
    split
    · exact Step.same rfl rfl rfl ha .noop
    · have h1 : AOK (s.setActor a (fun x => { x with alive := false })) := ha.setMisc a _ (fun _ => rfl) (fun _ hx => hx)
      split
      · rename_i i _
        have hdk : dk ({ (s.setActor a (fun x => { x with alive := false })).setTh i (fun t => { t with valid := false }) with
            invalidCnt := counterMod s.cfg (s.invalidCnt + 1) } : BSt) = dk s := by
          show dk (BSt.setTh (s.setActor a (fun x => { x with alive := false })) i _) = _
          refine dk_setTh _ _ _ ?_
          intro _; exact ⟨rfl, rfl⟩
        exact ⟨rfl, rfl, h1.of_eq rfl (by simp [BSt.setTh, updAt_length]),
          .quiet (by simp only [dsum, hdk]) (by simp only [asum, hdk]) .ok⟩
      · exact Step.same rfl rfl rfl h1 .ok
  case resume a =>
    have h := resume_step s a hd ha
    split
    · exact h
    · split
      · exact h
      · exact h.post rfl rfl rfl (h.aok.setMisc a _ (fun _ => rfl) (fun _ hx => hx))
  case armStall a =>
    split
    · exact Step.same rfl rfl rfl (ha.setMisc a _ (fun _ => rfl) (fun _ hx => hx)) .ok
    · exact Step.same rfl rfl rfl ha .noop
  case log a g lvl len dyn =>
    apply withLogger_step s a g _ ha
    intro lgi
    split
    · cases dyn
      · exact (frontCall_step ({ s with nextId := s.nextId + 1 } : BSt) a lgi .log lvl len 5 false s.nextId false hd ha
          KC_log5 (fun _ => stmtSize_log_pos ..)).pre rfl rfl rfl
      · exact (frontCall_step ({ s with nextId := s.nextId + 1 } : BSt) a lgi .log lvl len 0 true s.nextId false hd ha
          KC_log0 (fun _ => stmtSize_log_pos ..)).pre rfl rfl rfl
    · refine Step.same rfl rfl rfl ha ?_
      cases dyn
      · exact .ev0 s.nextId
      · exact .skip s.nextId
  case logNamed a g len =>
    apply withLogger_step s a g _ ha
    intro lgi
    split
    · exact (frontCall_step ({ s with nextId := s.nextId + 1 } : BSt) a lgi .log 4 len 5 false s.nextId true hd ha
        KC_log5 (fun _ => stmtSize_log_pos ..)).pre rfl rfl rfl
    · exact Step.same rfl rfl rfl ha (.ev0 s.nextId)
  case logBt a g len =>
    apply withLogger_step s a g _ ha
    intro lgi
    split
    · exact (frontCall_step ({ s with nextId := s.nextId + 1 } : BSt) a lgi .log 9 len 5 false s.nextId false hd ha
        KC_log5 (fun _ => stmtSize_log_pos ..)).pre rfl rfl rfl
    · exact Step.same rfl rfl rfl ha (.ev0 s.nextId)
  case initBt a g cap fl =>
    apply withLogger_step s a g _ ha
    intro lgi
    exact (frontCall_step s a lgi (.initBt cap fl) 8 0 2 false 0 false hd ha
      (Or.inr (Or.inr (Or.inl ⟨rfl, cap, fl, rfl⟩))) (fun h => by cases h)).recont (by decide) (by decide)
  case flushBt a g =>
    apply withLogger_step s a g _ ha
    intro lgi
    exact (frontCall_step s a lgi .flushBt 8 0 3 false 0 false hd ha
      (Or.inr (Or.inr (Or.inr (Or.inl ⟨rfl, rfl⟩)))) (fun h => by cases h)).recont (by decide) (by decide)
  case flush a g =>
    apply withLogger_step s a g _ ha
    intro lgi
    exact ((frontCall_step ({ s with nextFlag := s.nextFlag + 1 } : BSt) a lgi (.flush s.nextFlag) 8 0 1 false 0 false hd ha
      (Or.inr (Or.inl ⟨rfl, _, rfl⟩)) (fun h => by cases h)).recont (by decide) (by decide)).pre rfl rfl rfl
  case removeBlocking a g =>
    split
    · exact Step.same rfl rfl rfl ha .noop
    · apply withLogger_step s a g _ ha
      intro lgi
      exact ((frontCall_step (dropName { s with nextFlag := s.nextFlag + 1 } g) a lgi (.removal s.nextFlag) 8 0 4 false 0 false
        hd ha (Or.inr (Or.inr (Or.inr (Or.inr ⟨rfl, _, rfl⟩)))) (fun h => by cases h)).recont (by decide) (by decide)).pre
        rfl rfl rfl
  case remove a g =>
    split
    · exact Step.same rfl rfl rfl ha .noop
    · split
      · exact Step.same rfl rfl rfl (ha.of_eq rfl (Nat.le_refl _)) .done
      · exact Step.same rfl rfl rfl ha .noop
  case create a g sl =>
    split
    · exact Step.same rfl rfl rfl ha .noop
    · split
      · split
        · exact Step.same rfl rfl rfl ha .noop
        · exact Step.same rfl rfl rfl (ha.of_eq rfl (Nat.le_refl _)) (.created _)
      · exact Step.same rfl rfl rfl (ha.of_eq rfl (Nat.le_refl _)) (.created _)
  case setLevel g lvl =>
    split
    · exact Step.same rfl rfl rfl (ha.of_eq rfl (Nat.le_refl _)) .ok
    · exact Step.same rfl rfl rfl ha .noop
  case setSinkLevel sid lvl =>
    split
    · exact Step.same rfl rfl rfl (ha.of_eq rfl (Nat.le_refl _)) .ok
    · exact Step.same rfl rfl rfl ha .noop
  case dropSink sid =>
    have hv := vw_reapSinks [sid] (s.setSink sid (fun k => { k with userRef := false }))
    have h1 : injT (reapSinks (s.setSink sid (fun k => { k with userRef := false })) [sid]).log = injT s.log :=
      congrArg (·.1) hv
    have h2 : dk (reapSinks (s.setSink sid (fun k => { k with userRef := false })) [sid]) = dk s := congrArg (·.2.1) hv
    have h3 : (reapSinks (s.setSink sid (fun k => { k with userRef := false })) [sid]).actors = s.actors :=
      congrArg (·.2.2.1) hv
    have h4 : (reapSinks (s.setSink sid (fun k => { k with userRef := false })) [sid]).cfg.dropping = s.cfg.dropping :=
      congrArg (·.2.2.2) hv
    have hl : s.ths.length ≤ (reapSinks (s.setSink sid (fun k => { k with userRef := false })) [sid]).ths.length := by
      rw [← dk_length, ← dk_length, h2]; exact Nat.le_refl _
    exact ⟨h4, h1, ha.of_eq h3 hl, .quiet (by simp only [dsum, h2]) (by simp only [asum, h2]) .ok⟩
  case query => exact Step.same rfl rfl rfl ha (.query _ _)

end Backend.PC
