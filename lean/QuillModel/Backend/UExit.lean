import QuillModel.Backend.UInvClosed
/-!
The exit drain of the U machine (`_exit` with `wait_for_queues_to_empty_before_exit`): the loop leaves only through the
branch in which `_check_frontend_queues_and_cached_transit_events_empty` answered true, and at that moment every context
of the backend's (refreshed) cache has an empty chain of queue buffers and an empty transit buffer, with everything it
accepted popped.
-/
namespace Backend.US
open Backend Spsc Backend.PA Backend.UQ

/-- one turn of the exit loop that did not find everything empty -/
def exitNextU (u : UP) (inj : BSt → Nat → BSt) (tick : Nat) (s : BSt) : BSt :=
  let r := allEmptyU s
  let s0 := { r.1 with now := r.1.now + tick }
  let (s1, count) := populateU u inj s0
  if count > 0 then batchLoopU inj (totalBuffered s1 + 64) s1 else s1

/-- what the loop does after it found everything empty -/
def exitTailU (inj : BSt → Nat → BSt) (s : BSt) : BSt :=
  cleanupLoggersU inj (preEraseFlush (cleanupContextsU (flushSinks (allEmptyU s).1)))

theorem exitLoopU_succ (u : UP) (inj : BSt → Nat → BSt) (tick fuel : Nat) (s : BSt) :
    exitLoopU u inj tick (fuel + 1) s =
      if (allEmptyU s).2 then exitTailU inj s else exitLoopU u inj tick fuel (exitNextU u inj tick s) := rfl

/-- the loop reaches the "everything empty" branch before the model's fuel runs out -/
def exitEndsU (u : UP) (inj : BSt → Nat → BSt) (tick : Nat) : Nat → BSt → Prop
  | 0, _ => False
  | fuel + 1, s => (allEmptyU s).2 = true ∨ ((allEmptyU s).2 = false ∧ exitEndsU u inj tick fuel (exitNextU u inj tick s))

/-- the ghost fields of every context agree -/
def SameG (s s' : BSt) : Prop :=
  ∀ j, (s'.th j).buf = (s.th j).buf ∧ (s'.th j).qStmts = (s.th j).qStmts ∧
    (s'.th j).accepted = (s.th j).accepted ∧ (s'.th j).popped = (s.th j).popped

theorem SameG.refl (s : BSt) : SameG s s := fun _ => ⟨rfl, rfl, rfl, rfl⟩
theorem SameG.trans {a b c : BSt} (h1 : SameG a b) (h2 : SameG b c) : SameG a c := fun j =>
  ⟨(h2 j).1.trans (h1 j).1, (h2 j).2.1.trans (h1 j).2.1, (h2 j).2.2.1.trans (h1 j).2.2.1, (h2 j).2.2.2.trans (h1 j).2.2.2⟩

theorem sameG_ctxEmptyU (s : BSt) (i : Nat) : SameG s (ctxEmptyU s i).1 := by
  intro j
  have e : (ctxEmptyU s i).1 = s.setTh i (fun t => (uEmpty s.cfg t).1) := rfl
  rw [e, th_setTh]
  split <;> exact ⟨rfl, rfl, rfl, rfl⟩

def Drained (s : BSt) (i : Nat) : Prop :=
  (s.th i).buf = [] ∧ (s.th i).qStmts = [] ∧ (s.th i).accepted = (s.th i).popped

theorem drained_of_ctxEmptyU {s : BSt} (h : UI s) (i : Nat) (he : (ctxEmptyU s i).2 = true) : Drained s i := by
  simp only [ctxEmptyU, Bool.and_eq_true, List.isEmpty_iff] at he
  have hq := (h.th i).empty_sound s.cfg he.1
  refine ⟨he.2, hq, ?_⟩
  rw [(h.th i).cons, he.2, hq]; simp

theorem Drained.of_same {s s' : BSt} {i : Nat} (g : SameG s s') (h : Drained s' i) : Drained s i := by
  obtain ⟨a, b, c, d⟩ := g i
  unfold Drained at *
  rw [← a, ← b, ← c, ← d]; exact h

/-- **the backend's global emptiness test is sound**: a `true` answer means every cached context is drained -/
theorem allEmptyU_sound {s : BSt} (h : UI s) (he : (allEmptyU s).2 = true) :
    ∀ i ∈ (refreshCache s).cache, Drained s i := by
  unfold allEmptyU at he
  dsimp only at he
  have h0 : UI (refreshCache s) := refresh_closed (UI.closed { qmax := 0 }) s h
  have g0 : SameG s (refreshCache s) := by
    intro j; unfold refreshCache; split <;> exact ⟨rfl, rfl, rfl, rfl⟩
  have key : ∀ (l : List Nat) (acc : BSt × Bool), UI acc.1 → SameG s acc.1 →
      (l.foldl (fun (acc : BSt × Bool) i => let r := ctxEmptyU acc.1 i; (r.1, acc.2 && r.2)) acc).2 = true →
      acc.2 = true ∧ ∀ i ∈ l, Drained s i := by
    intro l
    induction l with
    | nil => intro acc _ _ hh; exact ⟨hh, fun i hi => by cases hi⟩
    | cons x xs ih =>
      intro acc hu hg hh
      have hu' : UI (ctxEmptyU acc.1 x).1 := ctxEmptyU_closed (UI.closed { qmax := 0 }) acc.1 x hu
      obtain ⟨h1, h2⟩ := ih ((ctxEmptyU acc.1 x).1, acc.2 && (ctxEmptyU acc.1 x).2) hu'
        (hg.trans (sameG_ctxEmptyU acc.1 x)) hh
      simp only [Bool.and_eq_true] at h1
      refine ⟨h1.1, fun i hi => ?_⟩
      rcases List.mem_cons.mp hi with hi | hi
      · rw [hi]; exact (drained_of_ctxEmptyU hu x h1.2).of_same hg
      · exact h2 i hi
  exact (key _ (refreshCache s, true) h0 g0 he).2

/-- **the exit loop leaves only when everything is empty**: if it ends (not by the model's fuel), it does so from a
    state `sK`, reached by the loop's own passes from `s`, in which the emptiness test answered true -/
theorem exitLoopU_ends_form (u : UP) (table : List (Nat × Nat × List UFOp)) (tick : Nat) :
    ∀ (fuel : Nat) (s : BSt), UI s → exitEndsU u (runInjU u table) tick fuel s →
      ∃ sK, UI sK ∧ (allEmptyU sK).2 = true ∧ (∀ i ∈ (refreshCache sK).cache, Drained sK i) ∧
        exitLoopU u (runInjU u table) tick fuel s = exitTailU (runInjU u table) sK
  | 0, _, _, he => by cases he
  | fuel + 1, s, h, he => by
    rcases he with he | ⟨hne, he⟩
    · exact ⟨s, h, he, allEmptyU_sound h he, by rw [exitLoopU_succ, if_pos he]⟩
    · have hc := UI.closed u
      have hnext : UI (exitNextU u (runInjU u table) tick s) := by
        unfold exitNextU
        dsimp only
        have h0 : UI { (allEmptyU s).1 with now := (allEmptyU s).1.now + tick } :=
          (allEmptyU_closed hc s h).aux rfl rfl rfl
        have hp := populateU_closed hc table _ h0
        generalize populateU u (runInjU u table) { (allEmptyU s).1 with now := (allEmptyU s).1.now + tick } = r at hp
        obtain ⟨s1, count⟩ := r
        dsimp only at hp ⊢
        split
        · exact batchLoopU_closed hc table _ s1 hp
        · exact hp
      obtain ⟨sK, a, b, c, d⟩ := exitLoopU_ends_form u table tick fuel _ hnext he
      exact ⟨sK, a, b, c, by rw [exitLoopU_succ, if_neg (by rw [hne]; simp), d]⟩

end Backend.US
