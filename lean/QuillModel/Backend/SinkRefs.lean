import QuillModel.Backend.SinkBack
/-!
The converse of `LS.dead` ("a destroyed sink is unreferenced"): **a sink that is alive is referenced** — by the user
or by a logger object that is not erased. Unlike `LS` this is not stable under every micro-step of the backend: between
the erase of a logger object and the visit of its sinks by `cleanup_unused_sinks` (with hook site 9 after every
destructor) the sinks of that logger are alive and possibly unreferenced. `RP pend` is the statement with the list of
sinks still to be visited; every step other than the erase keeps `RP pend` for every `pend`, the erase of logger `i`
adds the sinks of `i`, a visit removes its sink. Helper lemmas for C17.
-/
namespace Backend.PC
open Backend Spsc

/-- sink `sid` is referenced: by the user, or by a logger object (a valid index) that is not erased -/
def RefdBy (x : BSt) (sid : Nat) : Prop :=
  (x.sinkOf sid).userRef = true ∨ ∃ i, i < x.lgs.length ∧ (x.lgOf i).erased = false ∧ sid ∈ (x.lgOf i).sinks

theorem lgOf_eq_getElem (x : BSt) (i : Nat) (hi : i < x.lgs.length) : x.lgOf i = x.lgs[i] := by
  simp only [BSt.lgOf, List.getD_eq_getElem?_getD, List.getElem?_eq_getElem hi, Option.getD_some]

theorem sinkRefs_pos_of_refd {x : BSt} {sid : Nat} (h : RefdBy x sid) : 0 < sinkRefs x sid := by
  unfold sinkRefs
  rcases h with h | ⟨i, hi, he, hm⟩
  · rw [h]; simp only [if_true]; omega
  · have : x.lgs[i] ∈ x.lgs.filter (fun l => !l.erased && l.sinks.contains sid) := by
      rw [List.mem_filter]
      refine ⟨List.getElem_mem hi, ?_⟩
      rw [← lgOf_eq_getElem x i hi, he]
      simp only [Bool.not_false, Bool.true_and, List.contains_iff_mem]
      exact hm
    have := List.length_pos_of_mem this
    omega

theorem refd_of_sinkRefs_pos {x : BSt} {sid : Nat} (h : 0 < sinkRefs x sid) : RefdBy x sid := by
  unfold sinkRefs at h
  cases hu : (x.sinkOf sid).userRef
  · right
    rw [hu] at h
    have hpos : 0 < (x.lgs.filter (fun l => !l.erased && l.sinks.contains sid)).length := by
      simpa using h
    obtain ⟨l, hl⟩ := List.exists_mem_of_length_pos hpos
    rw [List.mem_filter] at hl
    obtain ⟨hm, hc⟩ := hl
    obtain ⟨i, hi, rfl⟩ := List.getElem_of_mem hm
    simp only [Bool.and_eq_true, Bool.not_eq_true', List.contains_iff_mem] at hc
    exact ⟨i, hi, by rw [lgOf_eq_getElem x i hi]; exact hc.1, by rw [lgOf_eq_getElem x i hi]; exact hc.2⟩
  · exact Or.inl hu

theorem sinkRefs_zero_iff (x : BSt) (sid : Nat) : sinkRefs x sid = 0 ↔ ¬ RefdBy x sid := by
  constructor
  · intro h hr
    have := sinkRefs_pos_of_refd hr
    omega
  · intro h
    cases hz : sinkRefs x sid with
    | zero => rfl
    | succ n => exact absurd (refd_of_sinkRefs_pos (by omega)) h

/-- every live sink of the system is referenced, or is one of the sinks `pend` the running clean-up still has to visit -/
def RP (pend : List Nat) (x : BSt) : Prop :=
  ∀ sid ∈ x.sinks.map (·.sid), (x.sinkOf sid).alive = true → RefdBy x sid ∨ sid ∈ pend

theorem RP.transport {x x' : BSt} {pend : List Nat} (h : RP pend x)
    (hs : x'.sinks.map (·.sid) = x.sinks.map (·.sid))
    (hk : ∀ sid, (x'.sinkOf sid).alive = true → (x.sinkOf sid).alive = true)
    (hu : ∀ sid, (x.sinkOf sid).userRef = true → (x'.sinkOf sid).userRef = true)
    (hl : ∀ i, i < x.lgs.length → (x.lgOf i).erased = false →
      i < x'.lgs.length ∧ (x'.lgOf i).erased = false ∧ (x'.lgOf i).sinks = (x.lgOf i).sinks) : RP pend x' := by
  intro sid hsid ha
  rw [hs] at hsid
  rcases h sid hsid (hk sid ha) with hr | hp
  · left
    rcases hr with hr | ⟨i, hi, he, hm⟩
    · exact Or.inl (hu sid hr)
    · obtain ⟨a, b, c⟩ := hl i hi he
      exact Or.inr ⟨i, a, b, by rw [c]; exact hm⟩
  · exact Or.inr hp

theorem RP_of_fields {x x' : BSt} {pend : List Nat} (h1 : x'.sinks = x.sinks) (h2 : x'.lgs = x.lgs) (h : RP pend x) :
    RP pend x' := by
  have hso : ∀ sid, x'.sinkOf sid = x.sinkOf sid := fun sid => by simp only [BSt.sinkOf, h1]
  have hlo : ∀ i, x'.lgOf i = x.lgOf i := fun i => by simp only [BSt.lgOf, h2]
  refine h.transport (by rw [h1]) (fun sid ha => by rw [← hso]; exact ha) (fun sid hu => by rw [hso]; exact hu) ?_
  intro i hi he
  exact ⟨by rw [h2]; exact hi, by rw [hlo]; exact he, by rw [hlo]⟩

theorem RP_of_sview {x x' : BSt} {pend : List Nat} (h : RP pend x) (hv : sview x' = sview x) : RP pend x' := by
  simp only [sview, Prod.mk.injEq] at hv
  obtain ⟨h1, h2, _⟩ := hv
  have hlen : x'.lgs.length = x.lgs.length := by
    have := congrArg List.length h2; simpa using this
  have hso : ∀ sid, x'.sinkOf sid = x.sinkOf sid := fun sid => by simp only [BSt.sinkOf, h1]
  refine h.transport (by rw [h1]) (fun sid ha => by rw [← hso]; exact ha) (fun sid hu => by rw [hso]; exact hu) ?_
  intro i hi he
  obtain ⟨e1, e2, _⟩ := lgOf_of_sview h2 i
  exact ⟨by rw [hlen]; exact hi, by rw [e1]; exact he, e2⟩

theorem RP_out {x x' : BSt} {pend : List Nat} {evs : List Ev} (h : RP pend x) (ho : OutStep x x' evs) : RP pend x' := by
  refine h.transport ho.sk.1 (fun sid ha => by rw [← (ho.sk.2 sid).2.2.2.2.2.2.2]; exact ha)
    (fun sid hu => by rw [(ho.sk.2 sid).2.2.2.2.2.2.1]; exact hu) ?_
  intro i hi he
  exact ⟨by rw [ho.lg.2.2.2.1]; exact hi, by rw [(ho.lg.2.2.2.2 i).2.2.1]; exact he, (ho.lg.2.2.2.2 i).2.2.2⟩

theorem RP.mono {x : BSt} {p p' : List Nat} (h : RP p x) (hp : ∀ y ∈ p, y ∈ p') : RP p' x := by
  intro sid hs ha
  rcases h sid hs ha with h1 | h1
  · exact Or.inl h1
  · exact Or.inr (hp sid h1)

/-! ### the visit of one sink by `cleanup_unused_sinks` -/

theorem RP_kill {x : BSt} {pend : List Nat} {sid : Nat} (hr : sinkRefs x sid = 0) (h : RP (sid :: pend) x) :
    RP pend ((x.setSink sid (fun k => { k with alive := false })).emit (.sinkDtor sid)) := by
  obtain ⟨r1, _⟩ := sinkRefs_zero hr
  have hex : ∃ k ∈ x.sinks, k.sid = sid := by
    apply Classical.byContradiction
    intro hne
    rw [sinkOf_default_of_not_mem x sid hne] at r1
    cases r1
  have hsame : ((x.setSink sid (fun k => { k with alive := false })).sinkOf sid) = { x.sinkOf sid with alive := false } :=
    sinkOf_setSink_same x sid _ (fun _ => rfl) hex
  have hne : ∀ sid', sid' ≠ sid → (x.setSink sid (fun k => { k with alive := false })).sinkOf sid' = x.sinkOf sid' :=
    fun sid' hs => sinkOf_setSink_ne x sid sid' _ (fun _ => rfl) hs
  have hsids : (x.setSink sid (fun k => { k with alive := false })).sinks.map (·.sid) = x.sinks.map (·.sid) :=
    setSink_sids x sid (fun k => { k with alive := false }) (fun y _ hy => hy)
  intro sid' hsid' ha'
  have hsid'' : sid' ∈ (x.setSink sid (fun k => { k with alive := false })).sinks.map (·.sid) := hsid'
  have ha'' : ((x.setSink sid (fun k => { k with alive := false })).sinkOf sid').alive = true := ha'
  by_cases hs : sid' = sid
  · subst hs
    rw [hsame] at ha''; cases ha''
  · rw [hne sid' hs] at ha''
    rw [hsids] at hsid''
    rcases h sid' hsid'' ha'' with hr' | hp
    · left
      rcases hr' with hu | ⟨i, hi, he, hm⟩
      · left
        show ((x.setSink sid (fun k => { k with alive := false })).sinkOf sid').userRef = true
        rw [hne sid' hs]; exact hu
      · exact Or.inr ⟨i, hi, he, hm⟩
    · right
      rcases List.mem_cons.mp hp with hp | hp
      · exact absurd hp hs
      · exact hp

theorem RP_skip {x : BSt} {pend : List Nat} {sid : Nat}
    (hc : ¬ ((x.sinkOf sid).alive = true ∧ sinkRefs x sid = 0)) (h : RP (sid :: pend) x) : RP pend x := by
  intro sid' hsid' ha'
  rcases h sid' hsid' ha' with hr | hp
  · exact Or.inl hr
  · rcases List.mem_cons.mp hp with hp | hp
    · subst hp
      left
      apply refd_of_sinkRefs_pos
      have : sinkRefs x sid' ≠ 0 := fun hz => hc ⟨ha', hz⟩
      omega
    · exact Or.inr hp

theorem RP_reapSinks (pend : List Nat) : ∀ (sids : List Nat) (x : BSt), RP (sids ++ pend) x → RP pend (reapSinks x sids) := by
  intro sids
  unfold reapSinks
  induction sids with
  | nil => intro x h; exact h
  | cons y ys ih =>
    intro x h
    simp only [List.foldl_cons]
    apply ih
    split
    · rename_i hc
      simp only [Bool.and_eq_true, decide_eq_true_eq] at hc
      exact RP_kill hc.2 h
    · rename_i hc
      simp only [Bool.and_eq_true, decide_eq_true_eq] at hc
      exact RP_skip hc h

/-- erasing logger object `i` releases its sinks: they become the sinks to visit -/
theorem RP_erase {x : BSt} {pend : List Nat} (h : RP pend x) (i : Nat) :
    RP ((x.lgOf i).sinks ++ pend) (x.setLg i (fun l => { l with erased := true })) := by
  intro sid hsid ha
  rcases h sid hsid ha with hr | hp
  · rcases hr with hu | ⟨j, hj, he, hm⟩
    · exact Or.inl (Or.inl hu)
    · by_cases hji : j = i
      · subst hji
        exact Or.inr (List.mem_append_left _ hm)
      · left; right
        refine ⟨j, by rw [lgs_length_setLg]; exact hj, ?_, ?_⟩
        · rw [lgOf_setLg]; simp only [hji, false_and, if_false]; exact he
        · rw [lgOf_setLg]; simp only [hji, false_and, if_false]; exact hm
  · exact Or.inr (List.mem_append_right _ hp)

/-! ### the frontend -/

theorem sinkOf_setSink_proj (s : BSt) (sid : Nat) (f : Sink → Sink) (hf : ∀ x, (f x).sid = x.sid)
    {β : Type} (p : Sink → β) (hp : ∀ x, p (f x) = p x) (sid' : Nat) :
    p ((s.setSink sid f).sinkOf sid') = p (s.sinkOf sid') := by
  by_cases hs : sid' = sid
  · subst hs
    by_cases hex : ∃ x ∈ s.sinks, x.sid = sid'
    · rw [sinkOf_setSink_same s sid' f hf hex]; exact hp _
    · have h1 : (s.setSink sid' f).sinkOf sid' = default := by
        apply sinkOf_default_of_not_mem
        rintro ⟨x, hx, hxs⟩
        simp only [BSt.setSink, List.mem_map] at hx
        obtain ⟨y, hy, rfl⟩ := hx
        apply hex
        refine ⟨y, hy, ?_⟩
        split at hxs
        · rename_i hh; exact hh
        · exact hxs
      rw [h1, sinkOf_default_of_not_mem s sid' hex]
  · rw [sinkOf_setSink_ne s sid sid' f hf hs]

theorem RP_newLogger {s : BSt} {pend : List Nat} (h : RP pend s) (g : Nat) (sl : List Nat) (nm : List (Nat × Nat)) :
    RP pend { s with lgs := s.lgs ++ [{ gid := g, sinks := sl }], names := nm } := by
  have hlt : ∀ j, j < s.lgs.length →
      BSt.lgOf { s with lgs := s.lgs ++ [{ gid := g, sinks := sl }], names := nm } j = s.lgOf j := by
    intro j hj
    simp only [BSt.lgOf, List.getD_eq_getElem?_getD, List.getElem?_append_left hj]
  refine h.transport rfl (fun _ ha => ha) (fun _ hu => hu) ?_
  intro i hi he
  refine ⟨?_, by rw [hlt i hi]; exact he, by rw [hlt i hi]⟩
  show i < (s.lgs ++ [({ gid := g, sinks := sl } : Lg)]).length
  simp only [List.length_append, List.length_singleton]; omega

theorem RP_front (pend : List Nat) (s : BSt) (f : FOp) (h : RP pend s) : RP pend (applyFront s f).1 := by
  cases f <;> simp only [applyFront]
  case tick => exact RP_of_fields rfl rfl h
  case tstart => split <;> exact RP_of_fields rfl rfl h
  case texit => split; exact h; split <;> exact RP_of_fields rfl rfl h
  case resume a =>
    split
    · exact RP_of_sview h (resume_sview s a)
    · split
      · exact RP_of_sview h (resume_sview s a)
      · exact RP_of_sview h (resume_sview s a)
  case armStall => split <;> exact RP_of_fields rfl rfl h
  case log a g lvl len dyn =>
    refine RP_of_sview h (withLogger_sview _ _ _ _ (fun lgi => ?_)); split
    · exact frontCall_sview ..
    · rfl
  case logNamed a g len =>
    refine RP_of_sview h (withLogger_sview _ _ _ _ (fun lgi => ?_)); split
    · exact frontCall_sview ..
    · rfl
  case logBt a g len =>
    refine RP_of_sview h (withLogger_sview _ _ _ _ (fun lgi => ?_)); split
    · exact frontCall_sview ..
    · rfl
  case initBt => exact RP_of_sview h (withLogger_sview _ _ _ _ (fun lgi => frontCall_sview ..))
  case flushBt => exact RP_of_sview h (withLogger_sview _ _ _ _ (fun lgi => frontCall_sview ..))
  case flush => exact RP_of_sview h (withLogger_sview _ _ _ _ (fun lgi => frontCall_sview ..))
  case removeBlocking a g =>
    split
    · exact h
    · exact RP_of_sview h (withLogger_sview _ _ _ _ (fun lgi => frontCall_sview ..))
  case remove a g =>
    split
    · exact h
    · split
      · rename_i lgi _ _
        refine RP_of_sview h ?_
        exact sview_setLg (dropName s g) lgi (fun l => { l with valid := false }) (fun _ => ⟨rfl, rfl, rfl⟩)
      · exact h
  case create a g sl =>
    split
    · exact h
    · split
      · split
        · exact h
        · exact RP_of_fields rfl rfl h
      · exact RP_newLogger h g sl _
  case setLevel g lvl =>
    split
    · exact RP_of_sview h (sview_setLg s _ _ (fun _ => ⟨rfl, rfl, rfl⟩))
    · exact h
  case setSinkLevel sid lvl =>
    split
    · refine h.transport (setSink_sids s sid _ (fun y _ hy => hy)) ?_ ?_ (fun i hi he => ⟨hi, he, rfl⟩)
      · intro sid' ha
        rw [← sinkOf_setSink_proj s sid (fun k => { k with lvl := lvl }) (fun _ => rfl) (·.alive) (fun _ => rfl) sid']
        exact ha
      · intro sid' hu
        rw [sinkOf_setSink_proj s sid (fun k => { k with lvl := lvl }) (fun _ => rfl) (·.userRef) (fun _ => rfl) sid']
        exact hu
    · exact h
  case dropSink sid =>
    apply RP_reapSinks pend [sid]
    -- the user's reference is gone: the sink is visited at once
    intro sid' hsid' ha'
    have hsids : (s.setSink sid (fun k => { k with userRef := false })).sinks.map (·.sid) = s.sinks.map (·.sid) :=
      setSink_sids s sid _ (fun y _ hy => hy)
    rw [hsids] at hsid'
    rw [sinkOf_setSink_proj s sid (fun k => { k with userRef := false }) (fun _ => rfl) (·.alive) (fun _ => rfl) sid'] at ha'
    by_cases hs : sid' = sid
    · right; rw [hs]; exact List.mem_append_left _ List.mem_cons_self
    · rcases h sid' hsid' ha' with hr | hp
      · left
        rcases hr with hu | ⟨i, hi, he, hm⟩
        · left
          rw [sinkOf_setSink_ne s sid sid' (fun k => { k with userRef := false }) (fun _ => rfl) hs]; exact hu
        · exact Or.inr ⟨i, hi, he, hm⟩
      · exact Or.inr (List.mem_append_right _ hp)
  case query => exact h

/-! ### the backend's event processing -/

theorem ring_at {s : BSt} (hr : ∀ i, i < s.lgs.length → ∀ r, (s.lgOf i).bt = some r → ∀ x ∈ r.items, x.lg = i) (lgi : Nat) :
    ∀ r, (s.lgOf lgi).bt = some r → ∀ x ∈ r.items, x.lg = lgi := by
  intro r hbt
  by_cases hi : lgi < s.lgs.length
  · exact hr lgi hi r hbt
  · simp only [BSt.lgOf, List.getD_eq_getElem?_getD, List.getElem?_eq_none (by omega : s.lgs.length ≤ lgi)] at hbt
    cases hbt

def NoDtorIn (evs : List Ev) : Prop := ∀ e ∈ evs, ∀ sid, isDtor sid e = false

theorem EvsOn.noDtor {ok : List Nat} {evs : List Ev} (h : EvsOn ok evs) : NoDtorIn evs := fun e he => (h e he).2

theorem NoDtorIn.append {a b : List Ev} (h1 : NoDtorIn a) (h2 : NoDtorIn b) : NoDtorIn (a ++ b) := by
  intro e he
  rcases List.mem_append.mp he with he | he
  · exact h1 e he
  · exact h2 e he

/-- processing one event keeps loggers (up to backtrace storage) and sinks (up to counters) and emits no destructor -/
theorem processEvent_out {s : BSt} (h : LS s) (st : Stmt) :
    ∃ evs, OutStep s (processEvent s st).1 evs ∧ NoDtorIn evs := by
  unfold processEvent
  split
  · split
    · simp only []
      obtain ⟨e1, h1, h2⟩ := dispatch_out s st
      have hlgs : (dispatch s st).1.lgs = s.lgs := by
        have := writeToSinks_lview st (s.lgOf st.lg).sinks s
        simp only [lview, Prod.mk.injEq] at this; exact this.2.1
      split
      · exact ⟨e1, h1, h2.noDtor⟩
      · split
        · obtain ⟨e2, g1, g2⟩ := replayRing_out (dispatch s st).1 st.lg (ring_at (ring_of_lgs hlgs h.ring) st.lg)
          exact ⟨e2 ++ e1, h1.trans g1, g2.noDtor.append h2.noDtor⟩
        · exact ⟨e1, h1, h2.noDtor⟩
    · split
      · exact ⟨[], (OutStep.refl s).setLg_keep _ _ (fun _ => ⟨rfl, rfl, rfl, rfl⟩), fun _ he => by cases he⟩
      · exact ⟨[], OutStep.refl s, fun _ he => by cases he⟩
  · exact ⟨[], (OutStep.refl s).setLg_keep _ _ (fun _ => ⟨rfl, rfl, rfl, rfl⟩), fun _ he => by cases he⟩
  · obtain ⟨e2, g1, g2⟩ := replayRing_out s st.lg (ring_at h.ring st.lg)
    exact ⟨e2, g1, g2.noDtor⟩
  · obtain ⟨e2, g1, g2⟩ := flushSinks_out s
    exact ⟨e2, g1, g2.noDtor⟩
  · exact ⟨[], OutStep.refl s, fun _ he => by cases he⟩

theorem RP_popSt {s : BSt} {pend : List Nat} (hL : LS s) (h : RP pend s) (i : Nat) (st : Stmt) (rest : List Stmt) :
    RP pend (popSt s i st rest) := by
  obtain ⟨evs, h1, _⟩ := processEvent_out hL st
  unfold popSt
  simp only []
  split
  · rename_i m _
    exact RP_of_fields (x := (processEvent s st).1.emit (.notify m)) rfl rfl (RP_out h (h1.trans (OutStep_emit _ _)))
  · exact RP_of_fields (x := (processEvent s st).1) rfl rfl (RP_out h h1)

end Backend.PC
