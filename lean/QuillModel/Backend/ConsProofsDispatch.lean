import QuillModel.Backend.ConsProofsSkel
/-!
What processing one transit event (`processEvent`: dispatch to the sinks, backtrace ring, flush) does to the
rest of the state: nothing but the sinks' call counters, the loggers' backtrace rings and the event log.
-/
namespace Backend.PA
open Backend Spsc

/-- like `Frame`, but `write` events may be emitted and backtrace rings may change -/
structure Core (s s' : BSt) : Prop where
  cfg : s'.cfg = s.cfg
  ths : s'.ths = s.ths
  actors : s'.actors = s.actors
  registry : s'.registry = s.registry
  cache : s'.cache = s.cache
  newFlag : s'.newFlag = s.newFlag
  nextId : s'.nextId = s.nextId
  popLog : s'.popLog = s.popLog
  reported : s'.reported = s.reported
  names : s'.names = s.names
  lgsLen : s'.lgs.length = s.lgs.length
  lgs : ∀ i, (s'.lgOf i).gid = (s.lgOf i).gid ∧ (s'.lgOf i).sinks = (s.lgOf i).sinks
  sinks : ∀ sid, SinkSame (s.sinkOf sid) (s'.sinkOf sid)
  flags : ∀ f ∈ s.flags, f ∈ s'.flags
  log : ∃ evs, s'.log = evs ++ s.log

theorem Frame.core {s s' : BSt} (h : Frame s s') : Core s s' :=
  ⟨h.cfg, h.ths, h.actors, h.registry, h.cache, h.newFlag, h.nextId, h.popLog, h.reported, h.names, h.lgsLen,
   fun i => ⟨(h.lgs i).1, (h.lgs i).2.1⟩, h.sinks, h.flags, by obtain ⟨e, he, _⟩ := h.log; exact ⟨e, he⟩⟩

theorem Core.refl (s : BSt) : Core s s := (Frame.refl s).core

theorem Core.trans {a b c : BSt} (h1 : Core a b) (h2 : Core b c) : Core a c := by
  obtain ⟨e1, he1⟩ := h1.log
  obtain ⟨e2, he2⟩ := h2.log
  exact ⟨h2.cfg.trans h1.cfg, h2.ths.trans h1.ths, h2.actors.trans h1.actors, h2.registry.trans h1.registry,
    h2.cache.trans h1.cache, h2.newFlag.trans h1.newFlag, h2.nextId.trans h1.nextId, h2.popLog.trans h1.popLog,
    h2.reported.trans h1.reported, h2.names.trans h1.names, h2.lgsLen.trans h1.lgsLen,
    fun i => ⟨(h2.lgs i).1.trans (h1.lgs i).1, (h2.lgs i).2.trans (h1.lgs i).2⟩,
    fun sid => (h1.sinks sid).trans (h2.sinks sid), fun f hf => h2.flags f (h1.flags f hf),
    ⟨e2 ++ e1, by rw [he2, he1, List.append_assoc]⟩⟩

theorem Core.emit (s : BSt) (e : Ev) : Core s (s.emit e) :=
  ⟨rfl, rfl, rfl, rfl, rfl, rfl, rfl, rfl, rfl, rfl, rfl, fun _ => ⟨rfl, rfl⟩, fun _ => SinkSame.refl _,
   fun _ h => h, ⟨[e], rfl⟩⟩

theorem Core.setLg (s : BSt) (i : Nat) (f : Lg → Lg) (hf : ∀ l, (f l).gid = l.gid ∧ (f l).sinks = l.sinks) :
    Core s (s.setLg i f) :=
  ⟨rfl, rfl, rfl, rfl, rfl, rfl, rfl, rfl, rfl, rfl, by simp,
   fun j => by
     rw [lgOf_setLg]
     split
     · exact hf _
     · exact ⟨rfl, rfl⟩,
   fun _ => SinkSame.refl _, fun _ h => h, ⟨[], rfl⟩⟩

theorem writeToSinks_core (st : Stmt) : ∀ (sids : List Nat) (s : BSt), Core s (writeToSinks s st sids).1
  | [], s => Core.refl s
  | sid :: rest, s => by
    unfold writeToSinks
    dsimp only
    have h1 := (Frame.setSinkCopy s sid { s.sinkOf sid with wcalls := (s.sinkOf sid).wcalls + 1 }
      ⟨rfl, rfl, rfl, rfl, rfl, rfl⟩).core
    split
    · split
      · exact h1.trans (Core.emit _ _)
      · exact (h1.trans (Core.emit _ _)).trans (writeToSinks_core st rest _)
    · exact writeToSinks_core st rest s

theorem dispatch_core (s : BSt) (st : Stmt) : Core s (dispatch s st).1 := writeToSinks_core st _ s

theorem replayGo_core : ∀ (l : List Stmt) (s : BSt), Core s (replayRing.go s l).1
  | [], s => Core.refl s
  | x :: xs, s => by
    unfold replayRing.go
    dsimp only
    split
    · split
      · exact ((dispatch_core s x).trans (Core.emit _ _)).trans (replayGo_core xs _)
      · exact dispatch_core s x
    · exact (dispatch_core s x).trans (replayGo_core xs _)

theorem replayRing_core (s : BSt) (lgi : Nat) : Core s (replayRing s lgi).1 := by
  unfold replayRing
  split
  · exact Core.refl s
  · dsimp only
    split
    · exact replayGo_core _ s
    · exact (replayGo_core _ s).trans (Core.setLg _ _ _ (fun l => ⟨rfl, rfl⟩))

theorem processEvent_core (s : BSt) (st : Stmt) : Core s (processEvent s st).1 := by
  unfold processEvent
  split
  · split
    · dsimp only
      split
      · exact dispatch_core s st
      · split
        · exact (dispatch_core s st).trans (replayRing_core _ _)
        · exact dispatch_core s st
    · split
      · exact Core.setLg _ _ _ (fun l => ⟨rfl, rfl⟩)
      · exact Core.refl s
  · exact Core.setLg _ _ _ (fun l => ⟨rfl, rfl⟩)
  · exact replayRing_core s _
  · exact (flushSinks_frame s).core
  · exact Core.refl s

end Backend.PA
