import QuillModel.Backend.ConsProofsDispatch
/-!
The conservation invariant `InvA` (C03 part 1): per context `accepted = popped ++ buf ++ qStmts`, coherence of
`qStmts` with the byte-exact queue, a removed context is invalid and empty, live actors own valid contexts.
This file: definition, preservation by the backend primitives (`Closed` minus `front`).
-/
namespace Backend.PA
open Backend Spsc

structure ThOK (t : Th) : Prop where
  cons : t.accepted = t.popped ++ t.buf ++ t.qStmts
  coh : QCoh t.q t.qStmts
  rem : t.removed = true → t.valid = false ∧ t.buf = [] ∧ t.qStmts = []

def pendStmt : Pend → Option Stmt
  | .stall s _ => some s
  | .retry s _ => some s
  | _ => none

structure InvA (s : BSt) : Prop where
  hdr : 0 < s.cfg.hdr
  th : ∀ i, ThOK (s.th i)
  act : ∀ x ∈ s.actors, x.alive = true → ∀ i, x.ctx = some i →
          i < s.ths.length ∧ (s.th i).valid = true ∧ (s.th i).actor = x.id
  pend : ∀ x ∈ s.actors, ∀ st, pendStmt x.pend = some st → 0 < st.size
  reg : ∀ i, i < s.ths.length → i ∈ s.registry ∨ (s.th i).removed = true

theorem ThOK.default : ThOK (default : Th) :=
  ⟨rfl, QCoh.init 1 0, fun h => by simp [Inhabited.default] at h⟩

theorem th_of_ths_eq {s s' : BSt} (h : s'.ths = s.ths) (i : Nat) : s'.th i = s.th i := by
  simp only [BSt.th, h]

/-- `InvA` reads only the configuration, the contexts, the actors and the registry -/
theorem InvA.of_eq {s s' : BSt} (h : InvA s) (h1 : s'.cfg = s.cfg) (h2 : s'.ths = s.ths)
    (h3 : s'.actors = s.actors) (h4 : ∀ i ∈ s.registry, i ∈ s'.registry) : InvA s' :=
  ⟨h1 ▸ h.hdr, fun i => by rw [th_of_ths_eq h2]; exact h.th i,
   fun x hx ha i hi => by rw [th_of_ths_eq h2, h2]; exact h.act x (h3 ▸ hx) ha i hi,
   fun x hx => h.pend x (h3 ▸ hx),
   fun i hi => by
     rw [th_of_ths_eq h2]
     rcases h.reg i (h2 ▸ hi) with hr | hr
     · exact Or.inl (h4 i hr)
     · exact Or.inr hr⟩

theorem InvA.of_core {s s' : BSt} (h : InvA s) (c : Core s s') : InvA s' :=
  h.of_eq c.cfg c.ths c.actors (fun i hi => c.registry ▸ hi)

/-- an update of one context that keeps `valid`, `actor`, `removed` and re-establishes `ThOK` -/
theorem InvA.setTh {s : BSt} (h : InvA s) (i : Nat) (f : Th → Th)
    (hok : ThOK (f (s.th i))) (hv : (f (s.th i)).valid = (s.th i).valid) (ha : (f (s.th i)).actor = (s.th i).actor)
    (hr : (f (s.th i)).removed = (s.th i).removed) : InvA (s.setTh i f) := by
  refine ⟨h.hdr, forall_th_setTh s i f h.th (fun _ => hok), ?_, h.pend, ?_⟩
  · intro x hx hal j hj
    obtain ⟨h1, h2, h3⟩ := h.act x hx hal j hj
    rw [th_setTh]
    refine ⟨by simpa using h1, ?_, ?_⟩
    · split
      · next hc => rw [hc.1, hv, ← hc.1]; exact h2
      · exact h2
    · split
      · next hc => rw [hc.1, ha, ← hc.1]; exact h3
      · exact h3
  · intro j hj
    rw [th_setTh]
    rcases h.reg j (by simpa using hj) with hreg | hrem
    · exact Or.inl hreg
    · right
      split
      · next hc => rw [hc.1, hr, ← hc.1]; exact hrem
      · exact hrem

/-- replacing the queue state of a context by one that agrees on the fields `QCoh` reads -/
theorem InvA.setQ {s : BSt} (h : InvA s) (i : Nat) (g : Th → St) (hq : QSame (s.th i).q (g (s.th i))) :
    InvA (s.setTh i (fun t => { t with q := g t })) :=
  h.setTh i _ ⟨(h.th i).cons, (h.th i).coh.of_same hq, (h.th i).rem⟩ rfl rfl rfl

theorem ctxEmpty_fst (s : BSt) (i : Nat) :
    (ctxEmpty s i).1 = s.setTh i (fun t => { t with q := (qEmpty s.cfg (s.th i).q).1 }) := rfl

theorem ctxEmpty_snd (s : BSt) (i : Nat) :
    (ctxEmpty s i).2 = ((qEmpty s.cfg (s.th i).q).2 && (s.th i).buf.isEmpty) := rfl

theorem InvA.ctxEmpty {s : BSt} (h : InvA s) (i : Nat) : InvA (Backend.ctxEmpty s i).1 := by
  rw [ctxEmpty_fst]
  exact h.setQ i (fun _ => (qEmpty s.cfg (s.th i).q).1) (qEmpty_same _ _)

/-- the clean-up condition: the backend found the context empty ⇒ buffer and pending records are empty -/
theorem InvA.empty_of_ctxEmpty {s : BSt} (h : InvA s) (i : Nat) (he : (Backend.ctxEmpty s i).2 = true) :
    (s.th i).buf = [] ∧ (s.th i).qStmts = [] := by
  rw [ctxEmpty_snd, Bool.and_eq_true] at he
  exact ⟨by simpa using he.2, (h.th i).coh.empty he.1⟩

theorem InvA.dropCtx {s : BSt} (h : InvA s) (i : Nat) (hv : (s.th i).valid = false)
    (he : (Backend.ctxEmpty s i).2 = true) : InvA (dropCtx (Backend.ctxEmpty s i).1 i) := by
  obtain ⟨hb, hq⟩ := h.empty_of_ctxEmpty i he
  have h1 := h.ctxEmpty i
  generalize hs1 : (Backend.ctxEmpty s i).1 = s1 at h1 ⊢
  have hth : s1.th i = if i < s.ths.length then { s.th i with q := (qEmpty s.cfg (s.th i).q).1 } else s.th i := by
    rw [← hs1, ctxEmpty_fst, th_setTh]; simp
  have hv1 : (s1.th i).valid = false := by rw [hth]; split <;> exact hv
  have hb1 : (s1.th i).buf = [] := by rw [hth]; split <;> exact hb
  have hq1 : (s1.th i).qStmts = [] := by rw [hth]; split <;> exact hq
  unfold PA.dropCtx
  refine ⟨h1.hdr, ?_, ?_, h1.pend, ?_⟩
  · apply forall_th_setTh
    · exact h1.th
    · intro _
      exact ⟨(h1.th i).cons, (h1.th i).coh, fun _ => ⟨hv1, hb1, hq1⟩⟩
  · intro x hx hal j hj
    obtain ⟨a1, a2, a3⟩ := h1.act x hx hal j hj
    have hji : j ≠ i := by intro e; rw [e, hv1] at a2; cases a2
    rw [th_setTh_ne _ _ _ _ hji]
    exact ⟨by simpa using a1, a2, a3⟩
  · intro j hj
    by_cases hji : j = i
    · right; subst hji
      rw [th_setTh_self _ _ _ (by simpa using hj)]
    · rw [th_setTh_ne _ _ _ _ hji]
      rcases h1.reg j (by simpa using hj) with hr | hr
      · left; exact List.mem_filter.mpr ⟨hr, by simpa using hji⟩
      · exact Or.inr hr

theorem InvA.readOne {s : BSt} (h : InvA s) (i : Nat) (st : Stmt) (rest : List Stmt)
    (hq : (s.th i).qStmts = st :: rest) : InvA (readOne s i st rest) := by
  unfold PA.readOne
  dsimp only
  have h1 : InvA (s.setTh i (fun t => { t with q := (qPrepareRead s.cfg (s.th i).q).1 })) :=
    h.setQ i (fun _ => (qPrepareRead s.cfg (s.th i).q).1) (qPrepareRead_same _ _)
  generalize hs1 : s.setTh i (fun t => { t with q := (qPrepareRead s.cfg (s.th i).q).1 }) = s1 at h1 ⊢
  have hq1 : (s1.th i).qStmts = st :: rest := by
    rw [← hs1, th_setTh]; split <;> exact hq
  have h2 : ∀ rf, InvA { s1 with removalFlags := rf } := fun rf => h1.of_eq rfl rfl rfl (fun _ h => h)
  have h3 : ∀ s2, InvA s2 → (s2.th i).qStmts = st :: rest →
      InvA (s2.setTh i (fun t => { t with q := qFinishRead s2.cfg t.q st.size, qStmts := rest, buf := t.buf ++ [st] })) := by
    intro s2 hI hq2
    have hT := hI.th i
    refine hI.setTh i _ ⟨?_, ?_, ?_⟩ rfl rfl rfl
    · show (s2.th i).accepted = (s2.th i).popped ++ ((s2.th i).buf ++ [st]) ++ rest
      rw [hT.cons, hq2]; simp
    · show QCoh (qFinishRead s2.cfg (s2.th i).q st.size) rest
      exact QCoh.read (hq2 ▸ hT.coh)
    · intro hr
      have := (hT.rem hr).2.2
      rw [hq2] at this; cases this
  split
  · exact h3 _ (h2 _) hq1
  · exact h3 _ h1 hq1

theorem InvA.pop {s : BSt} (h : InvA s) (i : Nat) (st : Stmt) (rest : List Stmt)
    (hb : (s.th i).buf = st :: rest) : InvA (popStep s i st rest) := by
  unfold popStep
  dsimp only
  have h1 : InvA (processEvent s st).1 := h.of_core (processEvent_core s st)
  have hth1 : (processEvent s st).1.th i = s.th i := th_of_ths_eq (processEvent_core s st).ths i
  have h2 : ∀ s2, InvA s2 → s2.th i = s.th i →
      InvA { s2.setTh i (fun t => { t with buf := rest, popped := t.popped ++ [st] }) with popLog := st :: s2.popLog } := by
    intro s2 hI he
    have hT := hI.th i
    refine InvA.of_eq (hI.setTh i _ ⟨?_, hT.coh, ?_⟩ rfl rfl rfl) rfl rfl rfl (fun _ h => h)
    · show (s2.th i).accepted = ((s2.th i).popped ++ [st]) ++ rest ++ (s2.th i).qStmts
      rw [hT.cons, he, hb]; simp
    · intro hr
      have := (hT.rem hr).2.1
      rw [he, hb] at this; cases this
  split
  · exact h2 _ (h1.of_core (Core.emit _ _)) hth1
  · exact h2 _ h1 hth1

theorem InvA.failReset {s : BSt} (h : InvA s) (i : Nat) : InvA (failReset s i) := by
  unfold PA.failReset
  have h1 : InvA (s.setTh i (fun t => { t with fail := 0 })) :=
    h.setTh i _ ⟨(h.th i).cons, (h.th i).coh, (h.th i).rem⟩ rfl rfl rfl
  exact h1.of_eq rfl rfl rfl (fun _ h => h)

theorem InvA.frame {s s' : BSt} (h : InvA s) (f : Frame s s') : InvA s' := h.of_core f.core

theorem InvA.refresh {s : BSt} (h : InvA s) : InvA (refreshCache s) := by
  unfold refreshCache
  split
  · exact h.of_eq rfl rfl rfl (fun _ h => h)
  · exact h

end Backend.PA
