import QuillModel.Backend.LiftOnceFinalSkel
/-!
What separates a later state from an earlier one as far as the dispatch decision is concerned.

`CfgLe lv a b` (`a` earlier, `b` later): every sink has the same id, filter and `write_log` fault schedule in `b` as in
`a`; the loggers of `a` exist in `b` with the same sink lists; and — only when `lv = true` — every sink has the same level.
Every primitive step of the backend gives `CfgLe true`; a frontend operation gives `CfgLe false`, and `CfgLe true` unless it
is a `setSinkLevel` (`applyFront_lvl`: no other operation writes a sink's level).
-/
namespace Backend.PA
open Backend Spsc

/-- the frontend operation is not `setSinkLevel` -/
def notSinkLevel : FOp → Bool
  | .setSinkLevel .. => false
  | _ => true

/-! ### no frontend operation but `setSinkLevel` / `dropSink` touches the sink table -/

theorem afterEnq_sinks (s : BSt) (a : Nat) (st : Stmt) (cont : Nat) : (afterEnq s a st cont).1.sinks = s.sinks := by
  unfold afterEnq
  split <;> rfl

theorem ensureCtx_sinks (s : BSt) (a : Nat) : (ensureCtx s a).1.sinks = s.sinks := by
  unfold ensureCtx
  split <;> rfl

theorem tryEnq_sinks (s : BSt) (ci : Nat) (st : Stmt) : (tryEnq s ci st).1.sinks = s.sinks := by
  unfold tryEnq
  dsimp only
  split <;> rfl

theorem enqFlow_sinks (s : BSt) (a : Nat) (st : Stmt) (cont : Nat) (first initial : Bool) :
    (enqFlow s a st cont first initial).1.sinks = s.sinks := by
  unfold enqFlow
  have h1 := ensureCtx_sinks s a
  generalize ensureCtx s a = e at h1 ⊢
  obtain ⟨s1, ci⟩ := e
  dsimp only at h1 ⊢
  have h2 := (tryEnq_sinks s1 ci st).trans h1
  generalize tryEnq s1 ci st = e2 at h2 ⊢
  obtain ⟨s2, ok⟩ := e2
  dsimp only at h2 ⊢
  have hbump : ∀ (f : Th → Th), (if isLogKind st.kind = true then s2.setTh ci f else s2).sinks = s.sinks := by
    intro f
    split
    · exact h2
    · exact h2
  split
  · exact (afterEnq_sinks _ a st cont).trans h2
  · split
    · split
      · exact hbump _
      · exact hbump _
    · show (BSt.sinks _) = _
      rw [setActor_sinks]
      split
      · exact hbump _
      · exact h2

theorem frontCall_sinks (s : BSt) (a lgi : Nat) (kind : Kind) (lvl len cont : Nat) (dyn : Bool) (id : Nat)
    (named : Bool) : (frontCall s a lgi kind lvl len cont dyn id named).1.sinks = s.sinks := by
  unfold frontCall
  dsimp only
  split
  · rfl
  · exact enqFlow_sinks ..

theorem resume_sinks (s : BSt) (a : Nat) : (resume s a).1.sinks = s.sinks := by
  unfold resume
  split
  · exact enqFlow_sinks ..
  · split <;> exact enqFlow_sinks ..
  · split <;> rfl
  · rfl

theorem withLogger_sinks (s : BSt) (a gid : Nat) (k : Nat → BSt × String) (hk : ∀ lgi, (k lgi).1.sinks = s.sinks) :
    (withLogger s a gid k).1.sinks = s.sinks := by
  unfold withLogger
  split
  · exact hk _
  · rfl

/-- sink levels are the same in `s'` as in `s` -/
def LvlSame (s s' : BSt) : Prop := ∀ sid, (s'.sinkOf sid).lvl = (s.sinkOf sid).lvl

theorem LvlSame.of_sinks {s s' : BSt} (h : s'.sinks = s.sinks) : LvlSame s s' := fun sid => by
  simp only [BSt.sinkOf, h]

/-- **only `setSinkLevel` writes a sink's level** -/
theorem applyFront_lvl (s : BSt) (f : FOp) (hf : notSinkLevel f = true) : LvlSame s (applyFront s f).1 := by
  cases f with
  | tick dt => exact LvlSame.of_sinks rfl
  | tstart a => simp only [applyFront]; split <;> exact LvlSame.of_sinks rfl
  | texit a =>
    simp only [applyFront]
    split
    · exact LvlSame.of_sinks rfl
    · split <;> exact LvlSame.of_sinks rfl
  | resume a =>
    simp only [applyFront]
    have h1 := resume_sinks s a
    split
    · exact LvlSame.of_sinks h1
    · split
      · exact LvlSame.of_sinks h1
      · exact LvlSame.of_sinks h1
  | armStall a => simp only [applyFront]; split <;> exact LvlSame.of_sinks rfl
  | log a g lvl len dyn =>
    simp only [applyFront]
    apply LvlSame.of_sinks
    apply withLogger_sinks
    intro lgi
    split
    · exact frontCall_sinks ..
    · rfl
  | logNamed a g len =>
    simp only [applyFront]
    apply LvlSame.of_sinks
    apply withLogger_sinks
    intro lgi
    split
    · exact frontCall_sinks ..
    · rfl
  | logBt a g len =>
    simp only [applyFront]
    apply LvlSame.of_sinks
    apply withLogger_sinks
    intro lgi
    split
    · exact frontCall_sinks ..
    · rfl
  | initBt a g cap fl =>
    simp only [applyFront]; exact LvlSame.of_sinks (withLogger_sinks _ _ _ _ (fun lgi => frontCall_sinks ..))
  | flushBt a g =>
    simp only [applyFront]; exact LvlSame.of_sinks (withLogger_sinks _ _ _ _ (fun lgi => frontCall_sinks ..))
  | flush a g =>
    simp only [applyFront]
    apply LvlSame.of_sinks
    apply withLogger_sinks
    intro lgi
    exact frontCall_sinks ..
  | removeBlocking a g =>
    simp only [applyFront]
    split
    · exact LvlSame.of_sinks rfl
    · apply LvlSame.of_sinks
      apply withLogger_sinks
      intro lgi
      exact frontCall_sinks ..
  | remove a g =>
    simp only [applyFront]
    split
    · exact LvlSame.of_sinks rfl
    · split <;> exact LvlSame.of_sinks rfl
  | create a g sl =>
    simp only [applyFront]
    split
    · exact LvlSame.of_sinks rfl
    · split
      · split <;> exact LvlSame.of_sinks rfl
      · exact LvlSame.of_sinks rfl
  | setLevel g lvl =>
    simp only [applyFront]
    split <;> exact LvlSame.of_sinks rfl
  | setSinkLevel sid lvl => cases hf
  | dropSink sid =>
    simp only [applyFront]
    have h1 : Frame s (s.setSink sid (fun k => { k with userRef := false })) :=
      Frame.setSink s sid (fun k => { k with userRef := false }) (fun k => ⟨rfl, rfl, rfl, rfl, rfl, rfl⟩)
    exact fun j => ((h1.trans (reapSinks_frame _ _)).sinks j).lvl
  | query => exact LvlSame.of_sinks rfl

/-! ### the relation -/

structure CfgLe (lv : Bool) (a b : BSt) : Prop where
  sinks : ∀ sid, (b.sinkOf sid).sid = (a.sinkOf sid).sid ∧ (b.sinkOf sid).filtM = (a.sinkOf sid).filtM ∧
    (b.sinkOf sid).filtR = (a.sinkOf sid).filtR ∧ (b.sinkOf sid).wthrow = (a.sinkOf sid).wthrow
  lvl : lv = true → ∀ sid, (b.sinkOf sid).lvl = (a.sinkOf sid).lvl
  lgsLe : a.lgs.length ≤ b.lgs.length
  lgs : ∀ i, i < a.lgs.length → (b.lgOf i).sinks = (a.lgOf i).sinks

theorem CfgLe.refl (lv : Bool) (a : BSt) : CfgLe lv a a :=
  ⟨fun _ => ⟨rfl, rfl, rfl, rfl⟩, fun _ _ => rfl, Nat.le_refl _, fun _ _ => rfl⟩

theorem CfgLe.trans {lv : Bool} {a b c : BSt} (h1 : CfgLe lv a b) (h2 : CfgLe lv b c) : CfgLe lv a c :=
  ⟨fun sid => ⟨(h2.sinks sid).1.trans (h1.sinks sid).1, (h2.sinks sid).2.1.trans (h1.sinks sid).2.1,
      (h2.sinks sid).2.2.1.trans (h1.sinks sid).2.2.1, (h2.sinks sid).2.2.2.trans (h1.sinks sid).2.2.2⟩,
   fun hl sid => (h2.lvl hl sid).trans (h1.lvl hl sid), Nat.le_trans h1.lgsLe h2.lgsLe,
   fun i hi => (h2.lgs i (Nat.lt_of_lt_of_le hi h1.lgsLe)).trans (h1.lgs i hi)⟩

theorem CfgLe.of_eq (lv : Bool) {a b : BSt} (h1 : b.sinks = a.sinks) (h2 : b.lgs = a.lgs) : CfgLe lv a b :=
  ⟨fun sid => by simp only [BSt.sinkOf, h1, and_self], fun _ sid => by simp only [BSt.sinkOf, h1], by rw [h2]; exact Nat.le_refl _,
   fun i _ => by simp only [BSt.lgOf, h2]⟩

theorem CfgLe.of_core (lv : Bool) {a b : BSt} (c : Core a b) : CfgLe lv a b :=
  ⟨fun sid => ⟨(c.sinks sid).sid, (c.sinks sid).filtM, (c.sinks sid).filtR, (c.sinks sid).wthrow⟩,
   fun _ sid => (c.sinks sid).lvl, by rw [c.lgsLen]; exact Nat.le_refl _, fun i _ => (c.lgs i).2⟩

theorem CfgLe.of_frame (lv : Bool) {a b : BSt} (f : Frame a b) : CfgLe lv a b := CfgLe.of_core lv f.core

theorem CfgLe.of_ffr {lv : Bool} {a b : BSt} (f : FFrame a b) (hl : lv = true → LvlSame a b) : CfgLe lv a b :=
  ⟨fun sid => ⟨(f.sinks sid).1, (f.sinks sid).2.1, (f.sinks sid).2.2.1, (f.sinks sid).2.2.2.1⟩,
   fun h sid => hl h sid, f.lgsLe, fun i hi => (f.lgsOld i hi).2.1⟩

theorem CfgLe.weaken {lv : Bool} {a b : BSt} (h : CfgLe true a b) : CfgLe lv a b :=
  ⟨h.sinks, fun _ => h.lvl rfl, h.lgsLe, h.lgs⟩

/-! ### the primitive steps -/

theorem CfgLe.refresh (lv : Bool) (s : BSt) : CfgLe lv s (refreshCache s) := by
  unfold refreshCache; split <;> exact CfgLe.of_eq lv rfl rfl

theorem CfgLe.ctxEmpty (lv : Bool) (s : BSt) (i : Nat) : CfgLe lv s (ctxEmpty s i).1 := CfgLe.of_eq lv rfl rfl

theorem CfgLe.dropCtx (lv : Bool) (s : BSt) (i : Nat) : CfgLe lv s (dropCtx (Backend.ctxEmpty s i).1 i) :=
  CfgLe.of_eq lv rfl rfl

theorem CfgLe.readOne (lv : Bool) (s : BSt) (i : Nat) (st : Stmt) (rest : List Stmt) : CfgLe lv s (readOne s i st rest) := by
  unfold PA.readOne; dsimp only
  split <;> exact CfgLe.of_eq lv rfl rfl

theorem CfgLe.pop (lv : Bool) (s : BSt) (i : Nat) (st : Stmt) (rest : List Stmt) : CfgLe lv s (popStep s i st rest) := by
  have c := CfgLe.of_core lv (processEvent_core s st)
  unfold popStep; dsimp only
  split
  · exact c.trans (CfgLe.of_eq lv rfl rfl)
  · exact c.trans (CfgLe.of_eq lv rfl rfl)

theorem CfgLe.failReset (lv : Bool) (s : BSt) (i : Nat) : CfgLe lv s (failReset s i) := CfgLe.of_eq lv rfl rfl

theorem CfgLe.front {lv : Bool} (s : BSt) (f : FOp) (h : lv = true → notSinkLevel f = true) :
    CfgLe lv s (applyFront s f).1 :=
  CfgLe.of_ffr (applyFront_ffr s f) (fun hl => applyFront_lvl s f (h hl))

/-- the condition on frontend operations under which `CfgLe lv` survives: none if `lv = false`, no `setSinkLevel` else -/
def lvAllowed (lv : Bool) (f : FOp) : Bool := !lv || notSinkLevel f

theorem lvAllowed_spec {lv : Bool} {f : FOp} (h : lvAllowed lv f = true) : lv = true → notSinkLevel f = true := by
  intro hl; subst hl; simpa [lvAllowed] using h

/-- `CfgLe lv s0 ·` is an invariant of the schedules without level change (all schedules for `lv = false`) -/
theorem CfgLe.closedOn (lv : Bool) (s0 : BSt) : ClosedOn (lvAllowed lv) (fun s => CfgLe lv s0 s) where
  frame := fun _ _ h f => h.trans (CfgLe.of_frame lv f)
  refresh := fun s h => h.trans (CfgLe.refresh lv s)
  ctxEmpty := fun s i h => h.trans (CfgLe.ctxEmpty lv s i)
  dropCtx := fun s i h _ _ _ => h.trans (CfgLe.dropCtx lv s i)
  prepRead := fun _ _ h => h.trans (CfgLe.of_eq lv rfl rfl)
  commitRead := fun _ _ h => h.trans (CfgLe.of_eq lv rfl rfl)
  readOne := fun s i st rest h _ _ => h.trans (CfgLe.readOne lv s i st rest)
  pop := fun s i st rest h _ => h.trans (CfgLe.pop lv s i st rest)
  failReset := fun s i h _ => h.trans (CfgLe.failReset lv s i)
  front := fun s f ha h => h.trans (CfgLe.front s f (lvAllowed_spec ha))

end Backend.PA
