import QuillModel.Backend.ConsProofsDispatch
/-!
What no frontend operation ever changes (`FFrame`): the configuration, the pop history, the reported counts,
the raised flags, the `write` events of the history, the sink lists / rings of existing loggers, the fault
schedules and filters of the sinks.
-/
namespace Backend.PA
open Backend Spsc

/-- occurrences of statements satisfying `p` in the popped histories -/
def cntP (s : BSt) (p : Stmt → Bool) : Nat := (s.ths.map (fun t => t.popped.countP p)).sum

theorem cntP_of_ths {s s' : BSt} (h : s'.ths = s.ths) (p : Stmt → Bool) : cntP s' p = cntP s p := by
  simp only [cntP, h]

theorem cntP_setTh (s : BSt) (i : Nat) (f : Th → Th) (hf : ∀ t, (f t).popped = t.popped) (p : Stmt → Bool) :
    cntP (s.setTh i f) p = cntP s p := by
  simp only [cntP, BSt.setTh]
  congr 1
  apply List.ext_getElem?
  intro j
  simp only [updAt, List.getElem?_map, List.getElem?_mapIdx]
  cases s.ths[j]? with
  | none => rfl
  | some t => simp only [Option.map_some]; split <;> simp [hf]

structure FFrame (s s' : BSt) : Prop where
  cfg : s'.cfg = s.cfg
  pops : ∀ p, cntP s' p = cntP s p
  popLog : s'.popLog = s.popLog
  reported : s'.reported = s.reported
  flags : s'.flags = s.flags
  log : ∃ evs, s'.log = evs ++ s.log ∧ ∀ e ∈ evs, isWriteEv e = false
  lgsLe : s.lgs.length ≤ s'.lgs.length
  lgsOld : ∀ i, i < s.lgs.length →
    (s'.lgOf i).gid = (s.lgOf i).gid ∧ (s'.lgOf i).sinks = (s.lgOf i).sinks ∧ (s'.lgOf i).bt = (s.lgOf i).bt
  lgsNew : ∀ i, s.lgs.length ≤ i → (s'.lgOf i).bt = none
  sinks : ∀ sid, (s'.sinkOf sid).sid = (s.sinkOf sid).sid ∧ (s'.sinkOf sid).filtM = (s.sinkOf sid).filtM ∧
    (s'.sinkOf sid).filtR = (s.sinkOf sid).filtR ∧ (s'.sinkOf sid).wthrow = (s.sinkOf sid).wthrow ∧
    (s'.sinkOf sid).fthrow = (s.sinkOf sid).fthrow

theorem lgOf_default_of_ge (s : BSt) (i : Nat) (h : s.lgs.length ≤ i) : s.lgOf i = default := by
  simp only [BSt.lgOf, List.getD_eq_getElem?_getD]
  have : s.lgs[i]? = none := by simp; omega
  simp [this]

theorem FFrame.of_eq {s s' : BSt} (h1 : s'.cfg = s.cfg) (h2 : s'.popLog = s.popLog) (h3 : s'.reported = s.reported)
    (h4 : s'.flags = s.flags) (h5 : s'.log = s.log) (h6 : s'.lgs = s.lgs) (h7 : s'.sinks = s.sinks)
    (h8 : s'.ths = s.ths := by rfl) : FFrame s s' :=
  ⟨h1, cntP_of_ths h8, h2, h3, h4, ⟨[], by simpa using h5, by simp⟩, by rw [h6]; exact Nat.le_refl _, fun i _ => by simp [BSt.lgOf, h6],
   fun i hi => by
     have : s'.lgOf i = s.lgOf i := by simp [BSt.lgOf, h6]
     rw [this, lgOf_default_of_ge s i hi]; rfl,
   fun sid => by simp [BSt.sinkOf, h7]⟩

theorem FFrame.refl (s : BSt) : FFrame s s := FFrame.of_eq rfl rfl rfl rfl rfl rfl rfl

theorem FFrame.trans {a b c : BSt} (h1 : FFrame a b) (h2 : FFrame b c) : FFrame a c := by
  obtain ⟨e1, he1, hn1⟩ := h1.log
  obtain ⟨e2, he2, hn2⟩ := h2.log
  refine ⟨h2.cfg.trans h1.cfg, fun p => (h2.pops p).trans (h1.pops p), h2.popLog.trans h1.popLog, h2.reported.trans h1.reported, h2.flags.trans h1.flags,
    ⟨e2 ++ e1, by rw [he2, he1, List.append_assoc], ?_⟩, Nat.le_trans h1.lgsLe h2.lgsLe, ?_, ?_, ?_⟩
  · intro e he; rcases List.mem_append.mp he with h | h
    · exact hn2 e h
    · exact hn1 e h
  · intro i hi
    have ha := h1.lgsOld i hi
    have hb := h2.lgsOld i (Nat.lt_of_lt_of_le hi h1.lgsLe)
    exact ⟨hb.1.trans ha.1, hb.2.1.trans ha.2.1, hb.2.2.trans ha.2.2⟩
  · intro i hi
    by_cases hib : i < b.lgs.length
    · rw [(h2.lgsOld i hib).2.2]; exact h1.lgsNew i hi
    · exact h2.lgsNew i (by omega)
  · intro sid
    have ha := h1.sinks sid
    have hb := h2.sinks sid
    exact ⟨hb.1.trans ha.1, hb.2.1.trans ha.2.1, hb.2.2.1.trans ha.2.2.1, hb.2.2.2.1.trans ha.2.2.2.1,
      hb.2.2.2.2.trans ha.2.2.2.2⟩

theorem FFrame.of_frame {s s' : BSt} (f : Frame s s') (hfl : s'.flags = s.flags) : FFrame s s' :=
  ⟨f.cfg, cntP_of_ths f.ths, f.popLog, f.reported, hfl, f.log, by rw [f.lgsLen]; exact Nat.le_refl _, fun i _ => f.lgs i,
   fun i hi => by rw [(f.lgs i).2.2, lgOf_default_of_ge s i hi]; rfl,
   fun sid => ⟨(f.sinks sid).sid, (f.sinks sid).filtM, (f.sinks sid).filtR, (f.sinks sid).wthrow, (f.sinks sid).fthrow⟩⟩

theorem FFrame.setLg (s : BSt) (i : Nat) (f : Lg → Lg)
    (hf : ∀ l, (f l).gid = l.gid ∧ (f l).sinks = l.sinks ∧ (f l).bt = l.bt) : FFrame s (s.setLg i f) :=
  FFrame.of_frame (Frame.setLg s i f hf) rfl

theorem reapSinks_flags (s : BSt) (sids : List Nat) : (reapSinks s sids).flags = s.flags := by
  unfold reapSinks
  refine foldl_inv (fun a : BSt => a.flags = s.flags) _ ?_ sids s rfl
  intro a sid ha
  split
  · exact ha
  · exact ha

theorem afterEnq_ffr (s : BSt) (a : Nat) (st : Stmt) (cont : Nat) : FFrame s (afterEnq s a st cont).1 := by
  unfold afterEnq
  split
  · exact FFrame.of_eq rfl rfl rfl rfl rfl rfl rfl
  · exact FFrame.setLg s _ _ (fun l => ⟨rfl, rfl, rfl⟩)
  · exact FFrame.refl s
  · exact (FFrame.setLg s st.lg (fun l => { l with valid := false }) (fun l => ⟨rfl, rfl, rfl⟩)).trans
      (FFrame.of_eq rfl rfl rfl rfl rfl rfl rfl)
  · exact FFrame.refl s

theorem ensureCtx_ffr (s : BSt) (a : Nat) : FFrame s (ensureCtx s a).1 := by
  unfold ensureCtx
  split
  · exact FFrame.refl s
  · refine ⟨rfl, fun p => ?_, rfl, rfl, rfl, ⟨[], rfl, by simp⟩, Nat.le_refl _, fun i _ => ⟨rfl, rfl, rfl⟩,
      fun i hi => by rw [setActor_lgOf]; show (s.lgOf i).bt = none; rw [lgOf_default_of_ge s i hi]; rfl,
      fun sid => ⟨rfl, rfl, rfl, rfl, rfl⟩⟩
    simp [cntP, mkTh]

/-- an update of one context that keeps its popped history -/
theorem FFrame.setTh (s : BSt) (i : Nat) (f : Th → Th) (hf : ∀ t, (f t).popped = t.popped) : FFrame s (s.setTh i f) :=
  ⟨rfl, cntP_setTh s i f hf, rfl, rfl, rfl, ⟨[], rfl, by simp⟩, Nat.le_refl _, fun i _ => ⟨rfl, rfl, rfl⟩,
   fun i hi => by rw [setTh_lgOf, lgOf_default_of_ge s i hi]; rfl, fun sid => ⟨rfl, rfl, rfl, rfl, rfl⟩⟩

theorem tryEnq_ffr (s : BSt) (ci : Nat) (st : Stmt) : FFrame s (tryEnq s ci st).1 := by
  unfold tryEnq
  dsimp only
  split <;> exact FFrame.setTh _ _ _ (fun _ => rfl)

theorem enqFlow_ffr (s : BSt) (a : Nat) (st : Stmt) (cont : Nat) (first initial : Bool) :
    FFrame s (enqFlow s a st cont first initial).1 := by
  unfold enqFlow
  have h1 := ensureCtx_ffr s a
  generalize ensureCtx s a = e at h1 ⊢
  obtain ⟨s1, ci⟩ := e
  dsimp only at h1 ⊢
  have h2 := h1.trans (tryEnq_ffr s1 ci st)
  generalize tryEnq s1 ci st = e2 at h2 ⊢
  obtain ⟨s2, ok⟩ := e2
  dsimp only at h2 ⊢
  have hset : ∀ (s3 : BSt) (f : Actor → Actor), FFrame s s3 → FFrame s (s3.setActor a f) :=
    fun s3 f h3 => h3.trans (FFrame.of_eq rfl rfl rfl rfl rfl rfl rfl)
  have hbump : ∀ (f : Th → Th), (∀ t, (f t).popped = t.popped) →
      FFrame s (if isLogKind st.kind = true then s2.setTh ci f else s2) := by
    intro f hf
    split
    · exact h2.trans (FFrame.setTh _ _ _ hf)
    · exact h2
  split
  · exact (hset s2 _ h2).trans (afterEnq_ffr _ a st cont)
  · split
    · split
      · exact hset _ _ (hbump _ (fun _ => rfl))
      · exact hset _ _ (hbump _ (fun _ => rfl))
    · apply hset
      split
      · exact hbump _ (fun _ => rfl)
      · exact h2

theorem frontCall_ffr (s : BSt) (a lgi : Nat) (kind : Kind) (lvl len cont : Nat) (dyn : Bool) (id : Nat)
    (named : Bool) : FFrame s (frontCall s a lgi kind lvl len cont dyn id named).1 := by
  unfold frontCall
  dsimp only
  split
  · exact FFrame.of_eq rfl rfl rfl rfl rfl rfl rfl
  · exact enqFlow_ffr ..

theorem resume_ffr (s : BSt) (a : Nat) : FFrame s (resume s a).1 := by
  unfold resume
  split
  · exact enqFlow_ffr ..
  · split <;> exact enqFlow_ffr ..
  · split
    · exact FFrame.of_eq rfl rfl rfl rfl rfl rfl rfl
    · exact FFrame.refl s
  · exact FFrame.refl s

theorem withLogger_ffr (s : BSt) (a gid : Nat) (k : Nat → BSt × String) (hk : ∀ lgi, FFrame s (k lgi).1) :
    FFrame s (withLogger s a gid k).1 := by
  unfold withLogger
  split
  · exact (hk _).trans (FFrame.of_eq rfl rfl rfl rfl rfl rfl rfl)
  · exact FFrame.refl s

theorem lgOf_append (s : BSt) (l : Lg) (i : Nat) (nm : List (Nat × Nat)) :
    ({ s with lgs := s.lgs ++ [l], names := nm } : BSt).lgOf i =
      if i < s.lgs.length then s.lgOf i else if i = s.lgs.length then l else default := by
  simp only [BSt.lgOf, List.getD_eq_getElem?_getD]
  by_cases hi : i < s.lgs.length
  · rw [List.getElem?_append_left hi, if_pos hi]
  · rw [List.getElem?_append_right (by omega), if_neg hi]
    by_cases h2 : i = s.lgs.length
    · simp [h2]
    · have : i - s.lgs.length = (i - s.lgs.length - 1) + 1 := by omega
      rw [if_neg h2, this]; simp

/-- **no frontend operation touches what `FFrame` lists** -/
theorem applyFront_ffr (s : BSt) (f : FOp) : FFrame s (applyFront s f).1 := by
  cases f with
  | tick dt => exact FFrame.of_eq rfl rfl rfl rfl rfl rfl rfl
  | tstart a => simp only [applyFront]; split <;> exact FFrame.of_eq rfl rfl rfl rfl rfl rfl rfl
  | texit a =>
    simp only [applyFront]
    split
    · exact FFrame.refl s
    · split
      · next i _ =>
        have e1 : FFrame s (s.setActor a (fun x => { x with alive := false })) := FFrame.of_eq rfl rfl rfl rfl rfl rfl rfl
        have e2 := e1.trans (FFrame.setTh _ i (fun t => { t with valid := false }) (fun _ => rfl))
        exact e2.trans (FFrame.of_eq rfl rfl rfl rfl rfl rfl rfl)
      · exact FFrame.of_eq rfl rfl rfl rfl rfl rfl rfl
  | resume a =>
    simp only [applyFront]
    have h1 := resume_ffr s a
    split
    · exact h1
    · split
      · exact h1
      · exact h1.trans (FFrame.of_eq rfl rfl rfl rfl rfl rfl rfl)
  | armStall a => simp only [applyFront]; split <;> exact FFrame.of_eq rfl rfl rfl rfl rfl rfl rfl
  | log a g lvl len dyn =>
    simp only [applyFront]
    apply withLogger_ffr
    intro lgi
    have h1 : FFrame s ({ s with nextId := s.nextId + 1 } : BSt) := FFrame.of_eq rfl rfl rfl rfl rfl rfl rfl
    split
    · exact h1.trans (frontCall_ffr ..)
    · exact h1
  | logNamed a g len =>
    simp only [applyFront]
    apply withLogger_ffr
    intro lgi
    have h1 : FFrame s ({ s with nextId := s.nextId + 1 } : BSt) := FFrame.of_eq rfl rfl rfl rfl rfl rfl rfl
    split
    · exact h1.trans (frontCall_ffr ..)
    · exact h1
  | logBt a g len =>
    simp only [applyFront]
    apply withLogger_ffr
    intro lgi
    have h1 : FFrame s ({ s with nextId := s.nextId + 1 } : BSt) := FFrame.of_eq rfl rfl rfl rfl rfl rfl rfl
    split
    · exact h1.trans (frontCall_ffr ..)
    · exact h1
  | initBt a g cap fl => simp only [applyFront]; exact withLogger_ffr _ _ _ _ (fun lgi => frontCall_ffr ..)
  | flushBt a g => simp only [applyFront]; exact withLogger_ffr _ _ _ _ (fun lgi => frontCall_ffr ..)
  | flush a g =>
    simp only [applyFront]
    apply withLogger_ffr
    intro lgi
    have h1 : FFrame s { s with nextFlag := s.nextFlag + 1 } := FFrame.of_eq rfl rfl rfl rfl rfl rfl rfl
    exact h1.trans (frontCall_ffr ..)
  | removeBlocking a g =>
    simp only [applyFront]
    split
    · exact FFrame.refl s
    · apply withLogger_ffr
      intro lgi
      have h1 : FFrame s (dropName { s with nextFlag := s.nextFlag + 1 } g) := FFrame.of_eq rfl rfl rfl rfl rfl rfl rfl
      exact h1.trans (frontCall_ffr ..)
  | remove a g =>
    simp only [applyFront]
    split
    · exact FFrame.refl s
    · split
      · next _ _ lgi _ _ =>
        have e1 : FFrame s (dropName s g) := FFrame.of_eq rfl rfl rfl rfl rfl rfl rfl
        have e2 := e1.trans (FFrame.setLg _ lgi (fun l => { l with valid := false }) (fun l => ⟨rfl, rfl, rfl⟩))
        exact e2.trans (FFrame.of_eq rfl rfl rfl rfl rfl rfl rfl)
      · exact FFrame.refl s
  | create a g sl =>
    simp only [applyFront]
    split
    · exact FFrame.refl s
    · split
      · split
        · exact FFrame.refl s
        · exact FFrame.of_eq rfl rfl rfl rfl rfl rfl rfl
      · refine ⟨rfl, fun _ => rfl, rfl, rfl, rfl, ⟨[], rfl, by simp⟩, by simp, ?_, ?_, fun sid => ⟨rfl, rfl, rfl, rfl, rfl⟩⟩
        · intro i hi
          have := lgOf_append s { gid := g, sinks := sl } i ((dropName s g).names ++ [(g, s.lgs.length)])
          simp only [dropName] at this ⊢
          rw [this, if_pos hi]; exact ⟨rfl, rfl, rfl⟩
        · intro i hi
          have := lgOf_append s { gid := g, sinks := sl } i ((dropName s g).names ++ [(g, s.lgs.length)])
          simp only [dropName] at this ⊢
          rw [this, if_neg (by omega)]
          split <;> rfl
  | setLevel g lvl =>
    simp only [applyFront]
    split
    · exact FFrame.setLg _ _ (fun l => { l with level := lvl }) (fun l => ⟨rfl, rfl, rfl⟩)
    · exact FFrame.refl s
  | setSinkLevel sid lvl =>
    simp only [applyFront]
    split
    · refine ⟨rfl, fun _ => rfl, rfl, rfl, rfl, ⟨[], rfl, by simp⟩, Nat.le_refl _, fun i _ => ⟨rfl, rfl, rfl⟩,
        fun i hi => by rw [setSink_lgOf, lgOf_default_of_ge s i hi]; rfl, ?_⟩
      intro j
      show ((s.setSink sid (fun k => { k with lvl := lvl })).sinkOf j).sid = _ ∧ _
      rw [sinkOf_setSink s sid j (fun k => { k with lvl := lvl }) (fun k hk => hk)]
      split <;> exact ⟨rfl, rfl, rfl, rfl, rfl⟩
    · exact FFrame.refl s
  | dropSink sid =>
    simp only [applyFront]
    have h1 : Frame s (s.setSink sid (fun k => { k with userRef := false })) :=
      Frame.setSink s sid (fun k => { k with userRef := false }) (fun k => ⟨rfl, rfl, rfl, rfl, rfl, rfl⟩)
    exact FFrame.of_frame (h1.trans (reapSinks_frame _ _)) (by rw [reapSinks_flags]; rfl)
  | query => exact FFrame.refl s

end Backend.PA
