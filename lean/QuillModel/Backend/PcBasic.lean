import QuillModel.Backend.Ops
/-!
Basic rewriting lemmas about the state accessors of the backend model (`updAt`, `setTh`, `setActor`, `ensureCtx`),
shared by the proof bundles of C16 / C17 / C20 / C07-drain. Helper lemmas only (namespace `Backend.PC`).
-/
namespace Backend.PC
open Backend Spsc

theorem updAt_length {α} (l : List α) (i : Nat) (f : α → α) : (updAt l i f).length = l.length := by
  simp [updAt]

theorem getD_updAt {α} (l : List α) (i j : Nat) (f : α → α) (d : α) :
    (updAt l i f).getD j d = if j = i ∧ j < l.length then f (l.getD j d) else l.getD j d := by
  simp only [updAt, List.getD_eq_getElem?_getD, List.getElem?_mapIdx]
  by_cases hj : j < l.length
  · simp [hj]
  · simp [hj]

theorem th_setTh (s : BSt) (i j : Nat) (f : Th → Th) :
    (s.setTh i f).th j = if j = i ∧ j < s.ths.length then f (s.th j) else s.th j := by
  simp only [BSt.setTh, BSt.th, getD_updAt]

theorem th_setTh_same (s : BSt) (i : Nat) (f : Th → Th) (h : i < s.ths.length) :
    (s.setTh i f).th i = f (s.th i) := by
  rw [th_setTh]; simp [h]

theorem th_setTh_ne (s : BSt) (i j : Nat) (f : Th → Th) (h : j ≠ i) :
    (s.setTh i f).th j = s.th j := by
  rw [th_setTh]; simp [h]

@[simp] theorem th_setActor (s : BSt) (a i : Nat) (f : Actor → Actor) : (s.setActor a f).th i = s.th i := rfl
@[simp] theorem ths_setActor (s : BSt) (a : Nat) (f : Actor → Actor) : (s.setActor a f).ths = s.ths := rfl
@[simp] theorem cfg_setActor (s : BSt) (a : Nat) (f : Actor → Actor) : (s.setActor a f).cfg = s.cfg := rfl
@[simp] theorem cfg_setTh (s : BSt) (a : Nat) (f : Th → Th) : (s.setTh a f).cfg = s.cfg := rfl
@[simp] theorem now_setTh (s : BSt) (a : Nat) (f : Th → Th) : (s.setTh a f).now = s.now := rfl
@[simp] theorem actor_setTh (s : BSt) (i a : Nat) (f : Th → Th) : (s.setTh i f).actor a = s.actor a := rfl
@[simp] theorem ths_length_setTh (s : BSt) (i : Nat) (f : Th → Th) : (s.setTh i f).ths.length = s.ths.length := by
  simp [BSt.setTh, updAt_length]

/-- the context index `ensureCtx` returns is a valid index afterwards -/
theorem ensureCtx_lt (s : BSt) (a : Nat)
    (hwf : ∀ x i, s.actor a = some x → x.ctx = some i → i < s.ths.length) :
    (ensureCtx s a).2 < (ensureCtx s a).1.ths.length := by
  unfold ensureCtx
  cases h : (s.actor a).bind (·.ctx) with
  | some i =>
    simp only
    cases hx : s.actor a with
    | none => simp [hx] at h
    | some x => simp [hx] at h; exact hwf x i hx h
  | none => simp

theorem ensureCtx_cfg (s : BSt) (a : Nat) : (ensureCtx s a).1.cfg = s.cfg := by
  unfold ensureCtx; split <;> rfl
theorem ensureCtx_now (s : BSt) (a : Nat) : (ensureCtx s a).1.now = s.now := by
  unfold ensureCtx; split <;> rfl


theorem actor_setActor (s : BSt) (a : Nat) (f : Actor → Actor)
    (hf : ∀ x, (f x).id = x.id ∧ (f x).alive = x.alive) :
    (s.setActor a f).actor a = (s.actor a).map f := by
  simp only [BSt.setActor, BSt.actor]
  induction s.actors with
  | nil => rfl
  | cons x xs ih =>
    simp only [List.map_cons, List.find?_cons]
    by_cases hx : x.id = a ∧ x.alive = true
    · have h2 : (f x).id = a ∧ (f x).alive = true := by rw [(hf x).1, (hf x).2]; exact hx
      simp only [hx, h2, if_true, and_self, decide_true, Option.map_some]
    · simp only [hx, if_false, decide_false]; exact ih

theorem th_setTh_proj {α} (P : Th → α) (s : BSt) (i j : Nat) (f : Th → Th) (h : ∀ t, P (f t) = P t) :
    P ((s.setTh i f).th j) = P (s.th j) := by
  rw [th_setTh]; split
  · exact h _
  · rfl

theorem accepted_setTh (s : BSt) (i j : Nat) (f : Th → Th) (h : ∀ t, (f t).accepted = t.accepted) :
    ((s.setTh i f).th j).accepted = (s.th j).accepted := th_setTh_proj (·.accepted) s i j f h
theorem qStmts_setTh (s : BSt) (i j : Nat) (f : Th → Th) (h : ∀ t, (f t).qStmts = t.qStmts) :
    ((s.setTh i f).th j).qStmts = (s.th j).qStmts := th_setTh_proj (·.qStmts) s i j f h
theorem buf_setTh (s : BSt) (i j : Nat) (f : Th → Th) (h : ∀ t, (f t).buf = t.buf) :
    ((s.setTh i f).th j).buf = (s.th j).buf := th_setTh_proj (·.buf) s i j f h

theorem pend_setActor (X : BSt) (a : Nat) (p : Pend) (x : Actor)
    (hx : (X.setActor a (fun x => { x with pend := p })).actor a = some x) : x.pend = p := by
  rw [actor_setActor X a (fun x => { x with pend := p }) (fun _ => ⟨rfl, rfl⟩)] at hx
  cases hy : X.actor a with
  | none => simp [hy] at hx
  | some y => simp [hy] at hx; rw [← hx]

theorem actor_setActor_some (X : BSt) (a : Nat) (f : Actor → Actor)
    (hf : ∀ x, (f x).id = x.id ∧ (f x).alive = x.alive) (x : Actor)
    (hx : (X.setActor a f).actor a = some x) : ∃ y, X.actor a = some y ∧ x = f y := by
  rw [actor_setActor X a f hf] at hx
  cases hy : X.actor a with
  | none => simp [hy] at hx
  | some y => simp [hy] at hx; exact ⟨y, rfl, hx.symm⟩

theorem withLogger_eq {s : BSt} {a g lgi : Nat} (k : Nat → BSt × String)
    (hl : loggerOf s g = some lgi) (hi : idleActor s a = true) :
    withLogger s a g k = noteCall (k lgi) a g := by
  simp only [withLogger, hl, hi]

theorem noteCall_idle (r : BSt × String) (a g : Nat)
    (h : ((r.1.actor a).map isParked).getD false = false) :
    noteCall r a g = (r.1.setActor a (fun x => { x with inCall := none }), r.2) := by
  simp [noteCall, h]

theorem idle_not_parked {s : BSt} {a : Nat} (hi : idleActor s a = true) :
    ((s.actor a).map isParked).getD false = false := by
  simp only [idleActor] at hi
  cases h : s.actor a with
  | none => rfl
  | some x => simp [h] at hi; simp [hi]

theorem map_updAt {α β} (l : List α) (i : Nat) (f : α → α) (g : α → β) (hf : ∀ t, g (f t) = g t) :
    (updAt l i f).map g = l.map g := by
  apply List.ext_getElem?
  intro j
  simp only [updAt, List.getElem?_map, List.getElem?_mapIdx]
  cases l[j]? with
  | none => rfl
  | some t => simp only [Option.map_some]; split <;> simp [hf]

theorem mem_ins {α} (le : α → α → Bool) (x y : α) : ∀ (l : List α), y ∈ insSorted.ins le x l ↔ y = x ∨ y ∈ l
  | [] => by simp [insSorted.ins]
  | z :: zs => by
    unfold insSorted.ins
    split
    · simp
    · simp only [List.mem_cons, mem_ins le x y zs]
      constructor
      · rintro (h | h | h)
        · exact Or.inr (Or.inl h)
        · exact Or.inl h
        · exact Or.inr (Or.inr h)
      · rintro (h | h | h)
        · exact Or.inr (Or.inl h)
        · exact Or.inl h
        · exact Or.inr (Or.inr h)

theorem mem_insSorted {α} (le : α → α → Bool) (y : α) : ∀ (l : List α), y ∈ insSorted le l ↔ y ∈ l
  | [] => by simp [insSorted]
  | x :: xs => by
    unfold insSorted
    rw [mem_ins, mem_insSorted le y xs, List.mem_cons]

theorem lgOf_setLg (s : BSt) (i j : Nat) (f : Lg → Lg) :
    (s.setLg i f).lgOf j = if j = i ∧ j < s.lgs.length then f (s.lgOf j) else s.lgOf j := by
  simp only [BSt.setLg, BSt.lgOf, getD_updAt]

@[simp] theorem lgs_length_setLg (s : BSt) (i : Nat) (f : Lg → Lg) : (s.setLg i f).lgs.length = s.lgs.length := by
  simp [BSt.setLg, updAt_length]

end Backend.PC
