import QuillModel.Backend.LiftObsFront
import QuillModel.Backend.LiftObsStr
/-!
Counting invariant over whole runs: for a classifier `w` of observation texts and a measure `mw (Σ discarded) (Σ accepted
ordinary statements)` that grows by one exactly on the texts `w` accepts (`StepOK`), the measure equals the number of
`w`-lines among the top-level observations plus the number among the result texts of the `Ev.inj` events of the history.
The injection runner is walked with `PC.injStep` (frontend operation + its `Ev.inj`) as one unit. Helper lemmas only.
-/
namespace Backend.PC
open Backend Backend.PA Spsc

def wt (w : String → Bool) (t : String) : Nat := if w t then 1 else 0

/-- number of texts of a list the classifier accepts -/
def cntT (w : String → Bool) : List String → Nat
  | [] => 0
  | t :: l => wt w t + cntT w l

/-- the measure moves with the classifier, on every outcome of a frontend step -/
def StepOK (mw : Nat → Nat → Nat) (w : String → Bool) : Prop :=
  ∀ c d a d' a' t, Out c d a d' a' t → mw d' a' = mw d a + wt w t

def Pd (mw : Nat → Nat → Nat) (w : String → Bool) (c : Nat) (s : BSt) : Prop :=
  s.cfg.dropping = true ∧ AOK s ∧ mw (dsum s) (asum s) = cntT w (injT s.log) + c

variable {mw : Nat → Nat → Nat} {w : String → Bool}

theorem Pd.congr {c : Nat} {s s' : BSt} (hv : vw s' = vw s) (h : Pd mw w c s) : Pd mw w c s' := by
  have h1 : injT s'.log = injT s.log := congrArg (·.1) hv
  have h2 : dk s' = dk s := congrArg (·.2.1) hv
  have h3 : s'.actors = s.actors := congrArg (·.2.2.1) hv
  have h4 : s'.cfg.dropping = s.cfg.dropping := congrArg (·.2.2.2) hv
  refine ⟨h4.trans h.1, h.2.1.of_eq h3 (by rw [← dk_length, ← dk_length, h2]; exact Nat.le_refl _), ?_⟩
  simp only [dsum, asum, h2, h1]
  exact h.2.2

theorem ClosedC.of_iff {P P' : BSt → Prop} (h : ∀ s, P s ↔ P' s) (hc : ClosedC P) : ClosedC P' := by
  have : P = P' := funext (fun s => propext (h s))
  subst this; exact hc

theorem Pd.closedC (c : Nat) : ClosedC (Pd mw w c) :=
  ClosedC.of_iff (P := fun s => (fun v => ∃ x, vw x = v ∧ Pd mw w c x) (vw s))
    (fun s => ⟨fun ⟨_, hx, hp⟩ => Pd.congr hx.symm hp, fun hp => ⟨s, rfl, hp⟩⟩) (closedC_of_vw (fun v => ∃ x, vw x = v ∧ Pd mw w c x))

theorem Pd.step {c c0 : Nat} {s s' : BSt} {t : String} (hs : StepOK mw w) (h : Pd mw w c s) (st : Step c0 s s' t) :
    Pd mw w (c + wt w t) s' := by
  refine ⟨st.drp.trans h.1, st.aok, ?_⟩
  rw [hs _ _ _ _ _ _ st.out, st.log, h.2.2]
  omega

/-- a frontend step followed by the `Ev.inj` event that records its text: the constant does not move -/
theorem Pd.injStep {c : Nat} {s : BSt} (hs : StepOK mw w) (h : Pd mw w c s) (site k : Nat) (f : FOp) :
    Pd mw w c (injStep site k s f) := by
  have st : ∃ c0, Step c0 s (injRes site s f).1 (injRes site s f).2 := by
    unfold injRes
    split
    · exact ⟨5, Step.same rfl rfl rfl h.2.1 .noop⟩
    · exact ⟨_, front_step s f h.1 h.2.1⟩
  obtain ⟨c0, st⟩ := st
  have h1 := h.step hs st
  refine ⟨h1.1, h1.2.1.of_eq rfl (Nat.le_refl _), ?_⟩
  show mw (dsum (injRes site s f).1) (asum (injRes site s f).1) =
    cntT w ((injRes site s f).2 :: injT (injRes site s f).1.log) + c
  rw [h1.2.2]
  simp only [cntT]
  omega

theorem Pd.injOK {c : Nat} (hs : StepOK mw w) (table : List (Nat × Nat × List FOp)) :
    InjOK (Pd mw w c) (runInj table) := by
  intro s site h
  refine ⟨?_, runInj_popLog table s site, fun h9 => by rw [h9]; exact runInj_lgMono9 table s⟩
  rw [runInj_eq]
  have h1 : Pd mw w c ({ s with siteCnt := (site, siteK s site) :: s.siteCnt.filter (·.1 ≠ site) } : BSt) :=
    Pd.congr rfl h
  split
  · exact h1
  · exact foldl_pres (Pd mw w c) _ (fun x f hx => hx.injStep hs site _ f) _ _ h1

theorem Pd.applyOp {c : Nat} {s : BSt} (hs : StepOK mw w) (hq : ∀ t, Quiet t → w t = false) (h : Pd mw w c s) (o : Op) :
    Pd mw w (c + wt w (applyOp s o).2) (applyOp s o).1 := by
  have hev : wt w "ev" = 0 := by simp [wt, hq _ .ev]
  have hno : wt w "noop" = 0 := by simp [wt, hq _ .noop]
  cases o with
  | front f => exact h.step hs (front_step s f h.1 h.2.1)
  | poll table =>
    simp only [Backend.applyOp]
    split
    · rw [hno]; exact h
    · rw [hev]
      exact poll_okC (Pd.closedC c) (Pd.injOK hs table) _ (Pd.congr (s := s) rfl h)
  | exit =>
    simp only [Backend.applyOp]
    split
    · rw [hno]; exact h
    · rw [hev]
      exact (Pd.closedC c).gone _ (exitLoop_okC (Pd.closedC c) (Pd.injOK hs []) _ _ _ (Pd.congr (s := s) rfl h))

/-- **every schedule**: the constant of the invariant grows by the number of `w`-lines among the top-level observations -/
theorem Pd.run (hs : StepOK mw w) (hq : ∀ t, Quiet t → w t = false) :
    ∀ (ops : List Op) (c : Nat) (s : BSt), Pd mw w c s → Pd mw w (c + cntT w (runObs s ops).2) (runOps s ops)
  | [], _, _, h => h
  | o :: os, c, s, h => by
    have h1 := Pd.run hs hq os _ _ (h.applyOp hs hq o)
    show Pd mw w (c + (wt w (Backend.applyOp s o).2 + cntT w (runObs (Backend.applyOp s o).1 os).2)) (runOps (Backend.applyOp s o).1 os)
    rw [← Nat.add_assoc]; exact h1

theorem wt_true {w : String → Bool} {t : String} (h : w t = true) : wt w t = 1 := by simp [wt, h]
theorem wt_false {w : String → Bool} {t : String} (h : w t = false) : wt w t = 0 := by simp [wt, h]

/-- drop lines ↔ `discarded` -/
theorem stepOK_drop : StepOK (fun d _ => d) isDropObs := by
  intro c d a d' a' t h
  show d' = d + wt isDropObs t
  cases h with
  | quiet hd _ hq => rw [wt_false (quiet_cls hq).1, hd]; rfl
  | acc hd _ hc ht =>
    obtain ⟨st, hsz, rfl⟩ := ht
    rw [wt_false (acc_cls st c hc hsz).1, hd]; rfl
  | drop0 hd _ _ ht => obtain ⟨n, rfl⟩ := ht; rw [wt_true (drop0_cls n).1, hd]
  | drop5 hd _ _ ht => obtain ⟨n, rfl⟩ := ht; rw [wt_true (drop5_cls n).1, hd]

/-- attempt lines ↔ `discarded` + accepted ordinary statements -/
theorem stepOK_attempt : StepOK (fun d a => d + a) isAttemptObs := by
  intro c d a d' a' t h
  show d' + a' = d + a + wt isAttemptObs t
  cases h with
  | quiet hd ha hq => rw [wt_false (quiet_cls hq).2.2, hd, ha]; rfl
  | acc hd ha hc ht =>
    obtain ⟨st, hsz, rfl⟩ := ht
    rw [wt_true (acc_cls st c hc hsz).2.2, hd, ha]; omega
  | drop0 hd ha _ ht => obtain ⟨n, rfl⟩ := ht; rw [wt_true (drop0_cls n).2.2, hd, ha]; omega
  | drop5 hd ha _ ht => obtain ⟨n, rfl⟩ := ht; rw [wt_true (drop5_cls n).2.2, hd, ha]; omega

theorem cntT_mono {w1 w2 : String → Bool} (h : ∀ t, w1 t = true → w2 t = true) : ∀ l, cntT w1 l ≤ cntT w2 l
  | [] => Nat.le_refl _
  | t :: l => by
    have := cntT_mono h l
    simp only [cntT, wt]
    cases h1 : w1 t
    · simp; omega
    · simp [h t h1]; omega

end Backend.PC
