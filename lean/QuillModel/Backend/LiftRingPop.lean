import QuillModel.Backend.LiftRingPot
/-!
# The ring potential (part 2): one processed event, and `Closed InvRg`

`processEvent` keeps `writes + ring potential ≤ grants`: an ordinary statement is dispatched (its grant is spent on
writes), a backtrace statement is stored (its grant becomes ring occupancy — `Ring.store` adds at most one copy and may
drop others), `init_backtrace` only drops, a replay converts occupancy into writes and clears the ring
(`replayRing_pot`). Every other step of the machine is a frame for `InvRg`.
-/
namespace Backend.PA
open Backend Spsc

theorem filter_set_length {α} (p : α → Bool) (x : α) : ∀ (l : List α) (i : Nat),
    ((l.set i x).filter p).length ≤ (l.filter p).length + (if p x = true then 1 else 0)
  | [], _ => by simp
  | y :: ys, 0 => by
    simp only [List.set_cons_zero, List.filter_cons]
    cases p x <;> cases p y <;> simp
  | y :: ys, i + 1 => by
    have ih := filter_set_length p x ys i
    simp only [List.set_cons_succ, List.filter_cons]
    cases p y <;> simp only [List.length_cons, Bool.false_eq_true, if_false, if_true] <;> omega

theorem ring_store_cnt (r : Ring) (st : Stmt) (id : Nat) :
    itemsCnt id (r.store st).items ≤ itemsCnt id r.items + (if st.id = id then 1 else 0) := by
  unfold Ring.store itemsCnt
  split
  · omega
  · split
    · simp only [List.filter_append, List.length_append, List.filter_cons, List.filter_nil]
      by_cases h : st.id = id <;> simp [h]
    · have := filter_set_length (fun x : Stmt => x.id == id) st r.items r.index
      simpa using this

theorem ring_store_mem {r : Ring} {st x : Stmt} (hx : x ∈ (r.store st).items) : x ∈ r.items ∨ x = st := by
  unfold Ring.store at hx
  split at hx
  · exact Or.inl hx
  · split at hx
    · rcases List.mem_append.mp hx with hx | hx
      · exact Or.inl hx
      · simp at hx; exact Or.inr hx
    · exact List.mem_or_eq_of_mem_set hx

theorem ring_setCapacity_cnt (r : Ring) (c id : Nat) : itemsCnt id (r.setCapacity c).items ≤ itemsCnt id r.items := by
  unfold Ring.setCapacity
  split
  · exact Nat.le_refl _
  · simp [itemsCnt]

theorem ring_setCapacity_mem {r : Ring} {c : Nat} {x : Stmt} (hx : x ∈ (r.setCapacity c).items) : x ∈ r.items := by
  unfold Ring.setCapacity at hx
  split at hx
  · exact hx
  · simp at hx

/-- replacing the ring of logger `i` by one with at most `d` more copies of `id` -/
theorem ringPot_setLg_le (s : BSt) (i : Nat) (f : Lg → Lg) (sid id d : Nat)
    (hs : (f (s.lgOf i)).sinks = (s.lgOf i).sinks) (hcnt : lgCnt id (f (s.lgOf i)) ≤ lgCnt id (s.lgOf i) + d) :
    ringPot (s.setLg i f) sid id ≤ ringPot s sid id + d * (s.lgOf i).sinks.count sid := by
  unfold ringPot
  rw [setLg_lgs_length]
  by_cases hi : i < s.lgs.length
  · have hu := sumR_update (f := fun j => lgCnt id (s.lgOf j) * (s.lgOf j).sinks.count sid)
      (g := fun j => lgCnt id ((s.setLg i f).lgOf j) * ((s.setLg i f).lgOf j).sinks.count sid)
      i s.lgs.length hi (fun j _ hji => by simp only [lgOf_setLg, hji, false_and, if_false])
    have hg : (s.setLg i f).lgOf i = f (s.lgOf i) := by rw [lgOf_setLg, if_pos ⟨rfl, hi⟩]
    simp only [hg, hs] at hu
    have hm := Nat.mul_le_mul_right ((s.lgOf i).sinks.count sid) hcnt
    rw [Nat.add_mul] at hm
    omega
  · have : sumR (fun j => lgCnt id ((s.setLg i f).lgOf j) * ((s.setLg i f).lgOf j).sinks.count sid) s.lgs.length =
        sumR (fun j => lgCnt id (s.lgOf j) * (s.lgOf j).sinks.count sid) s.lgs.length :=
      sumR_congr _ (fun j hj => by
        have : ¬ (j = i ∧ j < s.lgs.length) := by omega
        simp only [lgOf_setLg, this, if_false])
    rw [this]; omega

theorem RingLg.setLg {s : BSt} (h : RingLg s) (i : Nat) (f : Lg → Lg)
    (hf : ∀ r, (f (s.lgOf i)).bt = some r → ∀ x ∈ r.items, x.lg = i) : RingLg (s.setLg i f) := by
  intro j r hr
  rw [lgOf_setLg] at hr
  split at hr
  · next hc => rw [hc.1] at hr ⊢; exact hf r hr
  · exact h j r hr

theorem RingLg.of_lgs {s s' : BSt} (h : RingLg s) (e : s'.lgs = s.lgs) : RingLg s' :=
  fun i r hr => h i r (by rw [← lgOf_of_lgs e]; exact hr)

theorem ringPot_of_lgs {s s' : BSt} (e : s'.lgs = s.lgs) (sid id : Nat) : ringPot s' sid id = ringPot s sid id :=
  ringPot_congr sid id (by rw [e]) (fun j _ => by rw [lgOf_of_lgs e]; exact ⟨rfl, rfl⟩)

theorem dispatch_bwcount (s : BSt) (st : Stmt) (sid id : Nat) :
    bwcount (dispatch s st).1.log sid id ≤
      bwcount s.log sid id + (if st.id = id then (s.lgOf st.lg).sinks.count sid else 0) :=
  writeToSinks_bwcount st sid id _ s

/-- one processed event: writes + potential grow by at most the grant of an `Event::Log` statement -/
theorem processEvent_r {s : BSt} (hc : s.cfg.replayCatchesPerEvent = true) (h : RingLg s) (st : Stmt) (sid id : Nat) :
    bwcount (processEvent s st).1.log sid id + ringPot (processEvent s st).1 sid id ≤
      bwcount s.log sid id + ringPot s sid id +
        (if logq id st = true then (s.lgOf st.lg).sinks.count sid else 0) ∧
    RingLg (processEvent s st).1 := by
  unfold processEvent
  split
  · next hk =>
    have hq : (logq id st = true) ↔ st.id = id := by simp [logq, hk, isLogKind]
    have hite : (if logq id st = true then (s.lgOf st.lg).sinks.count sid else 0) =
        (if st.id = id then (s.lgOf st.lg).sinks.count sid else 0) := by
      by_cases hx : st.id = id
      · rw [if_pos hx, if_pos (hq.mpr hx)]
      · rw [if_neg hx, if_neg (fun hy => hx (hq.mp hy))]
    rw [hite]
    split
    · next hl =>
      dsimp only
      have hd := dispatch_bwcount s st sid id
      have hlg : (dispatch s st).1.lgs = s.lgs := writeToSinks_lgs st (s.lgOf st.lg).sinks s
      have hR : RingLg (dispatch s st).1 := h.of_lgs hlg
      have hP : ringPot (dispatch s st).1 sid id = ringPot s sid id := ringPot_of_lgs hlg sid id
      have hc' : (dispatch s st).1.cfg.replayCatchesPerEvent = true := by rw [(dispatch_core s st).cfg]; exact hc
      have hD : bwcount (dispatch s st).1.log sid id + ringPot (dispatch s st).1 sid id ≤
          bwcount s.log sid id + ringPot s sid id + (if st.id = id then (s.lgOf st.lg).sinks.count sid else 0) := by
        rw [hP]; omega
      split
      · exact ⟨hD, hR⟩
      · split
        · have := replayRing_pot hc' hR st.lg sid id
          refine ⟨?_, replayRing_ringLg hc' hR st.lg⟩
          show bwcount (replayRing (dispatch s st).1 st.lg).1.log sid id +
            ringPot (replayRing (dispatch s st).1 st.lg).1 sid id ≤ _
          omega
        · exact ⟨hD, hR⟩
    · next hl =>
      split
      · next ring hr =>
        refine ⟨?_, h.setLg _ _ (fun r' hr' x hx => ?_)⟩
        · show bwcount s.log sid id + ringPot (s.setLg st.lg _) sid id ≤ _
          have := ringPot_setLg_le s st.lg (fun l => { l with bt := some (ring.store st) }) sid id
            (if st.id = id then 1 else 0) rfl (by
              have := ring_store_cnt ring st id
              simpa [lgCnt, hr] using this)
          by_cases hx : st.id = id
          · simp only [hx, if_true, Nat.one_mul] at this ⊢; omega
          · simp only [hx, if_false, Nat.zero_mul] at this ⊢; omega
        · simp only [Option.some.injEq] at hr'
          rw [← hr'] at hx
          rcases ring_store_mem hx with hx | hx
          · exact h st.lg ring hr x hx
          · rw [hx]
      · exact ⟨by show bwcount s.log sid id + ringPot s sid id ≤ _; omega, h⟩
  · rename_i _ cap0 _ _
    have hcnt : ∀ cap, lgCnt id ({ s.lgOf st.lg with bt := some (((s.lgOf st.lg).bt.getD {}).setCapacity cap) } : Lg) ≤
        lgCnt id (s.lgOf st.lg) + 0 := by
      intro cap
      cases hb : (s.lgOf st.lg).bt with
      | none =>
        have := ring_setCapacity_cnt {} cap id
        simpa [lgCnt, hb, itemsCnt] using this
      | some r0 =>
        have := ring_setCapacity_cnt r0 cap id
        simpa [lgCnt, hb] using this
    refine ⟨?_, h.setLg _ _ (fun r' hr' x hx => ?_)⟩
    · show bwcount s.log sid id + ringPot (s.setLg st.lg _) sid id ≤ _
      have := ringPot_setLg_le s st.lg
        (fun l => { l with bt := some (((s.lgOf st.lg).bt.getD {}).setCapacity cap0) }) sid id 0 rfl (hcnt cap0)
      omega
    · simp only [Option.some.injEq] at hr'
      rw [← hr'] at hx
      have hx' := ring_setCapacity_mem hx
      cases hb : (s.lgOf st.lg).bt with
      | none => rw [hb] at hx'; simp at hx'
      | some r0 => rw [hb] at hx'; exact h st.lg r0 hb x hx'
  · have := replayRing_pot hc h st.lg sid id
    exact ⟨by show bwcount (replayRing s st.lg).1.log sid id + ringPot (replayRing s st.lg).1 sid id ≤ _; omega,
      replayRing_ringLg hc h st.lg⟩
  · have f := flushSinks_frame s
    obtain ⟨evs, he, hn⟩ := f.log
    refine ⟨?_, fun i r hr => h i r ((f.lgs i).2.2 ▸ hr)⟩
    show bwcount (flushSinks s).log sid id + ringPot (flushSinks s) sid id ≤ _
    rw [he, bwcount_nowrite hn,
      ringPot_congr sid id f.lgsLen (fun j _ => ⟨(f.lgs j).2.2, (f.lgs j).2.1⟩)]
    omega
  · exact ⟨by show bwcount s.log sid id + ringPot s sid id ≤ _; omega, h⟩

theorem InvRg.pop {s : BSt} (h : InvRg s) (i : Nat) (st : Stmt) (rest : List Stmt) : InvRg (popStep s i st rest) := by
  unfold popStep
  dsimp only
  have hc := processEvent_core s st
  have hlgs : ∀ j, ((processEvent s st).1.lgOf j).sinks = (s.lgOf j).sinks := fun j => (hc.lgs j).2
  have key : ∀ s2 : BSt, s2.cfg = s.cfg → RingLg s2 → (∀ sid id, bwcount s2.log sid id + ringPot s2 sid id ≤
        bwcount s.log sid id + ringPot s sid id + (if logq id st = true then (s.lgOf st.lg).sinks.count sid else 0)) →
      s2.popLog = s.popLog → (∀ j, (s2.lgOf j).sinks = (s.lgOf j).sinks) →
      InvRg { s2.setTh i (fun t => { t with buf := rest, popped := t.popped ++ [st] }) with popLog := st :: s2.popLog } := by
    intro s2 hcf hR hw hp hl
    refine ⟨by show s2.cfg.replayCatchesPerEvent = true; rw [hcf]; exact h.rc, fun j r hr => hR j r hr, fun sid id => ?_⟩
    show bwcount s2.log sid id + ringPot s2 sid id ≤
      ((List.filter (logq id) (st :: s2.popLog)).map (fun x => ((s2.lgOf x.lg).sinks.count sid))).sum
    refine Nat.le_trans (hw sid id) ?_
    have hb := h.bound sid id
    unfold btBound at hb
    rw [hp]
    have hfun : (fun x : Stmt => (s2.lgOf x.lg).sinks.count sid) = (fun x : Stmt => (s.lgOf x.lg).sinks.count sid) :=
      funext (fun x => by rw [hl])
    rw [hfun]
    by_cases hcnd : logq id st = true
    · rw [if_pos hcnd, List.filter_cons_of_pos hcnd]
      simp only [List.map_cons, List.sum_cons]
      omega
    · rw [if_neg hcnd, List.filter_cons_of_neg hcnd]; omega
  have hpe := fun sid id => (processEvent_r h.rc h.ring st sid id)
  split
  · refine key _ hc.cfg (fun j r hr => (hpe 0 0).2 j r hr) (fun sid id => ?_) hc.popLog hlgs
    rw [bwcount_emit_nowrite _ _ rfl]
    exact (hpe sid id).1
  · exact key _ hc.cfg (hpe 0 0).2 (fun sid id => (hpe sid id).1) hc.popLog hlgs

theorem InvRg.closed : Closed InvRg where
  frame := fun _ _ h f => h.frame f
  refresh := fun s h => by
    unfold refreshCache; split
    · exact h.of_eq rfl rfl rfl rfl
    · exact h
  ctxEmpty := fun _ _ h => h.of_eq rfl rfl rfl rfl
  dropCtx := fun _ _ h _ _ _ => h.of_eq rfl rfl rfl rfl
  prepRead := fun _ _ h => h.of_eq rfl rfl rfl rfl
  commitRead := fun _ _ h => h.of_eq rfl rfl rfl rfl
  readOne := fun s i st rest h _ _ => by
    unfold PA.readOne
    dsimp only
    split <;> exact h.of_eq rfl rfl rfl rfl
  pop := fun _ i st rest h _ => h.pop i st rest
  failReset := fun s i h _ => by
    unfold PA.failReset
    exact h.mono rfl ⟨[_], rfl, by simp [isWriteEv]⟩ rfl (Nat.le_refl _) (fun _ _ => ⟨rfl, rfl⟩)
      (fun j hj => by
        show (s.lgOf j).bt = none
        rw [lgOf_default_of_ge s j hj]; rfl)
  front := fun s f h => h.ffr (applyFront_ffr s f)

end Backend.PA
