import QuillModel.Backend.ConsProofsDrop
/-!
C08 at the level of one call: what an enqueue attempt on a dropping queue does to the accepted histories, the
counters and the caller, for an ordinary log call (returns `false` ⇔ discarded) and for a control request
(never counted, retried); and what `_check_failure_counter` leaves behind.
-/
namespace Backend.PA
open Backend Spsc

theorem accs_of_ths {s s' : BSt} (h : s'.ths = s.ths) : accs s' = accs s := by simp only [accs, h]

/-- one reservation attempt: either the record is appended to the accepted history of the context, or nothing
    is; the counters are not touched -/
theorem tryEnq_accs (s : BSt) (ci : Nat) (st : Stmt) :
    accs (tryEnq s ci st).1 =
      (if (tryEnq s ci st).2 = true then updAt (accs s) ci (· ++ [{ st with enqAt := s.now }]) else accs s) := by
  unfold Backend.tryEnq
  dsimp only
  split
  · simp only [if_true, accs, BSt.setTh]
    exact map_updAt_comm s.ths ci _ _ _ (fun _ => rfl)
  · simp only [Bool.false_eq_true, if_false]
    exact accs_setTh s ci _ (fun _ => rfl)

/-- **an ordinary log call on a dropping queue** (`cont = 0`: the call that reports its return value), after
    the context was looked up / created (`ensureCtx`): if the reservation succeeds the observation is `ret=1`,
    the statement is appended to the accepted history of the caller's context and no counter moves; if it
    fails the observation is `ret=0`, nothing is appended anywhere, and `fail` and `discarded` of the caller's
    context go up by one. Nothing else happens in either case (the caller is not parked). -/
theorem enqFlow_log_outcome (s : BSt) (hd : s.cfg.dropping = true) (a : Nat) (st : Stmt) (hk : st.kind = .log) :
    (if (tryEnq (ensureCtx s a).1 (ensureCtx s a).2 st).2 = true then
       (enqFlow s a st 0 true).2 = obsLog st 0 (some true) st.size ∧
       accs (enqFlow s a st 0 true).1 =
         updAt (accs (ensureCtx s a).1) (ensureCtx s a).2 (· ++ [{ st with enqAt := (ensureCtx s a).1.now }]) ∧
       ctrs (enqFlow s a st 0 true).1 = ctrs (ensureCtx s a).1
     else
       (enqFlow s a st 0 true).2 = s!"id={st.id} ret=0 ev=1 bytes=0" ∧
       accs (enqFlow s a st 0 true).1 = accs (ensureCtx s a).1 ∧
       ctrs (enqFlow s a st 0 true).1 =
         updAt (ctrs (ensureCtx s a).1) (ensureCtx s a).2 (fun c => (c.1 + 1, c.2.1 + 1, c.2.2))) := by
  unfold Backend.enqFlow
  generalize Backend.ensureCtx s a = e
  obtain ⟨s1, ci⟩ := e
  dsimp only
  have hacc := tryEnq_accs s1 ci st
  obtain ⟨hctr, _, _⟩ := tryEnq_ctrs s1 ci st
  generalize Backend.tryEnq s1 ci st = e2 at hacc hctr ⊢
  obtain ⟨s2, ok⟩ := e2
  dsimp only at hacc hctr ⊢
  cases ok with
  | true =>
    simp only [if_true] at hacc ⊢
    have ha : afterEnq (s2.setActor a (fun x => { x with pend := .none })) a st 0 =
        (s2.setActor a (fun x => { x with pend := .none }), obsLog st 0 (some true) st.size) := by
      unfold Backend.afterEnq; rw [hk]; rfl
    rw [ha]
    exact ⟨rfl, hacc, hctr⟩
  | false =>
    simp only [Bool.false_eq_true, if_false] at hacc ⊢
    rw [if_pos hd]
    simp only [true_or, if_true, hk, isLogKind, hd]
    refine ⟨trivial, ?_, ?_⟩
    · show accs (s2.setTh ci _) = accs s1
      rw [accs_setTh]
      · exact hacc
      · intro _; rfl
    · show ctrs (s2.setTh ci _) = _
      rw [ctrs_setTh s2 ci _ (fun c => (c.1 + 1, c.2.1 + 1, c.2.2)) (fun _ => rfl), hctr]

/-- **a control request on a dropping queue** (flush, backtrace init / flush, logger removal: `cont ∉ {0, 5}`,
    not an `Event::Log`): no counter is ever touched; if the reservation fails nothing is appended and the
    caller is parked with `Pend.retry` — the request will be attempted again, it is not dropped -/
theorem enqFlow_control (s : BSt) (hd : s.cfg.dropping = true) (a : Nat) (st : Stmt) (cont : Nat) (first initial : Bool)
    (hk : isLogKind st.kind = false) (hc : cont ≠ 0 ∧ cont ≠ 5) :
    ctrs (enqFlow s a st cont first initial).1 = ctrs (ensureCtx s a).1 ∧
    ((tryEnq (ensureCtx s a).1 (ensureCtx s a).2 st).2 = false →
      (enqFlow s a st cont first initial).2 = "parked:sleep" ∧
      accs (enqFlow s a st cont first initial).1 = accs (ensureCtx s a).1 ∧
      ∀ x ∈ (enqFlow s a st cont first initial).1.actors, x.id = a → x.alive = true → x.pend = .retry st cont) := by
  unfold Backend.enqFlow
  generalize Backend.ensureCtx s a = e
  obtain ⟨s1, ci⟩ := e
  dsimp only
  have hacc := tryEnq_accs s1 ci st
  obtain ⟨hctr, _, _⟩ := tryEnq_ctrs s1 ci st
  generalize Backend.tryEnq s1 ci st = e2 at hacc hctr ⊢
  obtain ⟨s2, ok⟩ := e2
  dsimp only at hacc hctr ⊢
  cases ok with
  | true =>
    simp only [if_true]
    obtain ⟨a1, _, _⟩ := afterEnq_ctrs (s2.setActor a (fun x => { x with pend := .none })) a st cont
    exact ⟨a1.trans hctr, fun h => by cases h⟩
  | false =>
    simp only [Bool.false_eq_true, if_false] at hacc ⊢
    rw [if_pos hd]
    have hnc : ¬ (cont = 0 ∨ cont = 5) := fun h => h.elim hc.1 hc.2
    simp only [hk, Bool.false_eq_true, if_false, hnc]
    refine ⟨hctr, fun _ => ⟨trivial, hacc, ?_⟩⟩
    intro x hx hid hal
    obtain ⟨y, hy, rfl⟩ := mem_setActor hx
    by_cases hcnd : y.id = a ∧ y.alive = true
    · rw [if_pos hcnd]
    · rw [if_neg hcnd] at hid hal
      exact absurd ⟨hid, hal⟩ hcnd

/-- one step of `_check_failure_counter` without interference -/
def cfStep (s : BSt) (i : Nat) : BSt := if (s.th i).fail > 0 then failReset s i else s

theorem checkFailures_quiet (s : BSt) : checkFailures (fun x _ => x) s = s.cache.foldl cfStep s := rfl

theorem cfStep_facts (s : BSt) (x : Nat) :
    (∀ j, ((cfStep s x).th j).fail ≤ (s.th j).fail ∧ ((cfStep s x).th j).removed = (s.th j).removed) ∧
    ((cfStep s x).th x).fail = 0 ∧ (cfStep s x).cache = s.cache := by
  unfold cfStep
  refine ⟨fun j => ?_, ?_, ?_⟩
  · split
    · show (((s.setTh x (fun t => { t with fail := 0 })).th j).fail ≤ _) ∧
        ((s.setTh x (fun t => { t with fail := 0 })).th j).removed = _
      rw [th_setTh]; split
      · exact ⟨Nat.zero_le _, rfl⟩
      · exact ⟨Nat.le_refl _, rfl⟩
    · exact ⟨Nat.le_refl _, rfl⟩
  · split
    · next hf =>
      have hi : x < s.ths.length := by
        by_cases hi : x < s.ths.length
        · exact hi
        · rw [th_default_of_ge s x (by omega)] at hf; cases hf
      show ((s.setTh x (fun t => { t with fail := 0 })).th x).fail = 0
      rw [th_setTh_self _ _ _ hi]
    · omega
  · split <;> rfl

/-- `_check_failure_counter` run without interference (no frontend step while the notifier is called): every
    cached context ends with a zero failure counter; no counter of any context grows; the cache and the
    `removed` marks are untouched -/
theorem cfFold_clears : ∀ (l : List Nat) (s : BSt),
    (∀ j, ((l.foldl cfStep s).th j).fail ≤ (s.th j).fail) ∧ (∀ i ∈ l, ((l.foldl cfStep s).th i).fail = 0) ∧
    (l.foldl cfStep s).cache = s.cache ∧ (∀ j, ((l.foldl cfStep s).th j).removed = (s.th j).removed)
  | [], s => by
    refine ⟨fun _ => Nat.le_refl _, ?_, rfl, fun _ => rfl⟩
    intro i hi; cases hi
  | x :: xs, s => by
    rw [List.foldl_cons]
    obtain ⟨hstep, hx0, hcache⟩ := cfStep_facts s x
    obtain ⟨i1, i2, i3, i4⟩ := cfFold_clears xs (cfStep s x)
    refine ⟨fun j => Nat.le_trans (i1 j) (hstep j).1, ?_, i3.trans hcache, fun j => (i4 j).trans (hstep j).2⟩
    intro i hi
    rcases List.mem_cons.mp hi with rfl | hm
    · have := i1 i; omega
    · exact i2 i hm

/-! ### what the context clean-up removes -/

/-- relative to the state `s0` the clean-up started in: failure counters untouched, newly removed contexts come
    from the cache, the cache only shrinks -/
structure CleanRel (s0 s : BSt) : Prop where
  fail : ∀ j, (s.th j).fail = (s0.th j).fail
  rem : ∀ j, (s.th j).removed = true → (s0.th j).removed = true ∨ j ∈ s0.cache
  cache : ∀ j ∈ s.cache, j ∈ s0.cache

theorem CleanRel.ctxEmpty {s0 s : BSt} (h : CleanRel s0 s) (i : Nat) : CleanRel s0 (ctxEmpty s i).1 := by
  rw [ctxEmpty_fst]
  refine ⟨fun j => ?_, fun j hj => ?_, h.cache⟩
  · rw [th_setTh]; split <;> exact h.fail j
  · rw [th_setTh] at hj
    split at hj <;> exact h.rem j hj

theorem cleanFind_rel {s0 : BSt} : ∀ (l : List Nat) (s : BSt), CleanRel s0 s →
    CleanRel s0 (cleanupContexts.go.findFirst s l).1 ∧ ∀ i, (cleanupContexts.go.findFirst s l).2 = some i → i ∈ l
  | [], s, h => ⟨h, fun i hi => by simp [cleanupContexts.go.findFirst] at hi⟩
  | j :: rest, s, h => by
    unfold cleanupContexts.go.findFirst
    split
    · obtain ⟨a, b⟩ := cleanFind_rel rest s h
      exact ⟨a, fun i hi => List.mem_cons_of_mem _ (b i hi)⟩
    · dsimp only
      split
      · refine ⟨h.ctxEmpty j, fun i hi => ?_⟩
        simp only [Option.some.injEq] at hi
        rw [← hi]; exact List.mem_cons_self
      · obtain ⟨a, b⟩ := cleanFind_rel rest _ (h.ctxEmpty j)
        exact ⟨a, fun i hi => List.mem_cons_of_mem _ (b i hi)⟩

theorem cleanGo_rel {s0 : BSt} : ∀ (fuel : Nat) (s : BSt), CleanRel s0 s → CleanRel s0 (cleanupContexts.go fuel s)
  | 0, s, h => by unfold cleanupContexts.go; exact h
  | fuel + 1, s, h => by
    unfold cleanupContexts.go
    have hf := cleanFind_rel s.cache s h
    split
    · next s1 heq => rw [heq] at hf; exact hf.1
    · next s1 i heq =>
      rw [heq] at hf
      have hic : i ∈ s0.cache := h.cache i (hf.2 i rfl)
      apply cleanGo_rel fuel
      refine ⟨fun j => ?_, fun j hj => ?_, fun j hj => ?_⟩
      · rw [th_setTh]; split <;> exact hf.1.fail j
      · rw [th_setTh] at hj
        split at hj
        · next hc => rw [hc.1]; exact Or.inr hic
        · exact hf.1.rem j hj
      · exact hf.1.cache j (List.mem_filter.mp hj).1

theorem cleanupContexts_rel (s : BSt) : CleanRel s (cleanupContexts s) := by
  have h0 : CleanRel s s := ⟨fun _ => rfl, fun _ h => Or.inl h, fun _ h => h⟩
  unfold cleanupContexts
  split
  · exact h0
  · exact cleanGo_rel _ s h0

/-- **clean-up directly after the counter check**: if no frontend step runs between `_check_failure_counter` and
    `_cleanup_invalidated_thread_contexts` (over the same cache), every context the clean-up removes has a zero
    failure counter — its drops were reported -/
theorem cleanup_after_check (s : BSt) (j : Nat)
    (hr : ((cleanupContexts (checkFailures (fun x _ => x) s)).th j).removed = true) :
    (s.th j).removed = true ∨ ((cleanupContexts (checkFailures (fun x _ => x) s)).th j).fail = 0 := by
  have hrel := cleanupContexts_rel (checkFailures (fun x _ => x) s)
  rw [checkFailures_quiet] at hrel hr ⊢
  obtain ⟨_, i2, i3, i4⟩ := cfFold_clears s.cache s
  rcases hrel.rem j hr with h | h
  · left; rw [← i4 j]; exact h
  · right
    rw [hrel.fail j]
    exact i2 j (i3 ▸ h)

end Backend.PA
