import QuillModel.Backend.LoggerBack
import QuillModel.Backend.LevelProofs
/-!
Sinks, their liveness and the event log: the invariant `LS` (a dead sink is referenced neither by the user nor by
a logger object that is not erased; backtrace items belong to their logger; no event calls into a sink after its
destructor event) and its preservation by everything that writes to sinks (`writeToSinks`, replay, flush,
`processEvent`). Helper lemmas for C17.
-/
namespace Backend.PC
open Backend Spsc

/-! ### sinks: liveness, references, and the event log -/

def isDtor (sid : Nat) : Ev → Bool
  | .sinkDtor k => k == sid
  | _ => false

def usesSink (sid : Nat) : Ev → Bool
  | .write k _ _ _ _ => k == sid
  | .wthrow k _ => k == sid
  | .flushed k => k == sid
  | .fthrow k => k == sid
  | _ => false

/-- in a log (newest first): no event that calls into a sink is newer than that sink's destruction -/
def NoUAD : List Ev → Prop
  | [] => True
  | e :: rest => NoUAD rest ∧ ∀ sid, usesSink sid e = true → ∀ d ∈ rest, isDtor sid d = false

structure LS (s : BSt) : Prop where
  nodup : (s.sinks.map (·.sid)).Nodup
  dead : ∀ sid, (s.sinkOf sid).alive = false → (s.sinkOf sid).userRef = false ∧
    ∀ i, i < s.lgs.length → (s.lgOf i).erased = false → sid ∉ (s.lgOf i).sinks
  ring : ∀ i, i < s.lgs.length → ∀ r, (s.lgOf i).bt = some r → ∀ x ∈ r.items, x.lg = i
  nodtor : ∀ sid, (s.sinkOf sid).alive = true → ∀ d ∈ s.log, isDtor sid d = false
  nouad : NoUAD s.log

/-- every sink of a logger that is not erased is alive -/
theorem LS.sinks_alive {s : BSt} (h : LS s) (i : Nat) (he : (s.lgOf i).erased = false) :
    ∀ sid ∈ (s.lgOf i).sinks, (s.sinkOf sid).alive = true := by
  intro sid hsid
  by_cases hi : i < s.lgs.length
  · cases ha : (s.sinkOf sid).alive
    · exact absurd hsid ((h.dead sid ha).2 i hi he)
    · rfl
  · simp only [BSt.lgOf, List.getD_eq_getElem?_getD, List.getElem?_eq_none (by omega : s.lgs.length ≤ i)] at hsid
    cases hsid

/-- what `LS` reads of the sinks: every `sinkOf` up to the call counters, and the list of ids -/
def SinksEq (s s' : BSt) : Prop :=
  s'.sinks.map (·.sid) = s.sinks.map (·.sid) ∧ ∀ sid, SinkCfgEq (s.sinkOf sid) (s'.sinkOf sid)

theorem SinksEq.refl (s : BSt) : SinksEq s s := ⟨rfl, fun _ => SinkCfgEq.refl _⟩
theorem SinksEq.trans {a b c : BSt} (h1 : SinksEq a b) (h2 : SinksEq b c) : SinksEq a c :=
  ⟨h2.1.trans h1.1, fun sid => (h1.2 sid).trans (h2.2 sid)⟩

theorem setSink_sids (s : BSt) (sid : Nat) (f : Sink → Sink) (hf : ∀ x ∈ s.sinks, x.sid = sid → (f x).sid = sid) :
    (s.setSink sid f).sinks.map (·.sid) = s.sinks.map (·.sid) := by
  simp only [BSt.setSink, List.map_map]
  apply List.map_congr_left
  intro x hx
  simp only [Function.comp]
  split
  · rename_i h; rw [hf x hx h, h]
  · rfl

theorem sinkOf_sid_of_mem {s : BSt} {sid : Nat} (h : ∃ x ∈ s.sinks, x.sid = sid) : (s.sinkOf sid).sid = sid := by
  obtain ⟨x, hx, hxs⟩ := h
  cases hf : s.sinks.find? (·.sid = sid) with
  | none =>
    have := List.find?_eq_none.mp hf x hx
    simp [hxs] at this
  | some k => exact (sinkOf_mem s sid k hf).1 ▸ (sinkOf_mem s sid k hf).2

/-- bumping a call counter of sink `sid` -/
theorem SinksEq_bump (s : BSt) (sid : Nat) (k' : Sink) (hk : SinkCfgEq (s.sinkOf sid) k') :
    SinksEq s (s.setSink sid (fun _ => k')) := by
  refine ⟨?_, fun sid' => sinkOf_setSink_counters s sid k' hk sid'⟩
  apply setSink_sids
  intro x hx hxs
  rw [hk.1]; exact sinkOf_sid_of_mem ⟨x, hx, hxs⟩

/-- a step that keeps loggers (up to backtrace storage) and sinks (up to counters) and emits `evs` -/
structure OutStep (s s' : BSt) (evs : List Ev) : Prop where
  lg : LgKeep s s'
  sk : SinksEq s s'
  log : s'.log = evs ++ s.log

theorem OutStep.refl (s : BSt) : OutStep s s [] := ⟨LgKeep.refl s, SinksEq.refl s, rfl⟩
theorem OutStep.trans {a b c : BSt} {e1 e2 : List Ev} (h1 : OutStep a b e1) (h2 : OutStep b c e2) :
    OutStep a c (e2 ++ e1) :=
  ⟨h1.lg.trans h2.lg, h1.sk.trans h2.sk, by rw [h2.log, h1.log, List.append_assoc]⟩

/-- events that call only into sinks of the list `ok`, and are no destructions -/
def EvsOn (ok : List Nat) (evs : List Ev) : Prop :=
  ∀ e ∈ evs, (∀ sid, usesSink sid e = true → sid ∈ ok) ∧ ∀ sid, isDtor sid e = false

theorem NoUAD_append {evs log : List Ev} (ok : List Nat) (he : EvsOn ok evs) (hl : NoUAD log)
    (hok : ∀ sid ∈ ok, ∀ d ∈ log, isDtor sid d = false) : NoUAD (evs ++ log) := by
  induction evs with
  | nil => exact hl
  | cons e rest ih =>
    have hr : EvsOn ok rest := fun x hx => he x (List.mem_cons_of_mem _ hx)
    refine ⟨ih hr, ?_⟩
    intro sid hu d hd
    rcases List.mem_append.mp hd with hd | hd
    · exact (hr d hd).2 sid
    · exact hok sid ((he e List.mem_cons_self).1 sid hu) d hd

theorem OutStep_bump_emit (s : BSt) (sid : Nat) (k' : Sink) (hk : SinkCfgEq (s.sinkOf sid) k') (e : Ev) :
    OutStep s ((s.setSink sid (fun _ => k')).emit e) [e] :=
  ⟨LgKeep.of_lview (s' := (s.setSink sid (fun _ => k')).emit e) rfl,
   (SinksEq_bump s sid k' hk).trans ⟨rfl, fun _ => SinkCfgEq.refl _⟩, rfl⟩

theorem writeToSinks_out (st : Stmt) : ∀ (sids : List Nat) (s : BSt),
    ∃ evs, OutStep s (writeToSinks s st sids).1 evs ∧ EvsOn sids evs
  | [], s => ⟨[], OutStep.refl s, fun _ h => by cases h⟩
  | sid :: rest, s => by
    simp only [writeToSinks]
    have hb := fun e => OutStep_bump_emit s sid { s.sinkOf sid with wcalls := (s.sinkOf sid).wcalls + 1 } (bump_cfgEq _) e
    split
    · split
      · refine ⟨[.wthrow sid st.id], hb _, ?_⟩
        intro e he
        simp only [List.mem_singleton] at he; subst he
        exact ⟨fun k hk => by simp only [usesSink, beq_iff_eq] at hk; rw [← hk]; exact List.mem_cons_self, fun _ => rfl⟩
      · obtain ⟨evs, h1, h2⟩ := writeToSinks_out st rest
          ((s.setSink sid fun _ => { s.sinkOf sid with wcalls := (s.sinkOf sid).wcalls + 1 }).emit
            (Ev.write sid st.id st.lvl st.ts st.named))
        refine ⟨evs ++ [.write sid st.id st.lvl st.ts st.named], ?_, ?_⟩
        · exact OutStep.trans (hb _) h1
        · intro e he
          rcases List.mem_append.mp he with he | he
          · exact ⟨fun k hk => List.mem_cons_of_mem _ ((h2 e he).1 k hk), (h2 e he).2⟩
          · simp only [List.mem_singleton] at he; subst he
            exact ⟨fun k hk => by simp only [usesSink, beq_iff_eq] at hk; rw [← hk]; exact List.mem_cons_self,
              fun _ => rfl⟩
    · obtain ⟨evs, h1, h2⟩ := writeToSinks_out st rest s
      exact ⟨evs, h1, fun e he => ⟨fun k hk => List.mem_cons_of_mem _ ((h2 e he).1 k hk), (h2 e he).2⟩⟩


theorem EvsOn.mono {ok ok' : List Nat} {evs : List Ev} (h : EvsOn ok evs) (hs : ∀ x ∈ ok, x ∈ ok') : EvsOn ok' evs :=
  fun e he => ⟨fun sid hu => hs sid ((h e he).1 sid hu), (h e he).2⟩

theorem EvsOn.append {ok : List Nat} {e1 e2 : List Ev} (h1 : EvsOn ok e1) (h2 : EvsOn ok e2) : EvsOn ok (e1 ++ e2) := by
  intro e he
  rcases List.mem_append.mp he with he | he
  · exact h1 e he
  · exact h2 e he

theorem dispatch_out (s : BSt) (st : Stmt) :
    ∃ evs, OutStep s (dispatch s st).1 evs ∧ EvsOn (s.lgOf st.lg).sinks evs := writeToSinks_out st _ s

theorem OutStep_emit (s : BSt) (e : Ev) : OutStep s (s.emit e) [e] :=
  ⟨LgKeep.of_lview (s' := s.emit e) rfl, ⟨rfl, fun _ => SinkCfgEq.refl _⟩, rfl⟩

theorem replayGo_out (lgi : Nat) : ∀ (l : List Stmt) (s : BSt), (∀ x ∈ l, x.lg = lgi) →
    ∃ evs, OutStep s (replayRing.go s l).1 evs ∧ EvsOn (s.lgOf lgi).sinks evs
  | [], s, _ => ⟨[], OutStep.refl s, fun _ h => by cases h⟩
  | x :: xs, s, hl => by
    unfold replayRing.go
    simp only []
    obtain ⟨e1, h1, h2⟩ := dispatch_out s x
    rw [hl x List.mem_cons_self] at h2
    split
    · split
      · obtain ⟨e2, g1, g2⟩ := replayGo_out lgi xs ((dispatch s x).1.emit (.notify "n:wfail"))
          (fun y hy => hl y (List.mem_cons_of_mem _ hy))
        have h1' := h1.trans (OutStep_emit (dispatch s x).1 (.notify "n:wfail"))
        rw [(h1'.lg.2.2.2.2 lgi).2.2.2] at g2
        refine ⟨e2 ++ ([.notify "n:wfail"] ++ e1), h1'.trans g1, g2.append (EvsOn.append ?_ h2)⟩
        intro e he
        simp only [List.mem_singleton] at he; subst he
        exact ⟨fun sid h => by simp [usesSink] at h, fun _ => rfl⟩
      · exact ⟨e1, h1, h2⟩
    · obtain ⟨e2, g1, g2⟩ := replayGo_out lgi xs (dispatch s x).1 (fun y hy => hl y (List.mem_cons_of_mem _ hy))
      rw [(h1.lg.2.2.2.2 lgi).2.2.2] at g2
      exact ⟨e2 ++ e1, h1.trans g1, g2.append h2⟩

theorem OutStep.setLg_keep {s s' : BSt} {evs : List Ev} (h : OutStep s s' evs) (i : Nat) (f : Lg → Lg)
    (hf : ∀ l, (f l).gid = l.gid ∧ (f l).erased = l.erased ∧ (f l).valid = l.valid ∧ (f l).sinks = l.sinks) :
    OutStep s (s'.setLg i f) evs :=
  ⟨h.lg.trans (LgKeep.setLg s' i f hf), h.sk.trans ⟨rfl, fun _ => SinkCfgEq.refl _⟩, h.log⟩

theorem replayRing_out (s : BSt) (lgi : Nat)
    (hr : ∀ r, (s.lgOf lgi).bt = some r → ∀ x ∈ r.items, x.lg = lgi) :
    ∃ evs, OutStep s (replayRing s lgi).1 evs ∧ EvsOn (s.lgOf lgi).sinks evs := by
  unfold replayRing
  split
  · exact ⟨[], OutStep.refl s, fun _ h => by cases h⟩
  · rename_i r hbt
    simp only []
    have hall : ∀ x ∈ r.replay, x.lg = lgi := by
      intro x hx
      unfold Ring.replay at hx
      rcases List.mem_append.mp hx with hx | hx
      · exact hr r hbt x (List.mem_of_mem_drop hx)
      · exact hr r hbt x (List.mem_of_mem_take hx)
    obtain ⟨evs, h1, h2⟩ := replayGo_out lgi r.replay s hall
    split
    · exact ⟨evs, h1, h2⟩
    · exact ⟨evs, h1.setLg_keep _ _ (fun _ => ⟨rfl, rfl, rfl, rfl⟩), h2⟩

theorem flushSinks_out (s : BSt) : ∃ evs, OutStep s (flushSinks s) evs ∧ EvsOn (activeSinks s) evs := by
  unfold flushSinks
  generalize activeSinks s = l
  induction l generalizing s with
  | nil => exact ⟨[], OutStep.refl s, fun _ h => by cases h⟩
  | cons x xs ih =>
    simp only [List.foldl_cons]
    have hb : ∀ e, OutStep s ((s.setSink x fun _ => { s.sinkOf x with fcalls := (s.sinkOf x).fcalls + 1 }).emit e) [e] :=
      fun e => OutStep_bump_emit s x { s.sinkOf x with fcalls := (s.sinkOf x).fcalls + 1 } ⟨rfl, rfl, rfl, rfl, rfl, rfl, rfl, rfl⟩ e
    split
    · obtain ⟨evs, h1, h2⟩ := ih (((s.setSink x fun _ => { s.sinkOf x with fcalls := (s.sinkOf x).fcalls + 1 }).emit
        (.fthrow x)).emit (.notify "n:ffail"))
      refine ⟨evs ++ [.notify "n:ffail", .fthrow x], ?_, ?_⟩
      · have : OutStep s (((s.setSink x fun _ => { s.sinkOf x with fcalls := (s.sinkOf x).fcalls + 1 }).emit
            (.fthrow x)).emit (.notify "n:ffail")) [.notify "n:ffail", .fthrow x] :=
          ⟨(hb (.fthrow x)).lg.trans (LgKeep.of_lview rfl), (hb (.fthrow x)).sk.trans ⟨rfl, fun _ => SinkCfgEq.refl _⟩, rfl⟩
        exact this.trans h1
      · apply EvsOn.append (h2.mono (fun y hy => List.mem_cons_of_mem _ hy))
        intro e he
        simp only [List.mem_cons, List.not_mem_nil, or_false] at he
        rcases he with rfl | rfl
        · exact ⟨fun k hk => (by cases hk), fun _ => rfl⟩
        · exact ⟨fun k hk => (by simp only [usesSink, beq_iff_eq] at hk; rw [← hk]; exact List.mem_cons_self), fun _ => rfl⟩
    · obtain ⟨evs, h1, h2⟩ := ih ((s.setSink x fun _ => { s.sinkOf x with fcalls := (s.sinkOf x).fcalls + 1 }).emit
        (.flushed x))
      refine ⟨evs ++ [.flushed x], (hb _).trans h1, ?_⟩
      apply EvsOn.append (h2.mono (fun y hy => List.mem_cons_of_mem _ hy))
      intro e he
      simp only [List.mem_singleton] at he; subst he
      exact ⟨fun k hk => by simp only [usesSink, beq_iff_eq] at hk; rw [← hk]; exact List.mem_cons_self, fun _ => rfl⟩


theorem LS_out {s s' : BSt} {evs : List Ev} (h : LS s) (ho : OutStep s s' evs) (ok : List Nat) (he : EvsOn ok evs)
    (hok : ∀ sid ∈ ok, (s.sinkOf sid).alive = true)
    (hring : ∀ i, i < s'.lgs.length → ∀ r, (s'.lgOf i).bt = some r → ∀ x ∈ r.items, x.lg = i) : LS s' := by
  have hal : ∀ sid, (s'.sinkOf sid).alive = (s.sinkOf sid).alive := fun sid => (ho.sk.2 sid).2.2.2.2.2.2.2
  have hur : ∀ sid, (s'.sinkOf sid).userRef = (s.sinkOf sid).userRef := fun sid => (ho.sk.2 sid).2.2.2.2.2.2.1
  refine ⟨by rw [ho.sk.1]; exact h.nodup, ?_, hring, ?_, ?_⟩
  · intro sid ha
    rw [hal] at ha
    obtain ⟨h1, h2⟩ := h.dead sid ha
    refine ⟨by rw [hur]; exact h1, fun i hi he' => ?_⟩
    rw [ho.lg.2.2.2.1] at hi
    rw [(ho.lg.2.2.2.2 i).2.2.1] at he'
    rw [(ho.lg.2.2.2.2 i).2.2.2]
    exact h2 i hi he'
  · intro sid ha d hd
    rw [hal] at ha
    rw [ho.log] at hd
    rcases List.mem_append.mp hd with hd | hd
    · exact (he d hd).2 sid
    · exact h.nodtor sid ha d hd
  · rw [ho.log]
    exact NoUAD_append ok he h.nouad (fun sid hs d hd => h.nodtor sid (hok sid hs) d hd)

theorem replayGo_lview : ∀ (l : List Stmt) (s : BSt), lview (replayRing.go s l).1 = lview s
  | [], _ => rfl
  | x :: xs, s => by
    unfold replayRing.go
    simp only []
    split
    · split
      · rw [replayGo_lview xs]; exact writeToSinks_lview x _ s
      · exact writeToSinks_lview x _ s
    · rw [replayGo_lview xs]; exact writeToSinks_lview x _ s

theorem ring_of_lgs {s s' : BSt} (h : s'.lgs = s.lgs)
    (hr : ∀ i, i < s.lgs.length → ∀ r, (s.lgOf i).bt = some r → ∀ x ∈ r.items, x.lg = i) :
    ∀ i, i < s'.lgs.length → ∀ r, (s'.lgOf i).bt = some r → ∀ x ∈ r.items, x.lg = i := by
  intro i hi r hbt
  have : s'.lgOf i = s.lgOf i := by simp only [BSt.lgOf, h]
  rw [this] at hbt; rw [h] at hi
  exact hr i hi r hbt

theorem ring_setLg {s : BSt} (i : Nat) (f : Lg → Lg)
    (hr : ∀ j, j < s.lgs.length → ∀ r, (s.lgOf j).bt = some r → ∀ x ∈ r.items, x.lg = j)
    (hf : ∀ r', (f (s.lgOf i)).bt = some r' → ∀ x ∈ r'.items, x.lg = i ∨ ∃ r, (s.lgOf i).bt = some r ∧ x ∈ r.items) :
    ∀ j, j < (s.setLg i f).lgs.length → ∀ r, ((s.setLg i f).lgOf j).bt = some r → ∀ x ∈ r.items, x.lg = j := by
  intro j hj r hbt x hx
  rw [lgs_length_setLg] at hj
  rw [lgOf_setLg] at hbt
  split at hbt
  · rename_i hji
    obtain ⟨rfl, _⟩ := hji
    rcases hf r hbt x hx with h | ⟨r0, h1, h2⟩
    · exact h
    · exact hr j hj r0 h1 x h2
  · exact hr j hj r hbt x hx

theorem replayRing_ring {s : BSt} (lgi : Nat)
    (hr : ∀ j, j < s.lgs.length → ∀ r, (s.lgOf j).bt = some r → ∀ x ∈ r.items, x.lg = j) :
    ∀ j, j < (replayRing s lgi).1.lgs.length → ∀ r, ((replayRing s lgi).1.lgOf j).bt = some r → ∀ x ∈ r.items, x.lg = j := by
  unfold replayRing
  split
  · exact hr
  · rename_i r0 _
    simp only []
    have hlg : (replayRing.go s r0.replay).1.lgs = s.lgs := by
      have := replayGo_lview r0.replay s
      simp only [lview, Prod.mk.injEq] at this; exact this.2.1
    have h1 := ring_of_lgs hlg hr
    split
    · exact h1
    · apply ring_setLg _ _ h1
      intro r' hbt x hx
      simp only [Option.some.injEq] at hbt
      subst hbt
      cases hx

theorem store_items (r : Ring) (st x : Stmt) (h : x ∈ (r.store st).items) : x = st ∨ x ∈ r.items := by
  unfold Ring.store at h
  split at h
  · exact Or.inr h
  · split at h
    · rcases List.mem_append.mp h with h | h
      · exact Or.inr h
      · simp only [List.mem_singleton] at h; exact Or.inl h
    · simp only [] at h
      rcases List.mem_or_eq_of_mem_set h with h | h
      · exact Or.inr h
      · exact Or.inl h

theorem setCapacity_items (r : Ring) (c : Nat) (x : Stmt) (h : x ∈ (r.setCapacity c).items) : x ∈ r.items := by
  unfold Ring.setCapacity at h
  split at h
  · exact h
  · cases h


theorem activeSinks_alive {s : BSt} (h : LS s) : ∀ sid ∈ activeSinks s, (s.sinkOf sid).alive = true := by
  intro sid hs
  unfold activeSinks at hs
  simp only [] at hs
  rw [List.mem_eraseDups, List.mem_flatMap] at hs
  obtain ⟨l, hl, hsid⟩ := hs
  rw [mem_insSorted, List.mem_filter] at hl
  obtain ⟨hm, hc⟩ := hl
  simp only [Bool.and_eq_true, Bool.not_eq_true'] at hc
  obtain ⟨i, hi, rfl⟩ := List.getElem_of_mem hm
  have hlg : s.lgOf i = s.lgs[i] := by
    simp only [BSt.lgOf, List.getD_eq_getElem?_getD, List.getElem?_eq_getElem hi, Option.getD_some]
  apply h.sinks_alive i
  · rw [hlg]; exact hc.1
  · rw [hlg]; exact hsid

theorem LS_dispatch {s : BSt} (h : LS s) (st : Stmt) (he : (s.lgOf st.lg).erased = false) : LS (dispatch s st).1 := by
  obtain ⟨evs, h1, h2⟩ := dispatch_out s st
  refine LS_out h h1 _ h2 (h.sinks_alive st.lg he) ?_
  have : (dispatch s st).1.lgs = s.lgs := by
    have := writeToSinks_lview st (s.lgOf st.lg).sinks s
    simp only [lview, Prod.mk.injEq] at this; exact this.2.1
  exact ring_of_lgs this h.ring

theorem LS_replayRing {s : BSt} (h : LS s) (lgi : Nat) (he : (s.lgOf lgi).erased = false) : LS (replayRing s lgi).1 := by
  have hr : ∀ r, (s.lgOf lgi).bt = some r → ∀ x ∈ r.items, x.lg = lgi := by
    intro r hbt
    by_cases hi : lgi < s.lgs.length
    · exact h.ring lgi hi r hbt
    · simp only [BSt.lgOf, List.getD_eq_getElem?_getD, List.getElem?_eq_none (by omega : s.lgs.length ≤ lgi)] at hbt
      cases hbt
  obtain ⟨evs, h1, h2⟩ := replayRing_out s lgi hr
  exact LS_out h h1 _ h2 (h.sinks_alive lgi he) (replayRing_ring lgi h.ring)

theorem LS_setLg_bt {s : BSt} (h : LS s) (i : Nat) (f : Lg → Lg)
    (hf : ∀ l, (f l).gid = l.gid ∧ (f l).erased = l.erased ∧ (f l).valid = l.valid ∧ (f l).sinks = l.sinks)
    (hb : ∀ r', (f (s.lgOf i)).bt = some r' → ∀ x ∈ r'.items, x.lg = i ∨ ∃ r, (s.lgOf i).bt = some r ∧ x ∈ r.items) :
    LS (s.setLg i f) :=
  LS_out h ((OutStep.refl s).setLg_keep i f hf) [] (fun _ h => by cases h) (fun _ h => by cases h)
    (ring_setLg i f h.ring hb)

theorem LS_flushSinks {s : BSt} (h : LS s) : LS (flushSinks s) := by
  obtain ⟨evs, h1, h2⟩ := flushSinks_out s
  refine LS_out h h1 _ h2 (activeSinks_alive h) ?_
  have : (flushSinks s).lgs = s.lgs := by
    have := flushSinks_lview s
    simp only [lview, Prod.mk.injEq] at this; exact this.2.1
  exact ring_of_lgs this h.ring

theorem LS_processEvent {s : BSt} (h : LS s) (st : Stmt) (he : (s.lgOf st.lg).erased = false) :
    LS (processEvent s st).1 := by
  unfold processEvent
  split
  · split
    · simp only []
      have hd := LS_dispatch h st he
      have hed : ((dispatch s st).1.lgOf st.lg).erased = false := by
        rw [((dispatch_lgKeep s st).2.2.2.2 st.lg).2.2.1]; exact he
      split
      · exact hd
      · split
        · exact LS_replayRing hd st.lg hed
        · exact hd
    · split
      · rename_i ring hbt
        refine LS_setLg_bt h st.lg _ (by intro _; exact ⟨rfl, rfl, rfl, rfl⟩) ?_
        intro r' hr' x hx
        simp only [Option.some.injEq] at hr'
        subst hr'
        rcases store_items ring st x hx with hx | hx
        · left; rw [hx]
        · right; exact ⟨ring, hbt, hx⟩
      · exact h
  · rename_i cap fl _
    simp only []
    refine LS_setLg_bt h st.lg _ (by intro _; exact ⟨rfl, rfl, rfl, rfl⟩) ?_
    intro r' hr' x hx
    simp only [Option.some.injEq] at hr'
    subst hr'
    have hx' := setCapacity_items _ _ x hx
    right
    cases hb : (s.lgOf st.lg).bt with
    | none => rw [hb] at hx'; cases hx'
    | some r => rw [hb] at hx'; exact ⟨r, rfl, hx'⟩
  · exact LS_replayRing h st.lg he
  · exact LS_flushSinks h
  · exact h


/-- what `LS` reads -/
def sview (s : BSt) : List Sink × List (Bool × List Nat × Option Ring) × List Ev :=
  (s.sinks, s.lgs.map (fun l => (l.erased, l.sinks, l.bt)), s.log)

theorem lgOf_of_sview {s s' : BSt} (h : s'.lgs.map (fun l => (l.erased, l.sinks, l.bt)) = s.lgs.map (fun l => (l.erased, l.sinks, l.bt)))
    (j : Nat) : (s'.lgOf j).erased = (s.lgOf j).erased ∧ (s'.lgOf j).sinks = (s.lgOf j).sinks ∧
      (s'.lgOf j).bt = (s.lgOf j).bt := by
  have := congrArg (fun l => l[j]?) h
  simp only [List.getElem?_map] at this
  simp only [BSt.lgOf, List.getD_eq_getElem?_getD]
  cases h1 : s'.lgs[j]? <;> cases h2 : s.lgs[j]? <;> rw [h1, h2] at this <;> simp at this
  · exact ⟨rfl, rfl, rfl⟩
  · exact this

theorem LS_of_sview {s s' : BSt} (h : LS s) (hv : sview s' = sview s) : LS s' := by
  simp only [sview, Prod.mk.injEq] at hv
  obtain ⟨h1, h2, h3⟩ := hv
  have hlen : s'.lgs.length = s.lgs.length := by
    have := congrArg List.length h2; simpa using this
  have hso : ∀ sid, s'.sinkOf sid = s.sinkOf sid := fun sid => by simp only [BSt.sinkOf, h1]
  refine ⟨by rw [h1]; exact h.nodup, ?_, ?_, ?_, by rw [h3]; exact h.nouad⟩
  · intro sid ha
    rw [hso] at ha ⊢
    refine ⟨(h.dead sid ha).1, fun i hi he => ?_⟩
    obtain ⟨e1, e2, _⟩ := lgOf_of_sview h2 i
    rw [e2]; rw [e1] at he; rw [hlen] at hi
    exact (h.dead sid ha).2 i hi he
  · intro i hi r hbt
    obtain ⟨_, _, e3⟩ := lgOf_of_sview h2 i
    rw [e3] at hbt; rw [hlen] at hi
    exact h.ring i hi r hbt
  · intro sid ha d hd
    rw [hso] at ha; rw [h3] at hd
    exact h.nodtor sid ha d hd

theorem sview_setLg (s : BSt) (i : Nat) (f : Lg → Lg)
    (hf : ∀ l, (f l).erased = l.erased ∧ (f l).sinks = l.sinks ∧ (f l).bt = l.bt) :
    sview (s.setLg i f) = sview s := by
  simp only [sview, BSt.setLg]
  rw [map_updAt s.lgs i f _ (fun l => by simp only [(hf l).1, (hf l).2.1, (hf l).2.2])]

theorem LS_emit_plain {s : BSt} (h : LS s) (e : Ev) (hu : ∀ sid, usesSink sid e = false)
    (hd : ∀ sid, isDtor sid e = false) : LS (s.emit e) :=
  LS_out (s' := s.emit e) (evs := [e]) h ⟨LgKeep.of_lview rfl, SinksEq.refl s, rfl⟩ []
    (fun x hx => by
      have hx' : x = e := by simpa using hx
      subst hx'
      exact ⟨fun sid hs => (by rw [hu] at hs; cases hs), hd⟩)
    (fun _ h => by cases h) (ring_of_lgs rfl h.ring)

theorem sinkOf_setSink_ne (s : BSt) (sid sid' : Nat) (f : Sink → Sink) (hf : ∀ x, (f x).sid = x.sid) (h : sid' ≠ sid) :
    (s.setSink sid f).sinkOf sid' = s.sinkOf sid' := by
  have hfind : (s.setSink sid f).sinks.find? (·.sid = sid') =
      (s.sinks.find? (·.sid = sid')).map (fun x => if x.sid = sid then f x else x) := by
    simp only [BSt.setSink]
    apply find?_map_pres
    intro x _
    by_cases hx : x.sid = sid <;> simp [hx, hf]
  simp only [BSt.sinkOf, hfind]
  cases hf' : s.sinks.find? (·.sid = sid') with
  | none => rfl
  | some x =>
    have hx := (sinkOf_mem s sid' x hf').2
    have : ¬ x.sid = sid := fun e => h (hx.symm.trans e)
    simp [this]

theorem sinkOf_setSink_same (s : BSt) (sid : Nat) (f : Sink → Sink) (hf : ∀ x, (f x).sid = x.sid)
    (hex : ∃ x ∈ s.sinks, x.sid = sid) : (s.setSink sid f).sinkOf sid = f (s.sinkOf sid) := by
  have hfind : (s.setSink sid f).sinks.find? (·.sid = sid) =
      (s.sinks.find? (·.sid = sid)).map (fun x => if x.sid = sid then f x else x) := by
    simp only [BSt.setSink]
    apply find?_map_pres
    intro x _
    by_cases hx : x.sid = sid <;> simp [hx, hf]
  simp only [BSt.sinkOf, hfind]
  cases hf' : s.sinks.find? (·.sid = sid) with
  | none =>
    obtain ⟨x, hx, hxs⟩ := hex
    have := List.find?_eq_none.mp hf' x hx
    simp [hxs] at this
  | some x =>
    have hx := (sinkOf_mem s sid x hf').2
    simp [hx]

theorem sinkOf_default_of_not_mem (s : BSt) (sid : Nat) (h : ¬ ∃ x ∈ s.sinks, x.sid = sid) : s.sinkOf sid = default := by
  simp only [BSt.sinkOf]
  cases hf : s.sinks.find? (·.sid = sid) with
  | none => rfl
  | some x => exact absurd ⟨x, List.mem_of_find?_eq_some hf, (sinkOf_mem s sid x hf).2⟩ h

/-- changing one sink's fields other than its id, with control over `alive` and `userRef` -/
theorem LS_setSink {s : BSt} (h : LS s) (sid : Nat) (f : Sink → Sink) (hf : ∀ x, (f x).sid = x.sid)
    (hal : ∀ x, (f x).alive = x.alive) (hur : ∀ x, (f x).userRef = true → x.userRef = true) : LS (s.setSink sid f) := by
  have hso : ∀ sid', ((s.setSink sid f).sinkOf sid').alive = (s.sinkOf sid').alive ∧
      (((s.setSink sid f).sinkOf sid').userRef = true → (s.sinkOf sid').userRef = true) := by
    intro sid'
    by_cases hs : sid' = sid
    · subst hs
      by_cases hex : ∃ x ∈ s.sinks, x.sid = sid'
      · rw [sinkOf_setSink_same s sid' f hf hex]; exact ⟨hal _, hur _⟩
      · have h1 : (s.setSink sid' f).sinkOf sid' = default := by
          apply sinkOf_default_of_not_mem
          rintro ⟨x, hx, hxs⟩
          simp only [BSt.setSink, List.mem_map] at hx
          obtain ⟨y, hy, rfl⟩ := hx
          apply hex
          refine ⟨y, hy, ?_⟩
          split at hxs
          · rename_i hh; exact hh
          · exact hxs
        rw [h1, sinkOf_default_of_not_mem s sid' hex]; exact ⟨rfl, id⟩
    · rw [sinkOf_setSink_ne s sid sid' f hf hs]; exact ⟨rfl, id⟩
  refine ⟨?_, ?_, h.ring, ?_, h.nouad⟩
  · rw [setSink_sids s sid f (fun x _ hx => by rw [hf, hx])]; exact h.nodup
  · intro sid' ha
    rw [(hso sid').1] at ha
    obtain ⟨h1, h2⟩ := h.dead sid' ha
    refine ⟨?_, h2⟩
    cases hu : ((s.setSink sid f).sinkOf sid').userRef
    · rfl
    · rw [(hso sid').2 hu] at h1; cases h1
  · intro sid' ha d hd
    rw [(hso sid').1] at ha
    exact h.nodtor sid' ha d hd

end Backend.PC
