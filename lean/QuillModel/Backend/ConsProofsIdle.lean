import QuillModel.Backend.ConsProofsDropCall
/-!
The idle branch of `_poll` (flush sinks, check the failure counters, emptiness check, clean-ups) run without any
frontend step in between: afterwards every context still registered has a zero failure counter.
-/
namespace Backend.PA
open Backend Spsc

/-- an injection runner that runs no frontend step (it may only do bookkeeping covered by `Frame`) -/
def QuietInj (inj : BSt → Nat → BSt) : Prop := ∀ s site, Frame s (inj s site)

theorem runInj_nil_quiet : QuietInj (runInj []) := by
  intro s site
  unfold runInj
  exact Frame.of_eq rfl rfl rfl rfl rfl rfl rfl rfl rfl rfl rfl rfl rfl (fun _ h => h)

/-- one step of `_check_failure_counter` with a quiet runner -/
def cfStepQ (inj : BSt → Nat → BSt) (s : BSt) (i : Nat) : BSt := if (s.th i).fail > 0 then inj (failReset s i) 8 else s

theorem checkFailures_eq (inj : BSt → Nat → BSt) (s : BSt) : checkFailures inj s = s.cache.foldl (cfStepQ inj) s := rfl

theorem cfStepQ_facts {inj : BSt → Nat → BSt} (hq : QuietInj inj) (s : BSt) (x : Nat) :
    (∀ j, ((cfStepQ inj s x).th j).fail ≤ (s.th j).fail) ∧ ((cfStepQ inj s x).th x).fail = 0 ∧
    (cfStepQ inj s x).cache = s.cache ∧ (cfStepQ inj s x).registry = s.registry := by
  obtain ⟨h1, h2, h3⟩ := cfStep_facts s x
  have e : ∀ j, (cfStepQ inj s x).th j = (cfStep s x).th j := by
    intro j; unfold cfStepQ cfStep
    split
    · exact th_of_ths_eq (hq _ 8).ths j
    · rfl
  refine ⟨fun j => by rw [e]; exact (h1 j).1, by rw [e]; exact h2, ?_, ?_⟩
  · unfold cfStepQ; split
    · exact (hq _ 8).cache
    · rfl
  · unfold cfStepQ; split
    · exact (hq _ 8).registry
    · rfl

theorem cfFoldQ_clears {inj : BSt → Nat → BSt} (hq : QuietInj inj) : ∀ (l : List Nat) (s : BSt),
    (∀ j, ((l.foldl (cfStepQ inj) s).th j).fail ≤ (s.th j).fail) ∧
    (∀ i ∈ l, ((l.foldl (cfStepQ inj) s).th i).fail = 0) ∧
    (l.foldl (cfStepQ inj) s).cache = s.cache ∧ (l.foldl (cfStepQ inj) s).registry = s.registry
  | [], s => by
    refine ⟨fun _ => Nat.le_refl _, ?_, rfl, rfl⟩
    intro i hi; cases hi
  | x :: xs, s => by
    rw [List.foldl_cons]
    obtain ⟨hstep, hx0, hcache, hreg⟩ := cfStepQ_facts hq s x
    obtain ⟨i1, i2, i3, i4⟩ := cfFoldQ_clears hq xs (cfStepQ inj s x)
    refine ⟨fun j => Nat.le_trans (i1 j) (hstep j), ?_, i3.trans hcache, i4.trans hreg⟩
    intro i hi
    rcases List.mem_cons.mp hi with rfl | hm
    · have := i1 i; omega
    · exact i2 i hm

/-- relative to `s3`: failure counters unchanged, the registry only shrinks — closed under the housekeeping -/
theorem keepFail_closedH (s3 : BSt) :
    ClosedH (fun s => (∀ j, (s.th j).fail = (s3.th j).fail) ∧ ∀ j ∈ s.registry, j ∈ s3.registry) where
  frame := fun s s' h f => ⟨fun j => by rw [th_of_ths_eq f.ths]; exact h.1 j, fun j hj => h.2 j (f.registry ▸ hj)⟩
  refresh := fun s h => by
    unfold refreshCache; split
    · exact h
    · exact h
  ctxEmpty := fun s i h => by
    rw [ctxEmpty_fst]
    refine ⟨fun j => ?_, h.2⟩
    rw [th_setTh]; split <;> exact h.1 j
  dropCtx := fun s i h _ _ _ => by
    unfold PA.dropCtx
    refine ⟨fun j => ?_, fun j hj => ?_⟩
    · rw [th_setTh]
      split
      · show ((ctxEmpty s i).1.th j).fail = _
        rw [ctxEmpty_fst, th_setTh]; split <;> exact h.1 j
      · show ((ctxEmpty s i).1.th j).fail = _
        rw [ctxEmpty_fst, th_setTh]; split <;> exact h.1 j
    · exact h.2 j (List.mem_filter.mp hj).1

/-- the idle branch of `_poll` after the read pass -/
def idleTail (inj : BSt → Nat → BSt) (s1 : BSt) : BSt :=
  let s2 := inj s1 5
  let s3 := checkFailures inj (flushGate inj s2 s2.cfg.flushInterval)
  let r := allEmpty s3
  if r.2 then cleanupLoggers inj (preEraseFlush (cleanupContexts r.1)) else r.1

theorem poll_idle (inj : BSt → Nat → BSt) (s : BSt) (h : (populate inj s).2 = 0) :
    poll inj s = idleTail inj (populate inj s).1 := by
  unfold poll idleTail
  generalize populate inj s = pr at h ⊢
  obtain ⟨s1, count⟩ := pr
  dsimp only at h ⊢
  rw [if_neg (by simp [h])]

theorem flushGate_frame {inj : BSt → Nat → BSt} (hq : QuietInj inj) (s : BSt) (n : Nat) : Frame s (flushGate inj s n) := by
  unfold flushGate
  split
  · exact flushSinks_frame _
  · dsimp only
    split
    · have h1 : Frame (inj s 7) { inj s 7 with lastFlush := (inj s 7).now } :=
        Frame.of_eq rfl rfl rfl rfl rfl rfl rfl rfl rfl rfl rfl rfl rfl (fun _ hf => hf)
      exact ((hq s 7).trans h1).trans (flushSinks_frame _)
    · exact hq s 7

/-- **the idle pass drains the failure counters**: run without a frontend step in between, from a state whose cache
    covers the registry, it ends with `fail = 0` for every context that is still registered -/
theorem idleTail_clears {inj : BSt → Nat → BSt} (hq : QuietInj inj) (s1 : BSt)
    (hc : ∀ i ∈ s1.registry, i ∈ s1.cache) (i : Nat) (hi : i ∈ (idleTail inj s1).registry) :
    ((idleTail inj s1).th i).fail = 0 := by
  have f2 := (hq s1 5).trans (flushGate_frame hq (inj s1 5) (inj s1 5).cfg.flushInterval)
  obtain ⟨_, c2, c3, c4⟩ := cfFoldQ_clears hq (flushGate inj (inj s1 5) (inj s1 5).cfg.flushInterval).cache (flushGate inj (inj s1 5) (inj s1 5).cfg.flushInterval)
  rw [← checkFailures_eq] at c2 c3 c4
  -- in `s3` every registered context has a zero counter
  have h3 : ∀ j ∈ (checkFailures inj (flushGate inj (inj s1 5) (inj s1 5).cfg.flushInterval)).registry,
      ((checkFailures inj (flushGate inj (inj s1 5) (inj s1 5).cfg.flushInterval)).th j).fail = 0 := by
    intro j hj
    apply c2 j
    rw [f2.cache]
    apply hc
    rw [← f2.registry, ← c4]; exact hj
  have hH := keepFail_closedH (checkFailures inj (flushGate inj (inj s1 5) (inj s1 5).cfg.flushInterval))
  have hP0 : (fun s => (∀ j, (s.th j).fail = ((checkFailures inj (flushGate inj (inj s1 5) (inj s1 5).cfg.flushInterval)).th j).fail) ∧
      ∀ j ∈ s.registry, j ∈ (checkFailures inj (flushGate inj (inj s1 5) (inj s1 5).cfg.flushInterval)).registry)
      (checkFailures inj (flushGate inj (inj s1 5) (inj s1 5).cfg.flushInterval)) := ⟨fun _ => rfl, fun _ h => h⟩
  have hA := allEmpty_closed hH _ hP0
  have hF : (∀ j, ((idleTail inj s1).th j).fail = ((checkFailures inj (flushGate inj (inj s1 5) (inj s1 5).cfg.flushInterval)).th j).fail) ∧
      ∀ j ∈ (idleTail inj s1).registry, j ∈ (checkFailures inj (flushGate inj (inj s1 5) (inj s1 5).cfg.flushInterval)).registry := by
    unfold idleTail
    dsimp only
    split
    · exact cleanupLoggers_closed hH inj (fun s site hs => hH.frame s _ hs (hq s site)) _ (preEraseFlush_closed hH _ (cleanupContexts_closed hH _ hA))
    · exact hA
  rw [hF.1 i]
  exact h3 i (hF.2 i hi)

end Backend.PA
