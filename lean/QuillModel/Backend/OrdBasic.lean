import QuillModel.Backend.Ops
/-!
Accessor lemmas for the backend model used by the ordering / flush proofs (C05, C06): how `th`, `actor` and the
other projections see through `setTh`, `setActor`, `setLg`, `setSink`, `emit`.
-/
namespace Backend.PB
open Backend

/-! ### `updAt` / `setTh` -/

theorem length_updAt {α} (l : List α) (i : Nat) (f : α → α) : (updAt l i f).length = l.length := by
  simp [updAt]

theorem getD_updAt {α} (l : List α) (i j : Nat) (f : α → α) (d : α) :
    (updAt l i f).getD j d = if j = i ∧ j < l.length then f (l.getD j d) else l.getD j d := by
  unfold updAt
  simp only [List.getD_eq_getElem?_getD, List.getElem?_mapIdx]
  by_cases hj : j < l.length
  · simp only [List.getElem?_eq_getElem hj, Option.map_some, Option.getD_some, hj, and_true]
  · simp [hj]

theorem th_setTh (s : BSt) (i j : Nat) (f : Th → Th) :
    (s.setTh i f).th j = if j = i ∧ j < s.ths.length then f (s.th j) else s.th j := by
  simp only [BSt.th, BSt.setTh, getD_updAt]

theorem th_setTh_cases (s : BSt) (i j : Nat) (f : Th → Th) :
    (s.setTh i f).th j = s.th j ∨ (j = i ∧ j < s.ths.length ∧ (s.setTh i f).th j = f (s.th i)) := by
  rw [th_setTh]
  by_cases h : j = i ∧ j < s.ths.length
  · right; rw [if_pos h]; exact ⟨h.1, h.2, by rw [h.1]⟩
  · left; rw [if_neg h]

theorem th_setTh_ne (s : BSt) {i j : Nat} (f : Th → Th) (h : j ≠ i) : (s.setTh i f).th j = s.th j := by
  rw [th_setTh, if_neg (fun hh => h hh.1)]

theorem th_setTh_same (s : BSt) {i : Nat} (f : Th → Th) (h : i < s.ths.length) : (s.setTh i f).th i = f (s.th i) := by
  rw [th_setTh, if_pos ⟨rfl, h⟩]

@[simp] theorem length_setTh (s : BSt) (i : Nat) (f : Th → Th) : (s.setTh i f).ths.length = s.ths.length := by
  simp [BSt.setTh, length_updAt]

theorem th_lt_or_default (s : BSt) (i : Nat) : s.ths.length ≤ i → s.th i = default := by
  intro h; simp [BSt.th, List.getD_eq_getElem?_getD, List.getElem?_eq_none h]

theorem th_mem (s : BSt) {i : Nat} (h : i < s.ths.length) : s.th i ∈ s.ths := by
  simp only [BSt.th, List.getD_eq_getElem?_getD, List.getElem?_eq_getElem h, Option.getD_some]
  exact List.getElem_mem h

theorem mem_ths (s : BSt) {t : Th} (h : t ∈ s.ths) : ∃ i, i < s.ths.length ∧ s.th i = t := by
  obtain ⟨i, hi, rfl⟩ := List.getElem_of_mem h
  exact ⟨i, hi, by simp [BSt.th, List.getD_eq_getElem?_getD, List.getElem?_eq_getElem hi]⟩

/-- appending a context -/
theorem th_append (s : BSt) (t : Th) (j : Nat) :
    (s.ths ++ [t]).getD j default = if j = s.ths.length then t else s.th j := by
  simp only [BSt.th, List.getD_eq_getElem?_getD]
  by_cases h1 : j < s.ths.length
  · rw [List.getElem?_append_left h1, if_neg (Nat.ne_of_lt h1)]
  · by_cases h2 : j = s.ths.length
    · subst h2; simp
    · have h3 : s.ths.length < j := by omega
      rw [if_neg h2, List.getElem?_eq_none (by simp; omega), List.getElem?_eq_none (by omega)]

/-! ### actors -/

theorem actor_spec {s : BSt} {a : Nat} {x : Actor} (h : s.actor a = some x) : x.id = a ∧ x.alive = true := by
  have := List.find?_some h
  simpa using this

theorem find_map_ne (l : List Actor) (a b : Nat) (g : Actor → Actor) (hid : ∀ x, (g x).id = x.id) (h : b ≠ a) :
    (l.map (fun x => if x.id = a ∧ x.alive then g x else x)).find? (fun x => x.id = b ∧ x.alive) =
      l.find? (fun x => x.id = b ∧ x.alive) := by
  induction l with
  | nil => rfl
  | cons x xs ih =>
    simp only [List.map_cons, List.find?_cons]
    by_cases hx : x.id = a ∧ x.alive
    · have h1 : ¬ (x.id = b ∧ x.alive = true) := fun hh => h (hh.1.symm.trans hx.1)
      have h2 : ¬ ((g x).id = b ∧ (g x).alive = true) := by rw [hid]; exact fun hh => h (hh.1.symm.trans hx.1)
      rw [if_pos hx, decide_eq_false h1, decide_eq_false h2]; exact ih
    · rw [if_neg hx, ih]

theorem find_map_same (l : List Actor) (a : Nat) (g : Actor → Actor) (hid : ∀ x, (g x).id = x.id)
    (hal : ∀ x, (g x).alive = x.alive) :
    (l.map (fun x => if x.id = a ∧ x.alive then g x else x)).find? (fun x => x.id = a ∧ x.alive) =
      (l.find? (fun x => x.id = a ∧ x.alive)).map g := by
  induction l with
  | nil => rfl
  | cons x xs ih =>
    simp only [List.map_cons, List.find?_cons]
    by_cases hx : x.id = a ∧ x.alive
    · have : (g x).id = a ∧ (g x).alive := by rw [hid, hal]; exact hx
      rw [if_pos hx, decide_eq_true this, decide_eq_true hx]; rfl
    · rw [if_neg hx, decide_eq_false hx]; exact ih

theorem find_map_kill (l : List Actor) (a : Nat) (g : Actor → Actor)
    (hal : ∀ x, (g x).alive = false) :
    (l.map (fun x => if x.id = a ∧ x.alive then g x else x)).find? (fun x => x.id = a ∧ x.alive) = none := by
  induction l with
  | nil => rfl
  | cons x xs ih =>
    simp only [List.map_cons, List.find?_cons]
    by_cases hx : x.id = a ∧ x.alive
    · have : ¬ ((g x).id = a ∧ (g x).alive = true) := by rw [hal]; simp
      rw [if_pos hx, decide_eq_false this]; exact ih
    · rw [if_neg hx, decide_eq_false hx]; exact ih

theorem actor_setActor_ne (s : BSt) {a b : Nat} (g : Actor → Actor) (hid : ∀ x, (g x).id = x.id) (h : b ≠ a) :
    (s.setActor a g).actor b = s.actor b := find_map_ne s.actors a b g hid h

theorem actor_setActor_same (s : BSt) (a : Nat) (g : Actor → Actor) (hid : ∀ x, (g x).id = x.id)
    (hal : ∀ x, (g x).alive = x.alive) : (s.setActor a g).actor a = (s.actor a).map g :=
  find_map_same s.actors a g hid hal

theorem actor_setActor_kill (s : BSt) (a : Nat) (g : Actor → Actor) (hal : ∀ x, (g x).alive = false) :
    (s.setActor a g).actor a = none := find_map_kill s.actors a g hal

theorem actor_append (s : BSt) (a b : Nat) (h : s.actor a = none) :
    ({ s with actors := s.actors ++ [{ id := a }] } : BSt).actor b = if b = a then some { id := a } else s.actor b := by
  unfold BSt.actor at *
  simp only [List.find?_append]
  by_cases hb : b = a
  · subst hb
    rw [h, if_pos rfl]
    simp
  · rw [if_neg hb]
    have : ¬ (a = b ∧ True) := fun hh => hb hh.1.symm
    simp only [List.find?_cons, decide_eq_false this, List.find?_nil, Option.or_none]

end Backend.PB
