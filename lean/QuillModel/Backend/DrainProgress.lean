import QuillModel.Backend.DrainProofs
/-!
Progress of the exit loop: the number of waiting statements (`pendingTotal`) never grows during the drain, every
processed event takes exactly one out, and the loop ends within `pendingTotal + 1` iterations provided every
iteration that does not find everything empty makes progress. Helper lemmas for C07 (drain part).
-/
namespace Backend.PC
open Backend Spsc

/-- number of statements waiting in transit buffers and queues -/
def pendingTotal (s : BSt) : Nat := ((bq s).map (fun p => p.1.length + p.2.length)).sum

theorem pendingTotal_of_bq {s s' : BSt} (h : bq s' = bq s) : pendingTotal s' = pendingTotal s := by
  unfold pendingTotal; rw [h]

theorem updAt_eq_set {α} (l : List α) (i : Nat) (f : α → α) (hi : i < l.length) : updAt l i f = l.set i (f l[i]) := by
  apply List.ext_getElem?
  intro j
  simp only [updAt, List.getElem?_mapIdx, List.getElem?_set]
  by_cases hj : i = j
  · subst hj; simp [hi]
  · have hj' : ¬ j = i := fun e => hj e.symm
    simp only [hj, if_false, hj']
    cases l[j]? <;> rfl

theorem sum_map_set {α} (g : α → Nat) : ∀ (l : List α) (i : Nat) (x : α) (hi : i < l.length),
    ((l.set i x).map g).sum + g l[i] = (l.map g).sum + g x
  | [], _, _, hi => by cases hi
  | y :: ys, 0, x, _ => by simp only [List.set_cons_zero, List.map_cons, List.sum_cons, List.getElem_cons_zero]; omega
  | y :: ys, i + 1, x, hi => by
    simp only [List.set_cons_succ, List.map_cons, List.sum_cons, List.getElem_cons_succ]
    have := sum_map_set g ys i x (by simpa using hi)
    omega

/-- effect on the number of waiting statements of an update of context `i` -/
theorem pendingTotal_setTh (s : BSt) (i : Nat) (f : Th → Th) (hi : i < s.ths.length) :
    pendingTotal (s.setTh i f) + ((s.th i).buf.length + (s.th i).qStmts.length) =
      pendingTotal s + ((f (s.th i)).buf.length + (f (s.th i)).qStmts.length) := by
  have hth : s.th i = s.ths[i] := by
    simp only [BSt.th, List.getD_eq_getElem?_getD, List.getElem?_eq_getElem hi, Option.getD_some]
  unfold pendingTotal bq
  simp only [BSt.setTh, List.map_map]
  rw [updAt_eq_set _ _ _ hi]
  have := sum_map_set ((fun p : List Stmt × List Stmt => p.1.length + p.2.length) ∘ fun t : Th => (t.buf, t.qStmts))
    s.ths i (f s.ths[i]) hi
  simp only [Function.comp] at this ⊢
  rw [hth]
  exact this

theorem buf_lt {s : BSt} {i : Nat} {st : Stmt} {rest : List Stmt} (hb : (s.th i).buf = st :: rest) :
    i < s.ths.length := by
  by_cases hi : i < s.ths.length
  · exact hi
  · simp only [BSt.th, List.getD_eq_getElem?_getD, List.getElem?_eq_none (by omega : s.ths.length ≤ i)] at hb
    cases hb

theorem qStmts_lt {s : BSt} {i : Nat} {st : Stmt} {rest : List Stmt} (hq : (s.th i).qStmts = st :: rest) :
    i < s.ths.length := by
  by_cases hi : i < s.ths.length
  · exact hi
  · simp only [BSt.th, List.getD_eq_getElem?_getD, List.getElem?_eq_none (by omega : s.ths.length ≤ i)] at hq
    cases hq

/-- reading a record moves it from the queue to the transit buffer: nothing is gained or lost -/
theorem pendingTotal_readOneSt (s : BSt) (i : Nat) (st : Stmt) (rest : List Stmt) (hq : (s.th i).qStmts = st :: rest) :
    pendingTotal (readOneSt s i st rest) = pendingTotal s := by
  have hi := qStmts_lt hq
  have h1 : bq (decodeSt (readPrepSt s i) st) = bq s := by
    have : bq (decodeSt (readPrepSt s i) st) = bq (readPrepSt s i) := by unfold decodeSt; split <;> rfl
    rw [this]; unfold readPrepSt; exact bq_setTh _ _ _ (fun _ => rfl) (fun _ => rfl)
  have hth := th_of_bq h1 i
  have hlen : (decodeSt (readPrepSt s i) st).ths.length = s.ths.length := by
    have := congrArg List.length h1; simpa [bq] using this
  have := pendingTotal_setTh (decodeSt (readPrepSt s i) st) i
    (fun t => { t with q := qFinishRead (decodeSt (readPrepSt s i) st).cfg t.q st.size, qStmts := rest, buf := t.buf ++ [st] })
    (by rw [hlen]; exact hi)
  simp only [] at this
  rw [hth.1, hth.2, hq, pendingTotal_of_bq h1] at this
  simp only [List.length_append, List.length_singleton, List.length_cons, List.length_nil] at this
  unfold readOneSt moveSt
  omega

/-- processing an event takes exactly one statement out of the transit buffers -/
theorem pendingTotal_popSt (s : BSt) (i : Nat) (st : Stmt) (rest : List Stmt) (hb : (s.th i).buf = st :: rest) :
    pendingTotal (popSt s i st rest) + 1 = pendingTotal s := by
  have hi := buf_lt hb
  have hpe : bq (processEvent s st).1 = bq s := bq_of_stripOut (processEvent_strip s st)
  have h2 : ∀ X : BSt, bq X = bq s →
      pendingTotal ({ X.setTh i (fun t => { t with buf := rest, popped := t.popped ++ [st] }) with popLog := st :: X.popLog } : BSt) + 1
        = pendingTotal s := by
    intro X hX
    have hth := th_of_bq hX i
    have hlen : X.ths.length = s.ths.length := by
      have := congrArg List.length hX; simpa [bq] using this
    have := pendingTotal_setTh X i (fun t => { t with buf := rest, popped := t.popped ++ [st] }) (by rw [hlen]; exact hi)
    simp only [] at this
    rw [hth.1, hth.2, hb, pendingTotal_of_bq hX] at this
    simp only [List.length_cons] at this
    have e : pendingTotal ({ X.setTh i (fun t => { t with buf := rest, popped := t.popped ++ [st] }) with popLog := st :: X.popLog } : BSt)
        = pendingTotal (X.setTh i (fun t => { t with buf := rest, popped := t.popped ++ [st] })) := rfl
    rw [e]; omega
  unfold popSt
  simp only []
  split
  · exact h2 _ hpe
  · exact h2 _ hpe


theorem bq_hasPending (s : BSt) : bq (hasPending s).1 = bq s := by
  unfold hasPending
  simp only []
  apply foldl_pres_pair (fun x => bq x = bq s)
  · intro acc i h
    split
    · exact h
    · split
      · exact (bq_setTh acc.1 i _ (by intro _; rfl) (by intro _; rfl)).trans h
      · exact h
  · exact bq_refresh s

/-- "at most `N` statements are waiting" is stable under everything the backend does -/
theorem pending_closedB (N : Nat) : ClosedB (fun x => pendingTotal x ≤ N) where
  siteCnt := fun _ _ h => h
  emitInj := fun _ _ _ _ _ h => h
  note := fun _ h => h
  clock := fun _ _ h => h
  lastFlush := fun _ _ h => h
  gone := fun _ h => h
  refresh := fun s h => by rw [pendingTotal_of_bq (bq_refresh s)]; exact h
  allEmpty := fun s h => by rw [pendingTotal_of_bq (bq_allEmpty s)]; exact h
  hasPending := fun s h => by rw [pendingTotal_of_bq (bq_hasPending s)]; exact h
  cleanupContexts := fun s h => by rw [pendingTotal_of_bq (bq_cleanupContexts s)]; exact h
  invFlag := fun _ _ h => h
  erase := fun s i h _ _ => by
    have e : bq ((allEmpty s).1.setLg i (fun l => { l with erased := true })) = bq s := bq_allEmpty s
    rw [pendingTotal_of_bq e]; exact h
  reap := fun _ _ h _ _ => h
  flagRemoval := fun _ _ _ _ _ h _ _ => h
  flushSinks := fun s h => by rw [pendingTotal_of_bq (bq_flushSinks s)]; exact h
  readPrep := fun s i h => by
    rw [pendingTotal_of_bq (by unfold readPrepSt; exact bq_setTh _ _ _ (fun _ => rfl) (fun _ => rfl))]; exact h
  commit := fun s i h => by
    rw [pendingTotal_of_bq (by unfold commitSt; exact bq_setTh _ _ _ (fun _ => rfl) (fun _ => rfl))]; exact h
  readOne := fun s i st rest h _ hq => by rw [pendingTotal_readOneSt s i st rest hq]; exact h
  report := fun s i h _ => by rw [pendingTotal_of_bq (bq_reportSt s i)]; exact h
  pop := fun s i st rest h _ hb => by have := pendingTotal_popSt s i st rest hb; omega
  raise := fun _ _ h _ => h

/-- **one iteration of the exit loop never adds a waiting statement** -/
theorem exitBody_pending_le (tick : Nat) (s : BSt) : pendingTotal (exitBody (runInj []) tick s) ≤ pendingTotal s := by
  have hc := pending_closedB (pendingTotal s)
  have hi := runInj_nil_ok hc
  unfold exitBody
  simp only []
  have h2 := populate_ok hc hi _ (hc.clock _ ((allEmpty s).1.now + tick) (hc.allEmpty s (Nat.le_refl _)))
  split
  · exact batchLoop_ok hc hi _ _ h2
  · exact h2

theorem exitLoop_pending_le (tick : Nat) : ∀ (fuel : Nat) (s : BSt),
    pendingTotal (exitLoop (runInj []) tick fuel s) ≤ pendingTotal s
  | 0, _ => Nat.le_refl _
  | fuel + 1, s => by
    rw [exitLoop_succ]
    split
    · unfold exitFinal
      have e : bq (cleanupLoggers (runInj []) (preEraseFlush (cleanupContexts (flushSinks (checkFailures (runInj []) (allEmpty s).1))))) = bq s := by
        rw [bq_cleanupLoggers _ runInj_nil_quiet9, bq_preEraseFlush, bq_cleanupContexts, bq_flushSinks, bq_checkFailures_nil, bq_allEmpty]
      rw [pendingTotal_of_bq e]
      exact Nat.le_refl _
    · exact Nat.le_trans (exitLoop_pending_le tick fuel _) (exitBody_pending_le tick s)

/-- **each processed event takes exactly one statement out of the waiting ones** -/
theorem processLowest_pending (s : BSt) (h : (processLowest (runInj []) s).2 = true) :
    pendingTotal (processLowest (runInj []) s).1 + 1 = pendingTotal s := by
  rw [processLowest_eq] at h ⊢
  cases hl : lowest s with
  | none => rw [hl] at h; cases h
  | some i =>
    rw [hl] at h
    simp only [] at h ⊢
    cases hb : (s.th i).buf with
    | nil => rw [hb] at h; cases h
    | cons st rest =>
      simp only []
      have hp := pendingTotal_popSt s i st rest hb
      have e : ∀ f, bq (raiseSt (cleanupContexts (if (popSt s i st rest).cfg.reportBeforeFlushCleanup = true
          then checkFailures (runInj []) (popSt s i st rest) else popSt s i st rest)) f) = bq (popSt s i st rest) := by
        intro f
        show bq (cleanupContexts _) = _
        rw [bq_cleanupContexts]
        split
        · exact bq_checkFailures_nil _
        · rfl
      split
      · rw [pendingTotal_of_bq (e _)]; exact hp
      · exact hp

/-- the `n`-th state of the exit loop (as long as it keeps going) -/
def exitIter (inj : BSt → Nat → BSt) (tick : Nat) : Nat → BSt → BSt
  | 0, s => s
  | n + 1, s => exitIter inj tick n (exitBody inj tick s)

/-- **termination, conditionally**: if every iteration that does not find everything empty takes at least one
    statement out of the waiting ones, the loop reaches its "everything is empty" branch within
    `pendingTotal s + 1` iterations -/
theorem exit_terminates_of_progress (inj : BSt → Nat → BSt) (tick : Nat) : ∀ (fuel : Nat) (s : BSt),
    (∀ n, (allEmpty (exitIter inj tick n s)).2 = false →
      pendingTotal (exitBody inj tick (exitIter inj tick n s)) < pendingTotal (exitIter inj tick n s)) →
    pendingTotal s < fuel → exitEnds inj tick fuel s
  | 0, _, _, hf => by omega
  | fuel + 1, s, hp, hf => by
    cases he : (allEmpty s).2
    · right
      refine ⟨he, ?_⟩
      have h0 := hp 0 he
      apply exit_terminates_of_progress inj tick fuel
      · intro n hn; exact hp (n + 1) hn
      · have : pendingTotal (exitBody inj tick s) < pendingTotal s := h0
        omega
    · exact Or.inl he

end Backend.PC
