import QuillModel.Backend.OrdBack1
/-!
Reading a queue (the do-while rule), the minimum front, and popping it (the crux of C05).
-/
namespace Backend.PB
open Backend

variable {c : Cfg} {fl : Nat} {T : Nat → Prop} {C : List Nat} {s : BSt}

/-! ### reading a queue -/

/-- context `i` needs no further reading in this pass -/
theorem PI.cover (h : PI c none fl T C s) (i : Nat)
    (hl : c.grace ≠ 0 → c.refreshAfterSample = true → (s.th i).buf = [] → ∀ st ∈ (s.th i).qStmts, fl ≤ st.ts) :
    PI c none fl (fun j => T j ∧ j ≠ i) C s :=
  { h with ord := fun hg0 hr0 hp => { h.ord hg0 hr0 hp with
      late := fun j hj hT hb => by
        by_cases hji : j = i
        · subst hji; exact hl hg0 hr0 hb
        · exact (h.ord hg0 hr0 hp).late j hj (fun ht => hT ⟨ht, hji⟩) hb } }

/-- one record moves from the queue of a cached context to its transit buffer -/
theorem PI.move (h : PI c none fl T C s) (i : Nat) (hc : i ∈ s.cache) (st : Stmt) (rest : List Stmt)
    (hq : (s.th i).qStmts = st :: rest) (hst : c.grace ≠ 0 → c.refreshAfterSample = true → st.ts ≤ fl) (f : Th → Th)
    (hf : (f (s.th i)).buf = (s.th i).buf ++ [st] ∧ (f (s.th i)).qStmts = rest ∧
      (f (s.th i)).accepted = (s.th i).accepted ∧ (f (s.th i)).q.wpos = (s.th i).q.wpos ∧
      (f (s.th i)).q.wHist.headD 0 = (s.th i).q.wHist.headD 0 ∧ (f (s.th i)).q.rpos = (s.th i).q.rpos + st.size ∧
      (f (s.th i)).valid = (s.th i).valid ∧ (f (s.th i)).q.wcache = (s.th i).q.wcache ∧
      (f (s.th i)).q.cap = (s.th i).q.cap)
    (hne : (s.th i).q.wcache ≠ (s.th i).q.rpos) :
    PI c none fl (fun j => T j ∧ j ≠ i) C (s.setTh i f) := by
  obtain ⟨f1, f2, f3, f4, f5, f6, f7, f8, f9⟩ := hf
  have hchain : chain (f (s.th i)) = chain (s.th i) := by
    simp only [chain, f1, f2, hq, List.append_assoc, List.singleton_append]
  have hcases : ∀ j, (s.setTh i f).th j = s.th j ∨ (j = i ∧ (s.setTh i f).th j = f (s.th i)) := by
    intro j; rcases th_setTh_cases s i j f with h1 | ⟨h1, _, h2⟩
    · exact Or.inl h1
    · exact Or.inr ⟨h1, h2⟩
  have hch : ∀ j, chain ((s.setTh i f).th j) = chain (s.th j) := by
    intro j; rcases hcases j with h1 | ⟨rfl, h1⟩
    · rw [h1]
    · rw [h1, hchain]
  have hprem : PremI (s.setTh i f) → PremI s := by
    intro hp j r hr
    have := hp j r
    rcases hcases j with h1 | ⟨rfl, h1⟩
    · rw [h1] at this; exact this hr
    · rw [h1, f3] at this; exact this hr
  exact { h with
    sorted := fun j => by rw [hch]; exact h.sorted j
    leNow := fun j => by rw [hch]; exact h.leNow j
    qc := fun j => by
      rcases hcases j with h1 | ⟨rfl, h1⟩
      · rw [h1]; exact h.qc j
      · rw [h1]
        have q0 := h.qc j
        refine ⟨by rw [f4, f5]; exact q0.wpos, ?_, ?_, ?_⟩
        · rw [f5, f6, f2, q0.sum, hq]; simp; omega
        · rw [f2]; intro r hr; exact q0.pos r (by rw [hq]; exact List.mem_cons_of_mem _ hr)
        · obtain ⟨k, hk, hw⟩ := q0.wc
          cases k with
          | zero => exfalso; apply hne; rw [hw]; simp
          | succ k =>
            rw [hq] at hk hw
            refine ⟨k, by rw [f2]; simpa using hk, ?_⟩
            rw [f8, f6, f2, hw]; simp; omega
    reg := fun j => by rw [hch]; exact h.reg j
    capOK := fun j hj => by
      rw [length_setTh] at hj
      rcases hcases j with h1 | ⟨rfl, h1⟩
      · rw [h1]; exact h.capOK j hj
      · rw [h1, f9]; exact h.capOK j hj
    bufCache := fun j hjr => by
      rcases hcases j with h1 | ⟨rfl, h1⟩
      · rw [h1]; exact h.bufCache j hjr
      · intro _; exact hc
    ctxReg := fun b y j hy hj => by
      obtain ⟨r1, r2⟩ := h.ctxReg b y j hy hj
      refine ⟨r1, ?_⟩
      rcases hcases j with h1 | ⟨rfl, h1⟩
      · rw [h1]; exact r2
      · rw [h1, f7]; exact r2
    ctxLt := fun b y j hy hj => by rw [length_setTh]; exact h.ctxLt b y j hy hj
    pend := fun b y r hy hb hpd => by
      obtain ⟨p1, p2, p3⟩ := h.pend b y r hy hb hpd
      exact ⟨p1, p2, fun j hj => by rw [hch]; exact p3 j hj⟩
    ord := fun hg0 hr0 hp => by
      have o := h.ord hg0 hr0 (hprem hp)
      exact {
        popSorted := o.popSorted
        above := fun p hpp j hj => by rw [hch]; exact o.above p hpp j hj
        popFloor := o.popFloor
        bufFloor := fun j => by
          rcases hcases j with h1 | ⟨rfl, h1⟩
          · rw [h1]; exact o.bufFloor j
          · rw [h1, f1]; intro r hr
            rcases List.mem_append.mp hr with h2 | h2
            · exact o.bufFloor j r h2
            · rw [List.mem_singleton.mp h2]; exact hst hg0 hr0
        late := fun j hj hT => by
          rcases hcases j with h1 | ⟨rfl, h1⟩
          · rw [h1]
            by_cases hji : j = i
            · subst hji
              -- the update was out of range: impossible, the queue of `i` is non-empty
              exfalso
              have : ¬ (j < s.ths.length) := by
                intro hlt; rw [th_setTh_same s f hlt] at h1
                have := congrArg Th.buf h1; rw [f1] at this
                have := congrArg List.length this; simp at this
              rw [th_lt_or_default s j (by omega)] at hq; cases hq
            · exact o.late j hj (fun ht => hT ⟨ht, hji⟩)
          · rw [h1, f1]; intro hb; simp at hb } }

def rqPrep (s : BSt) (i : Nat) : BSt := s.setTh i (fun t => { t with q := (qPrepareRead s.cfg (s.th i).q).1 })
def rqCommit (s : BSt) (i : Nat) : BSt := s.setTh i (fun t => { t with q := qCommitRead s.cfg t.q })
def rqFin (s : BSt) (i total : Nat) : BSt := if total ≠ 0 then rqCommit s i else s
def rqDecode (s1 : BSt) (st : Stmt) : BSt :=
  match st.kind with
  | .removal f => { s1 with removalFlags := s1.removalFlags ++ [((s1.lgOf st.lg).gid, f)] }
  | _ => s1
def rqMove0 (s : BSt) (i : Nat) (st : Stmt) (rest : List Stmt) : BSt :=
  (rqDecode (rqPrep s i) st).setTh i (fun t =>
    { t with q := qFinishRead (rqDecode (rqPrep s i) st).cfg t.q st.size, qStmts := rest, buf := t.buf ++ [st] })
/-- one record decoded, moved to the transit buffer and formatted (a caught formatter exception is reported) -/
def rqMove (s : BSt) (i : Nat) (st : Stmt) (rest : List Stmt) : BSt := fmtNote (rqMove0 s i st rest) st

theorem rqMove_proj (s : BSt) (i : Nat) (st : Stmt) (rest : List Stmt) :
    (rqMove s i st rest).ths = (rqMove0 s i st rest).ths ∧ (rqMove s i st rest).cfg = (rqMove0 s i st rest).cfg ∧
    (rqMove s i st rest).actors = (rqMove0 s i st rest).actors := by
  unfold rqMove fmtNote
  split <;> exact ⟨rfl, rfl, rfl⟩

theorem rqMove_th_eq (s : BSt) (i : Nat) (st : Stmt) (rest : List Stmt) (j : Nat) :
    (rqMove s i st rest).th j = (rqMove0 s i st rest).th j := by
  simp only [BSt.th, (rqMove_proj s i st rest).1]

def rqLate (tsNow : Option Nat) (st : Stmt) : Bool :=
  match tsNow with | some t => decide (t < st.ts) | none => false

theorem readQueue_succ (inj : BSt → Nat → BSt) (tsNow : Option Nat) (i fuel total : Nat) (s : BSt) :
    readQueue inj tsNow i (fuel + 1) total s =
      if !(qPrepareRead s.cfg (s.th i).q).2 then rqFin (rqPrep s i) i total else
      match (s.th i).qStmts with
      | [] => rqFin (rqPrep s i) i total
      | st :: rest =>
        if rqLate tsNow st then rqFin (rqPrep s i) i total else
        if total + st.size < (inj (rqMove s i st rest) 3).cfg.qcap ∧
            ((inj (rqMove s i st rest) 3).th i).buf.length < (inj (rqMove s i st rest) 3).cfg.hard
        then readQueue inj tsNow i fuel (total + st.size) (inj (rqMove s i st rest) 3)
        else rqCommit (inj (rqMove s i st rest) 3) i := rfl

/-- the fuel exit (model only) ends like every other exit -/
theorem readQueue_zero (inj : BSt → Nat → BSt) (tsNow : Option Nat) (i total : Nat) (s : BSt) :
    readQueue inj tsNow i 0 total s = rqFin s i total := rfl

theorem same_rqCommit (s : BSt) (i : Nat) : Same s (rqCommit s i) :=
  Same.setTh s i _ (ThEq.ofQ' _ _ (qCommitRead_fields _ _))

theorem same_rqFin (s : BSt) (i total : Nat) : Same s (rqFin s i total) := by
  unfold rqFin; split
  · exact same_rqCommit s i
  · exact Same.refl _

theorem same_rqPrep (s : BSt) (i : Nat) : Same s (rqPrep s i) :=
  Same.setTh s i _ (ThEq.ofQ _ _ (qPrepareRead_fields _ _))

/-- the body of one iteration after the record `st` was found eligible: decode, move -/
theorem PI.rqMove (h : PI c none fl T C s) (i : Nat) (hc : i ∈ C) (st : Stmt) (rest : List Stmt)
    (hq : (s.th i).qStmts = st :: rest) (hst : c.grace ≠ 0 → c.refreshAfterSample = true → st.ts ≤ fl)
    (hrd : (qPrepareRead s.cfg (s.th i).q).2 = true) :
    PI c none fl (fun j => T j ∧ j ≠ i) C (rqMove s i st rest) := by
  suffices h0 : PI c none fl (fun j => T j ∧ j ≠ i) C (rqMove0 s i st rest) by
    unfold PB.rqMove fmtNote
    split
    · exact h0.same (Same.ofCore rfl)
    · exact h0
  unfold PB.rqMove0
  have hs1 : Same s (rqPrep s i) := same_rqPrep s i
  have hs2 : Same (rqPrep s i) (rqDecode (rqPrep s i) st) := by
    unfold rqDecode
    split
    · exact Same.ofCore rfl
    · exact Same.refl _
  have hs := hs1.trans hs2
  have hlt : i < s.ths.length := by
    apply Classical.byContradiction; intro hn
    rw [th_lt_or_default s i (by omega)] at hq; cases hq
  have hw : ((rqDecode (rqPrep s i) st).th i).q.wcache ≠ ((rqDecode (rqPrep s i) st).th i).q.rpos := by
    have e1 : (rqDecode (rqPrep s i) st).th i = (rqPrep s i).th i := by
      unfold rqDecode; split <;> rfl
    rw [e1]
    unfold rqPrep
    rw [th_setTh_same s _ hlt]
    exact qPrepareRead_true _ _ hrd
  generalize rqDecode (rqPrep s i) st = s2 at hs hw ⊢
  have h2 : PI c none fl T C s2 := h.same hs
  have e := hs.th i
  refine h2.move i (by rw [h2.cacheEq]; exact hc) st rest (by rw [e.q]; exact hq) hst _ ?_ hw
  have f1 := qFinishRead_fields s2.cfg (s2.th i).q st.size
  exact ⟨rfl, rfl, rfl, f1.1, congrArg (fun l => List.headD l 0) f1.2.1, f1.2.2.1, rfl, f1.2.2.2.1, f1.2.2.2.2⟩

variable {inj : BSt → Nat → BSt}

/-- reading a cached context preserves the invariant, whatever the set of contexts still to be read -/
theorem PI.readQueue (hi : InjOK inj) (tsNow : Option Nat)
    (htn : c.grace ≠ 0 → c.refreshAfterSample = true → tsNow = some fl) (i : Nat) (hc : i ∈ C) (fuel : Nat) :
    ∀ (T : Nat → Prop) (total : Nat) (s : BSt), PI c none fl T C s → PI c none fl T C (Backend.readQueue inj tsNow i fuel total s) := by
  induction fuel with
  | zero => intro T total s h; rw [readQueue_zero]; exact h.same (same_rqFin s i total)
  | succ n ih =>
    intro T total s h
    rw [readQueue_succ]
    have hfin := fun tot => (h.same (same_rqPrep s i)).same (same_rqFin _ i tot)
    split
    · exact hfin total
    · rename_i hrd
      split
      · exact hfin total
      · rename_i st rest hq
        split
        · exact hfin total
        · rename_i hel
          have hst : c.grace ≠ 0 → c.refreshAfterSample = true → st.ts ≤ fl := by
            intro hg0 hr0; rw [htn hg0 hr0] at hel; simpa [rqLate] using hel
          have h3 := (h.rqMove i hc st rest hq hst (by simpa using hrd)).weakenT (T' := T) (fun _ hj => hj.1)
          have h4 := hi _ _ _ _ _ 3 h3
          split
          · exact ih T _ _ h4
          · exact h4.same (same_rqCommit _ i)

theorem headLe_of_sorted {l : List Stmt} (hs : l.Pairwise (fun a b => a.ts ≤ b.ts)) {a : Stmt} {as : List Stmt}
    (hl : l = a :: as) : ∀ r ∈ l, a.ts ≤ r.ts := by
  subst hl
  intro r hr
  rcases List.mem_cons.mp hr with rfl | hr
  · exact Nat.le_refl _
  · exact (List.pairwise_cons.mp hs).1 r hr

/-- the do-while rule: a completed read of context `i` leaves either a non-empty buffer or nothing eligible -/
theorem PI.readQueue_first (hi : InjOK inj) (tsNow : Option Nat)
    (htn : c.grace ≠ 0 → c.refreshAfterSample = true → tsNow = some fl) (i : Nat) (hc : i ∈ C) (fuel total : Nat) (s : BSt)
    (h : PI c none fl T C s) :
    PI c none fl (fun j => T j ∧ j ≠ i) C (Backend.readQueue inj tsNow i (fuel + 1) total s) := by
  rw [readQueue_succ]
  have hfin : ∀ tot, (c.grace ≠ 0 → c.refreshAfterSample = true → (s.th i).buf = [] → ∀ st ∈ (s.th i).qStmts, fl ≤ st.ts) →
      PI c none fl (fun j => T j ∧ j ≠ i) C (rqFin (rqPrep s i) i tot) :=
    fun tot hl => ((h.cover i hl).same (same_rqPrep s i)).same (same_rqFin _ i tot)
  split
  · rename_i hr
    apply hfin
    intro _ _ _ st hst
    have q0 := h.qc i
    have e1 := qPrepareRead_false _ _ (by simpa using hr)
    have e2 := q0.sum
    rw [e1] at e2
    cases hqq : (s.th i).qStmts with
    | nil => rw [hqq] at hst; cases hst
    | cons y ys =>
      have := q0.pos y (by rw [hqq]; exact List.mem_cons_self ..)
      rw [hqq] at e2; simp at e2; omega
  · rename_i hrd
    split
    · rename_i hq
      apply hfin
      intro _ _ _ st hst; rw [hq] at hst; cases hst
    · rename_i st rest hq
      split
      · rename_i hel
        apply hfin
        intro hg0 hr0 _ r hr
        have hlt : fl < st.ts := by rw [htn hg0 hr0] at hel; simpa [rqLate] using hel
        have hs := (List.pairwise_append.mp (h.sorted i)).2.1
        have := headLe_of_sorted hs hq r hr
        omega
      · rename_i hel
        have hst : c.grace ≠ 0 → c.refreshAfterSample = true → st.ts ≤ fl := by
          intro hg0 hr0; rw [htn hg0 hr0] at hel; simpa [rqLate] using hel
        have h3 := h.rqMove i hc st rest hq hst (by simpa using hrd)
        have h4 := hi _ _ _ _ _ 3 h3
        split
        · exact PI.readQueue hi tsNow htn i hc fuel _ _ _ h4
        · exact h4.same (same_rqCommit _ i)

/-! ### the minimum front -/

def lowStep (s : BSt) (acc : Option (Nat × Nat)) (i : Nat) : Option (Nat × Nat) :=
  match (s.th i).buf.head? with
  | none => acc
  | some st => match acc with
    | none => some (i, st.ts)
    | some (_, m) => if st.ts < m then some (i, st.ts) else acc

def LowInv (s : BSt) (P : Nat → Prop) : Option (Nat × Nat) → Prop
  | none => ∀ i, P i → (s.th i).buf = []
  | some (j, m) => (∃ st rest, (s.th j).buf = st :: rest ∧ st.ts = m) ∧
      ∀ i, P i → ∀ f fs, (s.th i).buf = f :: fs → m ≤ f.ts

theorem low_fold (s : BSt) (l : List Nat) : ∀ (acc : Option (Nat × Nat)) (P : Nat → Prop), LowInv s P acc →
    LowInv s (fun i => P i ∨ i ∈ l) (l.foldl (lowStep s) acc) := by
  induction l with
  | nil => intro acc P h; cases acc with
    | none => exact fun i hi => h i (hi.resolve_right (by simp))
    | some jm => exact ⟨h.1, fun i hi => h.2 i (hi.resolve_right (by simp))⟩
  | cons x xs ih =>
    intro acc P h
    rw [List.foldl_cons]
    have key : LowInv s (fun i => P i ∨ i = x) (lowStep s acc x) := by
      unfold lowStep
      cases hb : (s.th x).buf with
      | nil =>
        simp only [List.head?_nil]
        cases acc with
        | none => exact fun i hi => hi.elim (h i) (fun e => e ▸ hb)
        | some jm =>
          refine ⟨h.1, fun i hi f fs hf => hi.elim (fun hp => h.2 i hp f fs hf) (fun e => ?_)⟩
          subst e; rw [hb] at hf; cases hf
      | cons st rest =>
        simp only [List.head?_cons]
        cases acc with
        | none =>
          refine ⟨⟨st, rest, hb, rfl⟩, fun i hi f fs hf => hi.elim (fun hp => ?_) (fun e => ?_)⟩
          · have := h i hp; rw [this] at hf; cases hf
          · subst e; rw [hb] at hf; cases hf; exact Nat.le_refl _
        | some jm =>
          obtain ⟨j, m⟩ := jm
          simp only
          split
          · rename_i hlt
            refine ⟨⟨st, rest, hb, rfl⟩, fun i hi f fs hf => hi.elim (fun hp => ?_) (fun e => ?_)⟩
            · have := h.2 i hp f fs hf; omega
            · subst e; rw [hb] at hf; cases hf; exact Nat.le_refl _
          · rename_i hge
            refine ⟨h.1, fun i hi f fs hf => hi.elim (fun hp => h.2 i hp f fs hf) (fun e => ?_)⟩
            subst e; rw [hb] at hf; cases hf; omega
    have := ih _ _ key
    cases hr : List.foldl (lowStep s) (lowStep s acc x) xs with
    | none =>
      rw [hr] at this
      exact fun i hi => this i (by
        rcases hi with hi | hi
        · exact Or.inl (Or.inl hi)
        · rcases List.mem_cons.mp hi with e | e
          · exact Or.inl (Or.inr e)
          · exact Or.inr e)
    | some jm =>
      rw [hr] at this
      exact ⟨this.1, fun i hi => this.2 i (by
        rcases hi with hi | hi
        · exact Or.inl (Or.inl hi)
        · rcases List.mem_cons.mp hi with e | e
          · exact Or.inl (Or.inr e)
          · exact Or.inr e)⟩

theorem low_mem (s : BSt) (l : List Nat) : ∀ (P : Nat → Prop) (acc : Option (Nat × Nat)),
    (∀ jm, acc = some jm → P jm.1) → ∀ jm, l.foldl (lowStep s) acc = some jm → P jm.1 ∨ jm.1 ∈ l := by
  induction l with
  | nil => intro P acc h jm hjm; exact Or.inl (h jm hjm)
  | cons x xs ih =>
    intro P acc h jm hjm
    rw [List.foldl_cons] at hjm
    have key : ∀ km, lowStep s acc x = some km → (P km.1 ∨ km.1 = x) := by
      intro km hkm
      unfold lowStep at hkm
      split at hkm
      · exact Or.inl (h km hkm)
      · split at hkm
        · cases hkm; exact Or.inr rfl
        · split at hkm
          · cases hkm; exact Or.inr rfl
          · exact Or.inl (h km hkm)
    rcases ih (fun j => P j ∨ j = x) _ key jm hjm with (h1 | h1) | h1
    · exact Or.inl h1
    · exact Or.inr (by rw [h1]; exact List.mem_cons_self ..)
    · exact Or.inr (List.mem_cons_of_mem _ h1)

theorem lowest_eq (s : BSt) : lowest s = (s.cache.foldl (lowStep s) none).map (·.1) := rfl

theorem lowest_spec {s : BSt} {j : Nat} (h : lowest s = some j) :
    ∃ st rest, (s.th j).buf = st :: rest ∧ ∀ i ∈ s.cache, ∀ f fs, (s.th i).buf = f :: fs → st.ts ≤ f.ts := by
  rw [lowest_eq] at h
  have := low_fold s s.cache none (fun _ => False) (fun i hi => hi.elim)
  cases hr : List.foldl (lowStep s) none s.cache with
  | none => rw [hr] at h; cases h
  | some jm =>
    obtain ⟨j', m⟩ := jm
    rw [hr] at h this
    simp only [Option.map_some, Option.some.injEq] at h
    subst h
    obtain ⟨⟨st, rest, h1, h2⟩, h3⟩ := this
    exact ⟨st, rest, h1, fun i hi f fs hf => by rw [h2]; exact h3 i (Or.inr hi) f fs hf⟩

theorem lowest_mem {s : BSt} {j : Nat} (h : lowest s = some j) : j ∈ s.cache := by
  rw [lowest_eq] at h
  cases hr : List.foldl (lowStep s) none s.cache with
  | none => rw [hr] at h; cases h
  | some jm =>
    rw [hr] at h
    simp only [Option.map_some, Option.some.injEq] at h
    subst h
    rcases low_mem s s.cache (fun _ => False) none (fun _ h => by cases h) jm hr with h1 | h1
    · exact h1.elim
    · exact h1

/-! ### popping the minimum front -/

/-- the crux of C05: the minimum front is ≤ everything buffered or queued in any registered context, provided
    every registered context with an empty buffer holds only records at or above the cut-off -/
theorem PIo.pop (h : PIo c fl s)
    (hall : c.grace ≠ 0 → c.refreshAfterSample = true → PremI s →
      ∀ i ∈ s.registry, (s.th i).buf = [] → ∀ r ∈ (s.th i).qStmts, fl ≤ r.ts)
    (j : Nat) (hj : j ∈ s.cache) (st : Stmt) (rest : List Stmt) (hb : (s.th j).buf = st :: rest)
    (hmin : ∀ i ∈ s.cache, ∀ f fs, (s.th i).buf = f :: fs → st.ts ≤ f.ts) (f : Th → Th)
    (hf : (f (s.th j)).buf = rest ∧ (f (s.th j)).qStmts = (s.th j).qStmts ∧ (f (s.th j)).accepted = (s.th j).accepted ∧
      (f (s.th j)).q = (s.th j).q ∧ (f (s.th j)).valid = (s.th j).valid) :
    PIo c fl { s.setTh j f with popLog := st :: s.popLog } := by
  obtain ⟨f1, f2, f3, f4, f5⟩ := hf
  let s' : BSt := { s.setTh j f with popLog := st :: s.popLog }
  have hcases : ∀ i, s'.th i = s.th i ∨ (i = j ∧ s'.th i = f (s.th j)) := by
    intro i; rcases th_setTh_cases s j i f with h1 | ⟨h1, _, h2⟩
    · exact Or.inl h1
    · exact Or.inr ⟨h1, h2⟩
  have hcj : chain (s.th j) = st :: chain (f (s.th j)) := by simp only [chain, hb, f1, f2, List.cons_append]
  have hsub : ∀ i r, r ∈ chain (s'.th i) → r ∈ chain (s.th i) := by
    intro i r hr
    rcases hcases i with h1 | ⟨rfl, h1⟩
    · rw [h1] at hr; exact hr
    · rw [h1] at hr; rw [hcj]; exact List.mem_cons_of_mem _ hr
  have hprem : PremI s' → PremI s := by
    intro hp i r hr
    have := hp i r
    rcases hcases i with h1 | ⟨rfl, h1⟩
    · rw [h1] at this; exact this hr
    · rw [h1, f3] at this; exact this hr
  unfold PIo at *
  show PI c none fl (fun _ => True) s.cache s'
  exact { h with
    sorted := fun i => by
      rcases hcases i with h1 | ⟨rfl, h1⟩
      · rw [h1]; exact h.sorted i
      · rw [h1]; have := h.sorted i; rw [hcj] at this; exact (List.pairwise_cons.mp this).2
    leNow := fun i r hr => h.leNow i r (hsub i r hr)
    capOK := fun i hi => by
      have hi' : i < s.ths.length := by rw [← length_setTh s j f]; exact hi
      rcases hcases i with h1 | ⟨rfl, h1⟩
      · rw [h1]; exact h.capOK i hi'
      · rw [h1, f4]; exact h.capOK i hi'
    qc := fun i => by
      rcases hcases i with h1 | ⟨rfl, h1⟩
      · rw [h1]; exact h.qc i
      · rw [h1]; have q0 := h.qc i
        exact ⟨by rw [f4]; exact q0.wpos, by rw [f4, f2]; exact q0.sum, by rw [f2]; exact q0.pos,
          by rw [f4, f2]; exact q0.wc⟩
    reg := fun i hne => by
      refine h.reg i ?_
      intro he
      cases hci : chain (s'.th i) with
      | nil => exact hne hci
      | cons r rs =>
        have := hsub i r (by rw [hci]; exact List.mem_cons_self ..)
        rw [he] at this; cases this
    bufCache := fun i hir => by
      rcases hcases i with h1 | ⟨rfl, h1⟩
      · rw [h1]; exact h.bufCache i hir
      · intro _; exact hj
    ctxReg := fun b y i hy hi => by
      obtain ⟨r1, r2⟩ := h.ctxReg b y i hy hi
      refine ⟨r1, ?_⟩
      rcases hcases i with h1 | ⟨rfl, h1⟩
      · rw [h1]; exact r2
      · rw [h1, f5]; exact r2
    ctxLt := fun b y i hy hi => by
      show i < (s.setTh j f).ths.length
      rw [length_setTh]; exact h.ctxLt b y i hy hi
    pend := fun b y r hy hbb hpd => by
      obtain ⟨p1, p2, p3⟩ := h.pend b y r hy hbb hpd
      exact ⟨p1, p2, fun i hi q hq => p3 i hi q (hsub i q hq)⟩
    ord := fun hg0 hr0 hp => by
      have hp0 := hprem hp
      have o := h.ord hg0 hr0 hp0
      have hstfl : st.ts ≤ fl := o.bufFloor j st (by rw [hb]; exact List.mem_cons_self ..)
      have hjr : j ∈ s.registry := h.cacheReg j hj
      -- the crux
      have hcrux : ∀ i ∈ s.registry, ∀ r ∈ chain (s.th i), st.ts ≤ r.ts := by
        intro i hi r hr
        cases hbi : (s.th i).buf with
        | nil =>
          have : r ∈ (s.th i).qStmts := by simpa [chain, hbi] using hr
          have := hall hg0 hr0 hp0 i hi hbi r this
          omega
        | cons f0 fs =>
          have hic : i ∈ s.cache := h.bufCache i hi (by rw [hbi]; simp)
          have h1 := hmin i hic f0 fs hbi
          have h2 := headLe_of_sorted (h.sorted i) (by simp only [chain, hbi, List.cons_append]; rfl) r hr
          omega
      exact {
        popSorted := List.pairwise_cons.mpr ⟨fun p hpp =>
          o.above p hpp j hjr st (by rw [hcj]; exact List.mem_cons_self ..), o.popSorted⟩
        above := fun p hpp i hi r hr => by
          rcases List.mem_cons.mp hpp with rfl | hpp
          · exact hcrux i hi r (hsub i r hr)
          · exact o.above p hpp i hi r (hsub i r hr)
        popFloor := fun p hpp => by
          rcases List.mem_cons.mp hpp with rfl | hpp
          · exact hstfl
          · exact o.popFloor p hpp
        bufFloor := fun i r hr => by
          rcases hcases i with h1 | ⟨rfl, h1⟩
          · rw [h1] at hr; exact o.bufFloor i r hr
          · rw [h1, f1] at hr; exact o.bufFloor i r (by rw [hb]; exact List.mem_cons_of_mem _ hr)
        late := fun _ _ hT => absurd trivial hT } }

variable {inj : BSt → Nat → BSt}

def plNote (r : BSt × Option String × Option Nat) : BSt :=
  match r.2.1 with | some m => r.1.emit (.notify m) | none => r.1
def plPop (s2 : BSt) (i : Nat) (st : Stmt) (rest : List Stmt) : BSt :=
  { s2.setTh i (fun t => { t with buf := rest, popped := t.popped ++ [st] }) with popLog := st :: s2.popLog }
def plPre (inj : BSt → Nat → BSt) (s3 : BSt) : BSt :=
  cleanupContexts (if s3.cfg.reportBeforeFlushCleanup then checkFailures inj s3 else s3)
def plFlag (inj : BSt → Nat → BSt) (s3 : BSt) (f : Nat) : BSt :=
  { plPre inj s3 with flags := f :: (plPre inj s3).flags, flagLog := (f, (plPre inj s3).log.length) :: (plPre inj s3).flagLog }

theorem processLowest_eq (inj : BSt → Nat → BSt) (s : BSt) :
    processLowest inj s =
      match lowest s with
      | none => (s, false)
      | some i =>
        match (s.th i).buf with
        | [] => (s, false)
        | st :: rest =>
          match (processEvent s st).2.2 with
          | some f => (plFlag inj (plPop (plNote (processEvent s st)) i st rest) f, true)
          | none => (plPop (plNote (processEvent s st)) i st rest, true) := rfl

/-- `_process_lowest_timestamp_transit_event` -/
theorem PIo.processLowest (hi : InjOK inj) (h : PIo c fl s)
    (hall : c.grace ≠ 0 → c.refreshAfterSample = true → PremI s →
      ∀ i ∈ s.registry, (s.th i).buf = [] → ∀ r ∈ (s.th i).qStmts, fl ≤ r.ts) :
    PIo c fl (processLowest inj s).1 := by
  rw [processLowest_eq]
  split
  · exact h
  · rename_i j hlow
    obtain ⟨st, rest, hb0, hmin⟩ := lowest_spec hlow
    split
    · exact h
    · rename_i st' rest' hb
      rw [hb0] at hb; cases hb
      have hb := hb0
      have hj : j ∈ s.cache := lowest_mem hlow
      have hcore : core (plNote (processEvent s st)) = core s := by
        unfold plNote; split
        · rw [core_emit]; exact core_processEvent s st
        · exact core_processEvent s st
      generalize plNote (processEvent s st) = s2 at hcore
      have hths : s2.ths = s.ths := congrArg Core.ths hcore
      have hth : ∀ i, s2.th i = s.th i := fun i => by simp only [BSt.th, hths]
      have hcache : s2.cache = s.cache := congrArg Core.cache hcore
      have hreg : s2.registry = s.registry := congrArg Core.registry hcore
      have h2 : PIo c fl s2 := h.frame hcore
      have hpop : PIo c fl (plPop s2 j st rest) := by
        unfold plPop
        refine h2.pop ?_ j (by rw [hcache]; exact hj) st rest (by rw [hth]; exact hb) ?_ _ ⟨rfl, rfl, rfl, rfl, rfl⟩
        · intro hg0 hr0 hp i hir hbi r hr
          rw [hth] at hbi hr; rw [hreg] at hir
          refine hall hg0 hr0 ?_ i hir hbi r hr
          intro k q hq; have hcfg : s2.cfg = s.cfg := congrArg Core.cfg hcore
          have := hp k q; rw [hth, hcfg] at this; exact this hq
        · intro i hic f fs hfb
          rw [hth] at hfb; rw [hcache] at hic; exact hmin i hic f fs hfb
      split
      · unfold plFlag plPre
        refine PIo.frame (PIo.cleanupContexts ?_) rfl
        split
        · exact hpop.checkFailures hi
        · exact hpop
      · exact hpop

end Backend.PB
