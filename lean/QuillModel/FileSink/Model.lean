/-!
# The write / flush protocol of the stream sinks (`StreamSink`, base of `FileSink`, `JsonFileSink`, `RotatingFileSink`)

`StreamSink::write_log` hands the statement — or what the user's `FileEventNotifier::before_write` callback made of it —
to `fwrite` (it sits in the stdio buffer) and marks the stream dirty (`_write_occurred = true`); `flush_sink()` returns at
once when the stream is not dirty (the idle backend loop calls it all the time), otherwise `fflush`es and resets the flag.
`flush_log()` (C06) relies on it: the backend answers a flush request by calling `flush_sink()` on every sink.

State: `file` = what a second descriptor can read, `buf` = what sits in the stdio buffer, `dirty` = `_write_occurred`,
`written` (ghost) = every statement handed to `write_log` so far. The stdio buffer may drain by itself when it is full;
that only moves statements from `buf` to `file` early and is not modelled (the harness reads the file after flushes only,
and checks the legal range in between). `Params`: which write path sets the flag, whether the flush tests / resets it
(extracted).
-/
namespace FileSink

structure Stmt where
  id : Nat
  /-- bytes that reach the stream (after the callback's transformation) -/
  size : Nat
deriving DecidableEq, Repr

structure Params where
  /-- the path of `write_log` without a `before_write` callback sets `_write_occurred` -/
  plainSetsDirty : Bool := true
  /-- the path through the `before_write` callback sets `_write_occurred` -/
  hookSetsDirty : Bool := true
  /-- `flush_sink` returns early when `_write_occurred` is false -/
  flushTestsFlag : Bool := true
  /-- `flush()` resets `_write_occurred` -/
  flushResetsFlag : Bool := true
deriving DecidableEq, Repr

/-- what the theorems need: EVERY path that writes marks the stream dirty -/
def Params.OK (p : Params) : Prop := p.plainSetsDirty = true ∧ p.hookSetsDirty = true

instance (p : Params) : Decidable p.OK := by unfold Params.OK; infer_instance

structure St where
  file : List Stmt := []
  buf : List Stmt := []
  dirty : Bool := false
  written : List Stmt := []
deriving DecidableEq, Repr

inductive Op where
  /-- `write_log`; `hook` = a `before_write` callback is set on the sink -/
  | write (hook : Bool) (s : Stmt)
  | flush
  /-- `run_periodic_tasks()` -/
  | periodic
deriving DecidableEq, Repr

def step (p : Params) (s : St) : Op → St
  | .write hook x =>
    { s with buf := s.buf ++ [x], written := s.written ++ [x],
             dirty := s.dirty || (if hook then p.hookSetsDirty else p.plainSetsDirty) }
  | .flush =>
    if p.flushTestsFlag && !s.dirty then s
    else { s with file := s.file ++ s.buf, buf := [], dirty := if p.flushResetsFlag then false else s.dirty }
  | .periodic => s

def run (p : Params) (s : St) : List Op → St
  | [] => s
  | op :: ops => run p (step p s op) ops

/-- the statements handed to `write_log` by an op sequence, in order -/
def stmtsOf : List Op → List Stmt
  | [] => []
  | .write _ x :: ops => x :: stmtsOf ops
  | _ :: ops => stmtsOf ops

theorem run_append (p : Params) (s : St) (a b : List Op) : run p s (a ++ b) = run p (run p s a) b := by
  induction a generalizing s with
  | nil => rfl
  | cons op ops ih => simp [run, ih]

theorem stmtsOf_append (a b : List Op) : stmtsOf (a ++ b) = stmtsOf a ++ stmtsOf b := by
  induction a with
  | nil => rfl
  | cons op ops ih => cases op <;> simp [stmtsOf, ih]

end FileSink
