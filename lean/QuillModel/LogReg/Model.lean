/-!
# The by-name logger registry (`quill::detail::LoggerManager`, core/LoggerManager.h)

`_loggers` is a `std::vector<std::unique_ptr<LoggerBase>>` kept sorted by `get_logger_name()`.

* `_find_logger(name)`: `std::lower_bound` with `a->get_logger_name() < name`, then
  `search_it != end && search_it->get()->get_logger_name() == name` → the entry (VALID OR NOT), else null;
* `_insert_logger(l)`: `_loggers.insert(std::lower_bound(…), l)`;
* `create_or_get_logger(name, …)`: `_find_logger`; when null: `new TLogger`, `_insert_logger`, `_find_logger` again;
  then `assert(logger_ptr->is_valid_logger())`.
  **Contract guard.** When the entry found is INVALID (removed, not yet erased by the backend) the code returns that
  dying object in release builds and aborts on the assertion in debug builds. Requesting a name between
  `remove_logger` and the backend's clean-up is outside the contract (`remove_logger` documents that the logger
  must not be used or re-created until the removal completed; `remove_logger_blocking` exists for that). The harness
  (built without `NDEBUG`) therefore does not make that call and prints `guard`; the model answers `guard` and
  changes nothing — the same convention as the `CL` op of `harness/h2_backend.cpp`;
* `get_logger(name)`: `_find_logger`, returned only when `is_valid_logger()`, else null;
* `remove_logger(l)`: `l->mark_invalid()`, `_has_invalidated_loggers := true` (the caller holds the pointer: no search);
* `cleanup_invalidated_loggers(check_queues_empty)`: nothing when the flag is false; otherwise clears the flag and
  walks the vector front to back: a valid entry is skipped; for an invalid entry `check_queues_empty()` is called
  (ONCE PER INVALID ENTRY, in vector order): `false` → entry kept, flag re-armed; `true` → name recorded,
  `it = _loggers.erase(it)` (in place: the order of the remaining entries is untouched). Returns the recorded names;
* `get_all_loggers()`: the valid entries in vector order; `get_number_of_loggers()`: `_loggers.size()` (all entries).

Names are `Nat` (the driver maps the harness's strings by their rank in `std::string` order), object identities are
`Nat` (ordinal of the construction, kept by the harness in a pointer → ordinal map). `std::lower_bound` /
`std::upper_bound` on a range partitioned by the comparator is the length of the longest prefix satisfying it —
`takeWhile`; that the vector stays STRICTLY sorted (so that the binary search is this linear scan, and is the linear
search `List.find?` by name) is theorem `C17_logreg_sorted`. `Params` says which bound each private helper uses
(extracted; the theorems need `lower` for both).
-/
namespace LogReg

inductive Bound where
  | lower | upper
deriving DecidableEq, Repr

structure Params where
  findAt : Bound := .lower
  insertAt : Bound := .lower
deriving DecidableEq, Repr

/-- what the theorems need of the extracted structure -/
def Params.OK (p : Params) : Prop := p.findAt = .lower ∧ p.insertAt = .lower

instance (p : Params) : Decidable p.OK := by unfold Params.OK; infer_instance

structure Entry where
  name : Nat
  id : Nat
  valid : Bool
deriving DecidableEq, Repr

structure St where
  entries : List Entry := []
  /-- ordinal the next constructed logger gets -/
  next : Nat := 1
  /-- `_has_invalidated_loggers` -/
  flag : Bool := false
deriving DecidableEq, Repr

/-- `std::lower_bound(…, n, a->name < n)` / `std::upper_bound(…, n, n < a->name)` as a position -/
def bound (b : Bound) (l : List Entry) (n : Nat) : Nat :=
  match b with
  | .lower => (l.takeWhile (fun e => decide (e.name < n))).length
  | .upper => (l.takeWhile (fun e => decide (e.name ≤ n))).length

/-- `_find_logger`: the entry at the bound, if it carries the name (valid or not) -/
def find (p : Params) (s : St) (n : Nat) : Option Entry :=
  match s.entries[bound p.findAt s.entries n]? with
  | some e => if e.name = n then some e else none
  | none => none

/-- `vector::insert(begin() + k, x)` -/
def insertAt (l : List Entry) (k : Nat) (x : Entry) : List Entry := l.take k ++ x :: l.drop k

inductive Op where
  | createOrGet (n : Nat)
  | get (n : Nat)
  /-- `remove_logger(p)` for the valid logger `p` the user holds under that name (no-op when there is none) -/
  | remove (n : Nat)
  /-- `cleanup_invalidated_loggers(cb)`; the list = what `cb()` answers, call by call (`true` once exhausted) -/
  | cleanup (answers : List Bool)
  | all
  | count
deriving DecidableEq, Repr

inductive Obs where
  /-- the object returned -/
  | id (i : Nat)
  /-- `create_or_get_logger` of a name whose entry is invalid and not yet erased: call not made (contract) -/
  | guard
  /-- `get_logger` returned null / nothing to remove -/
  | none
  | ok
  /-- returned names, `_loggers.size()` and the flag after the clean-up -/
  | removed (names : List Nat) (size : Nat) (flag : Bool)
  | ids (l : List Nat)
  | size (k : Nat)
deriving DecidableEq, Repr

def inval (n : Nat) (e : Entry) : Entry := if e.name = n ∧ e.valid = true then { e with valid := false } else e

/-- result of the clean-up loop: the vector afterwards, the names pushed to `removed_loggers`, "flag re-armed" -/
structure Swept where
  kept : List Entry
  names : List Nat
  rearm : Bool
deriving DecidableEq, Repr

/-- the loop of `cleanup_invalidated_loggers` (front to back; one answer consumed per invalid entry) -/
def sweep : List Entry → List Bool → Swept
  | [], _ => { kept := [], names := [], rearm := false }
  | e :: es, ans =>
    if e.valid then
      let r := sweep es ans
      { r with kept := e :: r.kept }
    else
      let r := sweep es ans.tail
      if ans.headD true then { r with names := e.name :: r.names }
      else { r with kept := e :: r.kept, rearm := true }

def step (p : Params) (s : St) : Op → St × Obs
  | .createOrGet n =>
    match find p s n with
    | some e => (s, if e.valid then .id e.id else .guard)
    | none =>
      ({ s with entries := insertAt s.entries (bound p.insertAt s.entries n) { name := n, id := s.next, valid := true },
                next := s.next + 1 }, .id s.next)
  | .get n =>
    match find p s n with
    | some e => (s, if e.valid then .id e.id else .none)
    | none => (s, .none)
  | .remove n =>
    if s.entries.any (fun e => e.name == n && e.valid) then
      ({ s with entries := s.entries.map (inval n), flag := true }, .ok)
    else (s, .none)
  | .cleanup ans =>
    if s.flag then
      let r := sweep s.entries ans
      ({ s with entries := r.kept, flag := r.rearm }, .removed r.names r.kept.length r.rearm)
    else (s, .removed [] s.entries.length false)
  | .all => (s, .ids ((s.entries.filter (fun e => e.valid)).map (·.id)))
  | .count => (s, .size s.entries.length)

def run (p : Params) (s : St) : List Op → St
  | [] => s
  | op :: ops => run p (step p s op).1 ops

def trace (p : Params) (s : St) : List Op → List Obs
  | [] => []
  | op :: ops => (step p s op).2 :: trace p (step p s op).1 ops

/-! ### specification-level reading of a state: LINEAR search by name -/

/-- the entry of a name, by linear search -/
def lookup (s : St) (n : Nat) : Option Entry := s.entries.find? (fun e => e.name == n)

/-- the valid logger of a name -/
def validOf (s : St) (n : Nat) : Option Nat :=
  match lookup s n with
  | some e => if e.valid then some e.id else none
  | none => none

theorem run_append (p : Params) (s : St) (a b : List Op) : run p s (a ++ b) = run p (run p s a) b := by
  induction a generalizing s with
  | nil => rfl
  | cons op ops ih => simp [run, ih]

/-! ### the unstable clean-up (what `std::partition` + range `erase` does; negative witness only) -/

/-- the kept part after `std::partition(begin, end, keep)` (libstdc++, bidirectional iterators): skip the prefix
    that satisfies `keep`; at the first element that does not, walk back from the end to the last element that does
    and SWAP the two; continue in between. `fuel` ≥ length. -/
def partKept (keep : Entry → Bool) : Nat → List Entry → List Entry
  | 0, l => l.takeWhile keep
  | fuel + 1, l =>
    let pre := l.takeWhile keep
    match l.dropWhile keep with
    | [] => pre
    | _ :: mid =>
      match mid.reverse.dropWhile (fun e => !keep e) with
      | [] => pre
      | y :: midRev => pre ++ y :: partKept keep fuel midRev.reverse

/-- `cleanup_invalidated_loggers` rewritten with `std::partition` + `erase(first_removed, end)`, for a callback that
    always answers "queues empty": the same entries survive, in partition's order -/
def partitionCleanup (s : St) : St :=
  if s.flag then { s with entries := partKept (fun e => e.valid) s.entries.length s.entries, flag := false } else s

end LogReg
