import QuillModel.LogReg.Model
/-!
Invariant of the logger registry and the step lemmas behind `Props/C17LogReg.lean`.

`Rel a b` for every pair `a` before `b` in the vector: names STRICTLY ascend (`create_or_get_logger` inserts only when
`_find_logger` found no entry of the name, valid or not), identities differ. Together with "every identity is below
the construction counter" this is inductive for lower/lower.
-/
namespace LogReg

def Rel (a b : Entry) : Prop := a.name < b.name ∧ a.id ≠ b.id

structure RInv (s : St) : Prop where
  pw : s.entries.Pairwise Rel
  lt : ∀ e ∈ s.entries, e.id < s.next

theorem rinv_init : RInv {} := ⟨List.Pairwise.nil, by simp⟩

/-! ### `lower_bound` = end of the `< n` prefix -/

theorem getElem?_takeWhile_length (p : Entry → Bool) (l : List Entry) :
    l[(l.takeWhile p).length]? = (l.dropWhile p).head? := by
  induction l with
  | nil => simp
  | cons x xs ih =>
    by_cases h : p x
    · simp [h, ih]
    · simp [h]

theorem take_takeWhile_length (q : Entry → Bool) (l : List Entry) : l.take (l.takeWhile q).length = l.takeWhile q := by
  induction l with
  | nil => simp
  | cons x xs ih => by_cases h : q x <;> simp [h, ih]

theorem drop_takeWhile_length (q : Entry → Bool) (l : List Entry) : l.drop (l.takeWhile q).length = l.dropWhile q := by
  induction l with
  | nil => simp
  | cons x xs ih => by_cases h : q x <;> simp [h, ih]

theorem of_mem_takeWhile (q : Entry → Bool) (l : List Entry) : ∀ e ∈ l.takeWhile q, q e = true := by
  induction l with
  | nil => simp
  | cons x xs ih =>
    by_cases h : q x
    · simp only [List.takeWhile_cons, h, if_true, List.mem_cons]
      rintro e (rfl | he)
      · exact h
      · exact ih e he
    · simp [h]

/-- the predicate of `lookup` -/
def hasName (n : Nat) (e : Entry) : Bool := e.name == n

theorem lookup_def (s : St) (n : Nat) : lookup s n = s.entries.find? (hasName n) := rfl

/-- the valid logger of a name in a vector -/
def validIn (l : List Entry) (n : Nat) : Option Nat :=
  match l.find? (hasName n) with
  | some e => if e.valid then some e.id else none
  | none => none

theorem validOf_def (s : St) (n : Nat) : validOf s n = validIn s.entries n := rfl

theorem find_none_of_gt (l : List Entry) (n : Nat) (h : ∀ e ∈ l, n < e.name) : l.find? (hasName n) = none := by
  rw [List.find?_eq_none]
  intro e he
  have := h e he
  simp only [hasName, beq_iff_eq]
  omega

/-- `_find_logger` on a vector satisfying the invariant is the linear search by name -/
theorem find_list (l : List Entry) (n : Nat) (h : l.Pairwise Rel) :
    (match (l.dropWhile (fun e => decide (e.name < n))).head? with
     | some e => if e.name = n then some e else none
     | none => none) = l.find? (hasName n) := by
  induction l with
  | nil => simp
  | cons x xs ih =>
    have hx := List.pairwise_cons.1 h
    by_cases hlt : x.name < n
    · have hne : (x.name == n) = false := by simp; omega
      simp only [List.dropWhile_cons, hlt, decide_true, if_true, List.find?_cons, hasName, hne]
      exact ih hx.2
    · simp only [List.dropWhile_cons, hlt, decide_false]
      by_cases ha : x.name = n
      · simp [ha, hasName]
      · have h1 : hasName n x = false := by simp [hasName, ha]
        have h2 : xs.find? (hasName n) = none := by
          apply find_none_of_gt
          intro e he
          have := (hx.1 e he).1
          omega
        simp [ha, h1, h2]

theorem find_eq_lookup (p : Params) (hp : p.OK) (s : St) (hs : RInv s) (n : Nat) : find p s n = lookup s n := by
  unfold find bound
  rw [hp.1]
  simp only
  rw [getElem?_takeWhile_length]
  exact find_list s.entries n hs.pw

/-! ### one entry per name -/

theorem filter_name_le_one (l : List Entry) (n : Nat) (h : l.Pairwise Rel) : (l.filter (hasName n)).length ≤ 1 := by
  induction l with
  | nil => simp
  | cons x xs ih =>
    have hx := List.pairwise_cons.1 h
    by_cases hx1 : hasName n x = true
    · have : xs.filter (hasName n) = [] := by
        rw [List.filter_eq_nil_iff]
        intro e he
        have := (hx.1 e he).1
        simp only [hasName, beq_iff_eq] at hx1 ⊢
        omega
      simp [hx1, this]
    · simp only [List.filter_cons, hx1]
      exact ih hx.2

theorem eq_of_name_eq (l : List Entry) (h : l.Pairwise Rel) :
    ∀ a ∈ l, ∀ b ∈ l, a.name = b.name → a = b := by
  induction l with
  | nil => simp
  | cons x xs ih =>
    have hx := List.pairwise_cons.1 h
    intro a ha b hb hn
    simp only [List.mem_cons] at ha hb
    rcases ha with rfl | ha <;> rcases hb with rfl | hb
    · rfl
    · have := (hx.1 b hb).1; omega
    · have := (hx.1 a ha).1; omega
    · exact ih hx.2 a ha b hb hn

/-- under the invariant, `lookup` finds THE entry of the name -/
theorem find_some_of_mem (l : List Entry) (h : l.Pairwise Rel) (e : Entry) (he : e ∈ l) :
    l.find? (hasName e.name) = some e := by
  cases hf : l.find? (hasName e.name) with
  | none =>
    rw [List.find?_eq_none] at hf
    exact absurd (by simp [hasName]) (hf e he)
  | some a =>
    have hm := List.mem_of_find?_eq_some hf
    have hq := List.find?_some hf
    simp only [hasName, beq_iff_eq] at hq
    rw [eq_of_name_eq l h a hm e he hq]

/-! ### insert at the lower bound -/

theorem mem_dropWhile_ge (l : List Entry) (n : Nat) (h : l.Pairwise Rel) :
    ∀ e ∈ l.dropWhile (fun e => decide (e.name < n)), n ≤ e.name := by
  induction l with
  | nil => simp
  | cons x xs ih =>
    have hx := List.pairwise_cons.1 h
    by_cases hlt : x.name < n
    · simp only [List.dropWhile_cons, hlt, decide_true, if_true]
      exact ih hx.2
    · simp only [List.dropWhile_cons, hlt, decide_false]
      intro e he
      simp only [Bool.false_eq_true, if_false, List.mem_cons] at he
      rcases he with rfl | he
      · omega
      · have := (hx.1 e he).1; omega

theorem insert_lower_eq (l : List Entry) (n : Nat) (x : Entry) :
    insertAt l (bound .lower l n) x =
      l.takeWhile (fun e => decide (e.name < n)) ++ x :: l.dropWhile (fun e => decide (e.name < n)) := by
  unfold insertAt bound
  simp only
  rw [take_takeWhile_length, drop_takeWhile_length]

theorem pairwise_insert_lower (l : List Entry) (n i : Nat) (v : Bool) (h : l.Pairwise Rel)
    (habs : ∀ e ∈ l, e.name ≠ n) (hid : ∀ e ∈ l, e.id < i) :
    (l.takeWhile (fun e => decide (e.name < n)) ++
      { name := n, id := i, valid := v } :: l.dropWhile (fun e => decide (e.name < n))).Pairwise Rel := by
  have hsplit := List.takeWhile_append_dropWhile (p := fun e : Entry => decide (e.name < n)) (l := l)
  have hpw : (l.takeWhile (fun e => decide (e.name < n)) ++ l.dropWhile (fun e => decide (e.name < n))).Pairwise Rel := by
    rw [hsplit]; exact h
  rw [List.pairwise_append] at hpw ⊢
  obtain ⟨h1, h2, h3⟩ := hpw
  have htw : ∀ e ∈ l.takeWhile (fun e => decide (e.name < n)), e.name < n ∧ e ∈ l := by
    intro e he
    exact ⟨by simpa using of_mem_takeWhile _ l e he, (List.takeWhile_sublist _).subset he⟩
  have hdw : ∀ e ∈ l.dropWhile (fun e => decide (e.name < n)), n ≤ e.name ∧ e ∈ l := by
    intro e he
    exact ⟨mem_dropWhile_ge l n h e he, (List.dropWhile_sublist _).subset he⟩
  refine ⟨h1, ?_, ?_⟩
  · rw [List.pairwise_cons]
    refine ⟨?_, h2⟩
    intro e he
    have ⟨hge, hmem⟩ := hdw e he
    have hne := habs e hmem
    have := hid e hmem
    refine ⟨?_, ?_⟩
    · simp only; omega
    · simp only [ne_eq]; omega
  · intro a ha b hb
    simp only [List.mem_cons] at hb
    rcases hb with rfl | hb
    · have ⟨hlt, hmem⟩ := htw a ha
      have := hid a hmem
      refine ⟨by simp only; omega, ?_⟩
      simp only [ne_eq]; omega
    · exact h3 a ha b hb

/-! ### what one step does to the invariant and to `lookup` -/

theorem lookup_none_iff (s : St) (n : Nat) : lookup s n = none ↔ ∀ e ∈ s.entries, e.name ≠ n := by
  rw [lookup_def, List.find?_eq_none]
  simp only [hasName, beq_iff_eq, ne_eq]

theorem lookup_some_mem {s : St} {n : Nat} {e : Entry} (h : lookup s n = some e) : e ∈ s.entries ∧ e.name = n := by
  rw [lookup_def] at h
  have := List.find?_some h
  simp only [hasName, beq_iff_eq] at this
  exact ⟨List.mem_of_find?_eq_some h, this⟩

/-- the state after a `create_or_get_logger` that found nothing -/
def created (s : St) (n : Nat) : St :=
  { s with
    entries := s.entries.takeWhile (fun e => decide (e.name < n)) ++
      { name := n, id := s.next, valid := true } :: s.entries.dropWhile (fun e => decide (e.name < n)),
    next := s.next + 1 }

theorem step_createOrGet (p : Params) (hp : p.OK) (s : St) (hs : RInv s) (n : Nat) :
    step p s (.createOrGet n) =
      match lookup s n with
      | some e => (s, if e.valid then .id e.id else .guard)
      | none => (created s n, .id s.next) := by
  simp only [step, find_eq_lookup p hp s hs n]
  cases lookup s n with
  | some e => rfl
  | none => simp only [hp.2, insert_lower_eq, created]

theorem step_get (p : Params) (hp : p.OK) (s : St) (hs : RInv s) (n : Nat) :
    step p s (.get n) = (s, match lookup s n with
                            | some e => if e.valid then .id e.id else .none
                            | none => .none) := by
  simp only [step, find_eq_lookup p hp s hs n]
  cases lookup s n <;> rfl

theorem rinv_created (s : St) (hs : RInv s) (n : Nat) (hn : lookup s n = none) : RInv (created s n) := by
  refine ⟨pairwise_insert_lower s.entries n s.next true hs.pw ((lookup_none_iff s n).1 hn) hs.lt, ?_⟩
  intro e he
  simp only [created, List.mem_append, List.mem_cons] at he ⊢
  rcases he with he | rfl | he
  · have := hs.lt e ((List.takeWhile_sublist _).subset he); omega
  · simp
  · have := hs.lt e ((List.dropWhile_sublist _).subset he); omega

theorem lookup_created (s : St) (n m : Nat) :
    lookup (created s n) m = if m = n then some ⟨n, s.next, true⟩ else lookup s m := by
  have hsplit := List.takeWhile_append_dropWhile (p := fun e : Entry => decide (e.name < n)) (l := s.entries)
  have hl : lookup s m = (s.entries.takeWhile (fun e => decide (e.name < n)) ++
      s.entries.dropWhile (fun e => decide (e.name < n))).find? (hasName m) := by
    rw [hsplit]; rfl
  rw [hl]
  simp only [lookup_def, created, List.find?_append, List.find?_cons]
  by_cases hmn : m = n
  · subst hmn
    have : (s.entries.takeWhile (fun e => decide (e.name < m))).find? (hasName m) = none := by
      rw [List.find?_eq_none]
      intro e he
      have := of_mem_takeWhile _ _ e he
      simp only [decide_eq_true_eq] at this
      simp only [hasName, beq_iff_eq]
      omega
    simp [this, hasName]
  · have : hasName m { name := n, id := s.next, valid := true } = false := by
      simp [hasName]; omega
    simp [this, hmn]

theorem validOf_created (s : St) (n m : Nat) :
    validOf (created s n) m = if m = n then some s.next else validOf s m := by
  unfold validOf
  rw [lookup_created]
  by_cases h : m = n <;> simp [h]

/-! ### `remove_logger` -/

theorem inval_id (n : Nat) (e : Entry) : (inval n e).id = e.id := by unfold inval; split <;> rfl
theorem inval_name (n : Nat) (e : Entry) : (inval n e).name = e.name := by unfold inval; split <;> rfl

theorem inval_valid (n : Nat) (e : Entry) : (inval n e).valid = (e.valid && decide (e.name ≠ n)) := by
  unfold inval
  by_cases h : e.name = n <;> by_cases h2 : e.valid = true <;> simp [h, h2]

theorem inval_rel (n : Nat) (a b : Entry) (h : Rel a b) : Rel (inval n a) (inval n b) := by
  unfold Rel
  rw [inval_name, inval_name, inval_id, inval_id]
  exact h

theorem rinv_remove (s : St) (hs : RInv s) (n : Nat) :
    RInv { s with entries := s.entries.map (inval n), flag := true } := by
  refine ⟨List.Pairwise.map (inval n) (inval_rel n) hs.pw, ?_⟩
  intro e he
  simp only [List.mem_map] at he
  obtain ⟨a, ha, rfl⟩ := he
  rw [inval_id]; exact hs.lt a ha

theorem find_map_inval (l : List Entry) (n m : Nat) :
    (l.map (inval n)).find? (hasName m) = (l.find? (hasName m)).map (inval n) := by
  induction l with
  | nil => simp
  | cons x xs ih =>
    have : hasName m (inval n x) = hasName m x := by simp only [hasName, inval_name]
    by_cases h : hasName m x = true
    · simp [this, h]
    · simp only [List.map_cons, List.find?_cons, this, h]
      exact ih

theorem lookup_remove (s : St) (n m : Nat) :
    lookup { s with entries := s.entries.map (inval n), flag := true } m = (lookup s m).map (inval n) :=
  find_map_inval s.entries n m

theorem validOf_remove (s : St) (n m : Nat) :
    validOf { s with entries := s.entries.map (inval n), flag := true } m = if m = n then none else validOf s m := by
  unfold validOf
  rw [lookup_remove]
  cases h : lookup s m with
  | none => simp
  | some e =>
    have hn := (lookup_some_mem h).2
    simp only [Option.map_some, inval_valid, inval_id, hn]
    by_cases hmn : m = n <;> simp [hmn]

/-! ### the clean-up loop -/

theorem sweep_cons_valid (e : Entry) (es : List Entry) (ans : List Bool) (h : e.valid = true) :
    sweep (e :: es) ans = { sweep es ans with kept := e :: (sweep es ans).kept } := by
  simp [sweep, h]

theorem sweep_cons_erase (e : Entry) (es : List Entry) (ans : List Bool) (h : e.valid = false)
    (ha : ans.headD true = true) :
    sweep (e :: es) ans = { sweep es ans.tail with names := e.name :: (sweep es ans.tail).names } := by
  simp only [sweep, h, ha, Bool.false_eq_true, if_false, if_true]

theorem sweep_cons_keep (e : Entry) (es : List Entry) (ans : List Bool) (h : e.valid = false)
    (ha : ans.headD true = false) :
    sweep (e :: es) ans = { sweep es ans.tail with kept := e :: (sweep es ans.tail).kept, rearm := true } := by
  simp only [sweep, h, ha, Bool.false_eq_true, if_false]

/-- the three cases of one iteration -/
theorem sweep_cases (e : Entry) (ans : List Bool) :
    e.valid = true ∨ (e.valid = false ∧ ans.headD true = true) ∨ (e.valid = false ∧ ans.headD true = false) := by
  cases e.valid <;> cases ans.headD true <;> simp

theorem sweep_sublist (l : List Entry) (ans : List Bool) : (sweep l ans).kept.Sublist l := by
  induction l generalizing ans with
  | nil => simp [sweep]
  | cons e es ih =>
    rcases sweep_cases e ans with h | ⟨h, ha⟩ | ⟨h, ha⟩
    · rw [sweep_cons_valid e es ans h]; exact (ih ans).cons_cons e
    · rw [sweep_cons_erase e es ans h ha]; exact (ih ans.tail).cons e
    · rw [sweep_cons_keep e es ans h ha]; exact (ih ans.tail).cons_cons e

theorem sweep_valid_kept (l : List Entry) (ans : List Bool) : ∀ e ∈ l, e.valid = true → e ∈ (sweep l ans).kept := by
  induction l generalizing ans with
  | nil => simp
  | cons x xs ih =>
    intro e he hv
    simp only [List.mem_cons] at he
    rcases sweep_cases x ans with h | ⟨h, ha⟩ | ⟨h, ha⟩
    · rw [sweep_cons_valid x xs ans h]
      rcases he with rfl | he
      · simp
      · simp only [List.mem_cons]; right; exact ih ans e he hv
    · rw [sweep_cons_erase x xs ans h ha]
      rcases he with rfl | he
      · rw [h] at hv; cases hv
      · exact ih ans.tail e he hv
    · rw [sweep_cons_keep x xs ans h ha]
      rcases he with rfl | he
      · simp
      · simp only [List.mem_cons]; right; exact ih ans.tail e he hv

/-- every returned name is the name of an INVALID entry of the vector -/
theorem sweep_names_invalid (l : List Entry) (ans : List Bool) :
    ∀ n ∈ (sweep l ans).names, ∃ e ∈ l, e.name = n ∧ e.valid = false := by
  induction l generalizing ans with
  | nil => simp [sweep]
  | cons x xs ih =>
    intro n hn
    rcases sweep_cases x ans with h | ⟨h, ha⟩ | ⟨h, ha⟩
    · rw [sweep_cons_valid x xs ans h] at hn
      obtain ⟨e, he, h1, h2⟩ := ih ans n hn
      exact ⟨e, List.mem_cons_of_mem _ he, h1, h2⟩
    · rw [sweep_cons_erase x xs ans h ha] at hn
      simp only [List.mem_cons] at hn
      rcases hn with rfl | hn
      · exact ⟨x, List.mem_cons_self .., rfl, h⟩
      · obtain ⟨e, he, h1, h2⟩ := ih ans.tail n hn
        exact ⟨e, List.mem_cons_of_mem _ he, h1, h2⟩
    · rw [sweep_cons_keep x xs ans h ha] at hn
      obtain ⟨e, he, h1, h2⟩ := ih ans.tail n hn
      exact ⟨e, List.mem_cons_of_mem _ he, h1, h2⟩

theorem sweep_names_subset (l : List Entry) (ans : List Bool) : ∀ n ∈ (sweep l ans).names, n ∈ l.map (·.name) := by
  intro n hn
  obtain ⟨e, he, h1, _⟩ := sweep_names_invalid l ans n hn
  exact List.mem_map.2 ⟨e, he, h1⟩

/-- a name that was not returned is looked up as before -/
theorem sweep_find_of_not_mem (l : List Entry) (ans : List Bool) (n : Nat) (hn : n ∉ (sweep l ans).names) :
    (sweep l ans).kept.find? (hasName n) = l.find? (hasName n) := by
  induction l generalizing ans with
  | nil => simp [sweep]
  | cons x xs ih =>
    rcases sweep_cases x ans with h | ⟨h, ha⟩ | ⟨h, ha⟩
    · rw [sweep_cons_valid x xs ans h] at hn ⊢
      simp only [List.find?_cons]
      rw [ih ans hn]
    · rw [sweep_cons_erase x xs ans h ha] at hn ⊢
      simp only [List.mem_cons, not_or] at hn
      have : hasName n x = false := by simp only [hasName, beq_eq_false_iff_ne, ne_eq]; exact fun e => hn.1 e.symm
      simp only [List.find?_cons, this]
      exact ih ans.tail hn.2
    · rw [sweep_cons_keep x xs ans h ha] at hn ⊢
      simp only [List.find?_cons]
      rw [ih ans.tail hn]

/-- a returned name has no entry any more -/
theorem sweep_find_of_mem (l : List Entry) (hl : l.Pairwise Rel) (ans : List Bool) (n : Nat)
    (hn : n ∈ (sweep l ans).names) : (sweep l ans).kept.find? (hasName n) = none := by
  induction l generalizing ans with
  | nil => simp [sweep] at hn
  | cons x xs ih =>
    have hx := List.pairwise_cons.1 hl
    have hgt : ∀ a, n ∈ (sweep xs a).names → hasName n x = false := by
      intro a h
      obtain ⟨e, he, h1, _⟩ := sweep_names_invalid xs a n h
      have := (hx.1 e he).1
      simp only [hasName, beq_eq_false_iff_ne, ne_eq]; omega
    rcases sweep_cases x ans with h | ⟨h, ha⟩ | ⟨h, ha⟩
    · rw [sweep_cons_valid x xs ans h] at hn ⊢
      simp only [List.find?_cons, hgt ans hn]
      exact ih hx.2 ans hn
    · rw [sweep_cons_erase x xs ans h ha] at hn ⊢
      simp only [List.mem_cons] at hn
      rcases hn with rfl | hn
      · apply find_none_of_gt
        intro e he
        exact (hx.1 e ((sweep_sublist xs ans.tail).subset he)).1
      · exact ih hx.2 ans.tail hn
    · rw [sweep_cons_keep x xs ans h ha] at hn ⊢
      simp only [List.find?_cons, hgt ans.tail hn]
      exact ih hx.2 ans.tail hn

/-- the clean-up changes no name's valid logger -/
theorem sweep_validIn (l : List Entry) (hl : l.Pairwise Rel) (ans : List Bool) (n : Nat) :
    validIn (sweep l ans).kept n = validIn l n := by
  unfold validIn
  by_cases hn : n ∈ (sweep l ans).names
  · rw [sweep_find_of_mem l hl ans n hn]
    obtain ⟨e, he, h1, h2⟩ := sweep_names_invalid l ans n hn
    have := find_some_of_mem l hl e he
    rw [h1] at this
    rw [this]
    simp [h2]
  · rw [sweep_find_of_not_mem l ans n hn]

/-- the flag is re-armed iff an invalid entry stays in the vector -/
theorem sweep_rearm (l : List Entry) (ans : List Bool) :
    (sweep l ans).rearm = (sweep l ans).kept.any (fun e => !e.valid) := by
  induction l generalizing ans with
  | nil => simp [sweep]
  | cons x xs ih =>
    rcases sweep_cases x ans with h | ⟨h, ha⟩ | ⟨h, ha⟩
    · rw [sweep_cons_valid x xs ans h]; simp [h, ih ans]
    · rw [sweep_cons_erase x xs ans h ha]; simp [ih ans.tail]
    · rw [sweep_cons_keep x xs ans h ha]; simp [h]

/-- the per-entry decisions of the loop: `true` = erased. A valid entry is never erased and consumes no answer; an
    invalid entry consumes the next answer (`true` once the list is exhausted) -/
def decisions : List Entry → List Bool → List Bool
  | [], _ => []
  | e :: es, ans => if e.valid then false :: decisions es ans else ans.headD true :: decisions es ans.tail

theorem length_decisions (l : List Entry) (ans : List Bool) : (decisions l ans).length = l.length := by
  induction l generalizing ans with
  | nil => rfl
  | cons x xs ih => unfold decisions; split <;> simp [ih]

theorem decisions_cons_valid (e : Entry) (es : List Entry) (ans : List Bool) (h : e.valid = true) :
    decisions (e :: es) ans = false :: decisions es ans := by simp [decisions, h]

theorem decisions_cons_invalid (e : Entry) (es : List Entry) (ans : List Bool) (h : e.valid = false) :
    decisions (e :: es) ans = ans.headD true :: decisions es ans.tail := by simp [decisions, h]

theorem sweep_kept_eq (l : List Entry) (ans : List Bool) :
    (sweep l ans).kept = ((l.zip (decisions l ans)).filter (fun x => !x.2)).map (·.1) := by
  induction l generalizing ans with
  | nil => simp [sweep, decisions]
  | cons x xs ih =>
    rcases sweep_cases x ans with h | ⟨h, ha⟩ | ⟨h, ha⟩
    · rw [sweep_cons_valid x xs ans h, decisions_cons_valid x xs ans h]; simp [ih ans]
    · rw [sweep_cons_erase x xs ans h ha, decisions_cons_invalid x xs ans h, ha]; simp [ih ans.tail]
    · rw [sweep_cons_keep x xs ans h ha, decisions_cons_invalid x xs ans h, ha]; simp [ih ans.tail]

theorem sweep_names_eq (l : List Entry) (ans : List Bool) :
    (sweep l ans).names = ((l.zip (decisions l ans)).filter (fun x => x.2)).map (·.1.name) := by
  induction l generalizing ans with
  | nil => simp [sweep, decisions]
  | cons x xs ih =>
    rcases sweep_cases x ans with h | ⟨h, ha⟩ | ⟨h, ha⟩
    · rw [sweep_cons_valid x xs ans h, decisions_cons_valid x xs ans h]; simp [ih ans]
    · rw [sweep_cons_erase x xs ans h ha, decisions_cons_invalid x xs ans h, ha]; simp [ih ans.tail]
    · rw [sweep_cons_keep x xs ans h ha, decisions_cons_invalid x xs ans h, ha]; simp [ih ans.tail]

theorem sweep_rearm_eq (l : List Entry) (ans : List Bool) :
    (sweep l ans).rearm = (l.zip (decisions l ans)).any (fun x => !x.1.valid && !x.2) := by
  induction l generalizing ans with
  | nil => simp [sweep, decisions]
  | cons x xs ih =>
    rcases sweep_cases x ans with h | ⟨h, ha⟩ | ⟨h, ha⟩
    · rw [sweep_cons_valid x xs ans h, decisions_cons_valid x xs ans h]; simp [ih ans, h]
    · rw [sweep_cons_erase x xs ans h ha, decisions_cons_invalid x xs ans h, ha]; simp [ih ans.tail]
    · rw [sweep_cons_keep x xs ans h ha, decisions_cons_invalid x xs ans h, ha]; simp [h]

/-- only invalid entries are erased -/
theorem decisions_erased_invalid (l : List Entry) (ans : List Bool) :
    ∀ x ∈ l.zip (decisions l ans), x.2 = true → x.1.valid = false := by
  induction l generalizing ans with
  | nil => simp [decisions]
  | cons e es ih =>
    intro x hx hd
    by_cases h : e.valid = true
    · rw [decisions_cons_valid e es ans h] at hx
      simp only [List.zip_cons_cons, List.mem_cons] at hx
      rcases hx with rfl | hx
      · cases hd
      · exact ih ans x hx hd
    · have h' : e.valid = false := by simpa using h
      rw [decisions_cons_invalid e es ans h'] at hx
      simp only [List.zip_cons_cons, List.mem_cons] at hx
      rcases hx with rfl | hx
      · exact h'
      · exact ih ans.tail x hx hd

theorem rinv_cleanup (s : St) (hs : RInv s) (ans : List Bool) :
    RInv { s with entries := (sweep s.entries ans).kept, flag := (sweep s.entries ans).rearm } := by
  refine ⟨hs.pw.sublist (sweep_sublist _ _), ?_⟩
  intro e he
  exact hs.lt e ((sweep_sublist _ _).subset he)

/-- the invariant is inductive -/
theorem rinv_step (p : Params) (hp : p.OK) (s : St) (hs : RInv s) (op : Op) : RInv (step p s op).1 := by
  cases op with
  | createOrGet n =>
    rw [step_createOrGet p hp s hs n]
    cases h : lookup s n with
    | some e => exact hs
    | none => exact rinv_created s hs n h
  | get n => rw [step_get p hp s hs n]; exact hs
  | remove n =>
    simp only [step]
    split
    · exact rinv_remove s hs n
    · exact hs
  | cleanup ans =>
    simp only [step]
    split
    · exact rinv_cleanup s hs ans
    · exact hs
  | all => exact hs
  | count => exact hs

theorem rinv_run (p : Params) (hp : p.OK) (ops : List Op) (s : St) (hs : RInv s) : RInv (run p s ops) := by
  induction ops generalizing s with
  | nil => exact hs
  | cons op ops ih => exact ih _ (rinv_step p hp s hs op)

end LogReg
