import QuillModel.NamedArgs.Split
import QuillModel.NamedArgs.ScanProc
/-! The generated `{spec}<SEP>{spec}…` string, the `named_args` vector, and the LOGJ_ templates. -/
namespace Named

theorem joinVals_cons_cons (sep v w : Str) (rest : List Str) :
    joinVals sep (v :: w :: rest) = v ++ (sep ++ joinVals sep (w :: rest)) := by simp [joinVals]

/-- the generated format string is the per-argument pieces joined by the separator -/
theorem genFormat_eq (sep : Str) (keys : List (Str × Str)) (n : Nat) : ∀ k, k ≤ n →
    genFormat sep keys n k = joinVals sep ((List.range' (n - k) k).map (oneField keys)) := by
  intro k
  induction k with
  | zero => intro _; simp [genFormat, joinVals]
  | succ k ih =>
    intro hk
    have ih' := ih (by omega)
    simp only [genFormat]
    rw [ih']
    cases k with
    | zero =>
      have : ¬ (n - (0 + 1) < n - 1) := by omega
      simp [this, joinVals, List.range']
    | succ j =>
      have h1 : n - (j + 1 + 1) < n - 1 := by omega
      simp only [h1, if_true]
      have e : n - (j + 1) = n - (j + 1 + 1) + 1 := by omega
      conv => rhs; rw [List.range'_succ, ← e, List.map_cons]
      generalize hL : List.map (oneField keys) (List.range' (n - (j + 1)) (j + 1)) = L
      cases L with
      | nil => simp [List.range'_succ] at hL
      | cons x rest => rw [joinVals_cons_cons]; simp

theorem populateNames_length (keys : List (Str × Str)) (nargs : Nat) (h : keys.length ≤ nargs) :
    (populateNames keys nargs).length = nargs := by
  simp [populateNames]; omega

/-- **the pairs**: with at least as many arguments as placeholders and no rendered value containing the separator,
    pair `i` is `(name_i, value_i)` — the value rendered by its own generated piece — sanitised if configured -/
theorem namedPairs_eq {sep : Str} (hne : sep ≠ []) (hb : unbordered sep = true) (san : Bool)
    (keys : List (Str × Str)) (fv : List Str) (hlen : keys.length ≤ fv.length)
    (hv : ∀ v ∈ fv, containsSub sep v = false) :
    namedPairs sep san keys fv = (populateNames keys fv.length).zip (if san then fv.map sanitize else fv) := by
  have hn := populateNames_length keys fv.length hlen
  simp only [namedPairs, hn, Nat.lt_irrefl, if_false, List.take_length]
  rw [split_join hne hb fv hv]

/-! ### LOGJ_ -/

/-- `QUILL_GENERATE_NAMED_FORMAT_STRING_n(text, x1, …, xn)` = `text " {x1}, {x2}, … {xn}"` as pieces -/
def logjPieces (tp : List Piece) : List Str → List Piece
  | [] => tp
  | x :: xs => tp ++ (.text ' ' :: .field x none :: xs.flatMap (fun y => [.text ',', .text ' ', .field y none]))

/-- the literal the preprocessor builds -/
def logjLiteral (text : Str) : List Str → Str
  | [] => text
  | x :: xs => text ++ ([' ', '{'] ++ x ++ ['}']) ++ xs.flatMap (fun y => [',', ' ', '{'] ++ y ++ ['}'])

theorem render_append (a b : List Piece) : render (a ++ b) = render a ++ render b := by
  induction a with
  | nil => rfl
  | cons p ps ih => simp [render, ih]

theorem render_logj_tail (xs : List Str) :
    render (xs.flatMap (fun y => [Piece.text ',', Piece.text ' ', Piece.field y none]))
      = xs.flatMap (fun y => [',', ' ', '{'] ++ y ++ ['}']) := by
  induction xs with
  | nil => rfl
  | cons y ys ih => simp [render, Piece.render, ih]

theorem render_logj (tp : List Piece) (xs : List Str) : render (logjPieces tp xs) = logjLiteral (render tp) xs := by
  cases xs with
  | nil => rfl
  | cons x xs => simp [logjPieces, logjLiteral, render_append, render, Piece.render, render_logj_tail]

def noFields (tp : List Piece) : Bool := tp.all (fun p => !p.isField)

theorem procOK_tail (xs : List Str) :
    procOK (xs.flatMap (fun y => [Piece.text ',', Piece.text ' ', Piece.field y none])) = true := by
  induction xs with
  | nil => rfl
  | cons y ys ih =>
    cases ys with
    | nil => simp [procOK, Piece.isField, startsEscClose]
    | cons z zs => simp [procOK, Piece.isField, startsEscClose] at ih ⊢; exact ih

theorem procOK_prefix (tp rest : List Piece) (hn : noFields tp = true) (hr : procOK rest = true) :
    procOK (tp ++ rest) = true := by
  induction tp with
  | nil => exact hr
  | cons p ps ih =>
    simp only [noFields, List.all_cons, Bool.and_eq_true, Bool.not_eq_true'] at hn
    simp [procOK, hn.1, ih (by simpa [noFields] using hn.2)]

theorem detectOK_prefix (tp rest : List Piece) (hn : noFields tp = true) (hr : detectOK rest = true) :
    detectOK (tp ++ rest) = true := by
  induction tp with
  | nil => exact hr
  | cons p ps ih =>
    simp only [noFields, List.all_cons, Bool.and_eq_true, Bool.not_eq_true'] at hn
    have := ih (by simpa [noFields] using hn.2)
    cases p with
    | field n s => simp [Piece.isField] at hn
    | _ => simpa [detectOK, detOK] using this

theorem procOK_logj (tp : List Piece) (hn : noFields tp = true) (xs : List Str) : procOK (logjPieces tp xs) = true := by
  cases xs with
  | nil => simpa [logjPieces] using procOK_prefix tp [] hn rfl
  | cons x xs =>
    apply procOK_prefix tp _ hn
    have := procOK_tail xs
    cases xs with
    | nil => simp [procOK, Piece.isField, startsEscClose]
    | cons z zs => simp [procOK, Piece.isField, startsEscClose] at this ⊢; exact this

theorem any_named_prefix (tp rest : List Piece) (hn : noFields tp = true) :
    (tp ++ rest).any Piece.isNamed = rest.any Piece.isNamed := by
  induction tp with
  | nil => rfl
  | cons p ps ih =>
    simp only [noFields, List.all_cons, Bool.and_eq_true, Bool.not_eq_true'] at hn
    have := ih (by simpa [noFields] using hn.2)
    cases p with
    | field n s => simp [Piece.isField] at hn
    | _ => simpa [Piece.isNamed] using this

theorem keysOf_prefix (tp rest : List Piece) (hn : noFields tp = true) : keysOf (tp ++ rest) = keysOf rest := by
  induction tp with
  | nil => rfl
  | cons p ps ih =>
    simp only [noFields, List.all_cons, Bool.and_eq_true, Bool.not_eq_true'] at hn
    have := ih (by simpa [noFields] using hn.2)
    cases p with
    | field n s => simp [Piece.isField] at hn
    | _ => simpa [keysOf] using this

theorem keysOf_logj_tail (xs : List Str) :
    keysOf (xs.flatMap (fun y => [Piece.text ',', Piece.text ' ', Piece.field y none])) = xs.map (fun y => (y, [])) := by
  induction xs with
  | nil => rfl
  | cons y ys ih => simp [keysOf, syntaxOf, ih]

theorem wf_logj (tp : List Piece) (hw : wf tp = true) (xs : List Str) (hx : ∀ x ∈ xs, nameOK x = true) :
    wf (logjPieces tp xs) = true := by
  cases xs with
  | nil => simpa [logjPieces] using hw
  | cons x xs =>
    simp only [wf, List.all_eq_true] at hw ⊢
    intro p hp
    simp only [logjPieces, List.mem_append, List.mem_cons, List.mem_flatMap, List.mem_nil_iff, or_false] at hp
    rcases hp with h | rfl | rfl | ⟨y, hy, rfl | rfl | rfl⟩
    · exact hw p h
    · decide
    · simpa [Piece.wf] using hx x (by simp)
    · decide
    · decide
    · simpa [Piece.wf] using hx y (by simp [hy])

end Named
