import QuillModel.NamedArgs.Basic
/-! Facts about the template grammar (`Piece`, `render`, `wf`) used by both scanner proofs. -/
namespace Named

theorem isAlpha_ne {c d : Char} (hd : isAlpha d = false) (h : isAlpha c = true) : c ≠ d := by
  intro e; subst e; simp [h] at hd

theorem identChar_ne {c d : Char} (hd : identChar d = false) (h : identChar c = true) : c ≠ d := by
  intro e; subst e; simp [h] at hd

theorem nameOK_not_mem {n : Str} {d : Char} (hd : identChar d = false) (h : nameOK n = true) : d ∉ n := by
  cases n with
  | nil => simp
  | cons c cs =>
    simp only [nameOK, Bool.and_eq_true, List.all_eq_true] at h
    intro hm
    rcases List.mem_cons.1 hm with e | e
    · have : identChar c = true := by simp [identChar, h.1]
      exact identChar_ne hd this e.symm
    · exact identChar_ne hd (h.2 d e) rfl

theorem noBrace_not_mem {s : Str} (h : noBrace s = true) : '{' ∉ s ∧ '}' ∉ s := by
  simp only [noBrace, List.all_eq_true, Bool.and_eq_true, bne_iff_ne, ne_eq] at h
  exact ⟨fun hm => (h _ hm).1 rfl, fun hm => (h _ hm).2 rfl⟩

/-- what stands between the braces of a field -/
def content (n : Str) (s : Option Str) : Str := n ++ syntaxOf s

theorem render_field (n : Str) (s : Option Str) : (Piece.field n s).render = '{' :: (content n s ++ ['}']) := by
  cases s <;> simp [Piece.render, content, syntaxOf]

theorem render_erase_field (n : Str) (s : Option Str) :
    (Piece.field n s).erase.render = '{' :: (syntaxOf s ++ ['}']) := by
  cases s <;> simp [Piece.render, Piece.erase, syntaxOf]

theorem content_no_brace {n : Str} {s : Option Str} (h : (Piece.field n s).wf = true) :
    '{' ∉ content n s ∧ '}' ∉ content n s := by
  cases s with
  | none =>
    simp only [Piece.wf] at h
    simp only [content, syntaxOf, List.append_nil]
    exact ⟨nameOK_not_mem (by decide) h, nameOK_not_mem (by decide) h⟩
  | some sp =>
    simp only [Piece.wf, Bool.and_eq_true] at h
    have hb := noBrace_not_mem h.2
    simp only [content, syntaxOf, List.mem_append, List.mem_cons, not_or]
    exact ⟨⟨nameOK_not_mem (by decide) h.1, by decide, hb.1⟩, ⟨nameOK_not_mem (by decide) h.1, by decide, hb.2⟩⟩

theorem name_no_colon {n : Str} {s : Option Str} (h : (Piece.field n s).wf = true) : ':' ∉ n := by
  cases s with
  | none => simp only [Piece.wf] at h; exact nameOK_not_mem (by decide) h
  | some sp => simp only [Piece.wf, Bool.and_eq_true] at h; exact nameOK_not_mem (by decide) h.1

/-- the first rendered character of what follows tells whether it is an escaped `}}` -/
theorem head_render_close {ps : List Piece} (h : wf ps = true) :
    (render ps).head? = some '}' ↔ startsEscClose ps = true := by
  cases ps with
  | nil => simp [render, startsEscClose]
  | cons p r =>
    simp only [wf, List.all_cons, Bool.and_eq_true] at h
    cases p with
    | text c =>
      have : c ≠ '}' := by
        have := h.1; simp only [Piece.wf, Bool.and_eq_true, bne_iff_ne, ne_eq] at this; exact this.2
      simp [render, Piece.render, startsEscClose, this]
    | escOpen => simp [render, Piece.render, startsEscClose]
    | escClose => simp [render, Piece.render, startsEscClose]
    | field n s => simp [render, render_field, startsEscClose]

theorem render_map_erase_cons (p : Piece) (ps : List Piece) :
    render ((p :: ps).map Piece.erase) = p.erase.render ++ render (ps.map Piece.erase) := by
  simp [render]

end Named
