import QuillModel.NamedArgs.Grammar
/-! `containsNamedArgs` (= `MacroMetadata::_contains_named_args`) on templates of the grammar: on the class
`detectOK` the flag is true iff a named placeholder occurs. -/
namespace Named

theorem get_at (pre suf : Str) (k : Nat) : (pre ++ suf)[pre.length + k]? = suf[k]? := by
  rw [List.getElem?_append_right (by omega)]; congr 1; omega

theorem get_at' {t pre suf : Str} (ht : t = pre ++ suf) (p k : Nat) (hp : p = pre.length + k) {c : Option Char}
    (hc : suf[k]? = c) : t[p]? = c := by subst ht; subst hp; rw [get_at pre suf k]; exact hc

theorem detOuter_end (t : Str) (fuel pos : Nat) (found : Bool) (h : t[pos]? = none) :
    detOuter t fuel pos found = found := by
  cases fuel <;> simp [detOuter, h]

theorem detOuter_plain (t : Str) (f pos : Nat) (found : Bool) (c : Char) (h : t[pos]? = some c) (hc : c ≠ '{') :
    detOuter t (f + 1) pos found = detOuter t f (pos + 1) found := by
  simp [detOuter, h, hc]

theorem detOuter_esc (t : Str) (f pos : Nat) (found : Bool) (h : t[pos]? = some '{') (h1 : t[pos + 1]? = some '{') :
    detOuter t (f + 1) pos found = detOuter t f (pos + 2) found := by
  simp [detOuter, h, h1]

theorem detOuter_field (t : Str) (f pos : Nat) (found : Bool) (fc : Char) (h : t[pos]? = some '{')
    (h1 : t[pos + 1]? = some fc) (hfc : fc ≠ '{') :
    detOuter t (f + 1) pos found =
      detOuter t f ((detInner t (t.length + 1) (pos + 1) 0).1 + 1)
        (found || ((detInner t (t.length + 1) (pos + 1) 0).2 != 0 && isAlpha fc)) := by
  simp [detOuter, h, h1, hfc]

theorem detOuter_true (t : Str) : ∀ (fuel pos : Nat), detOuter t fuel pos true = true := by
  intro fuel
  induction fuel with
  | zero => intro pos; rfl
  | succ f ih =>
    intro pos
    simp only [detOuter]
    split
    · rfl
    · split
      · split
        · rfl
        · split
          · exact ih _
          · simp only [Bool.true_or]; exact ih _
      · exact ih _

theorem detInner_cnt_le (t : Str) : ∀ (fuel pos cnt : Nat), cnt ≤ (detInner t fuel pos cnt).2 := by
  intro fuel
  induction fuel with
  | zero => intro pos cnt; simp [detInner]
  | succ f ih =>
    intro pos cnt
    simp only [detInner]
    split
    · simp
    · split
      · split
        · simp
        · split
          · have := ih (pos + 2) (cnt + 1); omega
          · simp
      · have := ih (pos + 1) (cnt + 1); omega

theorem detInner_plain (t : Str) (f pos cnt : Nat) (c : Char) (h : t[pos]? = some c) (hc : c ≠ '}') :
    detInner t (f + 1) pos cnt = detInner t f (pos + 1) (cnt + 1) := by
  simp [detInner, h, hc]

/-- the inner loop walks over a stretch without a closing brace -/
theorem detInner_skip (t : Str) : ∀ (mid a b : Str) (cnt fuel : Nat), '}' ∉ mid → t = a ++ (mid ++ b) →
    detInner t (fuel + mid.length) a.length cnt = detInner t fuel (a.length + mid.length) (cnt + mid.length) := by
  intro mid
  induction mid with
  | nil => intro a b cnt fuel _ _; simp
  | cons x xs ih =>
    intro a b cnt fuel hn ht
    have hx : x ≠ '}' := fun e => hn (by simp [e])
    have hxs : '}' ∉ xs := fun e => hn (by simp [e])
    have hget : t[a.length]? = some x := get_at' ht _ 0 (by simp; try omega) (by simp)
    have ht2 : t = (a ++ [x]) ++ (xs ++ b) := by rw [ht]; simp
    have h := ih (a ++ [x]) b (cnt + 1) fuel hxs ht2
    simp only [List.length_append, List.length_cons, List.length_nil] at h
    have e1 : fuel + (x :: xs).length = (fuel + xs.length) + 1 := by simp; omega
    rw [e1, detInner_plain t _ _ _ x hget hx]
    simp only [List.length_cons]
    rw [show a.length + (xs.length + 1) = a.length + (0 + 1) + xs.length by omega,
        show cnt + (xs.length + 1) = cnt + 1 + xs.length by omega]
    exact h

theorem isNamed_field (n : Str) (s : Option Str) : (Piece.field n s).isNamed = (n != []) := rfl

/-- the outer loop walks over a stretch without an opening brace -/
theorem detOuter_skip (t : Str) : ∀ (mid a b : Str) (found : Bool) (fuel : Nat), '{' ∉ mid → t = a ++ (mid ++ b) →
    detOuter t (fuel + mid.length) a.length found = detOuter t fuel (a.length + mid.length) found := by
  intro mid
  induction mid with
  | nil => intro a b found fuel _ _; simp
  | cons x xs ih =>
    intro a b found fuel hn ht
    have hx : x ≠ '{' := fun e => hn (by simp [e])
    have hxs : '{' ∉ xs := fun e => hn (by simp [e])
    have hget : t[a.length]? = some x := get_at' ht _ 0 (by simp; try omega) (by simp)
    have ht2 : t = (a ++ [x]) ++ (xs ++ b) := by rw [ht]; simp
    have h := ih (a ++ [x]) b found fuel hxs ht2
    simp only [List.length_append, List.length_cons, List.length_nil] at h
    have e1 : fuel + (x :: xs).length = (fuel + xs.length) + 1 := by simp; omega
    rw [e1, detOuter_plain t _ _ _ x hget hx]
    simp only [List.length_cons]
    rw [show a.length + (xs.length + 1) = a.length + (0 + 1) + xs.length by omega]
    exact h

theorem detOuter_render : ∀ (n : Nat) (rest : List Piece), rest.length ≤ n →
    ∀ (pre : Str) (found : Bool) (fuel : Nat) (t : Str),
    t = pre ++ render rest → wf rest = true → detOK false rest = true → (render rest).length < fuel →
    detOuter t fuel pre.length found = (found || rest.any Piece.isNamed) := by
  intro n
  induction n with
  | zero =>
    intro rest hl pre found fuel t ht _ _ _
    have : rest = [] := List.length_eq_zero_iff.1 (by omega)
    subst this
    rw [detOuter_end]
    · simp
    · subst ht; simp [render]
  | succ n ih =>
    intro rest hl
    cases rest with
    | nil =>
      intro pre found fuel t ht _ _ _
      rw [detOuter_end]
      · simp
      · subst ht; simp [render]
    | cons p r =>
    intro pre found fuel t ht hw hok hfuel
    have hlr : r.length ≤ n := by simp at hl; omega
    have hwp : p.wf = true := by simp only [wf, List.all_cons, Bool.and_eq_true] at hw; exact hw.1
    have hwr : wf r = true := by simp only [wf, List.all_cons, Bool.and_eq_true] at hw; exact hw.2
    obtain ⟨f, rfl⟩ : ∃ f, fuel = f + 1 := ⟨fuel - 1, by omega⟩
    cases p with
    | text c =>
      have hcne : c ≠ '{' := by simp only [Piece.wf, Bool.and_eq_true, bne_iff_ne, ne_eq] at hwp; exact hwp.1
      have ht1 : t = pre ++ (c :: render r) := by rw [ht]; simp [render, Piece.render]
      have ht2 : t = (pre ++ [c]) ++ render r := by rw [ht1]; simp
      have hok' : detOK false r = true := by simpa [detOK] using hok
      have h := ih r hlr (pre ++ [c]) found f t ht2 hwr hok' (by simp [render, Piece.render] at hfuel; omega)
      rw [detOuter_plain t f _ found c (get_at' ht1 _ 0 (by simp; try omega) (by simp)) hcne]
      simp only [List.length_append, List.length_cons, List.length_nil] at h
      rw [h]; simp [Piece.isNamed]
    | escClose =>
      have ht1 : t = pre ++ ('}' :: '}' :: render r) := by rw [ht]; simp [render, Piece.render]
      have ht2 : t = (pre ++ ['}', '}']) ++ render r := by rw [ht1]; simp
      have hok' : detOK false r = true := by simpa [detOK] using hok
      obtain ⟨f', rfl⟩ : ∃ f', f = f' + 1 := ⟨f - 1, by simp [render, Piece.render] at hfuel; omega⟩
      have h := ih r hlr (pre ++ ['}', '}']) found f' t ht2 hwr hok' (by simp [render, Piece.render] at hfuel; omega)
      rw [detOuter_plain t _ _ found '}' (get_at' ht1 _ 0 (by simp; try omega) (by simp)) (by decide),
          detOuter_plain t _ _ found '}' (get_at' ht1 _ 1 (by simp; try omega) (by simp)) (by decide)]
      simp only [List.length_append, List.length_cons, List.length_nil] at h
      rw [h]; simp [Piece.isNamed]
    | escOpen =>
      have ht1 : t = pre ++ ('{' :: '{' :: render r) := by rw [ht]; simp [render, Piece.render]
      have ht2 : t = (pre ++ ['{', '{']) ++ render r := by rw [ht1]; simp
      have hok' : detOK false r = true := by simpa [detOK] using hok
      have h := ih r hlr (pre ++ ['{', '{']) found f t ht2 hwr hok' (by simp [render, Piece.render] at hfuel; omega)
      rw [detOuter_esc t _ _ found (get_at' ht1 _ 0 (by simp; try omega) (by simp)) (get_at' ht1 _ 1 (by simp; try omega) (by simp))]
      simp only [List.length_append, List.length_cons, List.length_nil] at h
      rw [h]; simp [Piece.isNamed]
    | field nm s =>
      have ht1 : t = pre ++ ('{' :: (content nm s ++ '}' :: render r)) := by
        rw [ht]; simp [render, render_field]
      have hopen : t[pre.length]? = some '{' := get_at' ht1 _ 0 (by simp; try omega) (by simp)
      cases nm with
      | cons a as =>
        -- a named placeholder reached in step: the flag is set whatever follows
        have hal : isAlpha a = true := by
          cases s <;> simp only [Piece.wf, nameOK, Bool.and_eq_true] at hwp
          · exact hwp.1
          · exact hwp.1.1
        have ha1 : a ≠ '{' := isAlpha_ne (by decide) hal
        have ha2 : a ≠ '}' := isAlpha_ne (by decide) hal
        have hfc : t[pre.length + 1]? = some a := get_at' ht1 _ 1 (by simp; try omega) (by simp [content])
        rw [detOuter_field t f _ found a hopen hfc ha1]
        have hcnt : (detInner t (t.length + 1) (pre.length + 1) 0).2 ≠ 0 := by
          rw [detInner_plain t _ _ _ a hfc ha2]
          have := detInner_cnt_le t t.length (pre.length + 1 + 1) (0 + 1)
          omega
        have : ((detInner t (t.length + 1) (pre.length + 1) 0).2 != 0 && isAlpha a) = true := by
          simp [hal, hcnt]
        rw [this]
        simp [detOuter_true, Piece.isNamed]
      | nil =>
        -- a positional placeholder: the character after its `}` is skipped
        have hok1 : detOK true r = true := by simpa [detOK] using hok
        have hnb := content_no_brace hwp
        have hcont : content [] s = syntaxOf s := by simp [content]
        have ht1' : t = (pre ++ ['{']) ++ (syntaxOf s ++ ('}' :: render r)) := by rw [ht1, hcont]; simp
        -- first character after the brace
        have hfc : ∃ fc, t[pre.length + 1]? = some fc ∧ fc ≠ '{' ∧ isAlpha fc = false := by
          cases s with
          | none => exact ⟨'}', get_at' ht1 _ 1 (by simp; try omega) (by simp [content, syntaxOf]), by decide, by decide⟩
          | some sp => exact ⟨':', get_at' ht1 _ 1 (by simp; try omega) (by simp [content, syntaxOf]), by decide, by decide⟩
        obtain ⟨fc, hfc, hfc1, hfc2⟩ := hfc
        rw [detOuter_field t f _ found fc hopen hfc hfc1]
        simp only [hfc2, Bool.and_false, Bool.or_false]
        -- where the inner loop stops
        have hlen : (syntaxOf s).length + 1 ≤ t.length := by rw [ht1']; simp; omega
        have hsk := detInner_skip t (syntaxOf s) (pre ++ ['{']) ('}' :: render r) 0
          (t.length + 1 - (syntaxOf s).length) (by rw [← hcont]; exact hnb.2) ht1'
        rw [show t.length + 1 - (syntaxOf s).length + (syntaxOf s).length = t.length + 1 by omega] at hsk
        simp only [List.length_append, List.length_cons, List.length_nil, Nat.zero_add] at hsk
        rw [hsk]
        obtain ⟨g, hg⟩ : ∃ g, t.length + 1 - (syntaxOf s).length = g + 1 := ⟨t.length - (syntaxOf s).length, by omega⟩
        rw [hg]
        have hclose : t[pre.length + 1 + (syntaxOf s).length]? = some '}' := by
          have e : t = (pre ++ '{' :: syntaxOf s) ++ ('}' :: render r) := by rw [ht1']; simp
          exact get_at' e _ 0 (by simp; try omega) (by simp)
        have hfl : (syntaxOf s).length + 2 + (render r).length < f + 1 := by
          simp [render, render_field, content] at hfuel; omega
        cases r with
        | nil =>
          have hnone : t[pre.length + 1 + (syntaxOf s).length + 1]? = none := by
            have e : t = (pre ++ '{' :: syntaxOf s) ++ ['}'] := by rw [ht1']; simp [render]
            exact get_at' e _ 1 (by simp; try omega) (by simp)
          simp only [detInner, hclose, if_true, hnone]
          rw [detOuter_end]
          · simp [Piece.isNamed]
          · have e : t = (pre ++ '{' :: syntaxOf s) ++ ['}'] := by rw [ht1']; simp [render]
            exact get_at' e _ 2 (by simp; try omega) (by simp)
        | cons q r' =>
          have hwr' : wf r' = true := by simp only [wf, List.all_cons, Bool.and_eq_true] at hwr; exact hwr.2
          have hwq : q.wf = true := by simp only [wf, List.all_cons, Bool.and_eq_true] at hwr; exact hwr.1
          have hlr' : r'.length ≤ n := by simp at hlr; omega
          cases q with
          | text c =>
            have hc : c ≠ '}' := by
              simp only [Piece.wf, Bool.and_eq_true, bne_iff_ne, ne_eq] at hwq; exact hwq.2
            have e : t = (pre ++ '{' :: (syntaxOf s ++ ['}'])) ++ (c :: render r') := by
              rw [ht1']; simp [render, Piece.render]
            have hnext : t[pre.length + 1 + (syntaxOf s).length + 1]? = some c := by
              exact get_at' e _ 0 (by simp; try omega) (by simp)
            simp only [detInner, hclose, if_true, hnext, hc, if_false]
            have e2 : t = (pre ++ '{' :: (syntaxOf s ++ ['}']) ++ [c]) ++ render r' := by rw [e]; simp
            have hok' : detOK false r' = true := by simpa [detOK] using hok1
            have h := ih r' hlr' (pre ++ '{' :: (syntaxOf s ++ ['}']) ++ [c]) found f t e2 hwr' hok'
              (by simp [render, Piece.render] at hfl; omega)
            have hl : (pre ++ '{' :: (syntaxOf s ++ ['}']) ++ [c]).length = pre.length + 1 + (syntaxOf s).length + 1 + 1 := by
              simp; omega
            rw [hl] at h
            rw [h]; simp [Piece.isNamed]
          | field n2 s2 =>
            -- another positional placeholder: its `{` is the skipped character, the rest is plain text
            have hn2 : n2 = [] ∧ detOK false r' = true := by simpa [detOK] using hok1
            obtain ⟨rfl, hok'⟩ := hn2
            have hnb2 := content_no_brace hwq
            have hcont2 : content [] s2 = syntaxOf s2 := by simp [content]
            have e : t = (pre ++ '{' :: (syntaxOf s ++ ['}'])) ++ ('{' :: (syntaxOf s2 ++ '}' :: render r')) := by
              rw [ht1']; simp [render, render_field, content]
            have hnext : t[pre.length + 1 + (syntaxOf s).length + 1]? = some '{' := by
              exact get_at' e _ 0 (by simp; try omega) (by simp)
            simp only [detInner, hclose, if_true, hnext, show ('{' : Char) ≠ '}' by decide, if_false]
            -- skip the plain stretch `syntax2 }`
            have e3 : t = (pre ++ '{' :: (syntaxOf s ++ ['}']) ++ ['{']) ++ ((syntaxOf s2 ++ ['}']) ++ render r') := by
              rw [e]; simp
            have hplain : '{' ∉ syntaxOf s2 ++ ['}'] := by
              rw [← hcont2]; simp only [List.mem_append, List.mem_cons, List.mem_nil_iff, or_false, not_or]
              exact ⟨hnb2.1, by decide⟩
            have hflen : (syntaxOf s2).length + 2 + (render r').length ≤ (render (Piece.field [] s2 :: r')).length := by
              simp [render, render_field, content]; omega
            obtain ⟨f2, hf2⟩ : ∃ f2, f = f2 + (syntaxOf s2 ++ ['}']).length :=
              ⟨f - (syntaxOf s2 ++ ['}']).length, by simp; omega⟩
            have hskip := detOuter_skip t (syntaxOf s2 ++ ['}']) (pre ++ '{' :: (syntaxOf s ++ ['}']) ++ ['{']) (render r')
              found f2 hplain e3
            have hl1 : (pre ++ '{' :: (syntaxOf s ++ ['}']) ++ ['{']).length = pre.length + 1 + (syntaxOf s).length + 1 + 1 := by
              simp; omega
            rw [hl1] at hskip
            rw [hf2, hskip]
            have e4 : t = (pre ++ '{' :: (syntaxOf s ++ ['}']) ++ '{' :: (syntaxOf s2 ++ ['}'])) ++ render r' := by
              rw [e]; simp
            have h := ih r' hlr' (pre ++ '{' :: (syntaxOf s ++ ['}']) ++ '{' :: (syntaxOf s2 ++ ['}'])) found f2 t e4 hwr' hok'
              (by simp at hf2; omega)
            have hl2 : (pre ++ '{' :: (syntaxOf s ++ ['}']) ++ '{' :: (syntaxOf s2 ++ ['}'])).length
                = pre.length + 1 + (syntaxOf s).length + 1 + 1 + (syntaxOf s2 ++ ['}']).length := by
              simp; omega
            rw [hl2] at h
            rw [h]; simp [Piece.isNamed]
          | escOpen => simp [detOK] at hok1
          | escClose => simp [detOK] at hok1

/-- **detection**, for every template of the grammar in the class `detectOK` -/
theorem contains_render (ps : List Piece) (hw : wf ps = true) (hok : detectOK ps = true) :
    containsNamedArgs (render ps) = ps.any Piece.isNamed := by
  have h := detOuter_render ps.length ps (Nat.le_refl _) [] false ((render ps).length + 1) (render ps) (by simp) hw hok (by omega)
  simpa [containsNamedArgs] using h

end Named
