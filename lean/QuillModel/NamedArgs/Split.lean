import QuillModel.NamedArgs.Basic
/-! Join on the separator, then the `find(delimiter, start)` split loop: `split (join vals) = vals` when no value
contains the separator and the separator has no border (no proper prefix that is also a suffix). -/
namespace Named

/-- no proper non-empty prefix of `sep` is also a suffix of it (decidable; `"\x01\x02\x03"` qualifies) -/
def unbordered (sep : Str) : Bool :=
  (List.range sep.length).all (fun k => k == 0 || sep.take k != sep.drop (sep.length - k))

theorem unbordered_spec {sep : Str} (h : unbordered sep = true) (k : Nat) (h0 : 0 < k) (hk : k < sep.length) :
    sep.take k ≠ sep.drop (sep.length - k) := by
  simp only [unbordered, List.all_eq_true, List.mem_range, Bool.or_eq_true, beq_iff_eq, bne_iff_ne, ne_eq] at h
  rcases h k hk with e | e
  · omega
  · exact e

theorem subIdx_of_prefix {pat s : Str} (h : pat.isPrefixOf s = true) : subIdx pat s = some 0 := by
  cases s with
  | nil =>
    cases pat with
    | nil => simp [subIdx]
    | cons _ _ => simp [List.isPrefixOf] at h
  | cons c cs => simp [subIdx, h]

theorem subIdx_cons_none {pat : Str} {c : Char} {cs : Str} (h : subIdx pat (c :: cs) = none) :
    pat.isPrefixOf (c :: cs) = false ∧ subIdx pat cs = none := by
  simp only [subIdx] at h
  split at h
  · simp at h
  · rename_i hp
    refine ⟨Bool.eq_false_iff.2 hp, ?_⟩
    cases hi : subIdx pat cs with
    | none => rfl
    | some k => simp [hi] at h

/-- an occurrence of an unbordered `sep` that starts inside `w` in `w ++ sep ++ tail` lies entirely inside `w` -/
theorem prefix_inside {sep w tail : Str} (hb : unbordered sep = true) (hw : w ≠ [])
    (h : sep <+: w ++ (sep ++ tail)) : sep <+: w := by
  by_cases hl : sep.length ≤ w.length
  · exact List.prefix_of_prefix_length_le h (List.prefix_append _ _) hl
  · exfalso
    have hl' : w.length < sep.length := by omega
    have hws : w <+: sep := List.prefix_of_prefix_length_le (List.prefix_append _ _) h (by omega)
    obtain ⟨x, hx⟩ := hws
    obtain ⟨u, hu⟩ := h
    have hxl : x.length = sep.length - w.length := by rw [← hx]; simp
    have hxu : x ++ u = sep ++ tail := by
      have hu' : w ++ (x ++ u) = w ++ (sep ++ tail) := by rw [← List.append_assoc, hx]; exact hu
      exact List.append_cancel_left hu'
    have hxs : x <+: sep :=
      List.prefix_of_prefix_length_le ⟨u, hxu⟩ (List.prefix_append _ _) (by omega)
    have h1 : sep.take x.length = x := by
      obtain ⟨y, hy⟩ := hxs
      rw [← hy]; simp
    have h2 : sep.drop (sep.length - x.length) = x := by
      have : sep.length - x.length = w.length := by omega
      rw [this, ← hx]; simp
    have hwl : 0 < w.length := by cases w with
      | nil => exact absurd rfl hw
      | cons _ _ => simp
    exact unbordered_spec hb x.length (by omega) (by omega) (h1.trans h2.symm)

/-- the first occurrence of the separator in `v ++ sep ++ tail` is the one that was put there -/
theorem subIdx_join {sep : Str} (hb : unbordered sep = true) :
    ∀ (v tail : Str), subIdx sep v = none → subIdx sep (v ++ (sep ++ tail)) = some v.length
  | [], tail, _ => by
    simp only [List.nil_append, List.length_nil]
    exact subIdx_of_prefix (List.isPrefixOf_iff_prefix.2 (List.prefix_append _ _))
  | c :: cs, tail, h => by
    have ⟨h1, h2⟩ := subIdx_cons_none h
    have ih := subIdx_join hb cs tail h2
    have hnp : sep.isPrefixOf (c :: cs ++ (sep ++ tail)) = false := by
      cases hp : sep.isPrefixOf (c :: cs ++ (sep ++ tail)) with
      | false => rfl
      | true =>
        have := prefix_inside hb (by simp) (List.isPrefixOf_iff_prefix.1 hp)
        rw [List.isPrefixOf_iff_prefix.2 this] at h1
        exact absurd h1 (by simp)
    simp only [List.cons_append] at hnp ⊢
    simp [subIdx, hnp, ih]

theorem findSub_at (pat pre suf : Str) : findSub pat (pre ++ suf) pre.length = (subIdx pat suf).map (· + pre.length) := by
  simp [findSub]

theorem joinVals_cons2 (sep v w : Str) (rest : List Str) :
    joinVals sep (v :: w :: rest) = v ++ (sep ++ joinVals sep (w :: rest)) := by
  simp [joinVals]

theorem splitAssign_join {sep : Str} (hb : unbordered sep = true) :
    ∀ (rest : List Str) (done : Str) (acc : List Str) (fuel : Nat) (s : Str), rest ≠ [] →
      s = done ++ joinVals sep rest → (∀ v ∈ rest, subIdx sep v = none) → rest.length ≤ fuel →
      splitAssign sep s fuel done.length acc.length (acc ++ List.replicate rest.length []) = acc ++ rest
  | [], _, _, _, _, h, _, _, _ => absurd rfl h
  | [v], done, acc, fuel, s, _, hs, hv, hf => by
    obtain ⟨f, rfl⟩ : ∃ f, fuel = f + 1 := ⟨fuel - 1, by simp at hf; omega⟩
    have hfind : findSub sep s done.length = none := by
      rw [hs, findSub_at]; simp [joinVals, hv v (by simp)]
    simp only [splitAssign, hfind, List.length_append, List.length_replicate, List.length_cons, List.length_nil]
    rw [if_pos (by omega)]
    subst hs
    simp [joinVals]
  | v :: w :: more, done, acc, fuel, s, _, hs, hv, hf => by
    obtain ⟨f, rfl⟩ : ∃ f, fuel = f + 1 := ⟨fuel - 1, by simp at hf; omega⟩
    have hs' : s = done ++ (v ++ (sep ++ joinVals sep (w :: more))) := by rw [hs, joinVals_cons2]
    have hfind : findSub sep s done.length = some (done.length + v.length) := by
      rw [hs', findSub_at, subIdx_join hb v _ (hv v (by simp))]; simp; omega
    have hs2 : s = (done ++ v ++ sep) ++ joinVals sep (w :: more) := by rw [hs']; simp
    have ih := splitAssign_join hb (w :: more) (done ++ v ++ sep) (acc ++ [v]) f s (by simp) hs2
      (fun x hx => hv x (by simp at hx ⊢; right; exact hx)) (by simp at hf ⊢; omega)
    simp only [splitAssign, hfind, List.length_append, List.length_replicate, List.length_cons]
    rw [if_pos (by omega)]
    have hsub : substr s done.length (done.length + v.length - done.length) = v := by
      rw [hs', show done.length + v.length - done.length = v.length by omega]
      exact substr_mid _ _ _
    rw [hsub]
    have hset : (acc ++ List.replicate (more.length + 1 + 1) []).set acc.length v
        = (acc ++ [v]) ++ List.replicate (w :: more).length [] := by
      simp [List.replicate_succ]
    rw [hset]
    have hl1 : done.length + v.length + sep.length = (done ++ v ++ sep).length := by simp; omega
    have hl2 : acc.length + 1 = (acc ++ [v]).length := by simp
    rw [hl1, hl2, ih]; simp

/-- **split ∘ join = id** -/
theorem split_join {sep : Str} (hne : sep ≠ []) (hb : unbordered sep = true) (vals : List Str)
    (hv : ∀ v ∈ vals, containsSub sep v = false) :
    splitValues sep (joinVals sep vals) vals.length = vals := by
  cases vals with
  | nil => simp [splitValues, joinVals, splitAssign, findSub, subIdx, hne]
  | cons v vs =>
    have h := splitAssign_join hb (v :: vs) [] [] ((joinVals sep (v :: vs)).length + 2) (joinVals sep (v :: vs))
      (by simp) (by simp) (fun x hx => by simpa [containsSub] using hv x hx) ?_
    · simpa [splitValues] using h
    · have : ∀ l : List Str, l ≠ [] → l.length ≤ (joinVals sep l).length + 1 := by
        intro l
        induction l with
        | nil => intro h; exact absurd rfl h
        | cons a as ih =>
          intro _
          cases as with
          | nil => simp [joinVals]
          | cons b bs =>
            have := ih (by simp)
            have hs : 1 ≤ sep.length := by cases sep with
              | nil => exact absurd rfl hne
              | cons _ _ => simp
            rw [joinVals_cons2]; simp at this ⊢; omega
      have := this (v :: vs) (by simp); omega

end Named
