import QuillModel.NamedArgs.Basic
/-!
Fuel adequacy: the loop transcriptions carry a fuel argument initialised with `length + 1`. For **every** input
string (not only templates of the grammar) more fuel changes nothing — so the definitions denote the C++ loops run to
completion and no theorem holds merely because a loop was cut short.
-/
namespace Named

/-! ### `_contains_named_args` -/

theorem detInner_pos_le (t : Str) : ∀ (fuel pos cnt : Nat), pos ≤ (detInner t fuel pos cnt).1 := by
  intro fuel
  induction fuel with
  | zero => intro pos cnt; simp [detInner]
  | succ f ih =>
    intro pos cnt
    simp only [detInner]
    split
    · simp
    · split
      · split
        · simp
        · split
          · have := ih (pos + 2) (cnt + 1); omega
          · simp
      · have := ih (pos + 1) (cnt + 1); omega

theorem getElem?_none_of_le {t : Str} {pos : Nat} (h : t.length ≤ pos) : t[pos]? = none := by
  simp [h]

theorem detInner_fuel (t : Str) : ∀ (fuel pos cnt : Nat), t.length < fuel + pos →
    detInner t (fuel + 1) pos cnt = detInner t fuel pos cnt := by
  intro fuel
  induction fuel with
  | zero =>
    intro pos cnt h
    simp [detInner, getElem?_none_of_le (show t.length ≤ pos by omega)]
  | succ f ih =>
    intro pos cnt h
    rw [detInner]
    conv => rhs; rw [detInner]
    split
    · rfl
    · split
      · split
        · rfl
        · split
          · exact ih _ _ (by omega)
          · rfl
      · exact ih _ _ (by omega)

theorem detInner_fuel_ge (t : Str) (pos cnt : Nat) : ∀ (extra : Nat),
    detInner t (t.length + 1 + extra) pos cnt = detInner t (t.length + 1) pos cnt
  | 0 => rfl
  | e + 1 => by
    rw [show t.length + 1 + (e + 1) = (t.length + 1 + e) + 1 by omega, detInner_fuel t _ _ _ (by omega)]
    exact detInner_fuel_ge t pos cnt e

theorem detOuter_fuel (t : Str) : ∀ (fuel pos : Nat) (found : Bool), t.length < fuel + pos →
    detOuter t (fuel + 1) pos found = detOuter t fuel pos found := by
  intro fuel
  induction fuel with
  | zero =>
    intro pos found h
    simp [detOuter, getElem?_none_of_le (show t.length ≤ pos by omega)]
  | succ f ih =>
    intro pos found h
    rw [detOuter]
    conv => rhs; rw [detOuter]
    split
    · rfl
    · split
      · split
        · rfl
        · split
          · exact ih _ _ (by omega)
          · have := detInner_pos_le t (t.length + 1) (pos + 1) 0
            exact ih _ _ (by omega)
      · exact ih _ _ (by omega)

/-- `containsNamedArgs` is the outer loop run to completion: any larger fuel gives the same answer -/
theorem containsNamedArgs_fuel (t : Str) : ∀ (extra : Nat),
    detOuter t (t.length + 1 + extra) 0 false = containsNamedArgs t
  | 0 => rfl
  | e + 1 => by
    rw [show t.length + 1 + (e + 1) = (t.length + 1 + e) + 1 by omega, detOuter_fuel t _ _ _ (by omega)]
    exact containsNamedArgs_fuel t e

/-! ### `_process_named_args_format_message` -/

theorem findFrom_some {c : Char} {t : Str} {p q : Nat} (h : findFrom c t p = some q) : p ≤ q ∧ q < t.length := by
  simp only [findFrom] at h
  cases hi : idxOf c (t.drop p) with
  | none => simp [hi] at h
  | some k =>
    simp [hi] at h
    have := idxOf_lt hi
    simp at this
    omega

theorem adjacentNext_some {c : Char} {t : Str} {p q : Nat} (h : adjacentNext c t p = some q) : q = p + 1 ∧ q < t.length := by
  unfold adjacentNext at h
  cases hf : findFrom c t (p + 1) with
  | none => simp [hf] at h
  | some r =>
    simp only [hf] at h
    have := findFrom_some hf
    split at h
    · cases h; omega
    · cases h

theorem procInner_fuel (t : Str) (ob : Nat) : ∀ (fuel : Nat) (cb : Option Nat) (st : PSt),
    (∀ c, cb = some c → c < t.length ∧ t.length ≤ fuel + c) →
    procInner t ob (fuel + 1) cb st = procInner t ob fuel cb st := by
  intro fuel
  induction fuel with
  | zero =>
    intro cb st h
    cases cb with
    | none => simp [procInner]
    | some c => have := h c rfl; omega
  | succ f ih =>
    intro cb st h
    cases cb with
    | none => simp [procInner]
    | some c =>
      rw [procInner]
      conv => rhs; rw [procInner]
      cases ha : adjacentNext '}' t c with
      | none => rfl
      | some c2 =>
        simp only
        apply ih
        intro c3 hc3
        have h1 := adjacentNext_some ha
        have h2 := findFrom_some hc3
        have := h c rfl
        omega

theorem procInner_fuel_ge (t : Str) (ob : Nat) (cb : Option Nat) (st : PSt) (hcb : ∀ c, cb = some c → c < t.length) :
    ∀ (extra : Nat), procInner t ob (t.length + 1 + extra) cb st = procInner t ob (t.length + 1) cb st
  | 0 => rfl
  | e + 1 => by
    rw [show t.length + 1 + (e + 1) = (t.length + 1 + e) + 1 by omega,
        procInner_fuel t ob _ cb st (fun c hc => ⟨hcb c hc, by omega⟩)]
    exact procInner_fuel_ge t ob cb st hcb e

/-- the close-bracket position the inner loop leaves behind is at or after the one it started with -/
theorem procInner_cb_ge (t : Str) (ob : Nat) : ∀ (fuel : Nat) (cb : Option Nat) (st : PSt) (c' : Nat),
    (procInner t ob fuel cb st).2 = some c' → ∃ c, cb = some c ∧ c ≤ c' ∧ (c < t.length → c' < t.length) := by
  intro fuel
  induction fuel with
  | zero => intro cb st c' h; simp only [procInner] at h; exact ⟨c', h, Nat.le_refl _, id⟩
  | succ f ih =>
    intro cb st c' h
    cases cb with
    | none => simp [procInner] at h
    | some c =>
      rw [procInner] at h
      cases ha : adjacentNext '}' t c with
      | none =>
        simp only [ha, Option.some.injEq] at h
        exact ⟨c, rfl, by omega, fun hh => by omega⟩
      | some c2 =>
        simp only [ha] at h
        obtain ⟨c3, hc3, hle, hlt⟩ := ih _ st c' h
        have h1 := adjacentNext_some ha
        have h2 := findFrom_some hc3
        exact ⟨c, rfl, by omega, fun _ => hlt h2.2⟩

theorem procOuter_fuel (t : Str) : ∀ (fuel : Nat) (ob : Option Nat) (st : PSt),
    (∀ o, ob = some o → o < t.length ∧ t.length ≤ fuel + o) →
    procOuter t (fuel + 1) ob st = procOuter t fuel ob st := by
  intro fuel
  induction fuel with
  | zero =>
    intro ob st h
    cases ob with
    | none => simp [procOuter]
    | some o => have := h o rfl; omega
  | succ f ih =>
    intro ob st h
    cases ob with
    | none => simp [procOuter]
    | some o =>
      have ho := h o rfl
      rw [procOuter]
      conv => rhs; rw [procOuter]
      cases ha : adjacentNext '{' t o with
      | some o2 =>
        simp only
        apply ih
        intro o3 ho3
        have h1 := adjacentNext_some ha
        have h2 := findFrom_some ho3
        omega
      | none =>
        simp only
        apply ih
        intro o3 ho3
        cases hr : (procInner t o (t.length + 1) (findFrom '}' t (o + 1)) st).2 with
        | none => simp [hr, reopen] at ho3
        | some c' =>
          simp only [hr, reopen] at ho3
          obtain ⟨c, hc, hle, hlt⟩ := procInner_cb_ge t o _ _ st c' hr
          have h1 := findFrom_some hc
          have h2 := findFrom_some ho3
          omega

/-- `process` is the outer loop run to completion: any larger fuel gives the same state -/
theorem process_fuel (t : Str) : ∀ (extra : Nat),
    procOuter t (t.length + 1 + extra) (findFrom '{' t 0) {} = procOuter t (t.length + 1) (findFrom '{' t 0) {}
  | 0 => rfl
  | e + 1 => by
    rw [show t.length + 1 + (e + 1) = (t.length + 1 + e) + 1 by omega,
        procOuter_fuel t _ _ _ (fun o ho => ⟨(findFrom_some ho).2, by omega⟩)]
    exact process_fuel t e

/-! ### the split loop -/

theorem subIdx_some {pat : Str} : ∀ {s : Str} {k : Nat}, subIdx pat s = some k → k + pat.length ≤ s.length
  | [], k, h => by
    simp only [subIdx] at h
    split at h
    · rename_i hp; cases h; simp [hp]
    · cases h
  | c :: cs, k, h => by
    simp only [subIdx] at h
    split at h
    · rename_i hp
      cases h
      have := (List.isPrefixOf_iff_prefix.1 hp).length_le
      simpa using this
    · cases hi : subIdx pat cs with
      | none => simp [hi] at h
      | some j =>
        simp [hi] at h; subst h
        have := subIdx_some hi
        simp; omega

theorem findSub_some {pat s : Str} {start e : Nat} (h : findSub pat s start = some e) :
    start ≤ e ∧ e + pat.length ≤ s.length := by
  simp only [findSub] at h
  split at h
  · cases hi : subIdx pat (s.drop start) with
    | none => simp [hi] at h
    | some k =>
      simp [hi] at h
      have := subIdx_some hi
      simp at this
      omega
  · cases h

theorem splitAssign_fuel {sep : Str} (hne : sep ≠ []) (s : Str) : ∀ (fuel start idx : Nat) (vals : List Str),
    start ≤ s.length → s.length + 1 ≤ fuel + start →
    splitAssign sep s (fuel + 1) start idx vals = splitAssign sep s fuel start idx vals := by
  have hsl : 1 ≤ sep.length := by cases sep with
    | nil => exact absurd rfl hne
    | cons _ _ => simp
  intro fuel
  induction fuel with
  | zero => intro start idx vals h1 h2; omega
  | succ f ih =>
    intro start idx vals h1 h2
    rw [splitAssign]
    conv => rhs; rw [splitAssign]
    cases hf : findSub sep s start with
    | none => rfl
    | some e =>
      have := findSub_some hf
      simp only
      split
      · exact ih _ _ _ (by omega) (by omega)
      · exact ih _ _ _ (by omega) (by omega)

/-- `splitValues` is the split loop run to completion (for a non-empty delimiter): more fuel changes nothing -/
theorem splitValues_fuel {sep : Str} (hne : sep ≠ []) (s : Str) (n : Nat) : ∀ (extra : Nat),
    splitAssign sep s (s.length + 2 + extra) 0 0 (List.replicate n []) = splitValues sep s n
  | 0 => rfl
  | e + 1 => by
    rw [show s.length + 2 + (e + 1) = (s.length + 2 + e) + 1 by omega,
        splitAssign_fuel hne s _ 0 0 _ (by omega) (by omega)]
    exact splitValues_fuel hne s n e

end Named
