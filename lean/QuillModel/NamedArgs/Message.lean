import QuillModel.NamedArgs.ScanProc
import QuillModel.NamedArgs.ScanDet
import QuillModel.NamedArgs.Pairs
import QuillModel.NamedArgs.Json
/-! The text message: fmt's top level (`fmtSubst`) on an erased template is the intended text (`msgSpec`); and the
formatting step of the backend (`backendStep`) composed from detection, cache, scanner, split. -/
namespace Named

theorem fmtSubstF_render : ∀ (ps : List Piece) (fv : List Str) (fuel : Nat), wf ps = true →
    (render (ps.map Piece.erase)).length < fuel →
    fmtSubstF fuel (render (ps.map Piece.erase)) fv = msgSpec ps fv := by
  intro ps
  induction ps with
  | nil =>
    intro fv fuel _ hf
    obtain ⟨f, rfl⟩ : ∃ f, fuel = f + 1 := ⟨fuel - 1, by omega⟩
    simp [render, fmtSubstF, msgSpec]
  | cons p r ih =>
    intro fv fuel hw hf
    have hwp : p.wf = true := by simp only [wf, List.all_cons, Bool.and_eq_true] at hw; exact hw.1
    have hwr : wf r = true := by simp only [wf, List.all_cons, Bool.and_eq_true] at hw; exact hw.2
    obtain ⟨f, rfl⟩ : ∃ f, fuel = f + 1 := ⟨fuel - 1, by omega⟩
    rw [render_map_erase_cons] at hf ⊢
    cases p with
    | text c =>
      have hc : c ≠ '{' ∧ c ≠ '}' := by
        simp only [Piece.wf, Bool.and_eq_true, bne_iff_ne, ne_eq] at hwp; exact hwp
      have := ih fv f hwr (by simp [Piece.erase, Piece.render] at hf; omega)
      simp [Piece.erase, Piece.render, fmtSubstF, hc.1, hc.2, this, msgSpec]
    | escOpen =>
      have := ih fv f hwr (by simp [Piece.erase, Piece.render] at hf; omega)
      simp [Piece.erase, Piece.render, fmtSubstF, this, msgSpec]
    | escClose =>
      have := ih fv f hwr (by simp [Piece.erase, Piece.render] at hf; omega)
      simp [Piece.erase, Piece.render, fmtSubstF, this, msgSpec]
    | field n s =>
      rw [render_erase_field]
      have hw' : (Piece.field [] s).wf = true := by
        cases s <;> simp_all [Piece.wf, nameOK]
      have hnb := content_no_brace hw'
      have hcont : content [] s = syntaxOf s := by simp [content]
      rw [hcont] at hnb
      have hidx : idxOf '}' (syntaxOf s ++ ['}'] ++ render (r.map Piece.erase)) = some (syntaxOf s).length := by
        rw [List.append_assoc]; exact idxOf_append_hit _ _ hnb.2
      have hhead : (syntaxOf s ++ ['}'] ++ render (r.map Piece.erase)).head? ≠ some '{' := by
        cases s <;> simp [syntaxOf]
      have hinside : (syntaxOf s ++ ['}'] ++ render (r.map Piece.erase)).take (syntaxOf s).length = syntaxOf s := by
        rw [List.append_assoc]; simp
      have hcond : syntaxOf s = [] ∨ (syntaxOf s).head? = some ':' := by cases s <;> simp [syntaxOf]
      have hdrop : (syntaxOf s ++ ['}'] ++ render (r.map Piece.erase)).drop ((syntaxOf s).length + 1)
          = render (r.map Piece.erase) := by
        have : (syntaxOf s).length + 1 = (syntaxOf s ++ ['}']).length := by simp
        rw [this, List.drop_left']; rfl
      simp only [List.cons_append, fmtSubstF, if_true, hhead, if_false]
      cases fv with
      | nil => simp [msgSpec]
      | cons v fv' =>
        have := ih fv' f hwr (by simp [render_erase_field] at hf; omega)
        simp only [hidx, hinside, hcond, if_true, hdrop, this, msgSpec]

/-- fmt's top level applied to the erased template yields the intended text -/
theorem fmtSubst_render (ps : List Piece) (fv : List Str) (hw : wf ps = true) :
    fmtSubst (render (ps.map Piece.erase)) fv = msgSpec ps fv :=
  fmtSubstF_render ps fv _ hw (by omega)

theorem erase_of_not_named : ∀ (ps : List Piece), ps.any Piece.isNamed = false → ps.map Piece.erase = ps
  | [], _ => rfl
  | p :: ps, h => by
    simp only [List.any_cons, Bool.or_eq_false_iff] at h
    rw [List.map_cons, erase_of_not_named ps h.2]
    cases p with
    | field n s =>
      have : n = [] := by simpa [Piece.isNamed] using h.1
      simp [Piece.erase, this]
    | _ => rfl

/-- the formatting step of the backend on a named template of both good classes, from any cache satisfying the
    invariant (whatever was seen before, in whatever order) -/
theorem backendStep_named {sep : Str} (hne : sep ≠ []) (hb : unbordered sep = true) (san : Bool)
    (c : Cache) (hc : CacheInv c) (ps : List Piece) (hw : wf ps = true) (hp : procOK ps = true)
    (hd : detectOK ps = true) (hn : ps.any Piece.isNamed = true) (fv : List Str)
    (hlen : (keysOf ps).length ≤ fv.length) (hv : ∀ v ∈ fv, containsSub sep v = false) :
    (backendStep sep san false c (render ps) fv).1 =
      { msg := finishMsg san (msgSpec ps fv),
        pairs := some ((populateNames (keysOf ps) fv.length).zip (if san then fv.map sanitize else fv)) } ∧
    CacheInv (backendStep sep san false c (render ps) fv).2 := by
  have hdet : containsNamedArgs (render ps) = true := by rw [contains_render ps hw hd, hn]
  have hlk := lookupOrInsert_fst c hc (render ps)
  rw [process_render ps hw hp] at hlk
  simp only [backendStep, hdet, if_true, hlk, Bool.false_eq_true, if_false]
  refine ⟨?_, lookupOrInsert_inv c hc (render ps)⟩
  rw [fmtSubst_render ps fv hw, namedPairs_eq hne hb san (keysOf ps) fv hlen hv]

/-- … and on a template without a named placeholder: fmt gets the template itself, no pairs, cache untouched -/
theorem backendStep_unnamed (sep : Str) (san : Bool) (c : Cache) (ps : List Piece) (hw : wf ps = true)
    (hd : detectOK ps = true) (hn : ps.any Piece.isNamed = false) (fv : List Str) :
    backendStep sep san false c (render ps) fv = ({ msg := finishMsg san (msgSpec ps fv), pairs := none }, c) := by
  have hdet : containsNamedArgs (render ps) = false := by rw [contains_render ps hw hd, hn]
  simp only [backendStep, hdet]
  have := fmtSubst_render ps fv hw
  rw [erase_of_not_named ps hn] at this
  simp [this]

end Named
