import QuillModel.NamedArgs.ScanProc
import QuillModel.NamedArgs.Pairs
/-!
The class `procOK` is exactly the class on which `process` is right: for a template of the grammar with a placeholder
directly followed by an escaped `}}`, the key list the scanner returns differs from the placeholder names/specs — the
key of the first such placeholder swallows the whole run of `}}` that follows it.
-/
namespace Named

theorem emit_keys (t : Str) (ob cb : Nat) (st : PSt) :
    (emit t ob cb st).keys = st.keys ++ [splitColon (substr t (ob + 1) (subSz cb (ob + 1)))] := rfl

/-- the scanner only ever appends keys -/
theorem procInner_keys (t : Str) (ob : Nat) : ∀ (fuel : Nat) (cb : Option Nat) (st : PSt),
    ∃ extra, (procInner t ob fuel cb st).1.keys = st.keys ++ extra := by
  intro fuel
  induction fuel with
  | zero => intro cb st; exact ⟨[], by simp [procInner]⟩
  | succ f ih =>
    intro cb st
    cases cb with
    | none => exact ⟨[], by simp [procInner]⟩
    | some c =>
      rw [procInner]
      cases adjacentNext '}' t c with
      | some c2 => exact ih _ st
      | none => exact ⟨_, emit_keys t ob c st⟩

theorem procOuter_keys (t : Str) : ∀ (fuel : Nat) (ob : Option Nat) (st : PSt),
    ∃ extra, (procOuter t fuel ob st).keys = st.keys ++ extra := by
  intro fuel
  induction fuel with
  | zero => intro ob st; exact ⟨[], by simp [procOuter]⟩
  | succ f ih =>
    intro ob st
    cases ob with
    | none => exact ⟨[], by simp [procOuter]⟩
    | some o =>
      rw [procOuter]
      cases adjacentNext '{' t o with
      | some o2 => exact ih _ st
      | none =>
        simp only
        obtain ⟨e1, h1⟩ := procInner_keys t o (t.length + 1) (findFrom '}' t (o + 1)) st
        obtain ⟨e2, h2⟩ := ih (reopen t (procInner t o (t.length + 1) (findFrom '}' t (o + 1)) st).2)
          (procInner t o (t.length + 1) (findFrom '}' t (o + 1)) st).1
        exact ⟨e1 ++ e2, by rw [h2, h1, List.append_assoc]⟩

/-- keys collected while the loops walk, in step, over a good prefix of the template: the loop arrives at the
    boundary with exactly the keys of the prefix appended (and has used at most one unit of fuel per piece) -/
theorem procOuter_prefix : ∀ (rest : List Piece) (pre : Str) (st : PSt) (fuel : Nat) (t suf : Str),
    t = pre ++ (render rest ++ suf) → wf rest = true → procOK rest = true → suf.head? ≠ some '}' →
    rest.length ≤ fuel →
    ∃ fuel' st', procOuter t fuel (findFrom '{' t pre.length) st
        = procOuter t fuel' (findFrom '{' t (pre ++ render rest).length) st' ∧
      st'.keys = st.keys ++ keysOf rest ∧ fuel ≤ fuel' + rest.length := by
  intro rest
  induction rest with
  | nil =>
    intro pre st fuel t suf _ _ _ _ _
    exact ⟨fuel, st, by simp [render], by simp [keysOf], by simp⟩
  | cons p r ih =>
    intro pre st fuel t suf ht hw hok hsuf hfuel
    have hwp : p.wf = true := by simp only [wf, List.all_cons, Bool.and_eq_true] at hw; exact hw.1
    have hwr : wf r = true := by simp only [wf, List.all_cons, Bool.and_eq_true] at hw; exact hw.2
    have hokr : procOK r = true := by simp only [procOK, Bool.and_eq_true] at hok; exact hok.2
    have skip : ∀ (a : Str), p.render = a → '{' ∉ a → keysOf (p :: r) = keysOf r →
        ∃ fuel' st', procOuter t fuel (findFrom '{' t pre.length) st
            = procOuter t fuel' (findFrom '{' t (pre ++ render (p :: r)).length) st' ∧
          st'.keys = st.keys ++ keysOf (p :: r) ∧ fuel ≤ fuel' + (p :: r).length := by
      intro a ha hna hk
      have hlen : r.length ≤ fuel := by simp at hfuel; omega
      have ht2 : t = (pre ++ a) ++ (render r ++ suf) := by rw [ht]; simp [render, ha]
      obtain ⟨f', s', h1, h2, h3⟩ := ih (pre ++ a) st fuel t suf ht2 hwr hokr hsuf hlen
      have hs : findFrom '{' t pre.length = findFrom '{' t (pre ++ a).length := by
        have := findFrom_skip pre a (render r ++ suf) hna
        rw [← ht2] at this
        rw [← this, ht2, List.append_assoc]
      refine ⟨f', s', ?_, ?_, ?_⟩
      · rw [hs, h1]; simp [render, ha]
      · rw [h2, hk]
      · simp; omega
    cases p with
    | text c =>
      have hcne : c ≠ '{' := by simp only [Piece.wf, Bool.and_eq_true, bne_iff_ne, ne_eq] at hwp; exact hwp.1
      exact skip [c] rfl (by simp; exact fun e => hcne e.symm) rfl
    | escClose => exact skip ['}', '}'] rfl (by decide) rfl
    | escOpen =>
      obtain ⟨f, rfl⟩ : ∃ f, fuel = f + 1 := ⟨fuel - 1, by simp at hfuel; omega⟩
      have hlen : r.length ≤ f := by simp at hfuel; omega
      have ht1 : t = pre ++ ('{' :: '{' :: (render r ++ suf)) := by rw [ht]; simp [render, Piece.render]
      have h0 : findFrom '{' t pre.length = some pre.length := by
        rw [ht1, findFrom_append, idxOf_cons_self]; simp
      have h1 : findFrom '{' t (pre.length + 1) = some (pre.length + 1) := by
        have : t = (pre ++ ['{']) ++ ('{' :: (render r ++ suf)) := by rw [ht1]; simp
        rw [this, findFrom_at' _ _ _ _ (by simp), idxOf_cons_self]; simp
      have ht2 : t = (pre ++ ['{', '{']) ++ (render r ++ suf) := by rw [ht1]; simp
      obtain ⟨f', s', g1, g2, g3⟩ := ih (pre ++ ['{', '{']) st f t suf ht2 hwr hokr hsuf hlen
      have hl : (pre ++ ['{', '{']).length = pre.length + 1 + 1 := by simp
      rw [hl] at g1
      refine ⟨f', s', ?_, ?_, ?_⟩
      · rw [h0, procOuter_esc_step t f _ st h1, g1]; simp [render, Piece.render]
      · rw [g2]; simp [keysOf]
      · simp; omega
    | field n s =>
      obtain ⟨f, rfl⟩ : ∃ f, fuel = f + 1 := ⟨fuel - 1, by simp at hfuel; omega⟩
      have hlen : r.length ≤ f := by simp at hfuel; omega
      have hnb := content_no_brace hwp
      have hnot : startsEscClose r = false := by
        simp only [procOK, Piece.isField, Bool.true_and, Bool.and_eq_true, Bool.not_eq_true'] at hok; exact hok.1
      have ht1 : t = pre ++ ('{' :: (content n s ++ '}' :: (render r ++ suf))) := by
        rw [ht]; simp [render, render_field]
      have ht1' : t = (pre ++ ['{']) ++ (content n s ++ '}' :: (render r ++ suf)) := by rw [ht1]; simp
      have ht2 : t = (pre ++ '{' :: (content n s ++ ['}'])) ++ (render r ++ suf) := by rw [ht1]; simp
      have h0 : findFrom '{' t pre.length = some pre.length := by
        rw [ht1, findFrom_append, idxOf_cons_self]; simp
      have h1 : adjacentNext '{' t pre.length = none := by
        apply adjacentNext_none_of_ne
        intro q hq
        rw [ht1', findFrom_at' _ _ _ _ (by simp)] at hq
        cases hi : idxOf '{' (content n s ++ '}' :: (render r ++ suf)) with
        | none => simp [hi] at hq
        | some k =>
          have hk : k ≠ 0 := by
            intro e; subst e
            have := idxOf_eq_zero.1 hi
            cases hcn : content n s with
            | nil => simp [hcn] at this
            | cons x xs =>
              simp [hcn] at this
              exact hnb.1 (by simp [hcn, this])
          simp [hi] at hq; omega
      have h2 : findFrom '}' t (pre.length + 1) = some (pre.length + 1 + (content n s).length) := by
        rw [ht1', findFrom_at' _ _ _ _ (by simp), idxOf_append_hit _ _ hnb.2]
        simp; omega
      -- what follows the closing brace does not start with `}`
      have hnext : (render r ++ suf).head? ≠ some '}' := by
        cases r with
        | nil => simpa [render] using hsuf
        | cons q r' =>
          have hne : render (q :: r') ≠ [] := by
            cases q with
            | field n2 s2 => simp [render, render_field]
            | _ => simp [render, Piece.render]
          have hh' : (render (q :: r') ++ suf).head? = (render (q :: r')).head? := by
            cases hr : render (q :: r') with
            | nil => exact absurd hr hne
            | cons x xs => simp
          rw [hh']
          intro hh
          have := (head_render_close hwr).1 hh
          simp [hnot] at this
      have h3 : adjacentNext '}' t (pre.length + 1 + (content n s).length) = none := by
        apply adjacentNext_none_of_ne
        intro q hq
        rw [ht2, findFrom_at' _ _ _ _ (by simp; omega)] at hq
        cases hi : idxOf '}' (render r ++ suf) with
        | none => simp [hi] at hq
        | some k =>
          have hk : k ≠ 0 := by
            intro e; subst e
            exact hnext (idxOf_eq_zero.1 hi)
          simp [hi] at hq; omega
      have h4 : findFrom '{' t (pre.length + 1 + (content n s).length)
          = findFrom '{' t (pre.length + 1 + (content n s).length + 1) := by
        have e1 : t = (pre ++ '{' :: content n s) ++ (['}'] ++ (render r ++ suf)) := by rw [ht1]; simp
        have e2 : t = ((pre ++ '{' :: content n s) ++ ['}']) ++ (render r ++ suf) := by rw [ht1]; simp
        have e3 : pre.length + 1 + (content n s).length = (pre ++ '{' :: content n s).length := by simp; omega
        have := findFrom_skip (c := '{') (pre ++ '{' :: content n s) ['}'] (render r ++ suf) (by decide)
        rw [← e1, ← e2] at this
        rw [e3, this]; congr 1; simp; omega
      -- the key that is emitted
      have hkey : (emit t pre.length (pre.length + 1 + (content n s).length) st).keys = st.keys ++ [(n, syntaxOf s)] := by
        rw [emit_keys, subSz_le (by omega)]
        have : substr t (pre.length + 1) (pre.length + 1 + (content n s).length - (pre.length + 1)) = content n s := by
          rw [ht1', show pre.length + 1 = (pre ++ ['{']).length by simp,
              show (pre ++ ['{']).length + (content n s).length - (pre ++ ['{']).length = (content n s).length by omega]
          exact substr_mid _ _ _
        rw [this, splitColon_content n s hwp]
      obtain ⟨f', s', g1, g2, g3⟩ := ih (pre ++ '{' :: (content n s ++ ['}']))
        (emit t pre.length (pre.length + 1 + (content n s).length) st) f t suf ht2 hwr hokr hsuf hlen
      have hl : (pre ++ '{' :: (content n s ++ ['}'])).length = pre.length + 1 + (content n s).length + 1 := by
        simp; omega
      rw [hl] at g1
      refine ⟨f', s', ?_, ?_, ?_⟩
      · rw [h0, procOuter_field_step t f _ _ st h1 h2 h3, h4, g1]; simp [render, render_field]
      · rw [g2, hkey]; simp [keysOf]
      · simp; omega

/-- the inner loop on a closing brace followed by `k` escaped pairs: every pair is taken for an escape and the
    placeholder is closed at the last brace of the run -/
theorem procInner_run (t : Str) (ob : Nat) (st : PSt) : ∀ (k : Nat) (pre1 suf : Str) (fuel : Nat),
    t = pre1 ++ (List.replicate (2 * k + 1) '}' ++ suf) → suf.head? ≠ some '}' → k < fuel →
    procInner t ob fuel (some pre1.length) st = (emit t ob (pre1.length + 2 * k) st, some (pre1.length + 2 * k)) := by
  intro k
  induction k with
  | zero =>
    intro pre1 suf fuel ht hsuf hf
    obtain ⟨f, rfl⟩ : ∃ f, fuel = f + 1 := ⟨fuel - 1, by omega⟩
    have h3 : adjacentNext '}' t pre1.length = none := by
      apply adjacentNext_none_of_ne
      intro q hq
      have ht2 : t = (pre1 ++ ['}']) ++ suf := by rw [ht]; simp
      rw [ht2, findFrom_at' _ _ _ _ (by simp)] at hq
      cases hi : idxOf '}' suf with
      | none => simp [hi] at hq
      | some j =>
        have hj : j ≠ 0 := by intro e; subst e; exact hsuf (idxOf_eq_zero.1 hi)
        simp [hi] at hq; omega
    simp [procInner, h3]
  | succ k ih =>
    intro pre1 suf fuel ht hsuf hf
    obtain ⟨f, rfl⟩ : ∃ f, fuel = f + 1 := ⟨fuel - 1, by omega⟩
    have hrep : List.replicate (2 * (k + 1) + 1) '}' = '}' :: '}' :: List.replicate (2 * k + 1) '}' := by
      rw [show 2 * (k + 1) + 1 = (2 * k + 1) + 1 + 1 by omega, List.replicate_succ, List.replicate_succ]
    have ht1 : t = (pre1 ++ ['}']) ++ ('}' :: (List.replicate (2 * k + 1) '}' ++ suf)) := by rw [ht, hrep]; simp
    have ht2 : t = (pre1 ++ ['}', '}']) ++ (List.replicate (2 * k + 1) '}' ++ suf) := by rw [ht, hrep]; simp
    have hadj : adjacentNext '}' t pre1.length = some (pre1.length + 1) := by
      unfold adjacentNext
      rw [ht1, findFrom_at' _ _ _ _ (by simp), idxOf_cons_self]
      simp
    have hnext : findFrom '}' t (pre1.length + 1 + 1) = some (pre1 ++ ['}', '}']).length := by
      rw [ht2, findFrom_at' _ _ _ _ (by simp)]
      rw [show List.replicate (2 * k + 1) '}' = '}' :: List.replicate (2 * k) '}' from List.replicate_succ]
      simp [idxOf_cons_self]
    have h := ih (pre1 ++ ['}', '}']) suf f ht2 hsuf (by omega)
    rw [procInner]
    simp only [hadj, hnext, h]
    simp only [List.length_append, List.length_cons, List.length_nil]
    rw [show pre1.length + (0 + 1 + 1) + 2 * k = pre1.length + 2 * (k + 1) by omega]

theorem splitColon_append (x : Str) : (splitColon x).1 ++ (splitColon x).2 = x := by
  unfold splitColon
  cases hi : idxOf ':' x with
  | none => simp
  | some k =>
    have := idxOf_lt hi
    simp only [substr]
    rw [subSz_le (by omega), List.take_of_length_le (l := List.drop k x) (by simp), List.take_append_drop]

/-- a run of escaped `}}` followed by something that does not start with `}}` -/
theorem run_split : ∀ (l : List Piece), ∃ k post, l = List.replicate k Piece.escClose ++ post ∧ startsEscClose post = false
  | [] => ⟨0, [], rfl, rfl⟩
  | p :: l => by
    cases p with
    | escClose =>
      obtain ⟨k, post, h1, h2⟩ := run_split l
      exact ⟨k + 1, post, by rw [h1, List.replicate_succ]; rfl, h2⟩
    | text c => exact ⟨0, _, rfl, rfl⟩
    | escOpen => exact ⟨0, _, rfl, rfl⟩
    | field n s => exact ⟨0, _, rfl, rfl⟩

theorem render_replicate_close (k : Nat) : render (List.replicate k Piece.escClose) = List.replicate (2 * k) '}' := by
  induction k with
  | zero => rfl
  | succ k ih =>
    rw [List.replicate_succ, render, ih, show 2 * (k + 1) = 2 * k + 1 + 1 by omega, List.replicate_succ, List.replicate_succ]
    rfl

/-- the first placeholder that is directly followed by an escaped `}}` -/
theorem first_bad : ∀ (ps : List Piece), procOK ps = false →
    ∃ pre n s k post, ps = pre ++ (Piece.field n s :: (List.replicate (k + 1) Piece.escClose ++ post)) ∧
      procOK pre = true ∧ startsEscClose post = false
  | [], h => by simp [procOK] at h
  | p :: rest, h => by
    simp only [procOK, Bool.and_eq_false_iff, Bool.not_eq_false'] at h
    by_cases hb : (p.isField && startsEscClose rest) = true
    · simp only [Bool.and_eq_true] at hb
      cases p with
      | field n s =>
        cases rest with
        | nil => simp [startsEscClose] at hb
        | cons q rest' =>
          cases q with
          | escClose =>
            obtain ⟨k, post, h1, h2⟩ := run_split rest'
            exact ⟨[], n, s, k, post, by rw [h1, List.replicate_succ]; rfl, rfl, h2⟩
          | text c => simp [startsEscClose] at hb
          | escOpen => simp [startsEscClose] at hb
          | field n2 s2 => simp [startsEscClose] at hb
      | text c => simp [Piece.isField] at hb
      | escOpen => simp [Piece.isField] at hb
      | escClose => simp [Piece.isField] at hb
    · have hr : procOK rest = false := by
        rcases h with h | h
        · exact absurd h hb
        · exact h
      obtain ⟨pre, n, s, k, post, h1, h2, h3⟩ := first_bad rest hr
      refine ⟨p :: pre, n, s, k, post, by rw [h1]; rfl, ?_, h3⟩
      simp only [procOK, h2, Bool.and_true, Bool.not_eq_true']
      cases pre with
      | nil => simp [startsEscClose]
      | cons q pre' =>
        have : startsEscClose (q :: pre') = startsEscClose rest := by rw [h1]; cases q <;> rfl
        rw [this]
        simpa using hb

theorem keysOf_append (a b : List Piece) : keysOf (a ++ b) = keysOf a ++ keysOf b := by
  induction a with
  | nil => rfl
  | cons q qs ih => cases q <;> simp [keysOf, ih]

/-- **tightness of `procOK`**: outside the class the key list is wrong -/
theorem process_keys_ne (ps : List Piece) (hw : wf ps = true) (hbad : procOK ps = false) :
    (process (render ps)).2 ≠ keysOf ps := by
  obtain ⟨pre, n, s, k, post, hps, hpre, hpost⟩ := first_bad ps hbad
  have hwf : wf pre = true ∧ (Piece.field n s).wf = true ∧ wf post = true := by
    rw [hps] at hw
    simp only [wf, List.all_append, List.all_cons, Bool.and_eq_true] at hw ⊢
    exact ⟨hw.1, hw.2.1, hw.2.2.2⟩
  obtain ⟨hwpre, hwf1, hwpost⟩ := hwf
  have hnb := content_no_brace hwf1
  -- the template
  have hsufhead : (render post).head? ≠ some '}' := by
    intro hh
    have := (head_render_close hwpost).1 hh
    simp [hpost] at this
  have ht : render ps = render pre ++ ('{' :: (content n s ++ (List.replicate (2 * (k + 1) + 1) '}' ++ render post))) := by
    rw [hps, render_append, render, render_field, render_append, render_replicate_close]
    rw [List.replicate_succ (n := 2 * (k + 1))]
    simp
  generalize htt : render ps = t at ht
  -- walk the good prefix
  have hsuf0 : ('{' :: (content n s ++ (List.replicate (2 * (k + 1) + 1) '}' ++ render post))).head? ≠ some '}' := by
    simp
  have hlenps : ps.length ≤ t.length := by rw [← htt]; exact length_le_render ps
  have hprelen : pre.length + 2 ≤ ps.length := by rw [hps]; simp; omega
  obtain ⟨f', st', hrun, hkeys, hfuel⟩ := procOuter_prefix pre [] {} (t.length + 1) t _ (by rw [ht]; simp)
    hwpre hpre hsuf0 (by omega)
  simp only [List.nil_append, List.length_nil] at hrun
  obtain ⟨f, rfl⟩ : ∃ f, f' = f + 1 := ⟨f' - 1, by omega⟩
  -- the bad placeholder
  have ht1' : t = (render pre ++ ['{']) ++ (content n s ++ (List.replicate (2 * (k + 1) + 1) '}' ++ render post)) := by
    rw [ht]; simp
  have h0 : findFrom '{' t (render pre).length = some (render pre).length := by
    rw [ht, findFrom_append, idxOf_cons_self]; simp
  have hrepl : List.replicate (2 * (k + 1) + 1) '}' = '}' :: List.replicate (2 * (k + 1)) '}' := List.replicate_succ
  have h1 : adjacentNext '{' t (render pre).length = none := by
    apply adjacentNext_none_of_ne
    intro q hq
    rw [ht1', findFrom_at' _ _ _ _ (by simp)] at hq
    cases hi : idxOf '{' (content n s ++ (List.replicate (2 * (k + 1) + 1) '}' ++ render post)) with
    | none => simp [hi] at hq
    | some j =>
      have hj : j ≠ 0 := by
        intro e; subst e
        have := idxOf_eq_zero.1 hi
        cases hcn : content n s with
        | nil => rw [hcn, hrepl] at this; simp at this
        | cons x xs =>
          simp [hcn] at this
          exact hnb.1 (by simp [hcn, this])
      simp [hi] at hq; omega
  have h2 : findFrom '}' t ((render pre).length + 1) = some ((render pre ++ '{' :: content n s).length) := by
    rw [ht1', findFrom_at' _ _ _ _ (by simp), hrepl, List.cons_append, idxOf_append_hit _ _ hnb.2]
    simp; omega
  have ht3 : t = (render pre ++ '{' :: content n s) ++ (List.replicate (2 * (k + 1) + 1) '}' ++ render post) := by
    rw [ht]; simp
  have hinner := procInner_run t (render pre).length st' (k + 1) (render pre ++ '{' :: content n s) (render post)
    (t.length + 1) ht3 hsufhead (by
      have : 2 * (k + 1) + 1 ≤ t.length := by rw [ht3]; simp; omega
      omega)
  -- one iteration of the outer loop
  have hstep : procOuter t (f + 1) (some (render pre).length) st' =
      procOuter t f (findFrom '{' t ((render pre ++ '{' :: content n s).length + 2 * (k + 1)))
        (emit t (render pre).length ((render pre ++ '{' :: content n s).length + 2 * (k + 1)) st') := by
    rw [procOuter]
    simp only [h1, h2, hinner, reopen]
  -- the keys
  obtain ⟨extra, hextra⟩ := procOuter_keys t f (findFrom '{' t ((render pre ++ '{' :: content n s).length + 2 * (k + 1)))
    (emit t (render pre).length ((render pre ++ '{' :: content n s).length + 2 * (k + 1)) st')
  have hfinal : (process t).2 = keysOf pre ++ (splitColon (content n s ++ List.replicate (2 * (k + 1)) '}') :: extra) := by
    simp only [process]
    rw [hrun, h0, hstep, hextra, emit_keys, hkeys]
    have hsub : substr t ((render pre).length + 1)
        (subSz ((render pre ++ '{' :: content n s).length + 2 * (k + 1)) ((render pre).length + 1))
        = content n s ++ List.replicate (2 * (k + 1)) '}' := by
      rw [subSz_le (by simp; omega)]
      have e : t = (render pre ++ ['{']) ++ ((content n s ++ List.replicate (2 * (k + 1)) '}') ++ ('}' :: render post)) := by
        rw [ht]
        rw [show 2 * (k + 1) + 1 = 2 * (k + 1) + 1 from rfl, List.replicate_succ' (n := 2 * (k + 1))]
        simp
      have hl : (render pre).length + 1 = (render pre ++ ['{']).length := by simp
      have hn : (render pre ++ '{' :: content n s).length + 2 * (k + 1) - ((render pre).length + 1)
          = (content n s ++ List.replicate (2 * (k + 1)) '}').length := by simp; omega
      rw [hn, hl]
      conv => lhs; rw [e]
      exact substr_mid _ _ _
    rw [hsub]; simp
  rw [hfinal, hps]
  have hk2 : keysOf (pre ++ Piece.field n s :: (List.replicate (k + 1) Piece.escClose ++ post))
      = keysOf pre ++ ((n, syntaxOf s) :: keysOf (List.replicate (k + 1) Piece.escClose ++ post)) := by
    rw [keysOf_append]; rfl
  rw [hk2]
  intro heq
  have hhead := (List.cons.inj (List.append_cancel_left heq)).1
  have hcat := splitColon_append (content n s ++ List.replicate (2 * (k + 1)) '}')
  rw [hhead] at hcat
  have : (n ++ syntaxOf s).length = (content n s ++ List.replicate (2 * (k + 1)) '}').length := by
    simp only at hcat; rw [hcat]
  simp [content] at this

/-- **`procOK` is exactly the class on which the scanner is right** -/
theorem process_correct_iff (ps : List Piece) (hw : wf ps = true) :
    process (render ps) = (render (ps.map Piece.erase), keysOf ps) ↔ procOK ps = true := by
  constructor
  · intro h
    cases hp : procOK ps with
    | true => rfl
    | false => exact absurd (by rw [h]) (process_keys_ne ps hw hp)
  · exact process_render ps hw

end Named
