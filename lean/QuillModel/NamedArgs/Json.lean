import QuillModel.NamedArgs.Basic
/-! JSON line assembly and the template cache. -/
namespace Named

/-! ### newline removal -/

def replNl (c : Char) : Char := if c = '\n' then ' ' else c

theorem not_mem_of_idxOf_none {c : Char} : ∀ {l : Str}, idxOf c l = none → c ∉ l
  | [], _ => by simp
  | x :: xs, h => by
    simp only [idxOf] at h
    split at h
    · simp at h
    · rename_i hx
      have : idxOf c xs = none := by cases hi : idxOf c xs <;> simp [hi] at h ⊢
      simp only [List.mem_cons, not_or]
      exact ⟨fun e => hx e.symm, not_mem_of_idxOf_none this⟩

theorem map_replNl_of_not_mem {l : Str} (h : '\n' ∉ l) : l.map replNl = l := by
  induction l with
  | nil => rfl
  | cons x xs ih =>
    have hx : x ≠ '\n' := fun e => h (by simp [e])
    simp only [List.map_cons, replNl, hx, if_false]
    rw [ih (fun e => h (by simp [e]))]

theorem nlLoop_spec : ∀ (fuel : Nat) (f : Str) (pos : Nat), f.length < fuel + pos →
    nlLoop fuel f pos = f.take pos ++ (f.drop pos).map replNl := by
  intro fuel
  induction fuel with
  | zero =>
    intro f pos h
    have : f.drop pos = [] := List.drop_eq_nil_of_le (by omega)
    simp [nlLoop, this, List.take_of_length_le (show f.length ≤ pos by omega)]
  | succ n ih =>
    intro f pos h
    simp only [nlLoop, findFrom]
    cases hi : idxOf '\n' (f.drop pos) with
    | none =>
      simp only [Option.map_none]
      rw [map_replNl_of_not_mem (not_mem_of_idxOf_none hi), List.take_append_drop]
    | some k =>
      simp only [Option.map_some]
      have ⟨hsplit, hnot⟩ := idxOf_split hi
      have hk := idxOf_lt hi
      have hpos : pos ≤ f.length := by simp at hk; omega
      -- f = pre ++ a ++ '\n' :: b
      have hf : f = f.take pos ++ ((f.drop pos).take k ++ '\n' :: (f.drop pos).drop (k + 1)) := by
        rw [← hsplit, List.take_append_drop]
      have hpl : (f.take pos).length = pos := by simp; omega
      have hal : ((f.drop pos).take k).length = k := by simp at hk ⊢; omega
      generalize f.take pos = pre at hf hpl
      generalize (f.drop pos).take k = a at hf hal hnot hsplit
      generalize (f.drop pos).drop (k + 1) = b at hf hsplit
      have hset : f.set (k + pos) ' ' = pre ++ (a ++ ' ' :: b) := by
        rw [hf, List.set_append_right _ _ (by omega), List.set_append_right _ _ (by omega)]
        rw [show k + pos - pre.length - a.length = 0 by omega]; rfl
      rw [hset, ih _ _ (by simp; have : f.length = pre.length + (a.length + (b.length + 1)) := by rw [hf]; simp
                           omega)]
      have e1 : k + pos + 1 = (pre ++ (a ++ [' '])).length := by simp; omega
      have e2 : pre ++ (a ++ ' ' :: b) = (pre ++ (a ++ [' '])) ++ b := by simp
      rw [e2, e1, List.take_left' rfl, List.drop_left' rfl, hsplit]
      rw [List.map_append, map_replNl_of_not_mem hnot]
      simp [replNl]

/-- the rewritten template is the template with every newline turned into a space -/
theorem removeNewlines_eq (t : Str) : removeNewlines t = t.map replNl := by
  unfold removeNewlines
  split
  · rw [nlLoop_spec _ _ _ (by omega)]; simp
  · rename_i h
    rw [map_replNl_of_not_mem]
    simpa using h

theorem removeNewlines_no_nl (t : Str) : '\n' ∉ removeNewlines t := by
  rw [removeNewlines_eq]
  simp only [List.mem_map, not_exists, not_and]
  intro c _
  unfold replNl
  split <;> simp_all

/-! ### the line -/

/-- the object without the terminating newline -/
def jsonBody (layout : List (Str × HdrField)) (h : Hdr) (tmpl : Str) (pairs : Option (List (Str × Str))) : Str :=
  jsonHeader layout h (removeNewlines tmpl) ++ jsonArgsOpt pairs ++ ['}']

theorem jsonLine_eq_body (layout : List (Str × HdrField)) (h : Hdr) (tmpl : Str) (pairs : Option (List (Str × Str))) :
    jsonLine layout h tmpl pairs = jsonBody layout h tmpl pairs ++ ['\n'] := by
  simp [jsonLine, jsonBody]

theorem jsonArgs_eq (ps : List (Str × Str)) : jsonArgs ps = ps.flatMap (fun kv => ',' :: member kv.1 kv.2) := by
  induction ps with
  | nil => rfl
  | cons kv rest ih => obtain ⟨k, v⟩ := kv; simp [jsonArgs, ih, member, quoted]

theorem joinVals_append_flat (xs ys : List Str) (hx : xs ≠ []) :
    joinVals [','] (xs ++ ys) = joinVals [','] xs ++ ys.flatMap (fun y => ',' :: y) := by
  induction xs with
  | nil => exact absurd rfl hx
  | cons x xs ih =>
    cases xs with
    | nil =>
      cases ys with
      | nil => simp [joinVals]
      | cons y ys' =>
        have : ∀ (l : List Str) (z : Str), joinVals [','] (z :: l) = z ++ l.flatMap (fun y => ',' :: y) := by
          intro l
          induction l with
          | nil => intro z; simp [joinVals]
          | cons a as ih2 => intro z; rw [joinVals_cons2', ih2 a]; simp
        simpa [joinVals] using this (y :: ys') x
    | cons x2 xs' =>
      have := ih (by simp)
      simp only [List.cons_append] at this ⊢
      rw [joinVals_cons2', this, joinVals_cons2']; simp
where
  joinVals_cons2' {sep v w : Str} {rest : List Str} :
      joinVals sep (v :: w :: rest) = v ++ (sep ++ joinVals sep (w :: rest)) := by simp [joinVals]

/-- **fixed key order**: the object is `{` + the members `"key":"value"` joined by commas + `}`, the members being
    the header slots in the order of the layout followed by the named pairs in their order -/
theorem jsonBody_members (layout : List (Str × HdrField)) (hl : layout ≠ []) (h : Hdr) (tmpl : Str)
    (pairs : Option (List (Str × Str))) :
    jsonBody layout h tmpl pairs =
      '{' :: joinVals [','] (layout.map (fun kf => member kf.1 (h.get (removeNewlines tmpl) kf.2)) ++
                              (pairs.getD []).map (fun kv => member kv.1 kv.2)) ++ ['}'] := by
  rw [joinVals_append_flat _ _ (by simpa using hl)]
  cases pairs with
  | none => simp [jsonBody, jsonHeader, jsonArgsOpt]
  | some ps => simp [jsonBody, jsonHeader, jsonArgsOpt, jsonArgs_eq, List.flatMap_map]

theorem mem_joinVals {c : Char} {sep : Str} (hc : c ∉ sep) : ∀ (l : List Str), c ∈ joinVals sep l ↔ ∃ x ∈ l, c ∈ x
  | [] => by simp [joinVals]
  | [v] => by simp [joinVals]
  | v :: w :: rest => by
    have ih := mem_joinVals hc (w :: rest)
    have : joinVals sep (v :: w :: rest) = v ++ (sep ++ joinVals sep (w :: rest)) := by simp [joinVals]
    rw [this]
    simp only [List.mem_append, ih, List.mem_cons, exists_eq_or_imp]
    constructor
    · rintro (h | h | h)
      · exact Or.inl h
      · exact absurd h hc
      · exact Or.inr h
    · rintro (h | h)
      · exact Or.inl h
      · exact Or.inr (Or.inr h)

theorem mem_member {c : Char} (hq : c ≠ '"') (hcol : c ≠ ':') (k v : Str) : c ∈ member k v ↔ c ∈ k ∨ c ∈ v := by
  simp only [member, quoted, List.mem_cons, List.mem_append, List.mem_nil_iff, or_false]
  grind

/-- **one line**: the object contains a newline iff a key, a header value other than the (rewritten) template,
    or a pair does -/
theorem jsonBody_newline_iff (layout : List (Str × HdrField)) (hl : layout ≠ []) (h : Hdr) (tmpl : Str)
    (pairs : Option (List (Str × Str))) :
    '\n' ∈ jsonBody layout h tmpl pairs ↔
      (∃ kf ∈ layout, '\n' ∈ kf.1 ∨ (kf.2 ≠ .messageFormat ∧ '\n' ∈ h.get tmpl kf.2)) ∨
      (∃ kv ∈ pairs.getD [], '\n' ∈ kv.1 ∨ '\n' ∈ kv.2) := by
  rw [jsonBody_members layout hl]
  have hnl : ∀ k v : Str, '\n' ∈ member k v ↔ '\n' ∈ k ∨ '\n' ∈ v := mem_member (by decide) (by decide)
  have hwrap : ∀ J : Str, '\n' ∈ '{' :: J ++ ['}'] ↔ '\n' ∈ J := by intro J; simp
  rw [hwrap, mem_joinVals (by decide)]
  simp only [List.mem_append, List.mem_map]
  constructor
  · rintro ⟨x, (⟨kf, hkf, rfl⟩ | ⟨kv, hkv, rfl⟩), hx⟩
    · left
      refine ⟨kf, hkf, ?_⟩
      rcases (hnl _ _).1 hx with h1 | h1
      · exact Or.inl h1
      · right
        cases hk : kf.2 <;> simp only [hk, Hdr.get] at h1 ⊢ <;>
          first
          | exact ⟨by simp, h1⟩
          | exact absurd h1 (removeNewlines_no_nl tmpl)
    · right; exact ⟨kv, hkv, (hnl _ _).1 hx⟩
  · rintro (⟨kf, hkf, hx⟩ | ⟨kv, hkv, hx⟩)
    · refine ⟨_, Or.inl ⟨kf, hkf, rfl⟩, (hnl _ _).2 ?_⟩
      rcases hx with h1 | ⟨hne, h1⟩
      · exact Or.inl h1
      · right
        cases hk : kf.2 <;> simp only [hk, Hdr.get] at h1 hne ⊢ <;> first | exact h1 | exact absurd rfl hne
    · exact ⟨_, Or.inr ⟨kv, hkv, rfl⟩, (hnl _ _).2 hx⟩

/-! ### the cache -/

/-- every entry holds what `process` computes for its key -/
def CacheInv (c : Cache) : Prop := ∀ k v, c.lookup k = some v → v = process k

theorem cacheInv_nil : CacheInv [] := by intro k v h; simp [List.lookup] at h

theorem lookupOrInsert_fst (c : Cache) (hc : CacheInv c) (t : Str) : (lookupOrInsert c t).1 = process t := by
  unfold lookupOrInsert
  cases h : c.lookup t with
  | none => rfl
  | some r => exact hc t r h

theorem lookupOrInsert_inv (c : Cache) (hc : CacheInv c) (t : Str) : CacheInv (lookupOrInsert c t).2 := by
  unfold lookupOrInsert
  cases h : c.lookup t with
  | some r => exact hc
  | none =>
    intro k v hk
    simp only [List.lookup] at hk
    split at hk
    · rename_i heq
      have : k = t := by simpa using heq
      cases hk; rw [this]
    · exact hc k v hk

/-- what the cache holds after a lookup: the old entries, and `process t` under `t` -/
theorem lookupOrInsert_lookup (c : Cache) (hc : CacheInv c) (t k : Str) :
    (lookupOrInsert c t).2.lookup k = if k = t then some (process t) else c.lookup k := by
  unfold lookupOrInsert
  cases h : c.lookup t with
  | some r =>
    simp only
    split
    · rename_i e; rw [e, h, hc t r h]
    · rfl
  | none =>
    simp only [List.lookup]
    by_cases e : k = t
    · simp [e]
    · have : (k == t) = false := by simpa using e
      simp [this, e]

theorem runHistory_spec : ∀ (ts : List Str) (c : Cache), CacheInv c →
    (runHistory c ts).1 = ts.map process ∧ CacheInv (runHistory c ts).2 ∧
    ∀ k, (runHistory c ts).2.lookup k = if k ∈ ts then some (process k) else c.lookup k
  | [], c, hc => by simp [runHistory, hc]
  | t :: ts, c, hc => by
    have ⟨h1, h2, h3⟩ := runHistory_spec ts (lookupOrInsert c t).2 (lookupOrInsert_inv c hc t)
    refine ⟨?_, ?_, ?_⟩
    · simp [runHistory, h1, lookupOrInsert_fst c hc t]
    · simpa [runHistory] using h2
    · intro k
      simp only [runHistory]
      rw [h3 k, lookupOrInsert_lookup c hc t k]
      by_cases e1 : k ∈ ts
      · simp [e1]
      · by_cases e2 : k = t
        · simp [e2]
        · simp [e1, e2]

end Named
