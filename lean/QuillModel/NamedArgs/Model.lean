/-!
# NamedArgs — model of quill's named-placeholder machinery (property C19)

Transcribed from the C++ (no Mathlib; everything computable, the compiled `driver named` runs these definitions):

* `containsNamedArgs`  — `MacroMetadata::_contains_named_args` (core/MacroMetadata.h), the two nested
  `while (pos < fmt.length())` loops, character by character, with their `++pos` placement;
* `process`            — `BackendWorker::_process_named_args_format_message` (backend/BackendWorker.h), the
  `find_first_of` position logic of both loops, `substr`, the `':'` split, `cur_pos`;
* `genFormat`, `splitAssign`, `namedPairs` — `_populate_formatted_named_args` / `_format_and_split_arguments`
  (names, `_N` placeholders, the generated `{spec}<SEP>{spec}…` string, the `find(delimiter, start)` split loop);
* `sanitize`           — `sanitize_non_printable_chars` with the default `check_printable_char`;
* `removeNewlines`, `jsonLine` — `detail::JsonSink::write_log` / `generate_json_message` (sinks/JsonSink.h);
* `jsonWrite`, `runJson` — the sink's `_json_message` buffer across statements, with throwing customisation points;
* `lookupOrInsert`     — the `_named_args_templates` cache (`find`, else `try_emplace(process(..))`).

Strings are `List Char` (one `Char` per byte). Loops carry a fuel argument that is initialised with a bound
larger than the number of iterations the C++ loop can make (`length + 1`); `size_t` subtraction is `subSz`.
The grammar of templates the property quantifies over is `Piece` / `render`.
-/
namespace Named

abbrev Str := List Char

/-! ## string primitives -/

/-- index of the first `c` in `l` -/
def idxOf (c : Char) : Str → Option Nat
  | [] => none
  | x :: xs => if x = c then some 0 else (idxOf c xs).map (· + 1)

/-- `std::string_view::find_first_of(c, pos)` = `find(c, pos)`: first index `≥ pos` holding `c`; `none` = npos
    (also when `pos` is past the end, as in the C++) -/
def findFrom (c : Char) (t : Str) (pos : Nat) : Option Nat :=
  (idxOf c (t.drop pos)).map (· + pos)

/-- `substr(pos, n)` for `pos ≤ size()` -/
def substr (t : Str) (pos n : Nat) : Str := (t.drop pos).take n

/-- `size_t` subtraction (64-bit wrap) -/
def subSz (a b : Nat) : Nat := if b ≤ a then a - b else a + 2 ^ 64 - b

/-- first index at which `pat` occurs in `s` -/
def subIdx (pat : Str) : Str → Option Nat
  | [] => if pat = [] then some 0 else none
  | c :: cs => if pat.isPrefixOf (c :: cs) then some 0 else (subIdx pat cs).map (· + 1)

/-- `std::string::find(pat, start)` -/
def findSub (pat s : Str) (start : Nat) : Option Nat :=
  if start ≤ s.length then (subIdx pat (s.drop start)).map (· + start) else none

def containsSub (pat s : Str) : Bool := (subIdx pat s).isSome

/-! ## `MacroMetadata::_contains_named_args` -/

/-- `(fc >= 'a' && fc <= 'z') || (fc >= 'A' && fc <= 'Z')` -/
def isAlpha (c : Char) : Bool := (decide ('a' ≤ c) && decide (c ≤ 'z')) || (decide ('A' ≤ c) && decide (c ≤ 'Z'))

/-- the inner `while (pos < fmt.length())` that looks for the closing brace. Returns `(pos, char_cnt)` at exit.
```
  if (fmt[pos] == '}') { ++pos; if (pos >= fmt.length()) break;
                         if (fmt[pos] == '}') { ++pos; ++char_cnt; continue; }
                         break; }
  ++pos; ++char_cnt;
``` -/
def detInner (t : Str) : Nat → Nat → Nat → Nat × Nat
  | 0, pos, cnt => (pos, cnt)
  | fuel + 1, pos, cnt =>
    match t[pos]? with
    | none => (pos, cnt)
    | some c =>
      if c = '}' then
        match t[pos + 1]? with
        | none => (pos + 1, cnt)
        | some d => if d = '}' then detInner t fuel (pos + 2) (cnt + 1) else (pos + 1, cnt)
      else detInner t fuel (pos + 1) (cnt + 1)

/-- the outer `while (pos < fmt.length())`.
```
  if (fmt[pos] == '{') { ++pos; if (pos >= fmt.length()) break;
                         auto const fc = fmt[pos];
                         if (fc == '{') { ++pos; continue; }
                         <inner loop>
                         if ((char_cnt != 0) && alpha(fc)) found_named_arg = true; }
  ++pos;
```
Note the trailing `++pos` is also executed after a placeholder, i.e. the character that follows a closing
brace is never examined. -/
def detOuter (t : Str) : Nat → Nat → Bool → Bool
  | 0, _, found => found
  | fuel + 1, pos, found =>
    match t[pos]? with
    | none => found
    | some c =>
      if c = '{' then
        match t[pos + 1]? with
        | none => found
        | some fc =>
          if fc = '{' then detOuter t fuel (pos + 2) found
          else
            let r := detInner t (t.length + 1) (pos + 1) 0
            detOuter t fuel (r.1 + 1) (found || (r.2 != 0 && isAlpha fc))
      else detOuter t fuel (pos + 1) found

def containsNamedArgs (t : Str) : Bool := detOuter t (t.length + 1) 0 false

/-! ## `BackendWorker::_process_named_args_format_message` -/

structure PSt where
  fmtStr : Str := []
  keys : List (Str × Str) := []
  curPos : Nat := 0
deriving Repr, DecidableEq

/-- `text_inside_placeholders.find(':')`: `(arg_name, arg_syntax)`, the syntax keeps the colon -/
def splitColon (inside : Str) : Str × Str :=
  match idxOf ':' inside with
  | some k => (inside.take k, substr inside k (subSz inside.length k))
  | none => (inside, [])

/-- body executed when the closing bracket is accepted: cut `text_inside_placeholders`, split at the first `':'`,
    append `text-before + "{" + arg_syntax + "}"`, move `cur_pos`, push the key -/
def emit (t : Str) (ob cb : Nat) (st : PSt) : PSt :=
  let ns := splitColon (substr t (ob + 1) (subSz cb (ob + 1)))
  { fmtStr := st.fmtStr ++ substr t st.curPos (subSz ob st.curPos) ++ '{' :: ns.2 ++ ['}'],
    keys := st.keys ++ [ns],
    curPos := cb + 1 }

/-- the "is the next bracket of the same kind adjacent?" test of both loops:
```
  if (size_t const p2 = fmt_template.find_first_of(c, p + 1); p2 != npos) { if ((p2 - 1) == p) { … continue; } }
```
`some p2` when the escape branch is taken -/
def adjacentNext (c : Char) (t : Str) (p : Nat) : Option Nat :=
  match findFrom c t (p + 1) with
  | some p2 => if p2 - 1 = p then some p2 else none
  | none => none

/-- inner `while (close_bracket_pos != npos)`: a `}` whose *next* `}` is adjacent is taken for an escaped pair
    and skipped; otherwise the placeholder is emitted and the loop is left. Returns the state and the value of
    `close_bracket_pos` at exit. -/
def procInner (t : Str) (ob : Nat) : Nat → Option Nat → PSt → PSt × Option Nat
  | 0, cb, st => (st, cb)
  | _ + 1, none, st => (st, none)
  | fuel + 1, some cb, st =>
    match adjacentNext '}' t cb with
    | some cb2 => procInner t ob fuel (findFrom '}' t (cb2 + 1)) st
    | none => (emit t ob cb st, some cb)

/-- `open_bracket_pos = fmt_template.find_first_of('{', close_bracket_pos)` (npos stays npos) -/
def reopen (t : Str) : Option Nat → Option Nat
  | some cb => findFrom '{' t cb
  | none => none

/-- outer `while (open_bracket_pos != npos)`: a `{` whose *next* `{` is adjacent is an escaped pair and skipped;
    otherwise look for the close bracket; then resume the `{` search at `close_bracket_pos` -/
def procOuter (t : Str) : Nat → Option Nat → PSt → PSt
  | 0, _, st => st
  | _ + 1, none, st => st
  | fuel + 1, some ob, st =>
    match adjacentNext '{' t ob with
    | some ob2 => procOuter t fuel (findFrom '{' t (ob2 + 1)) st
    | none =>
      let r := procInner t ob (t.length + 1) (findFrom '}' t (ob + 1)) st
      procOuter t fuel (reopen t r.2) r.1

/-- returns `(fmt_str, keys)`; a key is `(arg_name, arg_syntax)` with the colon kept in the syntax -/
def process (t : Str) : Str × List (Str × Str) :=
  let st := procOuter t (t.length + 1) (findFrom '{' t 0) {}
  (st.fmtStr ++ substr t st.curPos (subSz t.length st.curPos), st.keys)

/-! ## the grammar of templates -/

/-- `(text | "{{" | "}}" | "{" [ident] [":" spec] "}")*` — a field with an empty name is positional -/
inductive Piece where
  | text (c : Char)
  | escOpen
  | escClose
  | field (name : Str) (spec : Option Str)
deriving DecidableEq, Repr

def Piece.render : Piece → Str
  | .text c => [c]
  | .escOpen => ['{', '{']
  | .escClose => ['}', '}']
  | .field n none => '{' :: (n ++ ['}'])
  | .field n (some s) => '{' :: (n ++ ':' :: (s ++ ['}']))

def render : List Piece → Str
  | [] => []
  | p :: ps => p.render ++ render ps

def identChar (c : Char) : Bool := isAlpha c || c.isDigit || c == '_'

/-- a name is empty (positional) or an identifier starting with a letter -/
def nameOK : Str → Bool
  | [] => true
  | c :: cs => isAlpha c && cs.all identChar

def noBrace (s : Str) : Bool := s.all (fun c => c != '{' && c != '}')

def Piece.wf : Piece → Bool
  | .text c => c != '{' && c != '}'
  | .escOpen => true
  | .escClose => true
  | .field n none => nameOK n
  | .field n (some s) => nameOK n && noBrace s

/-- the list of pieces is generated by the grammar -/
def wf (ps : List Piece) : Bool := ps.all Piece.wf

def Piece.isField : Piece → Bool
  | .field _ _ => true
  | _ => false

def Piece.isNamed : Piece → Bool
  | .field n _ => n != []
  | _ => false

/-- erase the name, keep the spec -/
def Piece.erase : Piece → Piece
  | .field _ s => .field [] s
  | p => p

def syntaxOf : Option Str → Str
  | none => []
  | some s => ':' :: s

/-- `(name, ":spec")` of every field, in order of occurrence -/
def keysOf : List Piece → List (Str × Str)
  | [] => []
  | .field n s :: ps => (n, syntaxOf s) :: keysOf ps
  | _ :: ps => keysOf ps

def startsEscClose : List Piece → Bool
  | .escClose :: _ => true
  | _ => false

/-- class on which `process` is right: no placeholder is directly followed by an escaped `}}` -/
def procOK : List Piece → Bool
  | [] => true
  | p :: rest => !(p.isField && startsEscClose rest) && procOK rest

/-- `detOK afterPos ps`: the detection loops provably stay in step with the pieces. `afterPos = true` means the
    previous piece was a positional placeholder read in step, so the next *character* is skipped by the trailing
    `++pos`: harmless if it is a literal character or the `{` of another positional placeholder (the rest of which is
    then read as plain text), not harmless if it belongs to a named placeholder, to `{{` or to `}}`. Once a named
    placeholder is reached in step the flag is set and nothing later can clear it. -/
def detOK : Bool → List Piece → Bool
  | _, [] => true
  | false, p :: rest =>
    match p with
    | .field n _ => n != [] || detOK true rest
    | _ => detOK false rest
  | true, p :: rest =>
    match p with
    | .text _ => detOK false rest
    | .field n _ => n == [] && detOK false rest
    | _ => false

/-- class on which `containsNamedArgs` is right: up to the first named placeholder, every positional placeholder
    ends the template, or is followed by a literal character, or is followed by another positional placeholder.
    Excluded: a positional placeholder directly followed by a named one, by `{{` or by `}}`. -/
def detectOK (ps : List Piece) : Bool := detOK false ps

/-! ## fmt's top level, as far as the property needs it -/

/-- What `fmt::vformat(t, args)` yields when the i-th automatically indexed replacement field renders as `fv[i]`:
    `{{`→`{`, `}}`→`}`, `{}` / `{:spec}` → next value, anything else (`}` alone, unterminated `{`, a named or
    numbered field, too few values) → `none` (format_error). Nested fields inside a spec are outside the grammar. -/
def fmtSubstF : Nat → Str → List Str → Option Str
  | 0, _, _ => none
  | _ + 1, [], _ => some []
  | fuel + 1, c :: r, fv =>
    if c = '{' then
      if r.head? = some '{' then (fmtSubstF fuel r.tail fv).map ('{' :: ·)
      else
        match idxOf '}' r, fv with
        | some k, v :: fv' =>
          if r.take k = [] ∨ (r.take k).head? = some ':' then (fmtSubstF fuel (r.drop (k + 1)) fv').map (v ++ ·)
          else none
        | _, _ => none
    else if c = '}' then
      if r.head? = some '}' then (fmtSubstF fuel r.tail fv).map ('}' :: ·) else none
    else (fmtSubstF fuel r fv).map (c :: ·)

def fmtSubst (t : Str) (fv : List Str) : Option Str := fmtSubstF (t.length + 1) t fv

/-- the intended text of a template: literal pieces, escaped braces unescaped, i-th field = i-th value -/
def msgSpec : List Piece → List Str → Option Str
  | [], _ => some []
  | .text c :: ps, fv => (msgSpec ps fv).map (c :: ·)
  | .escOpen :: ps, fv => (msgSpec ps fv).map ('{' :: ·)
  | .escClose :: ps, fv => (msgSpec ps fv).map ('}' :: ·)
  | .field _ _ :: _, [] => none
  | .field _ _ :: ps, v :: fv => (msgSpec ps fv).map (v ++ ·)

/-! ## `_populate_formatted_named_args` / `_format_and_split_arguments` -/

def natStr (n : Nat) : Str := (toString n).toList

/-- names: the cached ones, then `_i` for every argument index beyond them -/
def populateNames (keys : List (Str × Str)) (nargs : Nat) : List Str :=
  keys.map (·.1) ++ (List.range' keys.length (nargs - keys.length)).map (fun i => '_' :: natStr i)

/-- the piece generated for argument `i`: `{syntax_i}` if there is a cached non-empty syntax, else `{}` -/
def oneField (keys : List (Str × Str)) (i : Nat) : Str :=
  match keys[i]? with
  | some (_, syn) => if syn ≠ [] then '{' :: (syn ++ ['}']) else ['{', '}']
  | none => ['{', '}']

/-- the generated format string (`k` = iterations left, `i = n - k`): the piece for `i`, then the delimiter
    unless `i = n - 1` -/
def genFormat (sep : Str) (keys : List (Str × Str)) (n : Nat) : Nat → Str
  | 0 => []
  | k + 1 =>
    let i := n - (k + 1)
    oneField keys i ++ (if i < n - 1 then sep else []) ++ genFormat sep keys n k

def joinVals (sep : Str) : List Str → Str
  | [] => []
  | [v] => v
  | v :: vs => v ++ sep ++ joinVals sep vs

/-- the split loop
```
  while ((end = s.find(delimiter, start)) != npos) { if (idx < size) vals[idx++] = s.substr(start, end - start);
                                                     start = end + delimiter.length(); }
  if (idx < size) vals[idx] = s.substr(start);
``` -/
def splitAssign (sep s : Str) : Nat → Nat → Nat → List Str → List Str
  | 0, _, _, vals => vals
  | fuel + 1, start, idx, vals =>
    match findSub sep s start with
    | some e =>
      if idx < vals.length then splitAssign sep s fuel (e + sep.length) (idx + 1) (vals.set idx (substr s start (e - start)))
      else splitAssign sep s fuel (e + sep.length) idx vals
    | none => if idx < vals.length then vals.set idx (s.drop start) else vals

def splitValues (sep s : Str) (n : Nat) : List Str :=
  splitAssign sep s (s.length + 2) 0 0 (List.replicate n [])

/-- default `BackendOptions::check_printable_char` -/
def printable (c : Char) : Bool := (decide (' ' ≤ c) && decide (c ≤ '~')) || c == '\n'

def hexDigitU (n : Nat) : Char := if n < 10 then Char.ofNat (48 + n) else Char.ofNat (55 + n)

/-- `sanitize_non_printable_chars`: `\xNN` (upper-case hex) for every non-printable byte -/
def sanitize (s : Str) : Str :=
  s.flatMap (fun c => if printable c then [c] else ['\\', 'x', hexDigitU (c.toNat / 16 % 16), hexDigitU (c.toNat % 16)])

/-- the `named_args` vector a sink sees. `fv` = the arguments, the i-th rendered by the i-th generated field
    (`{syntax_i}` or `{}`); too few arguments = fmt throws, caught, the (cleared, resized) values stay empty.
    `san` = "check_printable_char is set and some argument is string-like". -/
def namedPairs (sep : Str) (san : Bool) (keys : List (Str × Str)) (fv : List Str) : List (Str × Str) :=
  let names := populateNames keys fv.length
  let n := names.length
  let vals :=
    if fv.length < n then List.replicate n []
    else
      let v := splitValues sep (joinVals sep (fv.take n)) n
      if san then v.map sanitize else v
  names.zip vals

/-! ## the template cache -/

abbrev Parsed := Str × List (Str × Str)
/-- `_named_args_templates` as an association list (the C++ container is unordered; only `find` and
    `try_emplace` of an absent key are used) -/
abbrev Cache := List (Str × Parsed)

def lookupOrInsert (c : Cache) (t : Str) : Parsed × Cache :=
  match c.lookup t with
  | some r => (r, c)
  | none => let r := process t; (r, (t, r) :: c)

/-- results of a history of lookups, and the final cache -/
def runHistory : Cache → List Str → List Parsed × Cache
  | c, [] => ([], c)
  | c, t :: ts =>
    let r := lookupOrInsert c t
    let rest := runHistory r.2 ts
    (r.1 :: rest.1, rest.2)

/-! ## JSON sink -/

/-- the `for (pos = 0; (pos = _format.find('\n', pos)) != npos; pos++) _format.replace(pos, 1, " ")` loop -/
def nlLoop : Nat → Str → Nat → Str
  | 0, f, _ => f
  | fuel + 1, f, pos =>
    match findFrom '\n' f pos with
    | some p => nlLoop fuel (f.set p ' ') (p + 1)
    | none => f

/-- `write_log`: only when `strchr(format, '\n')` finds one is the copy made and rewritten -/
def removeNewlines (t : Str) : Str :=
  if t.contains '\n' then nlLoop (t.length + 1) t 0 else t

/-- which run-time value fills a header slot of `generate_json_message` -/
inductive HdrField where
  | timestamp | fileName | line | threadId | logger | logLevel | messageFormat
deriving DecidableEq, Repr

structure Hdr where
  timestamp : Str
  fileName : Str
  line : Str
  threadId : Str
  logger : Str
  logLevel : Str
deriving Repr

def Hdr.get (h : Hdr) (tmpl : Str) : HdrField → Str
  | .timestamp => h.timestamp
  | .fileName => h.fileName
  | .line => h.line
  | .threadId => h.threadId
  | .logger => h.logger
  | .logLevel => h.logLevel
  | .messageFormat => tmpl

def quoted (s : Str) : Str := '"' :: (s ++ ['"'])

/-- one `"key":"value"` member, nothing escaped -/
def member (k v : Str) : Str := quoted k ++ ':' :: quoted v

/-- the header written by the `fmtquill::format(R"({{"timestamp":"{}",…,"message":"{}")", …)` call:
    `{` then the members joined by `,`; `layout` = (literal key, argument) in the order of the C++ literal -/
def jsonHeader (layout : List (Str × HdrField)) (h : Hdr) (tmpl : Str) : Str :=
  '{' :: joinVals [','] (layout.map (fun kf => member kf.1 (h.get tmpl kf.2)))

/-- the loop over `*named_args`: `,"` key `":"` value `"` -/
def jsonArgs : List (Str × Str) → Str
  | [] => []
  | (k, v) :: rest => [',', '"'] ++ k ++ ['"', ':', '"'] ++ v ++ ['"'] ++ jsonArgs rest

/-- `if (named_args) { for … }` -/
def jsonArgsOpt : Option (List (Str × Str)) → Str
  | some ps => jsonArgs ps
  | none => []

/-- the bytes handed to the stream: header, pairs (if the pointer is non-null), `}\n` -/
def jsonLine (layout : List (Str × HdrField)) (h : Hdr) (tmpl : Str) (pairs : Option (List (Str × Str))) : Str :=
  jsonHeader layout h (removeNewlines tmpl) ++ jsonArgsOpt pairs ++ ['}', '\n']

/-! ### the sink's line buffer across statements (`_json_message`), with throwing customisation points

`JsonSink::write_log` = `_json_message.clear()`; the virtual `generate_json_message(…)` (appends the record; a
documented customisation point — a user override may throw after part of the record was appended);
`_json_message.append("}\n")`; base `write_log` with the buffer (`before_write` hook, `fwrite`; may throw). An
exception leaves `write_log` at that point; the backend reports it through the error notifier and goes on with the
next statement. The buffer is a member: it survives from one statement to the next. -/

/-- what `generate_json_message` appends for one statement: the line without its closing `}\n` -/
def jsonRecord (layout : List (Str × HdrField)) (h : Hdr) (tmpl : Str) (pairs : Option (List (Str × Str))) : Str :=
  jsonHeader layout h (removeNewlines tmpl) ++ jsonArgsOpt pairs

/-- where the write of a statement fails -/
inductive JFault where
  | none
  /-- `generate_json_message` throws after `k` bytes of the record were appended (`k ≥` its length: after all of it) -/
  | generate (k : Nat)
  /-- the base `write_log` throws (`before_write` hook, `fwrite`) before anything reached the stream -/
  | write
deriving DecidableEq, Repr

/-- where `write_log` empties the buffer (extracted): before `generate_json_message` (the code) and/or after the
    base write (the variant that "leaves the buffer empty once its content has been handed over") -/
structure JSinkParams where
  clearBefore : Bool := true
  clearAfter : Bool := false
deriving DecidableEq, Repr

structure JSink where
  /-- `_json_message` -/
  buf : Str := []
  /-- the bytes handed to the stream so far -/
  file : Str := []
  /-- exceptions that left `write_log` (one error-notifier report each) -/
  reports : Nat := 0
deriving DecidableEq, Repr

def JSink.clear (s : JSink) : JSink := { s with buf := [] }

/-- `generate_json_message`: appends the record — or, throwing (`true`), only its first `k` bytes -/
def JSink.generate (s : JSink) (record : Str) : JFault → JSink × Bool
  | .generate k => ({ s with buf := s.buf ++ record.take k }, true)
  | _ => ({ s with buf := s.buf ++ record }, false)

/-- base `write_log` with the buffer: the bytes reach the stream, or it throws (`true`) and nothing does -/
def JSink.write (s : JSink) : JFault → JSink × Bool
  | .write => (s, true)
  | _ => ({ s with file := s.file ++ s.buf }, false)

def JSink.report (s : JSink) : JSink := { s with reports := s.reports + 1 }

/-- `JsonSink::write_log` for one statement: (clear;) generate; append `}\n`; write (; clear) -/
def jsonWrite (p : JSinkParams) (s : JSink) (record : Str) (f : JFault) : JSink :=
  let s1 := if p.clearBefore then s.clear else s
  let g := s1.generate record f
  if g.2 then g.1.report
  else
    let s3 : JSink := { g.1 with buf := g.1.buf ++ ['}', '\n'] }
    let w := s3.write f
    if w.2 then w.1.report
    else if p.clearAfter then w.1.clear else w.1

/-- a sequence of (record, fault) through one sink -/
def runRecords (p : JSinkParams) (s : JSink) : List (Str × JFault) → JSink
  | [] => s
  | rf :: rest => runRecords p (jsonWrite p s rf.1 rf.2) rest

/-- a statement as the JSON sink sees it, with the fault scheduled for it -/
structure JStmt where
  h : Hdr
  tmpl : Str
  pairs : Option (List (Str × Str))
  fault : JFault := .none
deriving Repr

def runJson (layout : List (Str × HdrField)) (p : JSinkParams) (s : JSink) (stmts : List JStmt) : JSink :=
  runRecords p s (stmts.map (fun st => (jsonRecord layout st.h st.tmpl st.pairs, st.fault)))

/-! ## one statement through the backend (what a sink observes) -/

structure SinkObs where
  msg : Option Str
  pairs : Option (List (Str × Str))
deriving Repr, DecidableEq

/-- "if the log_message ends with \n we should exclude it" (`_process_transit_event`, single-statement branch) -/
def dropLastNl (s : Str) : Str := if s.getLast? = some '\n' then s.dropLast else s

/-- `_populate_formatted_log_message`'s tail: sanitise if configured and string-like arguments are present;
    then the trailing-newline cut made when the statement is handed to the sinks -/
def finishMsg (san : Bool) (m : Option Str) : Option Str :=
  m.map (fun s => dropLastNl (if san then sanitize s else s))

/-- the `named_args` vector when `_format_and_split_arguments` throws (fmt rejects a spec/argument combination or
    an argument is missing): the exception is swallowed, the names are set, the (cleared, resized) values stay empty -/
def namedPairsThrow (keys : List (Str × Str)) (nargs : Nat) : List (Str × Str) :=
  let names := populateNames keys nargs
  names.zip (List.replicate names.length [])

/-- formatting step of the backend for one statement with template `t`; `fv` as in `namedPairs`.
    `thr` = fmt throws while rendering some argument with the spec it is given (outside the model: an input).
    `msg = none` stands for the "[Could not format log statement…" replacement text. -/
def backendStep (sep : Str) (san thr : Bool) (c : Cache) (t : Str) (fv : List Str) : SinkObs × Cache :=
  if containsNamedArgs t then
    let r := lookupOrInsert c t
    ({ msg := if thr then none else finishMsg san (fmtSubst r.1.1 fv),
       pairs := some (if thr then namedPairsThrow r.1.2 fv.length else namedPairs sep san r.1.2 fv) }, r.2)
  else
    ({ msg := if thr then none else finishMsg san (fmtSubst t fv), pairs := none }, c)

end Named
