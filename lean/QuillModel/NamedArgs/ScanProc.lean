import QuillModel.NamedArgs.Grammar
/-! `process` (= `_process_named_args_format_message`) on templates of the grammar: on the class `procOK`
the loops compute exactly "names erased, specs kept" and the ordered key list. -/
namespace Named

/-- what the loops still have to deliver when they stand at a piece boundary -/
structure ProcGoal (t : Str) (st' : PSt) (st : PSt) (pre : Str) (rest : List Piece) : Prop where
  out : st'.fmtStr ++ substr t st'.curPos (subSz t.length st'.curPos)
          = st.fmtStr ++ pre.drop st.curPos ++ render (rest.map Piece.erase)
  keys : st'.keys = st.keys ++ keysOf rest

theorem adjacentNext_none_of_ne {c : Char} {t : Str} {p : Nat}
    (h : ∀ q, findFrom c t (p + 1) = some q → q ≠ p + 1) : adjacentNext c t p = none := by
  unfold adjacentNext
  cases hf : findFrom c t (p + 1) with
  | none => rfl
  | some q =>
    have := h q hf
    have hq : p + 1 ≤ q := by
      simp only [findFrom] at hf
      cases hi : idxOf c (List.drop (p + 1) t) with
      | none => simp [hi] at hf
      | some k => simp [hi] at hf; omega
    simp only
    rw [if_neg (by omega)]

/-- one iteration of the outer loop over an escaped `{{` -/
theorem procOuter_esc_step (t : Str) (f ob : Nat) (st : PSt) (h : findFrom '{' t (ob + 1) = some (ob + 1)) :
    procOuter t (f + 1) (some ob) st = procOuter t f (findFrom '{' t (ob + 1 + 1)) st := by
  simp [procOuter, adjacentNext, h]

/-- one iteration of the outer loop over a placeholder whose brackets are found at `ob`, `cb` -/
theorem procOuter_field_step (t : Str) (f ob cb : Nat) (st : PSt)
    (h1 : adjacentNext '{' t ob = none) (h2 : findFrom '}' t (ob + 1) = some cb)
    (h3 : adjacentNext '}' t cb = none) :
    procOuter t (f + 1) (some ob) st = procOuter t f (findFrom '{' t cb) (emit t ob cb st) := by
  simp [procOuter, h1, h2, procInner, h3, reopen]

theorem splitColon_content (n : Str) (s : Option Str) (hw : (Piece.field n s).wf = true) :
    splitColon (content n s) = (n, syntaxOf s) := by
  have hcol := name_no_colon hw
  unfold splitColon
  cases s with
  | none => simp [content, syntaxOf, idxOf_none hcol]
  | some sp =>
    simp only [content, syntaxOf]
    rw [idxOf_append_hit n sp hcol]
    simp only [List.take_left', List.length_append, List.length_cons]
    rw [subSz_le (by omega)]
    simp [substr]

theorem emit_field (t pre : Str) (n : Str) (s : Option Str) (suf : Str) (st : PSt)
    (ht : t = pre ++ ('{' :: (content n s ++ '}' :: suf)))
    (hw : (Piece.field n s).wf = true) (hc : st.curPos ≤ pre.length) :
    emit t pre.length (pre.length + 1 + (content n s).length) st
      = { fmtStr := st.fmtStr ++ pre.drop st.curPos ++ '{' :: (syntaxOf s ++ ['}']),
          keys := st.keys ++ [(n, syntaxOf s)],
          curPos := pre.length + 1 + (content n s).length + 1 } := by
  subst ht
  have hin : substr (pre ++ ('{' :: (content n s ++ '}' :: suf))) (pre.length + 1)
      (subSz (pre.length + 1 + (content n s).length) (pre.length + 1)) = content n s := by
    rw [subSz_le (by omega)]
    have : pre ++ ('{' :: (content n s ++ '}' :: suf)) = (pre ++ ['{']) ++ (content n s ++ '}' :: suf) := by simp
    rw [this]
    have hl : pre.length + 1 = (pre ++ ['{']).length := by simp
    rw [hl, show (pre ++ ['{']).length + (content n s).length - (pre ++ ['{']).length = (content n s).length by omega]
    exact substr_mid _ _ _
  have hpre : substr (pre ++ ('{' :: (content n s ++ '}' :: suf))) st.curPos (subSz pre.length st.curPos)
      = pre.drop st.curPos := by
    rw [subSz_le hc]; exact substr_append_left _ _ _ hc
  simp only [emit, hin, hpre, splitColon_content n s hw]
  simp

theorem procOuter_none (t : Str) (fuel : Nat) (st : PSt) : procOuter t fuel none st = st := by
  cases fuel <;> rfl

theorem procOuter_render : ∀ (rest : List Piece) (pre : Str) (st : PSt) (fuel : Nat) (t : Str),
    t = pre ++ render rest →
    wf rest = true → procOK rest = true → st.curPos ≤ pre.length → rest.length ≤ fuel →
    ProcGoal t (procOuter t fuel (findFrom '{' t pre.length) st) st pre rest := by
  intro rest
  induction rest with
  | nil =>
    intro pre st fuel t ht _ _ hc _
    have hf : findFrom '{' t pre.length = none := by
      subst ht; simp [render, findFrom, idxOf]
    rw [hf, procOuter_none]
    constructor
    · subst ht
      simp only [render, List.append_nil, List.map_nil]
      rw [subSz_le hc]
      have := substr_append_left pre [] st.curPos hc
      simp only [List.append_nil] at this
      rw [this]
    · simp [keysOf]
  | cons p r ih =>
    intro pre st fuel t ht hw hok hc hfuel
    have hwp : p.wf = true := by simp only [wf, List.all_cons, Bool.and_eq_true] at hw; exact hw.1
    have hwr : wf r = true := by simp only [wf, List.all_cons, Bool.and_eq_true] at hw; exact hw.2
    have hokr : procOK r = true := by simp only [procOK, Bool.and_eq_true] at hok; exact hok.2
    -- pieces without an opening brace are jumped over by `find_first_of('{', …)`
    have skip : ∀ (a : Str), p.render = a → '{' ∉ a → p.erase = p → keysOf (p :: r) = keysOf r →
        ProcGoal t (procOuter t fuel (findFrom '{' t pre.length) st) st pre (p :: r) := by
      intro a ha hna he hk
      have hlen : r.length ≤ fuel := by simp at hfuel; omega
      have ht2 : t = (pre ++ a) ++ render r := by rw [ht]; simp [render, ha]
      have h := ih (pre ++ a) st fuel t ht2 hwr hokr (by simp; omega) hlen
      have hs : findFrom '{' t pre.length = findFrom '{' t (pre ++ a).length := by
        have := findFrom_skip pre a (render r) hna
        rw [← ht2] at this
        rw [← this, ht2, List.append_assoc]
      rw [hs]
      constructor
      · rw [h.out, render_map_erase_cons, he, ha, List.drop_append_of_le_length hc]; simp
      · rw [h.keys, hk]
    cases p with
    | text c =>
      have hcne : c ≠ '{' := by simp only [Piece.wf, Bool.and_eq_true, bne_iff_ne, ne_eq] at hwp; exact hwp.1
      exact skip [c] rfl (by simp; exact fun e => hcne e.symm) rfl rfl
    | escClose => exact skip ['}', '}'] rfl (by decide) rfl rfl
    | escOpen =>
      obtain ⟨f, rfl⟩ : ∃ f, fuel = f + 1 := ⟨fuel - 1, by simp at hfuel; omega⟩
      have hlen : r.length ≤ f := by simp at hfuel; omega
      have ht1 : t = pre ++ ('{' :: '{' :: render r) := by rw [ht]; simp [render, Piece.render]
      have h0 : findFrom '{' t pre.length = some pre.length := by
        rw [ht1, findFrom_append, idxOf_cons_self]; simp
      have h1 : findFrom '{' t (pre.length + 1) = some (pre.length + 1) := by
        have : t = (pre ++ ['{']) ++ ('{' :: render r) := by rw [ht1]; simp
        rw [this, findFrom_at' _ _ _ _ (by simp), idxOf_cons_self]; simp
      have ht2 : t = (pre ++ ['{', '{']) ++ render r := by rw [ht1]; simp
      have h := ih (pre ++ ['{', '{']) st f t ht2 hwr hokr (by simp; omega) hlen
      have hl : (pre ++ ['{', '{']).length = pre.length + 1 + 1 := by simp
      rw [hl] at h
      rw [h0, procOuter_esc_step t f _ st h1]
      constructor
      · rw [h.out, render_map_erase_cons, List.drop_append_of_le_length hc]; simp [Piece.erase, Piece.render]
      · rw [h.keys]; simp [keysOf]
    | field n s =>
      obtain ⟨f, rfl⟩ : ∃ f, fuel = f + 1 := ⟨fuel - 1, by simp at hfuel; omega⟩
      have hlen : r.length ≤ f := by simp at hfuel; omega
      have hnb := content_no_brace hwp
      have hnot : startsEscClose r = false := by
        simp only [procOK, Piece.isField, Bool.true_and, Bool.and_eq_true, Bool.not_eq_true'] at hok; exact hok.1
      have ht1 : t = pre ++ ('{' :: (content n s ++ '}' :: render r)) := by
        rw [ht]; simp [render, render_field]
      have ht1' : t = (pre ++ ['{']) ++ (content n s ++ '}' :: render r) := by rw [ht1]; simp
      have ht2 : t = (pre ++ '{' :: (content n s ++ ['}'])) ++ render r := by rw [ht1]; simp
      -- open bracket here
      have h0 : findFrom '{' t pre.length = some pre.length := by
        rw [ht1, findFrom_append, idxOf_cons_self]; simp
      -- the next '{' is not adjacent
      have h1 : adjacentNext '{' t pre.length = none := by
        apply adjacentNext_none_of_ne
        intro q hq
        rw [ht1', findFrom_at' _ _ _ _ (by simp)] at hq
        cases hi : idxOf '{' (content n s ++ '}' :: render r) with
        | none => simp [hi] at hq
        | some k =>
          have hk : k ≠ 0 := by
            intro e; subst e
            have := idxOf_eq_zero.1 hi
            cases hcn : content n s with
            | nil => simp [hcn] at this
            | cons x xs =>
              simp [hcn] at this
              exact hnb.1 (by simp [hcn, this])
          simp [hi] at hq; omega
      -- close bracket
      have h2 : findFrom '}' t (pre.length + 1) = some (pre.length + 1 + (content n s).length) := by
        rw [ht1', findFrom_at' _ _ _ _ (by simp), idxOf_append_hit _ _ hnb.2]
        simp; omega
      -- the next '}' is not adjacent
      have h3 : adjacentNext '}' t (pre.length + 1 + (content n s).length) = none := by
        apply adjacentNext_none_of_ne
        intro q hq
        rw [ht2, findFrom_at' _ _ _ _ (by simp; omega)] at hq
        cases hi : idxOf '}' (render r) with
        | none => simp [hi] at hq
        | some k =>
          have hk : k ≠ 0 := by
            intro e; subst e
            have := (head_render_close hwr).1 (idxOf_eq_zero.1 hi)
            simp [hnot] at this
          simp [hi] at hq; omega
      -- the '{' search resumes at the close bracket
      have h4 : findFrom '{' t (pre.length + 1 + (content n s).length)
          = findFrom '{' t (pre.length + 1 + (content n s).length + 1) := by
        have e1 : t = (pre ++ '{' :: content n s) ++ (['}'] ++ render r) := by rw [ht1]; simp
        have e2 : t = ((pre ++ '{' :: content n s) ++ ['}']) ++ render r := by rw [ht1]; simp
        have e3 : pre.length + 1 + (content n s).length = (pre ++ '{' :: content n s).length := by simp; omega
        have := findFrom_skip (c := '{') (pre ++ '{' :: content n s) ['}'] (render r) (by decide)
        rw [← e1, ← e2] at this
        rw [e3, this]; congr 1; simp; omega
      have hem := emit_field t pre n s (render r) st ht1 hwp hc
      have h := ih (pre ++ '{' :: (content n s ++ ['}']))
        { fmtStr := st.fmtStr ++ pre.drop st.curPos ++ '{' :: (syntaxOf s ++ ['}']),
          keys := st.keys ++ [(n, syntaxOf s)],
          curPos := pre.length + 1 + (content n s).length + 1 } f t ht2 hwr hokr (by simp; omega) hlen
      have hl : (pre ++ '{' :: (content n s ++ ['}'])).length = pre.length + 1 + (content n s).length + 1 := by
        simp; omega
      rw [hl] at h
      rw [h0, procOuter_field_step t f _ _ st h1 h2 h3, hem, h4]
      constructor
      · rw [h.out, render_map_erase_cons, render_erase_field]
        simp only [List.append_assoc]
        have : List.drop (pre.length + 1 + (content n s).length + 1) (pre ++ '{' :: (content n s ++ ['}'])) = [] := by
          apply List.drop_eq_nil_of_le; simp; omega
        rw [this]; simp
      · rw [h.keys]; simp [keysOf]

theorem length_le_render (qs : List Piece) : qs.length ≤ (render qs).length := by
  induction qs with
  | nil => simp [render]
  | cons q qs ih =>
    have : 1 ≤ q.render.length := by
      cases q with
      | field n s => cases s <;> simp [Piece.render]
      | _ => simp [Piece.render]
    simp [render]; omega

/-- **the positional template and the key list**, for every template of the grammar in the class `procOK` -/
theorem process_render (ps : List Piece) (hw : wf ps = true) (hok : procOK ps = true) :
    process (render ps) = (render (ps.map Piece.erase), keysOf ps) := by
  have hlen : ps.length ≤ (render ps).length + 1 := by have := length_le_render ps; omega
  have h := procOuter_render ps [] {} ((render ps).length + 1) (render ps) (by simp) hw hok (by simp) hlen
  simp only [List.length_nil] at h
  simp only [process]
  rw [h.out, h.keys]; simp

end Named
