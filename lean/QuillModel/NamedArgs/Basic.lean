import QuillModel.NamedArgs.Model
/-! Lemmas about the string primitives of the NamedArgs model (`idxOf`, `findFrom`, `substr`, `subSz`). -/
namespace Named

theorem idxOf_cons_self (c : Char) (l : Str) : idxOf c (c :: l) = some 0 := by simp [idxOf]

theorem idxOf_cons_ne {c x : Char} (l : Str) (h : x ≠ c) : idxOf c (x :: l) = (idxOf c l).map (· + 1) := by
  simp [idxOf, h]

theorem idxOf_none {c : Char} : ∀ {l : Str}, c ∉ l → idxOf c l = none
  | [], _ => rfl
  | x :: xs, h => by
    have hx : x ≠ c := fun e => h (by simp [e])
    have hxs : c ∉ xs := fun e => h (by simp [e])
    simp [idxOf, hx, idxOf_none hxs]

theorem idxOf_append_skip {c : Char} : ∀ (a b : Str), c ∉ a → idxOf c (a ++ b) = (idxOf c b).map (· + a.length)
  | [], b, _ => by simp
  | x :: xs, b, h => by
    have hx : x ≠ c := fun e => h (by simp [e])
    have hxs : c ∉ xs := fun e => h (by simp [e])
    simp only [List.cons_append, idxOf, hx, if_false, idxOf_append_skip xs b hxs, List.length_cons, Option.map_map]
    congr 1

theorem idxOf_append_hit {c : Char} (a b : Str) (h : c ∉ a) : idxOf c (a ++ c :: b) = some a.length := by
  rw [idxOf_append_skip a _ h, idxOf_cons_self]; simp

theorem idxOf_lt {c : Char} : ∀ {l : Str} {k : Nat}, idxOf c l = some k → k < l.length
  | [], _, h => by simp [idxOf] at h
  | x :: xs, k, h => by
    simp only [idxOf] at h
    split at h
    · cases h; simp
    · cases hi : idxOf c xs with
      | none => simp [hi] at h
      | some j => simp [hi] at h; have := idxOf_lt hi; simp; omega

/-- `idxOf` finds position 0 exactly when the list starts with the character -/
theorem idxOf_eq_zero {c : Char} {l : Str} : idxOf c l = some 0 ↔ l.head? = some c := by
  cases l with
  | nil => simp [idxOf]
  | cons x xs =>
    by_cases h : x = c
    · simp [idxOf, h]
    · simp only [idxOf, h, if_false, List.head?_cons, Option.some.injEq]
      cases idxOf c xs <;> simp

theorem idxOf_split {c : Char} : ∀ {l : Str} {k : Nat}, idxOf c l = some k →
    l = l.take k ++ c :: l.drop (k + 1) ∧ c ∉ l.take k
  | [], _, h => by simp [idxOf] at h
  | x :: xs, k, h => by
    simp only [idxOf] at h
    split at h
    · rename_i hx; cases h; simp [hx]
    · rename_i hx
      cases hi : idxOf c xs with
      | none => simp [hi] at h
      | some j =>
        simp [hi] at h; subst h
        have ⟨h1, h2⟩ := idxOf_split hi
        refine ⟨?_, ?_⟩
        · simp only [List.take_succ_cons, List.drop_succ_cons, List.cons_append]; rw [← h1]
        · simp only [List.take_succ_cons, List.mem_cons, not_or]; exact ⟨fun e => hx e.symm, h2⟩

theorem findFrom_append (c : Char) (pre suf : Str) :
    findFrom c (pre ++ suf) pre.length = (idxOf c suf).map (· + pre.length) := by
  simp [findFrom]

/-- skipping a stretch that does not contain the character -/
theorem findFrom_skip {c : Char} (pre a suf : Str) (h : c ∉ a) :
    findFrom c (pre ++ (a ++ suf)) pre.length = findFrom c ((pre ++ a) ++ suf) (pre ++ a).length := by
  rw [findFrom_append, findFrom_append, idxOf_append_skip a suf h]
  simp only [Option.map_map, List.length_append]
  congr 1; funext n; simp; omega

theorem findFrom_at' (c : Char) (pre suf : Str) (p : Nat) (hp : p = pre.length) :
    findFrom c (pre ++ suf) p = (idxOf c suf).map (· + pre.length) := by
  subst hp; exact findFrom_append c pre suf

theorem subSz_le {a b : Nat} (h : b ≤ a) : subSz a b = a - b := by simp [subSz, h]

theorem substr_append_left (pre suf : Str) (p : Nat) (hp : p ≤ pre.length) :
    substr (pre ++ suf) p (pre.length - p) = pre.drop p := by
  simp only [substr]
  rw [List.drop_append_of_le_length hp, List.take_append_of_le_length (by simp)]
  rw [List.take_of_length_le (by simp)]

theorem substr_mid (pre mid suf : Str) : substr (pre ++ (mid ++ suf)) pre.length mid.length = mid := by
  simp [substr]

end Named
