import QuillModel.NamedArgs.Json
/-!
A reader for the JSON subset the sink can emit correctly — one object whose members are `"key":"value"` with strings
that contain no quote, no backslash and no control character (i.e. need no escaping) — and the theorem that the line
assembled by `jsonBody` reads back as exactly its members, in order, whenever no string needs escaping.
(The reader is part of the model; on the real output the same claim is checked with Python's `json` module.)
-/
namespace Named

/-- a character that may stand unescaped inside a JSON string -/
def plainChar (c : Char) : Bool := c != '"' && c != '\\' && decide (0x20 ≤ c.toNat)

def noEscapeNeeded (s : Str) : Bool := s.all plainChar

/-- read a string body up to its closing quote: `(content, rest after the quote)`; `none` if it is unterminated or
    contains a character that JSON requires to be escaped -/
def readString : Str → Option (Str × Str)
  | [] => none
  | c :: r =>
    if c = '"' then some ([], r)
    else if plainChar c then (readString r).map (fun p => (c :: p.1, p.2))
    else none

/-- `"key":"value"` -/
def readMember (s : Str) : Option ((Str × Str) × Str) :=
  match s with
  | '"' :: r =>
    match readString r with
    | some (k, ':' :: '"' :: r2) =>
      match readString r2 with
      | some (v, r3) => some ((k, v), r3)
      | none => none
    | _ => none
  | _ => none

/-- `(',' member)* '}'` and nothing after it -/
def readTail : Nat → Str → Option (List (Str × Str))
  | 0, _ => none
  | fuel + 1, s =>
    match s with
    | ['}'] => some []
    | ',' :: r =>
      match readMember r with
      | some (m, r2) => (readTail fuel r2).map (m :: ·)
      | none => none
    | _ => none

/-- a whole object: `{}` or `{ member (',' member)* }` -/
def parseFlat (s : Str) : Option (List (Str × Str)) :=
  match s with
  | '{' :: r =>
    if r = ['}'] then some []
    else
      match readMember r with
      | some (m, r2) => (readTail (s.length + 1) r2).map (m :: ·)
      | none => none
  | _ => none

theorem readString_spec (s rest : Str) (h : noEscapeNeeded s = true) :
    readString (s ++ '"' :: rest) = some (s, rest) := by
  induction s with
  | nil => simp [readString]
  | cons c cs ih =>
    simp only [noEscapeNeeded, List.all_cons, Bool.and_eq_true] at h
    have hc : c ≠ '"' := by
      have := h.1; simp only [plainChar, Bool.and_eq_true, bne_iff_ne, ne_eq] at this; exact this.1.1
    simp [readString, hc, h.1, ih (by simpa [noEscapeNeeded] using h.2)]

theorem readMember_spec (k v rest : Str) (hk : noEscapeNeeded k = true) (hv : noEscapeNeeded v = true) :
    readMember (member k v ++ rest) = some ((k, v), rest) := by
  have e : member k v ++ rest = '"' :: (k ++ '"' :: ':' :: '"' :: (v ++ '"' :: rest)) := by
    simp [member, quoted]
  rw [e]
  simp only [readMember, readString_spec k _ hk, readString_spec v _ hv]

theorem readTail_spec : ∀ (ms : List (Str × Str)) (fuel : Nat), ms.length < fuel →
    (∀ m ∈ ms, noEscapeNeeded m.1 = true ∧ noEscapeNeeded m.2 = true) →
    readTail fuel (ms.flatMap (fun m => ',' :: member m.1 m.2) ++ ['}']) = some ms := by
  intro ms
  induction ms with
  | nil =>
    intro fuel hf _
    obtain ⟨f, rfl⟩ : ∃ f, fuel = f + 1 := ⟨fuel - 1, by omega⟩
    simp [readTail]
  | cons m rest ih =>
    intro fuel hf hm
    obtain ⟨f, rfl⟩ : ∃ f, fuel = f + 1 := ⟨fuel - 1, by omega⟩
    have h1 := hm m (by simp)
    have e : (m :: rest).flatMap (fun m => ',' :: member m.1 m.2) ++ ['}']
        = ',' :: (member m.1 m.2 ++ (rest.flatMap (fun m => ',' :: member m.1 m.2) ++ ['}'])) := by simp
    rw [e]
    simp only [readTail, readMember_spec m.1 m.2 _ h1.1 h1.2]
    rw [ih f (by simp at hf; omega) (fun x hx => hm x (by simp [hx]))]
    rfl

theorem joinVals_members (m : Str × Str) (ms : List (Str × Str)) :
    joinVals [','] ((m :: ms).map (fun m => member m.1 m.2))
      = member m.1 m.2 ++ ms.flatMap (fun m => ',' :: member m.1 m.2) := by
  have := joinVals_append_flat [member m.1 m.2] (ms.map (fun m => member m.1 m.2)) (by simp)
  simp only [List.singleton_append] at this
  rw [List.map_cons, this]
  simp [joinVals, List.flatMap_map]

theorem length_le_flat (ms : List (Str × Str)) :
    ms.length ≤ (ms.flatMap (fun m => ',' :: member m.1 m.2)).length := by
  induction ms with
  | nil => simp
  | cons m rest ih => simp only [List.flatMap_cons, List.length_append, List.length_cons]; omega

/-- an object assembled from members none of whose strings needs escaping reads back as those members, in order -/
theorem parseFlat_members (ms : List (Str × Str))
    (hm : ∀ m ∈ ms, noEscapeNeeded m.1 = true ∧ noEscapeNeeded m.2 = true) :
    parseFlat ('{' :: joinVals [','] (ms.map (fun m => member m.1 m.2)) ++ ['}']) = some ms := by
  cases ms with
  | nil => simp [joinVals, parseFlat]
  | cons m rest =>
    have h1 := hm m (by simp)
    rw [joinVals_members]
    have e : '{' :: (member m.1 m.2 ++ rest.flatMap (fun m => ',' :: member m.1 m.2)) ++ ['}']
        = '{' :: (member m.1 m.2 ++ (rest.flatMap (fun m => ',' :: member m.1 m.2) ++ ['}'])) := by simp
    rw [e]
    have hne : member m.1 m.2 ++ (rest.flatMap (fun m => ',' :: member m.1 m.2) ++ ['}']) ≠ ['}'] := by
      simp [member, quoted]
    simp only [parseFlat, hne, if_false, readMember_spec m.1 m.2 _ h1.1 h1.2]
    rw [readTail_spec rest _ (by have := length_le_flat rest; simp only [List.length_cons, List.length_append]; omega) (fun x hx => hm x (by simp [hx]))]
    rfl

end Named
