import QuillModel.Exit.Model
import QuillModel.Exit.Stop
import QuillModel.Extracted.Exit
import QuillModel.Drivers.Util
/-!
Correspondence driver for C07. Input: the lines printed by `harness/h4_exit.cpp`,

  `case <id> clock=… lvl=… logger=… reraise=… timeout=… limit=… threads=… script=… => status=… … notices=i/c … q=… mask=… cont=n`

`driver exit trace <renewOnce> <stopClearsId> <atexitClearsId>` (the life-cycle facts as extracted). For every case
the script is replayed on the life-cycle machine `Exit.Life.step`; at every signal the handler's context is built
from the machine's state (`Life.ctx`), the call list is computed by `Exit.onSignal`, its effect and the outcome class
by `Exit.exec` (`Life.env`) — the definitions the theorems of `Props/C07.lean` are about. Compared with the
implementation: the wait status (`exit:0` / `sig:<NAME>` / `hang`), the number of Info / Critical notices that
reached the file, how often a raise came back (`cont`), the `Q` observations (running / worker id set / handler's id
set) and the `M` observations (backend thread masked / main thread unmasked).

Run-time glue outside the theorems (stated in MANIFEST as enumerated, not proved): a signal whose handler is not
installed has its default action; when a handler entry has armed the alarm and the process neither ends nor exits
before, `on_alarm` (`Exit.onAlarm`) ends it by the stored signal — unless it runs on the thread that is stuck inside
the handler of that same signal, where the signal is masked (then the process hangs: the second cause of F23).
-/
namespace Drv.Exit
open _root_.Exit

def kvOf (ws : List String) : List (String × String) :=
  ws.filterMap fun w =>
    match w.splitOn "=" with
    | [k, v] => some (k, v)
    | k :: v :: rest => some (k, "=".intercalate (v :: rest))
    | _ => none

def get (kv : List (String × String)) (k : String) : String := (kv.lookup k).getD ""

structure Sim where
  life : Life := {}
  handlers : Bool := false        -- `on_signal` installed (by `H` or `I`)
  entries : Nat := 0              -- handler entries so far (the `lock` counter)
  alarm : Option Sig := none      -- armed alarm: the signal number stored by the first arming entry
  info : Nat := 0                 -- notices that reached the destination
  crit : Nat := 0
  cont : Nat := 0
  qs : List String := []          -- predicted Q observations (oldest first)
  ms : List String := []
  final : Option String := none   -- predicted wait status once the process has ended
  parked : Bool := false          -- the main flow is blocked for ever (only the alarm can end the process)
  parkSig : Option Sig := none    -- … inside the handler entry for this signal
  parkWho : String := ""          -- … on this thread
  classes : List String := []
  acts : List String := []
  unspecified : Bool := false
  gate : String := ""             -- "w": the backend is held inside a write_log; "s": … and then inside the final flush of `_exit`
  conc : Option CS := none        -- another thread is inside `Backend::stop()` / the `atexit` stop: state of `Exit.CS`
  armed : Option Sig := none      -- `tsigx`: an extra thread raises this signal as soon as a stop has been requested

def b01 (b : Bool) : String := if b then "1" else "0"

def countItem (l : List Item) (x : Item) : Nat := (l.filter (· == x)).length

/-- a signal on thread kind `who` ("main" / "extra" / "backend") -/
def Sim.signal (P : LParams) (s : Sim) (sg : Sig) (who : String) (logger reraise infoOn : Bool) : Sim :=
  let _ := P
  if s.final.isSome || s.parked then s else
  if !s.handlers then
    { s with final := some ("sig:" ++ sg.name), classes := s.classes ++ ["sig-default-disposition"] }
  else
    let onBackend := who == "backend"
    let thread : Nat := if onBackend then s.life.ctxTid else 1000000
    let x := s.life.ctx thread sg (s.entries == 0) false logger reraise
    let acts := onSignal x
    let r := exec (s.life.env infoOn true) sg acts false false {}
    let cls :=
      if !x.first then "sig-later-entrant"
      else if onBackend then "sig-on-backend-thread"
      else if !x.backendIdSet then (if s.life.spawned == 0 then "sig-no-backend" else if s.life.running then "sig-plain-cycle" else "sig-after-stop")
      else if !logger then "sig-no-logger"
      else if !reraise then "sig-reraise-off"
      else "sig-frontend"
    let s1 := { s with entries := s.entries + 1, classes := s.classes ++ [cls],
                       acts := s.acts ++ ["+".intercalate (acts.map Action.name)],
                       info := s.info + countItem r.1.written .notice, crit := s.crit + countItem r.1.written .critical }
    let s2 := if acts.contains .setAlarm && s1.alarm.isNone then { s1 with alarm := some sg } else s1
    -- `exit` on the backend thread joins itself: outside the model
    let s3 := if onBackend && sg.graceful then { s2 with unspecified := true } else s2
    match r.2 with
    | .exit0 => { s3 with final := some "exit:0" }
    | .diedBy k => { s3 with final := some ("sig:" ++ k.name) }
    | .continues => { s3 with cont := s3.cont + 1 }
    | .hangs => { s3 with parked := true, parkSig := some sg, parkWho := who }

/-- another thread has entered the stop sequence `seq` and is waiting in `join()` (or has returned, if the backend
    thread could end); where the backend thread is depends on how the harness holds it: with the gate of `Gs`, or with
    `wait_for_queues_to_empty_before_exit` off, it has taken its last look at the queues -/
def Sim.enterStop (s : Sim) (seq : List SStep) (wait : Bool) : CS :=
  let c0 : CS := { idSet := s.life.ctxTid != 0 }
  let evs := List.replicate 6 Ev.stopper ++ (if s.gate == "s" || !wait then [Ev.bgLastCheck] else [])
  c0.run seq wait evs

/-- a handled signal on a frontend thread while the stop sequence is in state `c` (`Exit.signalDuringStop`) -/
def Sim.signalInStop (s : Sim) (c : CS) (wait : Bool) (sg : Sig) (who : String) (infoOn : Bool) : Sim :=
  if s.final.isSome || s.parked then s else
  let r := signalDuringStopG Extracted.flushEndsWhenBackendGone wait infoOn true sg false c c
  let acts := onSignal (c.ctx sg false)
  let cls := if !c.idSet then "sig-inside-stop-id-cleared" else if c.serving then "sig-inside-stop-served" else "sig-inside-stop-after-last-look"
  let s1 := { s with entries := s.entries + 1, classes := s.classes ++ [cls],
                     acts := s.acts ++ ["+".intercalate (acts.map Action.name)],
                     info := s.info + countItem r.1.written .notice, crit := s.crit + countItem r.1.written .critical }
  let s2 := if acts.contains .setAlarm && s1.alarm.isNone then { s1 with alarm := some sg } else s1
  match r.2 with
  | .exit0 => { s2 with final := some "exit:0" }
  | .diedBy k => { s2 with final := some ("sig:" ++ k.name) }
  | .continues => { s2 with cont := s2.cont + 1 }
  | .hangs => { s2 with parked := true, parkSig := some sg, parkWho := who }

def Sim.op (P : LParams) (logger reraise infoOn : Bool) (s : Sim) (op : String) (wait : Bool := true) : Sim :=
  if s.final.isSome || s.parked then s else
  match op.splitOn ":" with
  | ["H"] => { s with life := s.life.step P .startSH, handlers := true }
  | ["S"] => { s with life := s.life.step P .start }
  | ["I"] => { s with handlers := true }
  | ["Gw"] => { s with gate := "w" }
  | ["Gs"] => { s with gate := "s" }
  | ["tstop", _] =>
    if s.life.running then { s with conc := some (s.enterStop Extracted.stopSeq wait), classes := s.classes ++ ["stop-in-another-thread"] } else s
  | ["tsigx", _, nm] => { s with armed := Sig.ofName nm }
  | ["X"] =>
    match s.armed with
    | some sg =>
      if s.life.running then (s.signalInStop (s.enterStop Extracted.stopSeq wait) wait sg "extra" infoOn) else s
    | none => { s with life := s.life.step P .stop, classes := s.classes ++ ["stop"] }
  | ["Q"] => { s with qs := s.qs ++ [b01 s.life.running ++ "/" ++ b01 (s.life.workerTid != 0) ++ "/" ++ b01 (s.life.ctxTid != 0)] }
  | ["M"] => { s with ms := s.ms ++ [b01 (s.life.running && s.life.ctxTid != 0) ++ "/1"] }
  | ["ret"] =>
    match s.armed with
    | some sg =>
      if s.life.running then (s.signalInStop (s.enterStop Extracted.atexitSeq wait) wait sg "extra" infoOn) else s
    | none => { s with life := s.life.step P .exit, final := some "exit:0", classes := s.classes ++ ["return"] }
  | ["exit"] =>
    match s.armed with
    | some sg =>
      if s.life.running then (s.signalInStop (s.enterStop Extracted.atexitSeq wait) wait sg "extra" infoOn) else s
    | none => { s with life := s.life.step P .exit, final := some "exit:0", classes := s.classes ++ ["exit"] }
  | ["texit", _] => { s with life := s.life.step P .exit, final := some "exit:0", classes := s.classes ++ ["exit-from-thread"] }
  | ["park"] => { s with parked := true }
  | ["sig", nm, _] => match Sig.ofName nm with
    | some sg =>
      match s.conc with
      | some c => if logger && reraise then s.signalInStop c wait sg "main" infoOn else s.signal P sg "main" logger reraise infoOn
      | none => s.signal P sg "main" logger reraise infoOn
    | none => s
  | ["ksig", nm, spec] => match Sig.ofName nm with
    -- process-directed: the masks set up by the harness leave one receiver (`m`, `t<k>`, `b`) or nobody (`none`: the
    -- signal stays pending, the script goes on); `any`: the kernel chooses — Linux tries the main thread first
    | some sg =>
      if spec == "none" then { s with cont := s.cont + 1, classes := s.classes ++ ["kill-blocked-everywhere"] }
      else
        let who := if spec == "b" then "backend" else if spec == "m" || spec == "any" then "main" else "extra"
        -- (`Sim.signal` builds the context from the life-cycle state; for a running handler cycle it is `Exit.Receiver.ctx`
        --  of the receiver's class: the same calls for every frontend class, the backend branch on the backend thread)
        let s1 := s.signal P sg who logger reraise infoOn
        { s1 with classes := s1.classes ++ ["kill-" ++ spec.take 1] }
    | none => s
  | ["tsig", _, nm] => match Sig.ofName nm with
    | some sg =>
      let s1 := s.signal P sg "extra" logger reraise infoOn
      -- the main thread waits for the raise to come back; if the raising thread is parked so is the script
      s1
    | none => s
  | ["bsig", nm] => match Sig.ofName nm with
    | some sg =>
      let s1 := s.signal P sg "backend" logger reraise infoOn
      s1
    | none => s
  | _ => s   -- L, F, Z, W: no effect on the life-cycle

/-- the predicted wait status -/
def Sim.status (s : Sim) : String :=
  match s.final with
  | some f => f
  | none =>
    if s.parked then
      match s.alarm with
      | some k =>
        -- `on_alarm` raises the stored signal on the thread it runs on (the main thread, where SIGALRM is deliverable);
        -- if that thread sits inside the handler of that very signal the signal is masked there (glibc `signal()`
        -- semantics) and stays pending for ever
        if s.parkWho == "main" && s.parkSig == some (onAlarm (some k)) then "hang"
        else "sig:" ++ (onAlarm (some k)).name
      | none => "hang"
    else "exit:0"   -- the script ran out: return from main

def parseBool (s : String) : Bool := s == "1" || s == "true"

structure Tally where
  cases : Nat := 0
  mismatches : Nat := 0
  unspecified : Nat := 0

def runTrace (P : LParams) : IO UInt32 := do
  let stdin ← IO.getStdin
  let lines ← Drv.readLines stdin
  let mut t : Tally := {}
  for line in lines do
    if !line.startsWith "case " then continue
    let (lhs, rhs) := Drv.splitArrow line
    let lw := Drv.words lhs
    let id := lw.getD 1 "?"
    let kv := kvOf (lw.drop 2)
    let ob := kvOf (Drv.words rhs)
    let logger := parseBool (get kv "logger")
    let reraise := parseBool (get kv "reraise")
    let infoOn := get kv "lvl" != "warning"
    let script := (get kv "script").splitOn ","
    let wait := get kv "wait" != "0"
    -- two threads raising at once (`dsig`): which one enters first is the schedule's choice — one branch each
    let sims : List Sim := script.foldl (fun bs op =>
      match op.splitOn ":" with
      | "dsig" :: _ :: nt :: nm :: _ =>
        match Sig.ofName nt, Sig.ofName nm with
        | some st, some sm => bs.flatMap fun b => [b.signal P sm "main" logger reraise infoOn, b.signal P st "extra" logger reraise infoOn]
        | _, _ => bs
      | _ => bs.map fun b => Sim.op P logger reraise infoOn b op wait) [{}]
    -- ran out of script without a terminal op = return from main
    let sims := sims.map fun sim => if sim.final.isNone && !sim.parked then { sim with life := sim.life.step P .exit } else sim
    t := { t with cases := t.cases + 1 }
    let check (sim : Sim) : List String := Id.run do
      let mut bad : List String := []
      if !sim.unspecified then
        if sim.status != get ob "status" then
          bad := bad ++ [s!"field=status model={sim.status} impl={get ob "status"}"]
        let nn := s!"{sim.info}/{sim.crit}"
        if nn != get ob "notices" then bad := bad ++ [s!"field=notices model={nn} impl={get ob "notices"}"]
        if toString sim.cont != get ob "cont" then bad := bad ++ [s!"field=cont model={sim.cont} impl={get ob "cont"}"]
      let qm := if sim.qs.isEmpty then "-" else ";".intercalate sim.qs
      if qm != get ob "q" then bad := bad ++ [s!"field=q model={qm} impl={get ob "q"}"]
      let mm := if sim.ms.isEmpty then "-" else ";".intercalate sim.ms
      if mm != get ob "mask" then bad := bad ++ [s!"field=mask model={mm} impl={get ob "mask"}"]
      return bad
    let sim := (sims.find? fun b => (check b).isEmpty).getD (sims.headD {})
    if sim.unspecified then t := { t with unspecified := t.unspecified + 1 }
    let bad := check sim
    for b in bad do
      IO.println s!"MISMATCH case={id} {b}"
    t := { t with mismatches := t.mismatches + bad.length }
    let cls := (if sim.classes.isEmpty then "none" else ",".intercalate sim.classes) ++ (if sims.length > 1 then ",two-entrants" else "")
    let acts := if sim.acts.isEmpty then "-" else ";".intercalate sim.acts
    IO.println s!"TRACE {id} classes={cls} actions={acts} predicted={sim.status} notices={sim.info}/{sim.crit} spawned={sim.life.spawned} joined={sim.life.joined} atexits={sim.life.atexits.length}"
  IO.println s!"DONE cases={t.cases} mismatches={t.mismatches} unspecified={t.unspecified}"
  return 0

/-- model-side search: the shortest script on which the life-cycle machine with the given facts leaves the
    specification (a start after a stop that does not run; a signal that hangs) -/
def search (P : LParams) : IO UInt32 := do
  let scripts : List (List String) := [
    ["S", "L3", "X", "Q", "S", "Q", "L2", "ret"],
    ["H", "L3", "X", "Q", "H", "Q", "L2", "ret"],
    ["H", "L3", "X", "sig:SIGTERM:raise"],
    ["H", "L3", "X", "sig:SIGSEGV:raise"],
    ["H", "L3", "X", "S", "L2", "X", "sig:SIGSEGV:raise"]]
  let mut found := false
  for sc in scripts do
    let sim := sc.foldl (Sim.op P true true true) {}
    let restartBroken := sim.qs.length ≥ 2 && sim.qs.getLast? != some "1/1/1" && sim.qs.getLast? != some "1/1/0"
    if sim.status == "hang" || restartBroken then
      found := true
      IO.println s!"FAILING-SCRIPT predicted={sim.status} q={";".intercalate sim.qs}"
      IO.println ("case m clock=sys lvl=info logger=1 reraise=1 timeout=120 limit=8 threads=- script=" ++ ",".intercalate sc)
  -- the handler as extracted, against the specification of the frontend branch and of the "no backend" branch
  for sg in handled do
    let spec : Fe × Outcome := ({ queue := [], written := [.stmt 0] ++ notices { backendRunning := true } sg },
                               if sg.graceful then .exit0 else .diedBy sg)
    let got := exec { backendRunning := true } sg (Extracted.onSignalProg.actions (Ctx.frontend sg false)) false false
                 { queue := [.stmt 0], written := [] }
    if got != spec then
      found := true
      IO.println s!"FAILING-SCRIPT handler-as-extracted frontend sig={sg.name} calls={"+".intercalate ((Extracted.onSignalProg.actions (Ctx.frontend sg false)).map Action.name)}"
      IO.println s!"case m{sg.name} clock=sys lvl=info logger=1 reraise=1 timeout=120 limit=8 threads=- script=H,L3,L2000,sig:{sg.name}:raise"
    let x0 : Ctx := ⟨sg, true, false, false, false, true, true⟩
    let got0 := (exec { backendRunning := false } sg (Extracted.onSignalProg.actions x0) false false {}).2
    if got0 != (if sg.graceful then Outcome.exit0 else Outcome.diedBy sg) then
      found := true
      IO.println s!"FAILING-SCRIPT handler-as-extracted no-backend sig={sg.name} calls={"+".intercalate ((Extracted.onSignalProg.actions x0).map Action.name)}"
      IO.println s!"case n{sg.name} clock=sys lvl=info logger=1 reraise=1 timeout=120 limit=8 threads=- script=H,L3,X,sig:{sg.name}:raise"
  if !found then IO.println "NO-FAILING-SCRIPT"
  return 0

def paramsOf : List String → Option LParams
  | [a, b, c] => some { renewOnce := parseBool a, stopClearsId := parseBool b, atexitClearsId := parseBool c }
  | _ => none

def main : List String → IO UInt32
  | "trace" :: rest => match paramsOf rest with
    | some P => runTrace P
    | none => do IO.println "usage: driver exit trace <renewOnce> <stopClearsId> <atexitClearsId>"; return 2
  | "search" :: rest => match paramsOf rest with
    | some P => search P
    | none => do IO.println "usage: driver exit search <renewOnce> <stopClearsId> <atexitClearsId>"; return 2
  | _ => do IO.println "usage: driver exit trace|search <renewOnce> <stopClearsId> <atexitClearsId>"; return 2

end Drv.Exit
