import QuillModel.Codec.Model
import QuillModel.Extracted.Codec
import QuillModel.Drivers.Util
/-!
Correspondence driver for the codec model. Input: the lines printed by `harness/h3_codec.cpp` and `harness/h5_alloc.cpp`
(`case <n> <kind> … a=<value description> => <observation>`); every observation is recomputed with the definitions the
C04/C11 theorems are about (`sizePass`, `encode`, `decode`, `sizeStatement`, `reserved`, `writeRecord`/`readRecord`,
`sanitize`, `stringRelated`, `logCall`) and the container table / frame / predicate extracted from the current headers.
Prints `MISMATCH …` per disagreement, `MODEL-…` when a generated value falls outside the theorems' hypotheses, a
`TRACE` line per case kind and a final `DONE` line.
-/
namespace Drv.Codec
open _root_.Codec

/-! ### parsing the value / shape descriptions -/

def isHex (c : Char) : Bool := (Drv.hexVal c).isSome

def takeHex (cs : List Char) : List Char × List Char := (cs.takeWhile isHex, cs.dropWhile isHex)

def bytesOfHex (cs : List Char) : Option Bytes :=
  (Drv.unhex (String.ofList cs)).map (fun l => l.map UInt8.ofNat)

def takeNat (cs : List Char) : Nat × List Char :=
  let d := cs.takeWhile Char.isDigit
  ((String.ofList d).toNat?.getD 0, cs.dropWhile Char.isDigit)

def primKind : Char → Option PrimKind
  | 'i' => some .arith | 'h' => some .chr | 'n' => some .enum | 'p' => some .ptr | _ => none

def kindName : String → String
  | "vec" => "vector" | "deq" => "deque" | "lst" => "list" | "fwd" => "forward_list" | "set" => "set"
  | "uset" => "unordered_set" | "map" => "map" | "umap" => "unordered_map" | "arr" => "array" | "carr" => "carray"
  | s => s

/-- `spec = false`: the container table as extracted (C04: the model follows the code);
    `spec = true`: the table the C11 budget is stated for (`specKind`; obligation `alloc_count_slots` shows it is the
    extracted one) — the predicted allocations are the property's, not the implementation's -/
def kindOf (spec : Bool) (s : String) : Option KindInfo :=
  (Extracted.kindTable.lookup (kindName s)).map (fun ki => if spec then specKind (kindName s) ki else ki)

mutual
partial def parseShape : List Char → Option (Shape × List Char)
  | 'p' :: k :: cs => do
    let pk ← primKind k
    let (w, r) := takeNat cs
    match r with | '.' :: r' => some (.prim pk w, r') | _ => none
  | 'z' :: cs => some (.cstr, cs)
  | 'a' :: cs =>
    let (n, r) := takeNat cs
    match r with | '.' :: r' => some (.carr n, r') | _ => none
  | 's' :: cs => some (.str, cs)
  | 'q' :: '(' :: cs => do
    let (es, r) ← parseShape cs
    match r with | ')' :: r' => some (.seq es, r') | _ => none
  | 'r' :: cs => do
    let (n, r) := takeNat cs
    match r with
    | '(' :: r1 =>
      let (es, r2) ← parseShape r1
      match r2 with | ')' :: r3 => some (.arr n es, r3) | _ => none
    | _ => none
  | 'o' :: '(' :: cs => do
    let (es, r) ← parseShape cs
    match r with | ')' :: r' => some (.opt es, r') | _ => none
  | 'R' :: '(' :: cs => do
    let (a, r) ← parseShape cs
    match r with
    | ',' :: r1 =>
      let (b, r2) ← parseShape r1
      match r2 with | ')' :: r3 => some (.pair a b, r3) | _ => none
    | _ => none
  | 'T' :: '(' :: cs => do
    let (l, r) ← parseShapes cs
    some (.tuple l, r)
  | 'd' :: cs =>
    let (n, r) := takeNat cs
    match r with | '.' :: r' => some (.pod n, r') | _ => none
  | 'n' :: cs =>
    let (sz, r) := takeNat cs
    match r with
    | ':' :: r1 =>
      let (al, r2) := takeNat r1
      match r2 with | '.' :: r3 => some (.nonpod sz al, r3) | _ => none
    | _ => none
  | 'f' :: cs => some (.direct, cs)
  | 'v' :: cs => some (.sref, cs)
  | 'h' :: cs => some (.path, cs)
  | _ => none
/-- comma separated, up to the closing parenthesis (consumed) -/
partial def parseShapes : List Char → Option (List Shape × List Char)
  | ')' :: cs => some ([], cs)
  | cs => do
    let (s, r) ← parseShape cs
    match r with
    | ',' :: r1 => let (l, r2) ← parseShapes r1; some (s :: l, r2)
    | ')' :: r1 => some ([s], r1)
    | _ => none
end

def hexField (cs : List Char) : Option (Bytes × List Char) :=
  let (h, r) := takeHex cs
  match r with
  | '.' :: r' => (bytesOfHex h).map (fun b => (b, r'))
  | _ => none

mutual
partial def parseArg (spec : Bool) : List Char → Option (Arg × List Char)
  | 'P' :: k :: cs => do
    let pk ← primKind k
    let (b, r) ← hexField cs
    some (.prim pk b, r)
  | 'Z' :: '-' :: cs => some (.cstr none, cs)
  | 'Z' :: cs => do let (b, r) ← hexField cs; some (.cstr (some b), r)
  | 'A' :: cs => do let (b, r) ← hexField cs; some (.carr b, r)
  | 'S' :: '~' :: cs =>
    -- a long std::string given by its length only (content irrelevant to sizes and events)
    let (n, r) := takeNat cs
    match r with | '.' :: r' => some (.str (List.replicate n 113), r') | _ => none
  | 'S' :: cs => do let (b, r) ← hexField cs; some (.str b, r)
  | 'Q' :: cs => do
    let nm := cs.takeWhile (· ≠ '(')
    let ki ← kindOf spec (String.ofList nm)
    match cs.dropWhile (· ≠ '(') with
    | '(' :: r0 =>
      let (es, r1) ← parseShape r0
      match r1 with
      | ';' :: r2 =>
        let (l, r3) ← parseArgs spec r2
        some (.seq ki es l, r3)
      | _ => none
    | _ => none
  | 'O' :: '(' :: cs => do
    let (es, r1) ← parseShape cs
    match r1 with
    | ';' :: '-' :: ')' :: r2 => some (.optNone es, r2)
    | ';' :: r2 =>
      let (a, r3) ← parseArg spec r2
      match r3 with | ')' :: r4 => some (.optSome a, r4) | _ => none
    | _ => none
  | 'R' :: '(' :: cs => do
    let (a, r) ← parseArg spec cs
    match r with
    | ',' :: r1 =>
      let (b, r2) ← parseArg spec r1
      match r2 with | ')' :: r3 => some (.pair a b, r3) | _ => none
    | _ => none
  | 'T' :: '(' :: cs => do
    let (l, r) ← parseArgs spec cs
    some (.tuple l, r)
  | 'D' :: cs => do let (b, r) ← hexField cs; some (.pod b, r)
  | 'N' :: cs => do
    let (al, r) := takeNat cs
    match r with
    | ':' :: '~' :: r1 =>
      let (sz, r2) := takeNat r1
      match r2 with | '.' :: r3 => some (.nonpod al (List.replicate sz 0), r3) | _ => none
    | ':' :: r1 => let (b, r2) ← hexField r1; some (.nonpod al b, r2)
    | _ => none
  | 'F' :: cs => do let (b, r) ← hexField cs; some (.direct b, r)
  | 'V' :: '~' :: ':' :: cs =>
    let (n, r) := takeNat cs
    match r with | '.' :: r' => some (.sref (List.replicate 8 0) n, r') | _ => none
  | 'H' :: cs => do let (b, r) ← hexField cs; some (.path b, r)
  | _ => none
partial def parseArgs (spec : Bool) : List Char → Option (List Arg × List Char)
  | ')' :: cs => some ([], cs)
  | cs => do
    let (a, r) ← parseArg spec cs
    match r with
    | ',' :: r1 => let (l, r2) ← parseArgs spec r1; some (a :: l, r2)
    | ')' :: r1 => some ([a], r1)
    | _ => none
end

/-- `a;b;c` (a statement's arguments), `-` = none -/
partial def parseArgList (s : String) (spec : Bool := false) : Option (List Arg) :=
  if s == "-" then some []
  else
    let rec go (cs : List Char) (acc : List Arg) : Option (List Arg) :=
      match parseArg spec cs with
      | none => none
      | some (a, []) => some (acc ++ [a])
      | some (a, ';' :: r) => go r (acc ++ [a])
      | some _ => none
    go s.toList []

/-! ### printing -/

def hexStr (b : Bytes) : String := Drv.hexOf (b.map (·.toNat))

mutual
partial def showVal : Val → String
  | .prim b => "p" ++ hexStr b ++ "."
  | .text s => "t" ++ hexStr s ++ "."
  | .seq l => "q(" ++ ",".intercalate (showVals l) ++ ")"
  | .optNone => "o-"
  | .optSome v => "o(" ++ showVal v ++ ")"
  | .pair a b => "R(" ++ showVal a ++ "," ++ showVal b ++ ")"
  | .tuple l => "T(" ++ ",".intercalate (showVals l) ++ ")"
  | .obj b => "b" ++ hexStr b ++ "."
  | .ref _ n => "v~:" ++ toString n ++ "."
  | .path s => "h" ++ hexStr s ++ "."
partial def showVals : List Val → List String
  | [] => []
  | v :: vs => showVal v :: showVals vs
end

def showCache (l : List Nat) : String := if l.isEmpty then "-" else ",".intercalate (l.map toString)

def parseCache (s : String) : List Nat := if s == "-" then [] else (s.splitOn ",").map Drv.nat!

/-- the buffer pre-fill of the harness -/
def fill : Mem := fun p => UInt8.ofNat ((p * 37 + 11) % 256)

def kv (ws : List String) (k : String) : String :=
  match ws.find? (fun w => w.startsWith (k ++ "=")) with
  | some w => (w.drop (k.length + 1)).toString
  | none => ""

def hexOrDot (b : Bytes) : String := if b.isEmpty then "." else hexStr b

mutual
partial def depth : Arg → Nat
  | .seq _ _ l => 1 + depthL l
  | .optSome a => 1 + depth a
  | .pair a b => 1 + max (depth a) (depth b)
  | .tuple l => 1 + depthL l
  | _ => 0
partial def depthL : List Arg → Nat
  | [] => 0
  | a :: as => max (depth a) (depthL as)
end

structure Stats where
  cases : Nat := 0
  mismatches : Nat := 0
  problems : Nat := 0
  arg : Nat := 0
  stmt : Nat := 0
  e2e : Nat := 0
  san : Nat := 0
  guard : Nat := 0
  alloc : Nat := 0
  sdrop : Nat := 0
  seq : Nat := 0
  edrop : Nat := 0
  oracle : Nat := 0           -- property violations found by comparing the measurement with the model's prediction
  cachedLens : Nat := 0       -- cases whose value caches at least one length
  nested : Nat := 0           -- nesting depth ≥ 2
  startIdxPos : Nat := 0      -- size pass started on a non-empty cache
  grew : Nat := 0             -- the InlinedVector reallocated during the case
  unaligned : Nat := 0        -- aligned object written at a misaligned address
  nontrivial : Nat := 0

/-- model observation of an `arg` case -/
def obsArg (ws rhs : List String) : Option (String × Arg × Cache × Cache) := do
  let a ← (parseArg false (kv ws "a").toList).bind (fun p => if p.2.isEmpty then some p.1 else none)
  let c0 : Cache := { data := parseCache (kv ws "c0"), cap := Drv.nat! (kv ws "cap0") }
  let off := Drv.nat! (kv ws "off")
  let r := sizePass c0 a
  let wantHex := kv rhs "hex" != "-"
  let wantView := kv rhs "view" != "-"
  match encode fill r.2 c0.data.length off a with
  | none => some (s!"size={r.1} cache={showCache r.2.data} encode-faults", a, c0, r.2)
  | some (bytes, i') =>
    let tail : Bytes := [0xAB, 0, 0xCD]
    let (consumed, vw) := match decode (shapeOf a) off (bytes ++ tail) with
      | none => ("fault", "fault")
      | some (v, rest) => (toString ((bytes ++ tail).length - rest.length), showVal v)
    some (s!"size={r.1} cache={showCache r.2.data} written={bytes.length} idx={i'} hex={if wantHex then hexOrDot bytes else "-"} consumed={consumed} view={if wantView then vw else "-"}",
          a, c0, r.2)

def obsStmt (ws rhs : List String) : Option (String × List Arg × Cache × Cache) := do
  let args ← parseArgList (kv ws "a")
  let c0 : Cache := { data := parseCache (kv ws "c0"), cap := Drv.nat! (kv ws "cap0") }
  let off := Drv.nat! (kv ws "off")
  let r := sizeStatement c0 args
  let wantHex := kv rhs "hex" != "-"
  match encodeL fill r.2 0 off args with
  | none => some (s!"total={r.1} cache={showCache r.2.data} encode-faults", args, c0, r.2)
  | some (bytes, _) =>
    let tail : Bytes := [0xAB, 0, 0xCD]
    let consumed := match decodeL (shapesOf args) off (bytes ++ tail) with
      | none => "fault"
      | some (_, rest) => toString ((bytes ++ tail).length - rest.length)
    some (s!"total={r.1} cache={showCache r.2.data} written={bytes.length} hex={if wantHex then hexOrDot bytes else "-"} consumed={consumed} nargs={args.length}",
          args, c0, r.2)

def obsE2E (ws : List String) : Option (String × List Arg) := do
  let args ← parseArgList (kv ws "a")
  let dyn := kv ws "dyn" == "1"
  let f := Extracted.frame
  let c := Cache.init Extracted.cacheInlineCap
  let res := reserved f c args dyn
  let hdr : Bytes := List.replicate f.header 0
  let lvl : Bytes := if dyn then List.replicate f.lvlBytes 7 else []
  let consumed := match writeRecord fill c 0 hdr args lvl with
    | none => "fault"
    | some record =>
      match readRecord f (shapesOf args) 0 dyn (record ++ [1, 2, 3]) with
      | none => "fault"
      | some (_, _, _, rest) => toString ((record.length + 3) - rest.length)
  some (s!"reserved={res} consumed={consumed}", args)

/-- `h=` field: the thread's earlier statements, `|`-separated, each `L:<args>` (logged) or `D:<args>` (dropped between
    the two passes); `-` = none -/
def parseHistory (s : String) : Option (List StmtOp) :=
  if s == "-" || s == "" then some []
  else (s.splitOn "|").mapM (fun t =>
    if t.startsWith "D:" then (parseArgList (t.drop 2).toString).map StmtOp.dropped
    else if t.startsWith "L:" then (parseArgList (t.drop 2).toString).map StmtOp.logged
    else none)

/-- `sdrop`: the two passes of a statement on the cache an explicit history of logged / dropped statements left
    (`cacheAfter true`: the clear() at the start of the size pass — what `C04_drop_leaves_nothing` is about) -/
def obsSDrop (ws rhs : List String) : Option (String × List Arg × List StmtOp) := do
  let args ← parseArgList (kv ws "a")
  let ops ← parseHistory (kv ws "h")
  let c0 : Cache := { data := parseCache (kv ws "c0"), cap := Drv.nat! (kv ws "cap0") }
  let off := Drv.nat! (kv ws "off")
  let c1 := cacheAfter true c0 ops
  let r := sizeStatement c1 args
  let wantHex := kv rhs "hex" != "-"
  match encodeL fill r.2 0 off args with
  | none => some (s!"total={r.1} cache={showCache r.2.data} encode-faults", args, ops)
  | some (bytes, _) =>
    let tail : Bytes := [0xAB, 0, 0xCD]
    let consumed := match decodeL (shapesOf args) off (bytes ++ tail) with
      | none => "fault"
      | some (_, rest) => toString ((bytes ++ tail).length - rest.length)
    some (s!"total={r.1} cache={showCache r.2.data} written={bytes.length} hex={if wantHex then hexOrDot bytes else "-"} consumed={consumed} nargs={args.length}",
          args, ops)

/-- `edrop`: a real log statement on a bounded dropping queue after the statements of `h=` were attempted on a queue
    with `qused` of `qcap` bytes in use: how many of them the queue refuses, then (queue drained) bytes reserved and
    consumed for the statement itself, written with the cache the history left -/
def obsEDrop (ws : List String) : Option (String × List Arg × List StmtOp) := do
  let args ← parseArgList (kv ws "a")
  let ops ← parseHistory (kv ws "h")
  let dyn := kv ws "dyn" == "1"
  let f := Extracted.frame
  let c0 := Cache.init Extracted.cacheInlineCap
  -- the statements of the history, in order, against the queue (`qmax` = 0: a bounded queue never grows; an unbounded
  -- one refuses — null, or QuillError for a record over the maximum — when doubling would exceed `qmax`)
  let q0 : Queue := { cap := Drv.nat! (kv ws "qcap"), used := Drv.nat! (kv ws "qused"), maxCap := Drv.nat! (kv ws "qmax") }
  let (dropped, _, _) := ops.foldl (fun (acc : Nat × Queue × Cache) op =>
      let (n, q, c) := acc
      let total := reserved f c op.args false
      let c' := (sizeStatement c op.args).2
      match (q.reserve total).2 with
      | none => (n + 1, q, c')
      | some q' => (n, q', c')) (0, q0, c0)
  let c := cacheAfter true c0 ops
  let res := reserved f c args dyn
  -- the backend has drained the queue: the statement is refused only if it exceeds the capacity (and the queue cannot grow)
  if (({ q0 with used := 0 } : Queue).reserve res).2.isNone then some (s!"dropped={dropped} reserved=0 consumed=0", args, ops) else
  let hdr : Bytes := List.replicate f.header 0
  let lvl : Bytes := if dyn then List.replicate f.lvlBytes 7 else []
  let consumed := match writeRecord fill c 0 hdr args lvl with
    | none => "fault"
    | some record =>
      match readRecord f (shapesOf args) 0 dyn (record ++ [1, 2, 3]) with
      | none => "fault"
      | some (_, _, _, rest) => toString ((record.length + 3) - rest.length)
  some (s!"dropped={dropped} reserved={res} consumed={consumed}", args, ops)

/-- `seq`: one statement of a sequence through the real backend, whose single argument store is shared by all
    statements of all threads and loggers. The model decodes the record with `decodeStatement` starting from the store the
    *model* reached after the previous `seq` line (which `C04_store_per_statement` shows to be irrelevant) and reports
    what the store holds when the statement is formatted: number of values and the string-related flag. Fields the
    harness could not observe for this statement (`-`: several statements were polled together) are not compared. -/
def obsSeq (ws rhs : List String) (prev : Store) : Option (String × Store × List Arg) := do
  let args ← parseArgList (kv ws "a")
  let f := Extracted.frame
  let c := Cache.init Extracted.cacheInlineCap
  let res := reserved f c args false
  let hdr : Bytes := List.replicate f.header 0
  let tail : Bytes := [1, 2, 3]
  let dash (k v : String) : String := if kv rhs k == "-" then "-" else v
  match writeRecord fill c 0 hdr args [] with
  | none => some (s!"reserved={res} consumed=fault store=fault", prev, args)
  | some record =>
    match decodeStatement (shapesOf args) f.header (record.drop f.header ++ tail) prev with
    | none => some (s!"reserved={res} consumed=fault store=fault", prev, args)
    | some (st, rest) =>
      let consumed := (record.length + tail.length) - rest.length
      some (s!"reserved={res} consumed={dash "consumed" (toString consumed)} store={dash "store" s!"{st.vals.length},{if st.stringRelated then 1 else 0}"}",
            st, args)

def obsSan (ws : List String) : Option String := do
  let h := kv ws "in"
  let b ← if h == "." then some [] else bytesOfHex h.toList
  -- `ok=<64 hex digits>`: a user supplied `check_printable_char` as a 256-bit table (bit `c % 8` of byte `c / 8`);
  -- without it the default predicate as extracted
  let tbl := kv ws "ok"
  if tbl == "" then some s!"out={hexOrDot (sanitize Extracted.printable b)}"
  else
    let t ← bytesOfHex tbl.toList
    let ok : UInt8 → Bool := fun c => ((t.getD (c.toNat / 8) 0).toNat / (2 ^ (c.toNat % 8))) % 2 == 1
    some s!"out={hexOrDot (sanitizeBy ok b)}"

def obsGuard (ws : List String) : Option String := do
  let args ← parseArgList (kv ws "a")
  some s!"escaped={if (shapesOf args).any stringRelated then 1 else 0}"

/-! ### C11: predicted frontend events of a log call
`case n alloc <name> reg=<0|1> ccap=<cache capacity> qcap=<queue capacity> qused=<bytes in use> qmax=<max> dyn=<0|1> a=… =>
 events=<ctx>,<cachegrow>,<queuegrow>,<temp>,<usercopy>,<format>,<paircopy>`  (counts per kind) -/
def countEv (l : List Event) (p : Event → Bool) : Nat := (l.filter p).length

/-- the model's own state of the calling thread, carried from one `alloc` line to the next: the line of a thread's
    first call (`reg=0`) starts a fresh `Frontend` (inline-capacity cache, empty queue of the configured capacity); every
    later line of that thread is predicted from the state the *model* reached (`logCall`, then `Queue.drain true` when
    the harness had the backend drain the queue: `drained=1`) — the `reg/ccap/qcap/qused` fields the harness measured
    before the call are compared with it, not fed into it. The container table is the budget's (`spec = true`). -/
def allocPre (ws : List String) (tracked : Option Frontend) : Frontend :=
  let fromLine : Frontend :=
    { registered := kv ws "reg" == "1",
      cache := { data := [], cap := Drv.nat! (kv ws "ccap") },
      queue := { cap := Drv.nat! (kv ws "qcap"), used := Drv.nat! (kv ws "qused"), maxCap := Drv.nat! (kv ws "qmax") } }
  if kv ws "reg" == "0" then { fromLine with cache := Cache.init Extracted.cacheInlineCap }
  else tracked.getD fromLine

def showPre (fe : Frontend) : String :=
  s!"reg={if fe.registered then 1 else 0} ccap={fe.cache.cap} qcap={fe.queue.cap} qused={fe.queue.used}"

def eventCounts (ev : List Event) : List Nat :=
  [countEv ev (· == .ctxCreate),
   countEv ev (fun e => match e with | .cacheGrow _ => true | _ => false),
   countEv ev (fun e => match e with | .queueGrow _ => true | _ => false),
   countEv ev (· == .tempString), countEv ev (· == .userCopy), countEv ev (· == .formatCall), countEv ev (· == .pairCopy)]

def obsAlloc (ws : List String) (tracked : Option Frontend) : Option (String × List Nat × Frontend × Frontend) := do
  let args ← parseArgList (kv ws "a") true
  let fe := allocPre ws tracked
  let r := logCall Extracted.frame fe args (kv ws "dyn" == "1")
  let n := eventCounts r.1
  let post := if kv ws "drained" == "0" then r.2 else { r.2 with queue := r.2.queue.drain true Extracted.readerBatchPercent }
  some (s!"events={",".intercalate (n.map toString)} ccap={r.2.cache.cap} qcap={r.2.queue.cap}", n, fe, post)

def run : IO UInt32 := do
  let stdin ← IO.getStdin
  let lines ← Drv.readLines stdin
  let mut st : Stats := {}
  let mut thread : Option Frontend := none   -- C11: the model's state of the calling thread (see `allocPre`)
  let mut bstore : Store := Store.empty      -- C04: the model's state of the backend's shared argument store (`obsSeq`)
  let mut lineNo := 0
  for line in lines do
    lineNo := lineNo + 1
    if line.isEmpty || line.startsWith "#" || line.startsWith "ORACLE" || line.startsWith "STATS" then continue
    let (lhs, rhsS) := Drv.splitArrow line
    let ws := Drv.words lhs
    let rhs := Drv.words rhsS
    match ws with
    | "init" :: "codec" :: rest =>
      let n := Drv.nat! (kv rest "N")
      let hdr := Drv.nat! (kv rest "hdr")
      let lvl := Drv.nat! (kv rest "lvl")
      if n != Extracted.cacheInlineCap || hdr != Extracted.frame.header || lvl != Extracted.frame.lvlBytes then
        IO.println s!"MISMATCH init: impl N={n} hdr={hdr} lvl={lvl} extracted N={Extracted.cacheInlineCap} hdr={Extracted.frame.header} lvl={Extracted.frame.lvlBytes}"
        st := { st with mismatches := st.mismatches + 1 }
    | "case" :: id :: kind :: rest =>
      st := { st with cases := st.cases + 1 }
      let model : Option String ←
        match kind with
        | "arg" =>
          match obsArg rest rhs with
          | none => pure none
          | some (m, a, c0, c1) =>
            st := { st with arg := st.arg + 1 }
            if !(wf a) then
              IO.println s!"MODEL-NOT-WF case={id}: value outside the theorems' hypotheses"
              st := { st with problems := st.problems + 1 }
            let k := (lens a).length
            let nt := k > 0 || depth a ≥ 2
            st := { st with cachedLens := st.cachedLens + (if k > 0 then 1 else 0),
                            nested := st.nested + (if depth a ≥ 2 then 1 else 0),
                            startIdxPos := st.startIdxPos + (if c0.data.length > 0 && k > 0 then 1 else 0),
                            grew := st.grew + (if c1.cap != c0.cap then 1 else 0),
                            nontrivial := st.nontrivial + (if nt then 1 else 0) }
            pure (some m)
        | "stmt" =>
          match obsStmt rest rhs with
          | none => pure none
          | some (m, args, c0, c1) =>
            st := { st with stmt := st.stmt + 1 }
            if !(wfL args) then
              IO.println s!"MODEL-NOT-WF case={id}: value outside the theorems' hypotheses"
              st := { st with problems := st.problems + 1 }
            st := { st with grew := st.grew + (if c1.cap != c0.cap then 1 else 0),
                            cachedLens := st.cachedLens + (if (lensL args).length > 0 then 1 else 0),
                            nontrivial := st.nontrivial + (if (lensL args).length > 0 then 1 else 0) }
            pure (some m)
        | "e2e" =>
          match obsE2E rest with
          | none => pure none
          | some (m, args) =>
            st := { st with e2e := st.e2e + 1, nontrivial := st.nontrivial + (if (lensL args).length > 0 || depthL args ≥ 1 then 1 else 0) }
            pure (some m)
        | "san" => st := { st with san := st.san + 1 }; pure (obsSan rest)
        | "guard" => st := { st with guard := st.guard + 1 }; pure (obsGuard rest)
        | "sdrop" =>
          match obsSDrop rest rhs with
          | none => pure none
          | some (m, args, ops) =>
            st := { st with sdrop := st.sdrop + 1 }
            if !(wfL args) || !(ops.all (fun o => wfL o.args)) then
              IO.println s!"MODEL-NOT-WF case={id}: value outside the theorems' hypotheses"
              st := { st with problems := st.problems + 1 }
            st := { st with nontrivial := st.nontrivial + (if (lensL args).length > 0 then 1 else 0) }
            pure (some m)
        | "seq" =>
          match obsSeq rest rhs bstore with
          | none => pure none
          | some (m, st', args) =>
            bstore := st'
            st := { st with seq := st.seq + 1, nontrivial := st.nontrivial + (if args.isEmpty then 1 else 0) }
            pure (some m)
        | "edrop" =>
          match obsEDrop rest with
          | none => pure none
          | some (m, args, _) =>
            st := { st with edrop := st.edrop + 1, nontrivial := st.nontrivial + (if (lensL args).length > 0 then 1 else 0) }
            pure (some m)
        | "alloc" =>
          match obsAlloc rest thread with
          | none => pure none
          | some (m, predicted, pre, post) =>
            st := { st with alloc := st.alloc + 1 }
            thread := some post
            -- the state the harness measured before the call vs the state the model reached
            let implPre := s!"reg={kv rest "reg"} ccap={kv rest "ccap"} qcap={kv rest "qcap"} qused={kv rest "qused"}"
            if kv rest "reg" == "1" && implPre != showPre pre then
              IO.println s!"MISMATCH case={id} kind=alloc-state {" ".intercalate (rest.take 1)}: impl=[{implPre}] model=[{showPre pre}]"
              st := { st with mismatches := st.mismatches + 1 }
            -- the property itself: the calling thread did something (allocation by kind, formatter call) that the
            -- model — the theorems' `logCall` on the budget's table, queue drained as the history says — does not predict
            let measured := ((kv rhs "events").splitOn ",").map Drv.nat!
            if measured.length == predicted.length && (List.zip measured predicted).any (fun p => p.1 > p.2) then
              IO.println s!"ORACLE allocation-not-predicted case={id} shape={" ".intercalate (rest.take 1)} model-state=[{showPre pre}] predicted-events={",".intercalate (predicted.map toString)} measured-events={kv rhs "events"} (ctx,cachegrow,queuegrow,temp,usercopy,format,paircopy) {" ".intercalate (rhs.drop 3)} a={((kv rest "a").take 300).toString}"
              st := { st with oracle := st.oracle + 1 }
            pure (some m)
        | _ => pure none
      match model with
      | none =>
        IO.println s!"BAD-CASE line {lineNo}: {(line.take 200).toString}"
        st := { st with problems := st.problems + 1 }
      | some m =>
        -- `alloc` lines carry measured fields after the modelled ones; compare the modelled prefix only
        -- C04 compares contents, not the capacity of the size cache (its theorems hold for every capacity; the capacity
        -- and its growth are C11's subject, compared on the `alloc` lines)
        let implS := if kind == "alloc" then " ".intercalate (rhs.take 3)
          else if kind == "arg" || kind == "stmt" || kind == "sdrop" then " ".intercalate (rhs.filter (fun w => !w.startsWith "cap="))
          else rhsS
        if m != implS then
          IO.println s!"MISMATCH case={id} kind={kind} {" ".intercalate (rest.take 1)}: impl=[{(implS.take 600).toString}] model=[{(m.take 600).toString}] a={((kv rest "a").take 400).toString}"
          st := { st with mismatches := st.mismatches + 1 }
    | _ =>
      IO.println s!"BAD-LINE {lineNo}: {(line.take 120).toString}"
      st := { st with problems := st.problems + 1 }
  IO.println s!"TRACE codec arg={st.arg} stmt={st.stmt} e2e={st.e2e} san={st.san} guard={st.guard} alloc={st.alloc} sdrop={st.sdrop} edrop={st.edrop} seq={st.seq} model_oracle_hits={st.oracle} cached_lengths={st.cachedLens} nested={st.nested} start_index_positive={st.startIdxPos} cache_grew={st.grew}"
  IO.println s!"DONE cases={st.cases} mismatches={st.mismatches} problems={st.problems} nontrivial={st.nontrivial}"
  return (if st.mismatches + st.problems == 0 then 0 else 1)

/-- `driver codec run` -/
def main : List String → IO UInt32
  | ["run"] => run
  | _ => do IO.println "usage: driver codec run  (harness lines on stdin)"; return 2

end Drv.Codec
