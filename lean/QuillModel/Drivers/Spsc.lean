import QuillModel.Spsc.Api
import QuillModel.Drivers.Util
/-!
Correspondence driver for the bounded queue. Input: the trace printed by `harness/h1_spsc.cpp`
(`init …` then one `op => observation` line per API call made on the real `BoundedSPSCQueueImpl<T>`
under the atomic shim). The driver replays the same calls on `Spsc.absApi`, compares every observation,
checks `Enabled` and `Safe` of every model micro-step, and prints the disagreements.
Also `search`: enumerate API-level schedules of the model with the given (extracted) parameters and print
the first one that reaches an enabled unsafe step.
-/
namespace Drv.Spsc
open _root_.Spsc

def moOf : String → Option MO
  | "relaxed" => some .relaxed | "consume" => some .consume | "acquire" => some .acquire
  | "release" => some .release | "acq_rel" => some .acqrel | "seq_cst" => some .seqcst
  | _ => none

def parseParams (ws wl rs rl dr : String) : Option Params := do
  let a ← moOf ws; let b ← moOf wl; let c ← moOf rs; let d ← moOf rl
  pure { wStore := a, wLoad := b, rStore := c, rLoad := d, drainPublish := dr == "1" }

def showObs : Obs → String
  | .grant off => s!"grant {off}"
  | .null => "null"
  | .ok => "ok"
  | .isEmpty b => s!"empty {if b then 1 else 0}"
  | .readAt off => s!"read {off}"
  | .pub v => s!"pub {v}"
  | .nopub => "nopub"

structure Ctx where
  o : Params
  M : Nat
  s : St
  staleLoads : Nat := 0
  wraps : Nat := 0
  grants : Nat := 0
  denies : Nat := 0
  reads : Nat := 0
  pubs : Nat := 0
  nlines : Nat := 0
  physWraps : Nat := 0

def Ctx.summary (c : Ctx) (id : String) : String :=
  s!"TRACE {id} lines={c.nlines} stale={c.staleLoads} intwraps={c.wraps} physwraps={c.physWraps} grants={c.grants} denies={c.denies} reads={c.reads} pubs={c.pubs}"

/-- run one API call given as words; returns new ctx, model observation, problems -/
def apiOfWords (c : Ctx) : List String → Option Api
  | ["pw", n, k] => some (.prepareWrite (nat! n) (pick c.s.rHist c.s.rcache (nat! k)))
  | ["fw", n] => some (.finishWrite (nat! n))
  | ["cw"] => some .commitWrite
  | ["em", k] => some (.empty (pick c.s.wHist c.s.wcache (nat! k)))
  | ["pr", k] => some (.prepareRead (pick c.s.wHist c.s.wcache (nat! k)))
  | ["fr", n] => some (.finishRead (nat! n))
  | ["cr"] => some .commitRead
  | _ => none

def checkOps (o : Params) : St → List Op → List String
  | _, [] => []
  | s, op :: ops =>
    let p1 := if decide (Enabled s op) then [] else [s!"MODEL-NOT-ENABLED {repr op}"]
    let p2 := if safeB s op then [] else [s!"MODEL-UNSAFE {repr op}"]
    p1 ++ p2 ++ checkOps o (step o s op) ops

/-- `follow = some b`: for `commit_read`, take the publication decision `b` from the implementation's
    observation instead of the model's rule (C01's theorems hold for every publication policy). -/
def stepLine (c : Ctx) (ws : List String) (follow : Option Bool := none) : Option (Ctx × String × List String) :=
  match apiOfWords c ws with
  | none => none
  | some a =>
    let ops := match a, follow with
      | .commitRead, some b => [Op.commitR b]
      | _, _ => apiOps c.o c.s a
    let problems := checkOps c.o c.s ops
    let r : St × Obs := match a, follow with
      | .commitRead, some b => (run c.o c.s ops, if b then Obs.pub c.s.rpos else Obs.nopub)
      | _, _ => absApi c.o c.s a
    let obs := r.2.modM c.M
    let staleInc : Nat := match ws, ops with
      | [_, _, k], [_] => if nat! k > 0 then 1 else 0
      | [_, k], [_] => if nat! k > 0 then 1 else 0
      | _, _ => 0
    let wrapInc : Nat := if r.1.wpos / c.M > c.s.wpos / c.M then 1 else 0
    let grantInc : Nat := match r.2 with | .grant _ => 1 | _ => 0
    let denyInc : Nat := match ws, r.2 with | "pw" :: _, .null => 1 | _, _ => 0
    let readInc : Nat := match r.2 with | .readAt _ => 1 | _ => 0
    let pubInc : Nat := match ws, r.2 with | ["cr"], .pub _ => 1 | _, _ => 0
    let c' : Ctx :=
      { o := c.o, M := c.M, s := r.1, staleLoads := c.staleLoads + staleInc, wraps := c.wraps + wrapInc,
        grants := c.grants + grantInc, denies := c.denies + denyInc, reads := c.reads + readInc,
        pubs := c.pubs + pubInc, nlines := c.nlines + 1,
        physWraps := c.physWraps + (if r.1.wpos / c.s.cap > c.s.wpos / c.s.cap then 1 else 0) }
    some (c', showObs obs, problems)

structure Totals where
  lines : Nat := 0
  traces : Nat := 0
  mismatches : Nat := 0
  problems : Nat := 0
  stale : Nat := 0
  wraps : Nat := 0
  grants : Nat := 0
  denies : Nat := 0
  reads : Nat := 0
  pubs : Nat := 0

def fold (c : Ctx) (t : Totals) : Totals :=
  { t with stale := t.stale + c.staleLoads, wraps := t.wraps + c.wraps, grants := t.grants + c.grants,
           denies := t.denies + c.denies, reads := t.reads + c.reads, pubs := t.pubs + c.pubs }

def runTrace (followPub : Bool := false) : IO UInt32 := do
  let stdin ← IO.getStdin
  let lines ← Drv.readLines stdin
  let mut ctx : Option Ctx := none
  let mut t : Totals := {}
  let mut lineNo := 0
  let mut traceId := ""
  for line in lines do
    lineNo := lineNo + 1
    if line.isEmpty || line.startsWith "#" || line.startsWith "ORACLE" || line.startsWith "ORDERS-SEEN"
        || line.startsWith "STATS" then continue
    let (opS, obsS) := Drv.splitArrow line
    let ws := Drv.words opS
    match ws with
    | ["init", id, cap, batch, m, a, b, c2, d, dr] =>
      if let some c := ctx then
        t := fold c t
        IO.println (c.summary traceId)
      match parseParams a b c2 d dr with
      | some o =>
        ctx := some { o := o, M := nat! m, s := init (nat! cap) (nat! batch) }
        t := { t with traces := t.traces + 1 }
        traceId := id
      | none => IO.println s!"BAD-INIT line {lineNo}: {line}"; t := { t with problems := t.problems + 1 }
    | _ =>
      match ctx with
      | none => IO.println s!"NO-INIT line {lineNo}"; t := { t with problems := t.problems + 1 }
      | some c =>
        let follow : Option Bool := if followPub then some (obsS.startsWith "pub") else none
        match stepLine c ws follow with
        | none => IO.println s!"BAD-OP line {lineNo}: {line}"; t := { t with problems := t.problems + 1 }
        | some (c', mobs, problems) =>
          t := { t with lines := t.lines + 1 }
          for p in problems do
            IO.println s!"{p} trace={traceId} line={lineNo}: {opS}"
            t := { t with problems := t.problems + 1 }
          if mobs ≠ obsS then
            IO.println s!"MISMATCH trace={traceId} line={lineNo}: {opS} impl=[{obsS}] model=[{mobs}]"
            t := { t with mismatches := t.mismatches + 1 }
          ctx := some c'
  if let some c := ctx then
    t := fold c t
    IO.println (c.summary traceId)
  IO.println s!"DONE traces={t.traces} lines={t.lines} mismatches={t.mismatches} problems={t.problems} stale_loads={t.stale} wraps={t.wraps} grants={t.grants} denies={t.denies} reads={t.reads} reader_publications={t.pubs}"
  return (if t.mismatches + t.problems == 0 then 0 else 1)

/-! ### schedule search on the model (API level) -/

structure SS where
  s : St
  grant : Option Nat := none
  reading : Bool := false

/-- candidate API lines in state `x` -/
def candidates (x : SS) (sizes : List Nat) : List (List String) :=
  let p : List (List String) := match x.grant with
    | none => sizes.flatMap (fun n => [["pw", toString n, "0"], ["pw", toString n, "1"]])
    | some n => [["fw", toString n]]
  let c : List (List String) :=
    if x.reading then [["fr", toString (x.s.endOf x.s.rpos - x.s.rpos)]]
    else [["pr", "0"], ["pr", "1"]]
  p ++ [["cw"]] ++ c ++ [["cr"]]

partial def dfs (o : Params) (M : Nat) (sizes : List Nat) (depth : Nat) (x : SS) (path : List String) :
    Option (List String) :=
  if depth = 0 then none else
  (candidates x sizes).firstM (fun ws =>
    let c : Ctx := { o := o, M := M, s := x.s }
    match stepLine c ws with
    | none => none
    | some (c', mobs, problems) =>
      let line := " ".intercalate ws
      if problems.any (fun p => p.startsWith "MODEL-UNSAFE") then some ((line :: path).reverse)
      else if !problems.isEmpty then none
      else
        let x' : SS := match ws with
          | "pw" :: n :: _ => { x with s := c'.s, grant := if mobs.startsWith "grant" then some (nat! n) else none }
          | "fw" :: _ => { x with s := c'.s, grant := none }
          | "pr" :: _ => { x with s := c'.s, reading := mobs.startsWith "read" }
          | "fr" :: _ => { x with s := c'.s, reading := false }
          | _ => { x with s := c'.s }
        dfs o M sizes (depth - 1) x' (line :: path))

/-- `search cap batch M wStore wLoad rStore rLoad drain maxDepth` -/
def search (args : List String) : IO UInt32 := do
  match args with
  | [cap, batch, m, a, b, c2, d, dr, depth] =>
    match parseParams a b c2 d dr with
    | none => IO.println "BAD-ARGS"; return 2
    | some o =>
      let capN := nat! cap
      let sizes := (List.range capN).map (· + 1)
      -- iterative deepening: shortest schedule first
      for dep in List.range (nat! depth + 1) do
        match dfs o (nat! m) sizes dep { s := init capN (nat! batch) } [] with
        | some path =>
          IO.println s!"UNSAFE-SCHEDULE depth={dep}"
          IO.println s!"init search {cap} {batch} {m} {a} {b} {c2} {d} {dr}"
          for l in path do IO.println l
          return 1
        | none => pure ()
      IO.println s!"NO-UNSAFE-SCHEDULE up to depth {depth}"
      return 0
  | _ => IO.println "usage: spsc-search cap batch M wStore wLoad rStore rLoad drain depth"; return 2

/-- `driver spsc trace | anypub | search …` -/
def main : List String → IO UInt32
  | ["trace"] => runTrace
  | ["anypub"] => runTrace true
  | "search" :: rest => search rest
  | _ => do IO.println "usage: driver spsc trace|anypub|search …"; return 2

end Drv.Spsc
