import QuillModel.Backend.Mixed
import QuillModel.Drivers.Backend
/-!
Correspondence driver for a process with two frontends (`harness/h2_mixed.cpp`): the script and line protocol of
`driver backend trace`, replayed on `Backend.applyOpM` (the machine `Props/C08Mixed.lean` is about). A `mix u=<actors>`
line names the threads of the unbounded frontend. A case leaves the scope of the model at the first reservation an
unbounded context is refused (`uRefused`: the real queue grows there): it is reported as `OUT-OF-SCOPE` and not compared
any further (the property oracles still judge it).
-/
namespace Drv.Mixed
open _root_.Backend _root_.Spsc Drv Drv.Backend

def execM (m : Mix) (s : BSt) (w : List String) : BSt × String :=
  match parseOp w with
  | some op => applyOpM m s op
  | none => (s, "bad-op")

def runTrace : IO UInt32 := do
  let mut mix : Mix := {}
  let mut oos := false
  let mut oosCases := 0
  let stdin ← IO.getStdin
  let lines ← Drv.readLines stdin
  let mut u : Setup := {}
  let mut st : Option BSt := none
  let mut mism := 0
  let mut total := 0
  let mut polls := 0
  let mut writes := 0
  let mut parks := 0
  let mut drops := 0
  let mut injected := 0
  let mut lineNo := 0
  let mut id := "-"
  let mut traces := 0
  for line in lines do
    lineNo := lineNo + 1
    if line.isEmpty || line.startsWith "#" then continue
    let (opS, obsS) := Drv.splitArrow line
    let w := Drv.words opS
    match w with
    | "case" :: name :: _ =>
      if st.isSome then IO.println s!"TRACE {id} lines={total} polls={polls} writes={writes} parks={parks} drops={drops} injected={injected}"
      id := name; u := {}; st := none; traces := traces + 1; mix := {}; oos := false
      total := 0; polls := 0; writes := 0; parks := 0; drops := 0; injected := 0
    | "mix" :: rest =>
      for x in rest do
        match kv x with
        | some ("u", v) => mix := { mix with uActors := natList v }
        | some ("early", v) => mix := { mix with early := v == "1" }
        | _ => pure ()
    | "params" :: rest =>
      for x in rest do
        match kv x with
        | some ("drain", v) => u := { u with drain := v == "1" }
        | some ("invalidBits", v) => u := { u with invalidBits := nat! v }
        | some ("refreshAfterSample", v) => u := { u with refreshAfter := v == "1" }
        | some ("catchAll", v) => u := { u with catchAll := v == "1" }
        | some ("batchPct", v) => u := { u with batchPct := nat! v }
        | some ("reportFlush", v) => u := { u with reportFlush := v == "1" }
        | some ("keepUnreported", v) => u := { u with keepUnreported := v == "1" }
        | some ("flushInvalid", v) => u := { u with flushInvalid := v == "1" }
        | some ("follow", v) => u := { u with follow := v == "1" }
        | some ("replayCatch", v) => u := { u with replayCatch := v == "1" }
        | some ("flushBeforeErase", v) => u := { u with flushBeforeErase := v == "1" }
        | _ => pure ()
    | "cfg" :: rest =>
      for x in rest ++ Drv.words obsS do
        match kv x with
        | some ("grace", v) => u := { u with grace := nat! v * 1000 }
        | some ("soft", v) => u := { u with soft := nat! v }
        | some ("hard", v) => u := { u with hard := nat! v }
        | some ("variant", v) =>
          let isU := decide (2 ≤ nat! v)
          u := { u with dropping := (nat! v) % 2 == 1, unbounded := isU }
        | some ("qmax", v) => u := { u with qmax := nat! v }
        | some ("qcap", v) => u := { u with qcap := nat! v }
        | some ("flushint", v) => u := { u with flushInt := nat! v * 1000000 }
        | _ => pure ()
    | "sink" :: sid :: rest =>
      let mut k : Sink := { sid := nat! sid }
      for x in rest do
        match kv x with
        | some ("lvl", v) => k := { k with lvl := nat! v }
        | some ("filt", v) =>
          match v.splitOn ":" with
          | [m, r] => k := { k with filtM := nat! m, filtR := nat! r }
          | _ => pure ()
        | some ("wthrow", v) => k := { k with wthrow := natList v }
        | some ("fthrow", v) => k := { k with fthrow := natList v }
        | _ => pure ()
      u := { u with sinks := u.sinks ++ [k] }
    | "logger" :: g :: rest =>
      let mut l : Lg := { gid := nat! g }
      for x in rest do
        match kv x with
        | some ("sinks", v) => l := { l with sinks := natList v }
        | some ("lvl", v) => l := { l with level := nat! v }
        | _ => pure ()
      u := { u with lgs := u.lgs ++ [l] }
    | ["start"] =>
      let mut s10 := 46
      let mut s30 := 66
      let mut now := 0
      for x in Drv.words obsS do
        match kv x with
        | some ("static10", v) => s10 := nat! v
        | some ("static30", v) => s30 := nat! v
        | some ("now", v) => now := nat! v
        | _ => pure ()
      -- size = hdr + strOverhead + len ; the string overhead is the 4-byte length prefix
      let strOv := 4
      let hdr := s10 - 10 - strOv
      if s30 - s10 ≠ 20 then IO.println s!"CALIBRATION-UNEXPECTED static10={s10} static30={s30}"; mism := mism + 1
      st := some (mkState u hdr strOv now)
    | _ =>
      match st with
      | none => IO.println s!"NOT-STARTED line {lineNo}: {line}"; mism := mism + 1
      | some s =>
        if oos then continue
        let (s1, res) := execM mix { s with out := [] } w
        let (s2, evs) := takeEvents s1
        let mobs := if evs.isEmpty then res else s!"{res} | {evs}"
        total := total + 1
        if w.head? == some "P" then polls := polls + 1
        writes := writes + (evs.splitOn "w:").length - 1
        if (mobs.splitOn "parked").length > 1 then parks := parks + 1
        if (mobs.splitOn "ret=0").length > 1 then drops := drops + 1
        injected := injected + (evs.splitOn "[@").length - 1
        if uRefused mix s2 then
          -- the first node of an unbounded queue is full: the real queue grows here, which this model does not carry
          IO.println s!"OUT-OF-SCOPE case={id} line={lineNo}: {opS}"
          oos := true; oosCases := oosCases + 1; total := total - 1
        else if mobs ≠ obsS then
          IO.println s!"MISMATCH case={id} line={lineNo}: {opS} impl=[{obsS}] model=[{mobs}]"
          mism := mism + 1
        st := some s2
  if st.isSome then IO.println s!"TRACE {id} lines={total} polls={polls} writes={writes} parks={parks} drops={drops} injected={injected}"
  IO.println s!"DONE traces={traces} mismatches={mism} out_of_scope={oosCases}"
  return (if mism == 0 then 0 else 1)

def main : List String → IO UInt32
  | ["trace"] => runTrace
  | _ => do IO.println "usage: driver mixed trace"; return 2

end Drv.Mixed
