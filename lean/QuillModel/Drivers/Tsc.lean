import QuillModel.Tsc.Model
import QuillModel.Drivers.Util
/-! Correspondence driver for `RdtscClock`: replays the trace of `harness/h3_tsc.cpp` on `Tsc.construct`,
`Tsc.timeSinceEpoch`, `Tsc.timeSinceEpochSafe`, `Tsc.resync` with the bit-exact scaling `Tsc.scaleF64`, and checks per
conversion that `scaleF64` and `scaleExact` (the function the arithmetic lemmas are about) differ by at most 1.

`driver tsc trace <params…>`: the parameters are the extracted ones
(maxAttempts convLag ctorLag1 ctorLag2 idleLag triggerStrict lagInclusive writeNext). -/
namespace Drv.Tsc
open _root_.Tsc Drv

def int! (s : String) : Int :=
  if s.startsWith "-" then -((s.drop 1).toString.toNat?.getD 0 : Int) else (s.toNat?.getD 0 : Int)

def parseReads (s : String) : List Read :=
  if s.startsWith "reads=" then
    ((s.drop 6).toString.splitOn ",").filterMap fun t =>
      match t.splitOn ":" with
      | [b, w, f] => some ⟨nat! b, int! w, nat! f⟩
      | _ => none
  else []

def stateStr (c : Clock) : String :=
  s!"ver={c.version} iv={c.interval} b0={c.b0.time}:{c.b0.tsc} b1={c.b1.time}:{c.b1.tsc}"

def kv (w : String) (key : String) : Option String :=
  if w.startsWith (key ++ "=") then some (w.drop (key.length + 1)).toString else none

def runTrace (p : Params) : IO UInt32 := do
  let stdin ← IO.getStdin
  let lines ← Drv.readLines stdin
  let mut c : Clock := {}
  let mut sc : Int → Int := fun x => x
  let mut scx : Int → Int := fun x => x
  let mut started := false
  let mut id := "-"
  let mut n := 0
  let mut mism := 0
  let mut traces := 0
  let mut resyncs := 0
  let mut failed := 0
  let mut convs := 0
  let mut offByOne := 0
  let mut scaleGap := 0
  let mut lineNo := 0
  for line in lines do
    lineNo := lineNo + 1
    if line.isEmpty || line.startsWith "#" || line.startsWith "ORACLE" || line.startsWith "STATS" then continue
    let (opS, obsS) := Drv.splitArrow line
    let w := Drv.words opS
    match w with
    | "init" :: name :: numS :: kS :: nsS :: rest =>
      if traces > 0 then IO.println s!"TRACE {id} lines={n} resyncs={resyncs} failed={failed} convs={convs}"
      id := name; n := 1; traces := traces + 1; resyncs := 0; failed := 0; convs := 0
      let num := nat! ((kv numS "num").getD "0")
      let k := nat! ((kv kS "k").getD "0")
      let ns := int! ((kv nsS "ns").getD "0")
      sc := scaleF64 num k
      scx := scaleExact num k
      let r := construct p sc ns (parseReads (rest.headD ""))
      c := r.1
      started := true
      let o := s!"synced={if r.2.1 then 1 else 0} used={r.2.2} {stateStr c}"
      if o ≠ obsS then
        IO.println s!"MISMATCH trace={id} line={lineNo}: init impl=[{obsS}] model=[{o}]"
        mism := mism + 1
    | ["conv", t] | ["conv", t, _] =>
      if !started then IO.println s!"NO-INIT line {lineNo}"; mism := mism + 1; continue
      let rs := parseReads (w.getD 2 "")
      let tsc := nat! t
      let d := toI64 (subU64 tsc (cur c).tsc)
      let r := timeSinceEpoch p sc c tsc rs
      if r.2.2 > 0 ∧ r.2.1.epoch > c.epoch then resyncs := resyncs + 1
      if r.2.2 > 0 ∧ r.2.1.epoch = c.epoch then failed := failed + 1
      -- the bit-exact scaling against the exact one (what the lemmas are about): within 1 whenever the harness oracle applies
      let g := (sc d - scx d).natAbs
      if g = 1 then offByOne := offByOne + 1
      if g > 1 ∧ d.natAbs < 2 ^ 52 then
        scaleGap := scaleGap + 1
        IO.println s!"MISMATCH trace={id} line={lineNo}: scaleF64 and scaleExact differ by {g} at diff={d}"
        mism := mism + 1
      c := r.2.1
      n := n + 1; convs := convs + 1
      let o := s!"v={toU64 r.1} used={r.2.2} {stateStr c}"
      if o ≠ obsS then
        IO.println s!"MISMATCH trace={id} line={lineNo}: conv {t} impl=[{obsS}] model=[{o}]"
        mism := mism + 1
    | ["safe", t] =>
      if !started then IO.println s!"NO-INIT line {lineNo}"; mism := mism + 1; continue
      n := n + 1
      let o := s!"v={toU64 (timeSinceEpochSafe sc c (nat! t))}"
      if o ≠ obsS then
        IO.println s!"MISMATCH trace={id} line={lineNo}: safe {t} impl=[{obsS}] model=[{o}]"
        mism := mism + 1
    | ["idle"] | ["idle", _] =>
      if !started then IO.println s!"NO-INIT line {lineNo}"; mism := mism + 1; continue
      let r := resync p p.idleLag c (parseReads (w.getD 1 ""))
      if r.2.1 then resyncs := resyncs + 1 else failed := failed + 1
      c := r.1
      n := n + 1
      let o := s!"ok={if r.2.1 then 1 else 0} used={r.2.2} {stateStr c}"
      if o ≠ obsS then
        IO.println s!"MISMATCH trace={id} line={lineNo}: idle impl=[{obsS}] model=[{o}]"
        mism := mism + 1
    | _ => IO.println s!"BAD-OP line {lineNo}: {line}"; mism := mism + 1
  if traces > 0 then IO.println s!"TRACE {id} lines={n} resyncs={resyncs} failed={failed} convs={convs}"
  IO.println s!"DONE traces={traces} mismatches={mism} f64_vs_exact_off_by_one={offByOne} f64_vs_exact_gap={scaleGap}"
  return (if mism == 0 then 0 else 1)

def b! (s : String) : Bool := s = "1"

def main : List String → IO UInt32
  | ["trace", a, l, c1, c2, i, ts, li, wn] =>
    runTrace { maxAttempts := nat! a, convLag := nat! l, ctorLag1 := nat! c1, ctorLag2 := nat! c2, idleLag := nat! i,
               triggerStrict := b! ts, lagInclusive := b! li, lagInverted := false, writeNext := b! wn, gateAfterConv := true }
  | ["trace"] => runTrace Params.code
  | _ => do IO.println "usage: driver tsc trace [maxAttempts convLag ctorLag1 ctorLag2 idleLag triggerStrict lagInclusive writeNext]"; return 2

end Drv.Tsc
