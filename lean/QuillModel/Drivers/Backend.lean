import QuillModel.Backend.Ops
import QuillModel.Backend.UOps
import QuillModel.Drivers.Util
/-!
Correspondence driver for the backend model: replays the script executed by `harness/h2_backend.cpp` on
`Backend.poll` / the frontend calls and compares every observation line.
-/
namespace Drv.Backend
open _root_.Backend _root_.Spsc Drv

def kv (w : String) : Option (String × String) :=
  match w.splitOn "=" with
  | [k, v] => some (k, v)
  | _ => none

def natList (s : String) : List Nat := (s.splitOn ",").filterMap (fun x => if x.isEmpty then none else x.toNat?)

def showEv : Ev → String
  | .write s i l t n => s!"w:{s}:{i}:{l}:{t}{if n then ":na1" else ""}"
  | .wthrow s i => s!"wthrow:{s}:{i}"
  | .flushed s => s!"fl:{s}"
  | .fthrow s => s!"fthrow:{s}"
  | .notify m => m
  | .sinkDtor s => s!"sinkdtor:{s}"
  | .inj site k op res => s!"[@{site}.{k} {op} -> {res}]"

def takeEvents (s : BSt) : BSt × String :=
  ({ s with out := [] }, " ".intercalate (s.out.reverse.map showEv))

/-- parse one operation (words of a script line, or of an injected `_`-separated operation) -/
def parseFOp : List String → Option FOp
  | ["K", dt] => some (.tick (nat! dt))
  | ["T", a, "start"] => some (.tstart (nat! a))
  | ["T", a, "exit"] => some (.texit (nat! a))
  | ["R", a] => some (.resume (nat! a))
  | ["ST", a] => some (.armStall (nat! a))
  | ["L", a, g, lvl, len] => some (.log (nat! a) (nat! g) (nat! lvl) (nat! len) true)
  | ["LS", a, g, lvl, len] => some (.log (nat! a) (nat! g) (nat! lvl) (nat! len) false)
  | ["LN", a, g, len] => some (.logNamed (nat! a) (nat! g) (nat! len))
  | ["LB", a, g, len] => some (.logBt (nat! a) (nat! g) (nat! len))
  | ["IB", a, g, cap, fl] => some (.initBt (nat! a) (nat! g) (nat! cap) (nat! fl))
  | ["FB", a, g] => some (.flushBt (nat! a) (nat! g))
  | ["F", a, g] => some (.flush (nat! a) (nat! g))
  | ["RB", a, g] => some (.removeBlocking (nat! a) (nat! g))
  | ["RL", a, g] => some (.remove (nat! a) (nat! g))
  | ["CL", a, g, sids] => some (.create (nat! a) (nat! g) (natList sids))
  | ["SL", g, lvl] => some (.setLevel (nat! g) (nat! lvl))
  | ["SS", sid, lvl] => some (.setSinkLevel (nat! sid) (nat! lvl))
  | ["DS", sid] => some (.dropSink (nat! sid))
  | ["Q"] => some .query
  | _ => none

/-- `@site.k=op_with_underscores,op…` -/
def parseInject (w : String) : Option (Nat × Nat × List FOp) :=
  if !w.startsWith "@" then none else
  match (String.ofList (w.toList.drop 1)).splitOn "=" with
  | [sk, ops] =>
    match sk.splitOn "." with
    | [a, b] => some (nat! a, nat! b, (ops.splitOn ",").filterMap (fun o => parseFOp (o.splitOn "_")))
    | _ => none
  | _ => none

def parseOp : List String → Option Backend.Op
  | "P" :: rest => some (.poll (rest.filterMap parseInject))
  | ["X"] => some .exit
  | w => (parseFOp w).map .front

def exec (s : BSt) (w : List String) : BSt × String :=
  match parseOp w with
  | some op => applyOp s op
  | none => (s, "bad-op")

/-! the two unbounded builds: the same script language plus `SH a want` / `QC a` -/

def parseUFOp : List String → Option UFOp
  | ["SH", a, w] => some (.shrink (nat! a) (nat! w))
  | ["QC", a] => some (.capq (nat! a))
  | w => (parseFOp w).map .base

def parseInjectU (w : String) : Option (Nat × Nat × List UFOp) :=
  if !w.startsWith "@" then none else
  match (String.ofList (w.toList.drop 1)).splitOn "=" with
  | [sk, ops] =>
    match sk.splitOn "." with
    | [a, b] => some (nat! a, nat! b, (ops.splitOn ",").filterMap (fun o => parseUFOp (o.splitOn "_")))
    | _ => none
  | _ => none

def parseUOp : List String → Option Backend.UOp
  | "P" :: rest => some (.poll (rest.filterMap parseInjectU))
  | ["X"] => some .exit
  | w => (parseUFOp w).map .front

def execU (u : UP) (s : BSt) (w : List String) : BSt × String :=
  match parseUOp w with
  | some op => applyOpU u s op
  | none => (s, "bad-op")

structure Setup where
  grace : Nat := 0
  soft : Nat := 4096
  hard : Nat := 32768
  dropping : Bool := false
  qcap : Nat := 512
  drain : Bool := true
  invalidBits : Nat := 32
  refreshAfter : Bool := true
  catchAll : Bool := true
  batchPct : Nat := 5
  reportFlush : Bool := true
  keepUnreported : Bool := true
  flushInvalid : Bool := true
  unbounded : Bool := false
  qmax : Nat := 4096
  follow : Bool := true
  replayCatch : Bool := true
  flushInt : Nat := 0          -- ns
  flushBeforeErase : Bool := true
  sinks : List Sink := []
  lgs : List Lg := []

def mkState (u : Setup) (hdr strOv now : Nat) : BSt :=
  let qp : Params := { wStore := .release, wLoad := .acquire, rStore := .release, rLoad := .acquire, drainPublish := u.drain }
  { cfg := { dropping := u.dropping, qcap := u.qcap, grace := u.grace, soft := u.soft, hard := u.hard, hdr := hdr,
             strOverhead := strOv, batchPct := u.batchPct, qp := qp, invalidBits := u.invalidBits,
             refreshAfterSample := u.refreshAfter, catchAllFormat := u.catchAll,
             reportBeforeFlushCleanup := u.reportFlush, cleanupKeepsUnreported := u.keepUnreported, flushInvalidatedLoggers := u.flushInvalid,
             replayCatchesPerEvent := u.replayCatch, flushInterval := u.flushInt,
             flushBeforeLoggerErase := u.flushBeforeErase },
    -- the calibration polls of the harness's `start` ran an idle pass at `now`: with a non-zero interval that pass
    -- flushed (the steady clock is far from its epoch) and recorded `now` as `_last_sink_flush_time`
    now := now, lastFlush := now, sinks := u.sinks, lgs := u.lgs,
    names := (List.range u.lgs.length).map (fun i => ((u.lgs.getD i default).gid, i)) }

def runTrace : IO UInt32 := do
  let stdin ← IO.getStdin
  let lines ← Drv.readLines stdin
  let mut u : Setup := {}
  let mut st : Option BSt := none
  let mut mism := 0
  let mut total := 0
  let mut polls := 0
  let mut writes := 0
  let mut parks := 0
  let mut drops := 0
  let mut injected := 0
  let mut lineNo := 0
  let mut id := "-"
  let mut traces := 0
  for line in lines do
    lineNo := lineNo + 1
    if line.isEmpty || line.startsWith "#" then continue
    let (opS, obsS) := Drv.splitArrow line
    let w := Drv.words opS
    match w with
    | "case" :: name :: _ =>
      if st.isSome then IO.println s!"TRACE {id} lines={total} polls={polls} writes={writes} parks={parks} drops={drops} injected={injected}"
      id := name; u := {}; st := none; traces := traces + 1
      total := 0; polls := 0; writes := 0; parks := 0; drops := 0; injected := 0
    | "params" :: rest =>
      for x in rest do
        match kv x with
        | some ("drain", v) => u := { u with drain := v == "1" }
        | some ("invalidBits", v) => u := { u with invalidBits := nat! v }
        | some ("refreshAfterSample", v) => u := { u with refreshAfter := v == "1" }
        | some ("catchAll", v) => u := { u with catchAll := v == "1" }
        | some ("batchPct", v) => u := { u with batchPct := nat! v }
        | some ("reportFlush", v) => u := { u with reportFlush := v == "1" }
        | some ("keepUnreported", v) => u := { u with keepUnreported := v == "1" }
        | some ("flushInvalid", v) => u := { u with flushInvalid := v == "1" }
        | some ("follow", v) => u := { u with follow := v == "1" }
        | some ("replayCatch", v) => u := { u with replayCatch := v == "1" }
        | some ("flushBeforeErase", v) => u := { u with flushBeforeErase := v == "1" }
        | _ => pure ()
    | "cfg" :: rest =>
      for x in rest ++ Drv.words obsS do
        match kv x with
        | some ("grace", v) => u := { u with grace := nat! v * 1000 }
        | some ("soft", v) => u := { u with soft := nat! v }
        | some ("hard", v) => u := { u with hard := nat! v }
        | some ("variant", v) =>
          let isU := decide (2 ≤ nat! v)
          u := { u with dropping := (nat! v) % 2 == 1, unbounded := isU }
        | some ("qmax", v) => u := { u with qmax := nat! v }
        | some ("qcap", v) => u := { u with qcap := nat! v }
        | some ("flushint", v) => u := { u with flushInt := nat! v * 1000000 }
        | _ => pure ()
    | "sink" :: sid :: rest =>
      let mut k : Sink := { sid := nat! sid }
      for x in rest do
        match kv x with
        | some ("lvl", v) => k := { k with lvl := nat! v }
        | some ("filt", v) =>
          match v.splitOn ":" with
          | [m, r] => k := { k with filtM := nat! m, filtR := nat! r }
          | _ => pure ()
        | some ("wthrow", v) => k := { k with wthrow := natList v }
        | some ("fthrow", v) => k := { k with fthrow := natList v }
        | _ => pure ()
      u := { u with sinks := u.sinks ++ [k] }
    | "logger" :: g :: rest =>
      let mut l : Lg := { gid := nat! g }
      for x in rest do
        match kv x with
        | some ("sinks", v) => l := { l with sinks := natList v }
        | some ("lvl", v) => l := { l with level := nat! v }
        | _ => pure ()
      u := { u with lgs := u.lgs ++ [l] }
    | ["start"] =>
      let mut s10 := 46
      let mut s30 := 66
      let mut now := 0
      for x in Drv.words obsS do
        match kv x with
        | some ("static10", v) => s10 := nat! v
        | some ("static30", v) => s30 := nat! v
        | some ("now", v) => now := nat! v
        | _ => pure ()
      -- size = hdr + strOverhead + len ; the string overhead is the 4-byte length prefix
      let strOv := 4
      let hdr := s10 - 10 - strOv
      if s30 - s10 ≠ 20 then IO.println s!"CALIBRATION-UNEXPECTED static10={s10} static30={s30}"; mism := mism + 1
      st := some (mkState u hdr strOv now)
    | _ =>
      match st with
      | none => IO.println s!"NOT-STARTED line {lineNo}: {line}"; mism := mism + 1
      | some s =>
        let (s1, res) := if u.unbounded then execU { qmax := u.qmax, follow := u.follow } { s with out := [] } w
                         else exec { s with out := [] } w
        let (s2, evs) := takeEvents s1
        let mobs := if evs.isEmpty then res else s!"{res} | {evs}"
        total := total + 1
        if w.head? == some "P" then polls := polls + 1
        writes := writes + (evs.splitOn "w:").length - 1
        if (mobs.splitOn "parked").length > 1 then parks := parks + 1
        if (mobs.splitOn "ret=0").length > 1 then drops := drops + 1
        injected := injected + (evs.splitOn "[@").length - 1
        if mobs ≠ obsS then
          IO.println s!"MISMATCH case={id} line={lineNo}: {opS} impl=[{obsS}] model=[{mobs}]"
          mism := mism + 1
        st := some s2
  if st.isSome then IO.println s!"TRACE {id} lines={total} polls={polls} writes={writes} parks={parks} drops={drops} injected={injected}"
  IO.println s!"DONE traces={traces} mismatches={mism}"
  return (if mism == 0 then 0 else 1)

def main : List String → IO UInt32
  | ["trace"] => runTrace
  | _ => do IO.println "usage: driver backend trace"; return 2

end Drv.Backend
