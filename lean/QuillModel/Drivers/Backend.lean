import QuillModel.Backend.Sched
import QuillModel.Drivers.Util
/-!
Correspondence driver for the backend model: replays the script executed by `harness/h2_backend.cpp` on
`Backend.poll` / the frontend calls and compares every observation line.
-/
namespace Drv.Backend
open _root_.Backend _root_.Spsc Drv

def kv (w : String) : Option (String × String) :=
  match w.splitOn "=" with
  | [k, v] => some (k, v)
  | _ => none

def natList (s : String) : List Nat := (s.splitOn ",").filterMap (fun x => if x.isEmpty then none else x.toNat?)

def showEv : Ev → String
  | .write s i l t n => s!"w:{s}:{i}:{l}:{t}{if n then ":na1" else ""}"
  | .wthrow s i => s!"wthrow:{s}:{i}"
  | .flushed s => s!"fl:{s}"
  | .fthrow s => s!"fthrow:{s}"
  | .notify m => m
  | .sinkDtor s => s!"sinkdtor:{s}"
  | .inj site k op res => s!"[@{site}.{k} {op} -> {res}]"

def takeEvents (s : BSt) : BSt × String :=
  ({ s with out := [] }, " ".intercalate (s.out.reverse.map showEv))

def idleActor (s : BSt) (a : Nat) : Bool :=
  match s.actor a with
  | some x => (match x.pend with | .none => true | _ => false)
  | none => false

/-- current usable logger object of `gid` -/
def loggerOf (s : BSt) (gid : Nat) : Option Nat :=
  match s.names.find? (·.1 = gid) with
  | some (_, i) => if (s.lgOf i).valid ∧ !(s.lgOf i).erased then some i else none
  | none => none

def dropName (s : BSt) (gid : Nat) : BSt := { s with names := s.names.filter (·.1 ≠ gid) }

/-- is some live actor parked inside a public call through logger `gid`? (then `remove_logger` is outside its contract) -/
def loggerBusy (s : BSt) (gid : Nat) : Bool :=
  s.actors.any (fun x => x.alive && x.inCall == some gid && (match x.pend with | .none => false | _ => true))

/-- bookkeeping after an operation of actor `a` through logger `gid`: remember the logger while the call is parked -/
def noteCall (r : BSt × String) (a gid : Nat) : BSt × String :=
  let parked := match (r.1.actor a).map (·.pend) with | some .none => false | some _ => true | none => false
  (r.1.setActor a (fun x => { x with inCall := if parked then some gid else none }), r.2)

/-- frontend operations (everything except `P` and `X`) -/
def execFront0 (s : BSt) (w : List String) : BSt × String :=
  match w with
  | ["K", dt] => ({ s with now := s.now + nat! dt }, "ok")
  | ["T", a, "start"] =>
    let a := nat! a
    if (s.actor a).isSome then (s, "noop") else ({ s with actors := s.actors ++ [{ id := a }] }, "ok")
  | ["T", a, "exit"] =>
    let a := nat! a
    if !idleActor s a then (s, "noop") else
    let ctx := (s.actor a).bind (·.ctx)
    let s1 := s.setActor a (fun x => { x with alive := false })
    match ctx with
    | some i => ({ s1.setTh i (fun t => { t with valid := false }) with
                   invalidCnt := counterMod s.cfg (s.invalidCnt + 1) }, "ok")
    | none => (s1, "ok")
  | ["R", a] => resume s (nat! a)
  | ["ST", a] =>
    if idleActor s (nat! a) then (s.setActor (nat! a) (fun x => { x with stallArmed := true }), "ok") else (s, "noop")
  | [op, a, g, p3, p4] =>
    let a := nat! a
    if op == "L" || op == "LS" then
      match loggerOf s (nat! g), idleActor s a with
      | some lgi, true =>
        let id := s.nextId
        let s1 := { s with nextId := id + 1 }
        let lvl := nat! p3
        if shouldLog lvl (s1.lgOf lgi).level then
          frontCall s1 a lgi .log lvl (nat! p4) (if op == "L" then 0 else 5) (op == "L") id
        else (s1, if op == "L" then s!"id={id} skip ev=0 bytes=0" else s!"id={id} ev=0 bytes=0")
      | _, _ => (s, "noop")
    else if op == "IB" then
      match loggerOf s (nat! g), idleActor s a with
      | some lgi, true => frontCall s a lgi (.initBt (nat! p3) (nat! p4)) 8 0 2 false 0
      | _, _ => (s, "noop")
    else (s, "bad-op")
  | ["LN", a, g, len] =>
    let a := nat! a
    match loggerOf s (nat! g), idleActor s a with
    | some lgi, true =>
      let id := s.nextId
      let s1 := { s with nextId := id + 1 }
      if shouldLog 4 (s1.lgOf lgi).level then frontCall s1 a lgi .log 4 (nat! len) 5 false id true
      else (s1, s!"id={id} ev=0 bytes=0")
    | _, _ => (s, "noop")
  | ["LB", a, g, len] =>
    let a := nat! a
    match loggerOf s (nat! g), idleActor s a with
    | some lgi, true =>
      let id := s.nextId
      let s1 := { s with nextId := id + 1 }
      if shouldLog 9 (s1.lgOf lgi).level then frontCall s1 a lgi .log 9 (nat! len) 5 false id
      else (s1, s!"id={id} ev=0 bytes=0")
    | _, _ => (s, "noop")
  | [op, a, g] =>
    let a := nat! a
    let gid := nat! g
    if op == "FB" || op == "F" || op == "RB" || op == "RL" then
      match loggerOf s gid, idleActor s a with
      | some lgi, true =>
        if op == "FB" then frontCall s a lgi .flushBt 8 0 3 false 0
        else if op == "F" then
          let f := s.nextFlag
          frontCall { s with nextFlag := f + 1 } a lgi (.flush f) 8 0 1 false 0
        else if loggerBusy s gid then (s, "noop")
        else if op == "RB" then
          let f := s.nextFlag
          frontCall (dropName { s with nextFlag := f + 1 } gid) a lgi (.removal f) 8 0 4 false 0
        else
          let s1 := (dropName s gid).setLg lgi (fun l => { l with valid := false })
          ({ s1 with hasInvalidLoggers := true }, "done")
      | _, _ => (s, "noop")
    else if op == "SL" then
      -- SL g lvl  (here a = g, g = lvl)
      match loggerOf s a with
      | some lgi => (s.setLg lgi (fun l => { l with level := gid }), "ok")
      | none => (s, "noop")
    else if op == "SS" then
      if (s.sinks.any (fun k => k.sid = a ∧ k.alive)) then (s.setSink a (fun k => { k with lvl := gid }), "ok") else (s, "noop")
    else (s, "bad-op")
  | ["CL", a, g, sids] =>
    let a := nat! a
    let gid := nat! g
    let sl := natList sids
    if !idleActor s a ∨ loggerBusy s gid ∨ sl.any (fun sid => !(s.sinks.any (fun k => k.sid = sid ∧ k.alive))) then (s, "noop") else
    let existing := (List.range s.lgs.length).find? (fun i => (s.lgOf i).gid = gid ∧ !(s.lgOf i).erased)
    match existing with
    | some i =>
      let l := s.lgOf i
      if !l.valid then (s, "noop") else   -- outside the contract until the backend has erased the old logger
      ({ dropName s gid with names := (dropName s gid).names ++ [(gid, i)] },
       s!"ok valid=1 nsinks={l.sinks.length}")
    | none =>
      let i := s.lgs.length
      ({ dropName s gid with lgs := s.lgs ++ [{ gid := gid, sinks := sl }], names := (dropName s gid).names ++ [(gid, i)] },
       s!"ok valid=1 nsinks={sl.length}")
  | ["DS", sid] =>
    let sid := nat! sid
    (reapSinks (s.setSink sid (fun k => { k with userRef := false })) [sid], "ok")
  | ["Q"] =>
    (s, s!"contexts={s.registry.length} loggers={(s.lgs.filter (fun l => !l.erased)).length}")
  | _ => (s, "bad-op")

def execFront (s : BSt) (w : List String) : BSt × String :=
  let r := execFront0 s w
  if r.2 == "noop" || r.2 == "bad-op" then r else
  match w with
  | ["R", a] =>
    let a := nat! a
    let parked := match (r.1.actor a).map (·.pend) with | some .none => false | some _ => true | none => false
    if parked then r else (r.1.setActor a (fun x => { x with inCall := none }), r.2)
  | [op, a, g, _, _] => if op == "L" || op == "LS" || op == "IB" then noteCall r (nat! a) (nat! g) else r
  | ["LB", a, g, _] => noteCall r (nat! a) (nat! g)
  | ["LN", a, g, _] => noteCall r (nat! a) (nat! g)
  | [op, a, g] => if op == "FB" || op == "F" || op == "RB" then noteCall r (nat! a) (nat! g) else r
  | _ => r

/-- the injection runner handed to `poll` -/
def inj (s : BSt) (site : Nat) : BSt :=
  let k := ((s.siteCnt.find? (·.1 = site)).map (·.2)).getD 0 + 1
  let s1 := { s with siteCnt := (site, k) :: s.siteCnt.filter (·.1 ≠ site) }
  match s1.inject.find? (fun x => x.1 = site ∧ x.2.1 = k) with
  | none => s1
  | some (_, _, ops) =>
    ops.foldl (fun s w =>
      let r := match w with
        | "P" :: _ => (s, "noop")
        | "X" :: _ => (s, "noop")
        | _ => execFront s w
      r.1.emit (.inj site k ("_".intercalate w) r.2)) s1

/-- `@site.k=op_with_underscores,op…` -/
def parseInject (w : String) : Option (Nat × Nat × List (List String)) :=
  if !w.startsWith "@" then none else
  match (String.ofList (w.toList.drop 1)).splitOn "=" with
  | [sk, ops] =>
    match sk.splitOn "." with
    | [a, b] => some (nat! a, nat! b, (ops.splitOn ",").map (fun o => o.splitOn "_"))
    | _ => none
  | _ => none

def exec (s : BSt) (w : List String) : BSt × String :=
  match w with
  | "P" :: rest =>
    if s.backendGone then (s, "noop") else
    let s1 := { s with siteCnt := [], inject := rest.filterMap parseInject }
    ({ poll inj s1 with inject := [] }, "ev")
  | ["X"] =>
    if s.backendGone then (s, "noop") else
    let s1 := { s with siteCnt := [], inject := [] }
    ({ exitLoop inj 1000 100000 s1 with backendGone := true }, "ev")
  | _ => execFront s w

structure Setup where
  grace : Nat := 0
  soft : Nat := 4096
  hard : Nat := 32768
  dropping : Bool := false
  qcap : Nat := 512
  drain : Bool := true
  invalidBits : Nat := 32
  refreshAfter : Bool := true
  catchAll : Bool := true
  batchPct : Nat := 5
  reportFlush : Bool := true
  sinks : List Sink := []
  lgs : List Lg := []

def mkState (u : Setup) (hdr strOv now : Nat) : BSt :=
  let qp : Params := { wStore := .release, wLoad := .acquire, rStore := .release, rLoad := .acquire, drainPublish := u.drain }
  { cfg := { dropping := u.dropping, qcap := u.qcap, grace := u.grace, soft := u.soft, hard := u.hard, hdr := hdr,
             strOverhead := strOv, batchPct := u.batchPct, qp := qp, invalidBits := u.invalidBits,
             refreshAfterSample := u.refreshAfter, catchAllFormat := u.catchAll,
             reportBeforeFlushCleanup := u.reportFlush },
    now := now, sinks := u.sinks, lgs := u.lgs,
    names := (List.range u.lgs.length).map (fun i => ((u.lgs.getD i default).gid, i)) }

def runTrace : IO UInt32 := do
  let stdin ← IO.getStdin
  let lines ← Drv.readLines stdin
  let mut u : Setup := {}
  let mut st : Option BSt := none
  let mut mism := 0
  let mut total := 0
  let mut polls := 0
  let mut writes := 0
  let mut parks := 0
  let mut drops := 0
  let mut injected := 0
  let mut lineNo := 0
  let mut id := "-"
  let mut traces := 0
  for line in lines do
    lineNo := lineNo + 1
    if line.isEmpty || line.startsWith "#" then continue
    let (opS, obsS) := Drv.splitArrow line
    let w := Drv.words opS
    match w with
    | "case" :: name :: _ =>
      if st.isSome then IO.println s!"TRACE {id} lines={total} polls={polls} writes={writes} parks={parks} drops={drops} injected={injected}"
      id := name; u := {}; st := none; traces := traces + 1
      total := 0; polls := 0; writes := 0; parks := 0; drops := 0; injected := 0
    | "params" :: rest =>
      for x in rest do
        match kv x with
        | some ("drain", v) => u := { u with drain := v == "1" }
        | some ("invalidBits", v) => u := { u with invalidBits := nat! v }
        | some ("refreshAfterSample", v) => u := { u with refreshAfter := v == "1" }
        | some ("catchAll", v) => u := { u with catchAll := v == "1" }
        | some ("batchPct", v) => u := { u with batchPct := nat! v }
        | some ("reportFlush", v) => u := { u with reportFlush := v == "1" }
        | _ => pure ()
    | "cfg" :: rest =>
      for x in rest ++ Drv.words obsS do
        match kv x with
        | some ("grace", v) => u := { u with grace := nat! v * 1000 }
        | some ("soft", v) => u := { u with soft := nat! v }
        | some ("hard", v) => u := { u with hard := nat! v }
        | some ("variant", v) => u := { u with dropping := (nat! v) % 2 == 1 }
        | some ("qcap", v) => u := { u with qcap := nat! v }
        | _ => pure ()
    | "sink" :: sid :: rest =>
      let mut k : Sink := { sid := nat! sid }
      for x in rest do
        match kv x with
        | some ("lvl", v) => k := { k with lvl := nat! v }
        | some ("filt", v) =>
          match v.splitOn ":" with
          | [m, r] => k := { k with filtM := nat! m, filtR := nat! r }
          | _ => pure ()
        | some ("wthrow", v) => k := { k with wthrow := natList v }
        | some ("fthrow", v) => k := { k with fthrow := natList v }
        | _ => pure ()
      u := { u with sinks := u.sinks ++ [k] }
    | "logger" :: g :: rest =>
      let mut l : Lg := { gid := nat! g }
      for x in rest do
        match kv x with
        | some ("sinks", v) => l := { l with sinks := natList v }
        | some ("lvl", v) => l := { l with level := nat! v }
        | _ => pure ()
      u := { u with lgs := u.lgs ++ [l] }
    | ["start"] =>
      let mut s10 := 46
      let mut s30 := 66
      let mut now := 0
      for x in Drv.words obsS do
        match kv x with
        | some ("static10", v) => s10 := nat! v
        | some ("static30", v) => s30 := nat! v
        | some ("now", v) => now := nat! v
        | _ => pure ()
      -- size = hdr + strOverhead + len ; the string overhead is the 4-byte length prefix
      let strOv := 4
      let hdr := s10 - 10 - strOv
      if s30 - s10 ≠ 20 then IO.println s!"CALIBRATION-UNEXPECTED static10={s10} static30={s30}"; mism := mism + 1
      st := some (mkState u hdr strOv now)
    | _ =>
      match st with
      | none => IO.println s!"NOT-STARTED line {lineNo}: {line}"; mism := mism + 1
      | some s =>
        let (s1, res) := exec { s with out := [] } w
        let (s2, evs) := takeEvents s1
        let mobs := if evs.isEmpty then res else s!"{res} | {evs}"
        total := total + 1
        if w.head? == some "P" then polls := polls + 1
        writes := writes + (evs.splitOn "w:").length - 1
        if (mobs.splitOn "parked").length > 1 then parks := parks + 1
        if (mobs.splitOn "ret=0").length > 1 then drops := drops + 1
        injected := injected + (evs.splitOn "[@").length - 1
        if mobs ≠ obsS then
          IO.println s!"MISMATCH case={id} line={lineNo}: {opS} impl=[{obsS}] model=[{mobs}]"
          mism := mism + 1
        st := some s2
  if st.isSome then IO.println s!"TRACE {id} lines={total} polls={polls} writes={writes} parks={parks} drops={drops} injected={injected}"
  IO.println s!"DONE traces={traces} mismatches={mism}"
  return (if mism == 0 then 0 else 1)

def main : List String → IO UInt32
  | ["trace"] => runTrace
  | _ => do IO.println "usage: driver backend trace"; return 2

end Drv.Backend
