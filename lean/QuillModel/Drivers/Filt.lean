import QuillModel.Filt.Model
import QuillModel.Drivers.Util
/-! Correspondence driver for the filter machinery of `Sink`: replays the step lines of `harness/h1_filters.cpp` on
`Filt.step` — every step must be enabled in the model (pc, legality of the store index a load returned) and every
observation (value read, lock acquired or not, `_global_filters` / `_local_filters` after a change, popped statement,
verdict) is recomputed. The value of the lock's relaxed test loads is not modelled (`spin` is a stutter step). -/
namespace Drv.Filt
open _root_.Filt Drv

def moOf (s : String) : Spsc.MO :=
  match s with
  | "relaxed" => .relaxed | "consume" => .consume | "acquire" => .acquire | "release" => .release
  | "acq_rel" => .acqrel | _ => .seqcst

def kvOf (ws : List String) (key : String) : Option String :=
  (ws.find? (fun w => w.startsWith (key ++ "="))).map (fun w => (w.drop (key.length + 1)).toString)

def listText (l : List Nat) : String :=
  if l.isEmpty then "-" else ",".intercalate (l.map toString)

def tidOf (w : String) : Option Nat :=
  if w == "B" then some 0
  else if w.startsWith "A" then (w.drop 1).toString.toNat? else none

def b01 (b : Bool) : String := if b then "1" else "0"

/-- the model operation a step line stands for -/
def opOf (p : Params) (opW obsW : List String) : Option (Option Op) :=
  match opW with
  | [_, "step"] => some none
  | [t, "begin", "add", f] => (tidOf t).map fun u => some (.beginAdd u (nat! f))
  | [t, "begin", "lvl", l] => (tidOf t).map fun u => some (.beginLvl u (nat! l))
  | [t, "begin", "log", k, lv] => (tidOf t).map fun u => some (.beginLog u (nat! k) (nat! lv))
  | ["B", "begin", "poll", u] => some (some (.beginPoll (nat! u)))
  | [t, "load", "lock", _] =>
    (tidOf t).map fun u => if p.tryLock && u == 0 && obsW.head? == some "v=1" then some .tryFail else some (.spin u)
  | [t, "xchg", "lock"] => (tidOf t).map fun u => some (.xchg u)
  | [t, "store", "lock", "0"] => (tidOf t).map fun u => some (.unlock u)
  | [t, "store", "newf", "1"] => (tidOf t).map fun u => some (.setFlag u)
  | ["B", "store", "newf", "0"] => some (some .reset)
  | [t, "store", "lvl", _] => (tidOf t).map fun u => some (.storeLvl u)
  | ["B", "load", "lvl", j] => some (some (.loadLvl (nat! j)))
  | ["B", "load", "newf", j] => some (some (.loadFlag (nat! j)))
  | ["B", "load", q, _] =>
    if q.startsWith "q" then (kvOf obsW "v").map fun n => some (.pollLoad (nat! n)) else none
  | [t, "store", q, _] => if q.startsWith "q" then (tidOf t).map fun u => some (.logStore u) else none
  | _ => none

/-- the observation the model predicts for `op` from `s` (`implFirst` = the implementation's first token, copied for `spin`) -/
def obsOf (s s' : St) (op : Op) (implFirst : String) : String :=
  let acc : List String := match op with
    | .spin _ => [implFirst]
    | .tryFail => ["v=1"]
    | .xchg _ => ["old=" ++ b01 s.lock.locked]
    | .setFlag _ => [s!"idx={s.hlen}"]
    | .reset => [s!"idx={s.hlen}"]
    | .storeLvl _ => [s!"idx={s.llen}"]
    | .pollLoad n => [s!"v={n}"]
    | .loadLvl j => [s!"v={s.lval j}"]
    | .loadFlag j => ["v=" ++ b01 (s.hval j)]
    | _ => []
  let d1 := if s'.glob ≠ s.glob then ["glob=" ++ listText s'.glob] else []
  let d2 := if s'.loc ≠ s.loc then ["loc=" ++ listText s'.loc] else []
  let evNew : List String :=
    if s'.evals.length > s.evals.length then
      match s'.evals.head? with
      | some e => ["verdict=" ++ b01 e.verdict]
      | none => []
    else []
  let ev : List String := match op with
    | .unlock t => if t = 0 then evNew else ["ret"]
    | .storeLvl _ => ["ret"]
    | .logStore _ => ["ret"]
    | .pollLoad _ =>
      if s'.bpc = .idle then ["empty"] else [s!"pop {s'.curK} {s'.curLv}"]
    | _ => evNew
  let all := acc ++ d1 ++ d2 ++ ev
  if all.isEmpty then "ok" else " ".intercalate all

def goodB (e : EvalRec) : Bool :=
  decide (e.lvlFloor ≤ e.lvlIdx) &&
  (if e.reached then
     decide (e.sinkLvl ≤ e.lv) && (e.verdict == e.used.all (fun F => accepts F e.k)) &&
       e.done.all (fun F => e.used.contains F) && e.used.all (fun F => e.started.contains F)
   else decide (e.lv < e.sinkLvl) && !e.verdict)

def runTrace : IO UInt32 := do
  let stdin ← IO.getStdin
  let lines ← Drv.readLines stdin
  let mut p : Params := { lock := { xchg := .acquire, unl := .release }, resetBeforeCopy := false, tryLock := false }
  let mut s : St := init 1 0
  let mut id := "-"
  let mut traces := 0
  let mut n := 0
  let mut total := 0
  let mut mism := 0
  let mut mviol := 0
  let mut evals := 0
  let mut stale := 0
  let mut spins := 0
  let mut lineNo := 0
  let mut dead := false   -- after a mismatch the rest of the trace is skipped
  for line in lines do
    lineNo := lineNo + 1
    if line.isEmpty || line.startsWith "#" || line.startsWith "ORACLE" || line.startsWith "STATS" ||
       line.startsWith "ORDERS-SEEN" || line.startsWith "prog" || line.startsWith "sched" then continue
    let ws := Drv.words line
    match ws with
    | "params" :: rest =>
      let lk : Spin.Orders := { xchg := moOf ((kvOf rest "xchg").getD "seq_cst"), unl := moOf ((kvOf rest "unl").getD "seq_cst") }
      p := { lock := lk, resetBeforeCopy := (kvOf rest "rbc").getD "0" == "1", tryLock := (kvOf rest "try").getD "0" == "1" }
    | "init" :: name :: rest =>
      id := name
      s := init (nat! ((kvOf rest "n").getD "1")) (nat! ((kvOf rest "lvl0").getD "0"))
      traces := traces + 1; n := 0; evals := 0; stale := 0; spins := 0; dead := false
    | "end" :: _ =>
      IO.println s!"TRACE {id} lines={n} evals={evals} stale={stale} spins={spins} races={s.races} ok={if dead then 0 else 1}"
    | _ =>
      if dead then continue
      let (opS, obsS) := Drv.splitArrow line
      let obsW := Drv.words obsS
      match opOf p (Drv.words opS) obsW with
      | none =>
        IO.println s!"MISMATCH trace={id} line={lineNo}: unrecognised step [{opS}] (the code performs an access the model has no step for) impl=[{obsS}]"
        mism := mism + 1; dead := true
      | some none => n := n + 1; total := total + 1
      | some (some op) =>
        n := n + 1; total := total + 1
        if ¬ enabled p s op then
          IO.println s!"MISMATCH trace={id} line={lineNo}: {opS} impl=[{obsS}] model=[step not enabled: {repr op}]"
          mism := mism + 1; dead := true
        else
          let s' := step p s op
          let o := obsOf s s' op (obsW.head?.getD "")
          match op with
          | .spin _ => spins := spins + 1
          | .loadLvl j => if j + 1 < s.llen then stale := stale + 1
          | .loadFlag j => if j + 1 < s.hlen then stale := stale + 1
          | _ => pure ()
          if s'.evals.length > s.evals.length then
            evals := evals + 1
            match s'.evals.head? with
            | some e =>
              if !goodB e || e.leaked then
                IO.println s!"MODEL-VIOLATION trace={id} line={lineNo}: stmt={e.k} verdict={b01 e.verdict} done={listText e.done} used={listText e.used} started={listText e.started}"
                mviol := mviol + 1
            | none => pure ()
          if s'.races > s.races then
            IO.println s!"MODEL-VIOLATION trace={id} line={lineNo}: racy access of _global_filters in the model"
            mviol := mviol + 1
          if o ≠ obsS then
            IO.println s!"MISMATCH trace={id} line={lineNo}: {opS} impl=[{obsS}] model=[{o}]"
            mism := mism + 1; dead := true
          s := s'
  IO.println s!"DONE traces={traces} lines={total} mismatches={mism} model_violations={mviol}"
  return (if mism == 0 then 0 else 1)

def main : List String → IO UInt32
  | ["trace"] => runTrace
  | _ => do IO.println "usage: driver filt trace"; return 2

end Drv.Filt
