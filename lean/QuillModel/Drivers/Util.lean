/-! Line-protocol helpers shared by the model drivers (no proofs here). -/
namespace Drv

def words (line : String) : List String :=
  (line.trimAscii.toString.splitOn " ").filter (· ≠ "")

/-- split "op ... => obs ..." -/
def splitArrow (line : String) : String × String :=
  match line.splitOn " => " with
  | [a] => (a.trimAscii.toString, "")
  | a :: b :: _ => (a.trimAscii.toString, b.trimAscii.toString)
  | [] => ("", "")

partial def readLines (h : IO.FS.Stream) (acc : Array String := #[]) : IO (Array String) := do
  let line ← h.getLine
  if line.isEmpty then return acc
  readLines h (acc.push (line.trimAscii.toString))

def nat! (s : String) : Nat := s.toNat?.getD 0

def hexDigit (n : Nat) : Char :=
  if n < 10 then Char.ofNat (48 + n) else Char.ofNat (87 + n)

def hexByte (b : Nat) : String := String.ofList [hexDigit (b / 16 % 16), hexDigit (b % 16)]

def hexOf (bs : List Nat) : String := String.join (bs.map hexByte)

def hexVal (c : Char) : Option Nat :=
  if '0' ≤ c ∧ c ≤ '9' then some (c.toNat - 48)
  else if 'a' ≤ c ∧ c ≤ 'f' then some (c.toNat - 87)
  else if 'A' ≤ c ∧ c ≤ 'F' then some (c.toNat - 55)
  else none

def unhex (s : String) : Option (List Nat) :=
  let rec go : List Char → List Nat → Option (List Nat)
    | [], acc => some acc.reverse
    | [_], _ => none
    | a :: b :: rest, acc =>
      match hexVal a, hexVal b with
      | some x, some y => go rest ((x * 16 + y) :: acc)
      | _, _ => none
  go s.toList []

end Drv
