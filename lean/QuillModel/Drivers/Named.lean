import QuillModel.NamedArgs.Model
import QuillModel.Extracted.Named
import QuillModel.Drivers.Util
/-!
Correspondence driver for C19. Input: the lines printed by `harness/h3_named.cpp`.

* `scan <hexT> <pieces|-> => <flag> <hexPositional> <keys>` — the real `_contains_named_args` and
  `_process_named_args_format_message` on one template; the driver recomputes all three with `Named.containsNamedArgs`
  / `Named.process`. When the piece structure is given it also checks `render pieces = template`, evaluates the
  class predicates (`wf`, `procOK`, `detectOK`) and re-checks the two theorems' conclusions on that instance; a `CLS`
  line is printed for every template outside one of the good classes.
* `e2e-init <hexSeparator>`, `san b`, `cache-clear`, `log <id> <vals> <hexT> <san> <thr> <fv,…> => msg=… pairs=… hdr=… json=…`,
  `cache-dump => …` — the real backend + recording sink + `JsonFileSink`; the driver runs `Named.backendStep` with its
  own cache and `Named.jsonLine` with the extracted layout.
* `jf-begin <case>`, `jlog <id> <vals> <ok|gen:<k>|write> <hexT> pairs=… hdr=… => wrote=<hex|-> reports=<n>`, `jf-end <case>` —
  a `JsonFileSink` subclass whose `generate_json_message` override throws after `k` bytes of the record, or whose
  `before_write` hook throws; the driver runs `Named.jsonWrite` (the sink's line buffer across statements) with the
  extracted position of `_json_message.clear()` and compares the bytes that reached the file and the reports.
-/
namespace Drv.Named
open _root_.Named

def ofBytes (bs : List Nat) : Str := bs.map Char.ofNat
def strOfHex (h : String) : Option Str := if h == "-" then some [] else (Drv.unhex h).map ofBytes
def hexOfStr (s : Str) : String := Drv.hexOf (s.map Char.toNat)
def hexOrDash (s : Str) : String := if s.isEmpty then "-" else hexOfStr s

def encKeys (ks : List (Str × Str)) : String :=
  if ks.isEmpty then "-" else ",".intercalate (ks.map (fun kv => hexOfStr kv.1 ++ "/" ++ hexOfStr kv.2))

def decPiece (w : String) : Option Piece :=
  if w == "O" then some .escOpen
  else if w == "C" then some .escClose
  else match w.toList with
    | 'T' :: rest =>
      match strOfHex (String.ofList rest) with
      | some [c] => some (.text c)
      | _ => none
    | 'F' :: rest =>
      match (String.ofList rest).splitOn ":" with
      | [n] => (Drv.unhex n).map (fun b => .field (ofBytes b) none)
      | [n, s] => do
        let nb ← Drv.unhex n
        let sb ← Drv.unhex s
        pure (.field (ofBytes nb) (some (ofBytes sb)))
      | _ => none
    | _ => none

def decPieces (s : String) : Option (List Piece) :=
  if s == "-" then some [] else (s.splitOn ",").mapM decPiece

def decPairs (s : String) : Option (List (Str × Str)) :=
  if s == "-" then some []
  else (s.splitOn ",").mapM (fun item =>
    match item.splitOn "/" with
    | [k, v] => do
      let kb ← Drv.unhex k
      let vb ← Drv.unhex v
      pure (ofBytes kb, ofBytes vb)
    | _ => none)

def faultOf (w : String) : Option JFault :=
  if w == "ok" then some .none
  else if w == "write" then some .write
  else match w.splitOn ":" with
    | ["gen", k] => k.toNat?.map .generate
    | _ => none

structure Tot where
  lines : Nat := 0
  mismatches : Nat := 0
  problems : Nat := 0
  scan : Nat := 0
  scanGrammar : Nat := 0
  scanGoodBoth : Nat := 0
  scanBadProc : Nat := 0
  scanBadDetect : Nat := 0
  scanNamed : Nat := 0
  thmChecked : Nat := 0
  logs : Nat := 0
  logsNamed : Nat := 0
  logsErr : Nat := 0
  cacheHits : Nat := 0
  cacheMisses : Nat := 0
  dumps : Nat := 0
  segments : Nat := 0

def b01 (b : Bool) : String := if b then "1" else "0"

/-- one `scan` line; returns model observation and extra output lines -/
def scanLine (lineNo : Nat) (hexT pieces : String) (t : Tot) : Option (String × List String × Tot) := do
  let tm ← strOfHex hexT
  let flag := containsNamedArgs tm
  let r := process tm
  let obs := s!"{b01 flag} {hexOrDash r.1} {encKeys r.2}"
  let mut out : List String := []
  let mut t := { t with scan := t.scan + 1 }
  if pieces != "-" || hexT == "-" then
    match decPieces pieces with
    | none => out := out ++ [s!"BAD-PIECES line {lineNo}: {pieces}"]; t := { t with problems := t.problems + 1 }
    | some ps =>
      t := { t with scanGrammar := t.scanGrammar + 1 }
      if render ps != tm then
        out := out ++ [s!"MISMATCH line={lineNo} render: pieces {pieces} do not render to {hexT}"]
        t := { t with mismatches := t.mismatches + 1 }
      let w := wf ps
      let p := procOK ps
      let d := detectOK ps
      let n := ps.any Piece.isNamed
      if n then t := { t with scanNamed := t.scanNamed + 1 }
      if !w then
        out := out ++ [s!"MISMATCH line={lineNo} wf: pieces {pieces} are not well-formed for the model's grammar"]
        t := { t with mismatches := t.mismatches + 1 }
      if w && p then
        t := { t with thmChecked := t.thmChecked + 1 }
        if r != (render (ps.map Piece.erase), keysOf ps) then
          out := out ++ [s!"THEOREM-INSTANCE-FAILS C19_positional_partial line={lineNo} tmpl={hexT}"]
          t := { t with problems := t.problems + 1 }
      if w && d then
        t := { t with thmChecked := t.thmChecked + 1 }
        if flag != n then
          out := out ++ [s!"THEOREM-INSTANCE-FAILS C19_detect_partial line={lineNo} tmpl={hexT}"]
          t := { t with problems := t.problems + 1 }
      if w && p && d then t := { t with scanGoodBoth := t.scanGoodBoth + 1 }
      else
        if !p then t := { t with scanBadProc := t.scanBadProc + 1 }
        if !d then t := { t with scanBadDetect := t.scanBadDetect + 1 }
        out := out ++ [s!"CLS {hexOrDash tm} wf={b01 w} procOK={b01 p} detectOK={b01 d} named={b01 n}"]
  pure (obs, out, t)

def kvOf (w : String) : String × String :=
  match w.splitOn "=" with
  | [k, v] => (k, v)
  | k :: rest => (k, "=".intercalate rest)
  | [] => ("", "")

def encCache (c : Cache) : String :=
  if c.isEmpty then "-" else
  let ents := c.map (fun e => hexOrDash e.1 ++ ":" ++ hexOrDash e.2.1 ++ ":" ++ encKeys e.2.2)
  " ".intercalate (ents.toArray.qsort (· < ·)).toList

def run : IO UInt32 := do
  let stdin ← IO.getStdin
  let lines ← Drv.readLines stdin
  let mut t : Tot := {}
  let mut sep : Str := Extracted.separator
  let mut cache : Cache := []
  let mut lineNo := 0
  let mut segLogs := 0
  let mut segHits := 0
  -- the throwing JSON sink: its buffer, and per-case counters
  let mut jsink : JSink := {}
  let mut jStmts := 0
  let mut jFaults := 0
  let mut jAfterFault := 0   -- non-faulted statements written right after a fault that left bytes in the buffer
  let mut jLeft := false
  let mut jCases := 0
  let mut jLines := 0
  for line in lines do
    lineNo := lineNo + 1
    if line.isEmpty || line.startsWith "#" || line.startsWith "ORACLE" || line.startsWith "STATS" then continue
    let (opS, obsS) := Drv.splitArrow line
    let ws := Drv.words opS
    match ws with
    | ["scan", hexT, pieces] =>
      t := { t with lines := t.lines + 1 }
      match scanLine lineNo hexT pieces t with
      | none => IO.println s!"BAD-OP line {lineNo}: {line}"; t := { t with problems := t.problems + 1 }
      | some (mobs, out, t') =>
        t := t'
        for o in out do IO.println o
        if mobs != obsS then
          IO.println s!"MISMATCH line={lineNo} scan tmpl={hexT} impl=[{obsS}] model=[{mobs}]"
          t := { t with mismatches := t.mismatches + 1 }
    | ["e2e-init", sh] =>
      match strOfHex sh with
      | some s =>
        sep := s
        if s != Extracted.separator then
          IO.println s!"MISMATCH line={lineNo} separator: compiled {sh} differs from the extracted one {hexOfStr Extracted.separator}"
          t := { t with mismatches := t.mismatches + 1 }
      | none => IO.println s!"BAD-OP line {lineNo}: {line}"; t := { t with problems := t.problems + 1 }
    | ["san", _] => pure ()
    | ["cache-clear"] =>
      if segLogs > 0 then
        IO.println s!"TRACE seg{t.segments} logs={segLogs} cache_hits={segHits} cache_size={cache.length}"
      t := { t with segments := t.segments + 1 }
      segLogs := 0
      segHits := 0
      cache := []
    | ["cache-dump"] =>
      t := { t with lines := t.lines + 1, dumps := t.dumps + 1 }
      let m := encCache cache
      if m != obsS then
        IO.println s!"MISMATCH line={lineNo} cache-dump impl=[{obsS}] model=[{m}]"
        t := { t with mismatches := t.mismatches + 1 }
    | ["jf-begin", _cid] =>
      jsink := {}
      jStmts := 0
      jFaults := 0
      jAfterFault := 0
      jLeft := false
      jCases := jCases + 1
    | ["jf-end", cid] =>
      IO.println s!"TRACE jf{cid} stmts={jStmts} faults={jFaults} written_after_leftover={jAfterFault}"
    | ["jlog", id, _vals, fw, hexT, pairsW, hdrW] =>
      t := { t with lines := t.lines + 1 }
      jLines := jLines + 1
      jStmts := jStmts + 1
      let hdrOpt := (((hdrW.drop 4).toString).splitOn ",").mapM (fun h => (Drv.unhex h).map ofBytes)
      match faultOf fw, strOfHex hexT, decPairs ((pairsW.drop 6).toString), hdrOpt with
      | some f, some tm, some ps, some [ts, file, ln, tid, lg, lvl] =>
        let h : Hdr := { timestamp := ts, fileName := file, line := ln, threadId := tid, logger := lg, logLevel := lvl }
        let record := jsonRecord Extracted.jsonLayout h tm (some ps)
        let s0 : JSink := { jsink with file := [] }
        let s1 := jsonWrite Extracted.jsonSinkParams s0 record f
        let mobs := s!"wrote={hexOrDash s1.file} reports={s1.reports - jsink.reports}"
        if f != .none then jFaults := jFaults + 1
        if f == .none && jLeft then jAfterFault := jAfterFault + 1
        -- what a sink that never clears first would have found in its buffer
        jLeft := match f with
          | .generate k => k > 0 || (jLeft && f != .none)
          | .write => true
          | .none => false
        jsink := s1
        if mobs != obsS then
          IO.println s!"MISMATCH line={lineNo} jlog id={id} fault={fw} impl=[{obsS}] model=[{mobs}]"
          t := { t with mismatches := t.mismatches + 1 }
      | _, _, _, _ => IO.println s!"BAD-OP line {lineNo}: {line}"; t := { t with problems := t.problems + 1 }
    | ["log", id, _vals, hexT, san, thr, fvs] =>
      t := { t with lines := t.lines + 1, logs := t.logs + 1 }
      segLogs := segLogs + 1
      let fvOpt : Option (List Str) := if fvs == "-" then some [] else (fvs.splitOn ",").mapM (fun h => (Drv.unhex (h.drop 1).toString).map ofBytes)
      match strOfHex hexT, fvOpt with
      | some tm, some fv =>
        let hit := (cache.lookup tm).isSome
        let r := backendStep sep (san == "1") (thr == "1") cache tm fv
        cache := r.2
        let named := r.1.pairs.isSome
        if named then
          t := { t with logsNamed := t.logsNamed + 1 }
          if hit then
            t := { t with cacheHits := t.cacheHits + 1 }
            segHits := segHits + 1
          else t := { t with cacheMisses := t.cacheMisses + 1 }
        let mmsg := match r.1.msg with | none => "ERR" | some m => hexOfStr m
        if r.1.msg.isNone then t := { t with logsErr := t.logsErr + 1 }
        let mpairs := match r.1.pairs with | none => "-" | some ps => encKeys ps
        let kvs := (Drv.words obsS).map kvOf
        let get := fun (k : String) => (kvs.lookup k).getD "?"
        if get "msg" != mmsg then
          IO.println s!"MISMATCH line={lineNo} log id={id} tmpl={hexT} msg impl=[{get "msg"}] model=[{mmsg}]"
          t := { t with mismatches := t.mismatches + 1 }
        if get "pairs" != mpairs then
          IO.println s!"MISMATCH line={lineNo} log id={id} tmpl={hexT} pairs impl=[{get "pairs"}] model=[{mpairs}]"
          t := { t with mismatches := t.mismatches + 1 }
        match ((get "hdr").splitOn ",").mapM (fun h => (Drv.unhex h).map ofBytes) with
        | some [ts, file, ln, tid, lg, lvl] =>
          let h : Hdr := { timestamp := ts, fileName := file, line := ln, threadId := tid, logger := lg, logLevel := lvl }
          let mjson := hexOfStr (jsonLine Extracted.jsonLayout h tm r.1.pairs)
          if get "json" != mjson then
            IO.println s!"MISMATCH line={lineNo} log id={id} tmpl={hexT} json impl=[{get "json"}] model=[{mjson}]"
            t := { t with mismatches := t.mismatches + 1 }
        | _ =>
          IO.println s!"MISMATCH line={lineNo} log id={id} tmpl={hexT} observation has no header: [{obsS}]"
          t := { t with mismatches := t.mismatches + 1 }
      | _, _ => IO.println s!"BAD-OP line {lineNo}: {line}"; t := { t with problems := t.problems + 1 }
    | _ => IO.println s!"BAD-OP line {lineNo}: {line}"; t := { t with problems := t.problems + 1 }
  if segLogs > 0 then
    IO.println s!"TRACE seg{t.segments} logs={segLogs} cache_hits={segHits} cache_size={cache.length}"
  if t.scan > 0 then
    IO.println s!"TRACE scan lines={t.scan} in_grammar={t.scanGrammar} good_both={t.scanGoodBoth} outside_procOK={t.scanBadProc} outside_detectOK={t.scanBadDetect} with_named_field={t.scanNamed} theorem_instances_checked={t.thmChecked}"
  if jCases > 0 then
    IO.println s!"TRACE jsonfaults cases={jCases} statements={jLines}"
  IO.println s!"DONE lines={t.lines} mismatches={t.mismatches} problems={t.problems} scan={t.scan} logs={t.logs} logs_named={t.logsNamed} logs_err={t.logsErr} cache_hits={t.cacheHits} cache_misses={t.cacheMisses} cache_dumps={t.dumps} segments={t.segments}"
  return (if t.mismatches + t.problems == 0 then 0 else 1)

end Drv.Named

/-- `driver named` -/
def Drv.Named.main : List String → IO UInt32
  | _ => Drv.Named.run
