import QuillModel.Reg.Model
import QuillModel.Drivers.Util
/-!
Correspondence driver for the registration protocol and the failure counter. Input: the trace printed by
`harness/h1_reg.cpp` (a `params …` line with the extracted programs / orders / counter shape, then per schedule
`case <id> proto=P1|P2 n=<threads> [k=…]`, one `step t=<thread> c=<choice> => <access> | <state>` line per scheduler step of
the real classes under the atomic shim, and an `end => …` line). The driver replays every step on `Reg.step` / `Ctr.step`
(the definitions the theorems are about): the access the model expects next for that thread must be the one the real code
made, the index read by a load must be legal in the model (`Enabled`), the value read / written, the registered list, the
backend's cache, the set of returned registrations, the number of completed updates (P1), the notifier report, the
completed increments and the reported sums (P2) must agree.
-/
namespace Drv.Reg
open Drv

def moOf : String → Spsc.MO
  | "relaxed" => .relaxed | "consume" => .consume | "acquire" => .acquire
  | "release" => .release | "acq_rel" => .acqrel | _ => .seqcst

def fInstrOf : String → Option _root_.Reg.FInstr
  | "lock" => some .lock | "push" => some .push | "unlock" => some .unlock | "setFlag" => some .setFlag | _ => none
def bInstrOf : String → Option _root_.Reg.BInstr
  | "reset" => some .reset | "clear" => some .clear | "lock" => some .lock | "copy" => some .copy
  | "unlock" => some .unlock | _ => none

def kv (ws : List String) (key : String) : Option String :=
  (ws.find? (fun w => w.startsWith (key ++ "="))).map (fun w => (w.drop (key.length + 1)).toString)

def csv (s : String) : List String := (s.splitOn ",").filter (· ≠ "")

def joinNat (l : List Nat) : String := ",".intercalate (l.map toString)

structure Params where
  fprog : List _root_.Reg.FInstr := _root_.Reg.codeF
  bprog : List _root_.Reg.BInstr := _root_.Reg.codeB
  ord : Spin.Orders := { xchg := .acquire, unl := .release }
  ctr : Ctr.Cfg := Ctr.code

def parseParams (ws : List String) : Params :=
  let fp := ((kv ws "reg").map (fun s => (csv s).filterMap fInstrOf)).getD _root_.Reg.codeF
  let bp := ((kv ws "upd").map (fun s => (csv s).filterMap bInstrOf)).getD _root_.Reg.codeB
  let xo := moOf ((kv ws "xo").getD "acquire")
  let uo := moOf ((kv ws "uo").getD "release")
  let ct : Ctr.Cfg := match (kv ws "ctr").map csv with
    | some [a, b, c] => { incRmw := a == "1", preLoad := b == "1", resetXchg := c == "1" }
    | _ => Ctr.code
  { fprog := fp, bprog := bp, ord := { xchg := xo, unl := uo }, ctr := ct }

/-! ### P1 -/
section P1
open _root_.Reg

def b2n (b : Bool) : Nat := if b then 1 else 0

/-- the atomic access thread `t` makes next, rendered as the harness renders it (with the index `i` of a load) -/
def expectedAccess (c : Cfg) (s : St) (t i : Nat) : Option String :=
  if t < c.n then
    match (s.fr t).rest with
    | .lock :: _ =>
      if (s.fr t).atX then some s!"X lock r={b2n s.lk.locked} w=1" else some s!"L lock i={i} r={b2n (valAt s.lockHist i)}"
    | .unlock :: _ => some "S lock w=0"
    | .setFlag :: _ => some "S flag w=1"
    | _ => none
  else
    match s.brest with
    | [] => some s!"L flag i={i} r={b2n (valAt s.flagHist i)}"
    | .reset :: _ => some "S flag w=0"
    | .lock :: _ =>
      if s.batX then some s!"X lock r={b2n s.lk.locked} w=1" else some s!"L lock i={i} r={b2n (valAt s.lockHist i)}"
    | .unlock :: _ => some "S lock w=0"
    | _ => none

/-- the next instruction of thread `t` is a plain access (runs in the same scheduler step as the preceding atomic access) -/
def plainNext (c : Cfg) (s : St) (t : Nat) : Bool :=
  if t < c.n then (s.fr t).rest.head? == some .push
  else s.brest.head? == some .clear || s.brest.head? == some .copy

def runPlain (c : Cfg) (t : Nat) : Nat → St → St
  | 0, s => s
  | fuel + 1, s => if plainNext c s t then runPlain c t fuel (step c s (if t < c.n then .f t 0 else .b 0)) else s

def stateStr (c : Cfg) (s : St) : String :=
  let ret := (List.range c.n).filter (fun t => (s.fr t).rest.isEmpty)
  s!"list={joinNat s.list} cache={joinNat s.cache} ret={joinNat ret} upd={s.updates}"

end P1

/-! ### P2 -/
section P2
open _root_.Ctr

def expectedCtr (c : Ctr.Cfg) (s : Ctr.St) (j : Nat) (front : Bool) (i : Nat) : String :=
  if front then
    if c.incRmw then s!"X ctr{j} r={newest s.hist} w={newest s.hist + 1}"
    else match s.fpend j with
      | none => s!"L ctr{j} i={i} r={valAt s.hist i}"
      | some v => s!"S ctr{j} w={v + 1}"
  else
    match s.bpend with
    | none =>
      if c.preLoad then s!"L ctr{j} i={i} r={valAt s.hist i}"
      else if c.resetXchg then s!"X ctr{j} r={newest s.hist} w=0" else s!"S ctr{j} w=0"
    | some _ => if c.resetXchg then s!"X ctr{j} r={newest s.hist} w=0" else s!"S ctr{j} w=0"

end P2

structure Stats where
  lines : Nat := 0
  stale : Nat := 0
  spins : Nat := 0
  rebuilds : Nat := 0
  reports : Nat := 0

def runTrace : IO UInt32 := do
  let stdin ← IO.getStdin
  let lines ← Drv.readLines stdin
  let mut P : Params := {}
  let mut id := "-"
  let mut proto := 0
  let mut n := 0
  let mut cfg : _root_.Reg.Cfg := { fprog := P.fprog, bprog := P.bprog, ord := P.ord, n := 0 }
  let mut s1 : _root_.Reg.St := _root_.Reg.init cfg
  let mut cs : Array Ctr.St := #[]
  let mut st : Stats := {}
  let mut cases := 0
  let mut mism := 0
  let mut lost := 0
  let mut raced := 0
  let mut lineNo := 0
  for line in lines do
    lineNo := lineNo + 1
    if line.isEmpty || line.startsWith "#" || line.startsWith "ORACLE" || line.startsWith "STATS" ||
       line.startsWith "REPLAY" || line.startsWith "ORDERS-SEEN" then continue
    let (opS, obsS) := Drv.splitArrow line
    let ws := Drv.words opS
    match ws with
    | "params" :: rest => P := parseParams rest
    | "case" :: name :: rest =>
      if cases > 0 then
        IO.println s!"TRACE {id} lines={st.lines} stale={st.stale} spins={st.spins} rebuilds={st.rebuilds} reports={st.reports}"
      id := name; cases := cases + 1; st := {}
      proto := if (kv rest "proto").getD "P1" == "P2" then 2 else 1
      n := nat! ((kv rest "n").getD "1")
      cfg := { fprog := P.fprog, bprog := P.bprog, ord := P.ord, n := n }
      s1 := _root_.Reg.init cfg
      -- plain instructions ahead of the first atomic access run when the thread is created
      for t in List.range n do
        s1 := runPlain cfg t 8 s1
      cs := Array.replicate n ({} : Ctr.St)
    | "step" :: rest =>
      st := { st with lines := st.lines + 1 }
      let t := nat! ((kv rest "t").getD "0")
      let parts := obsS.splitOn " | "
      let accS := (parts.headD "").trimAscii.toString
      let stS := ((parts.drop 1).headD "").trimAscii.toString
      let aw := Drv.words accS
      let i := nat! ((kv aw "i").getD "0")
      if proto == 1 then
        let op : _root_.Reg.Op := if t < n then .f t i else .b i
        let legal := decide (_root_.Reg.Enabled cfg s1 op)
        let exp := expectedAccess cfg s1 t i
        let before := s1
        s1 := runPlain cfg t 8 (_root_.Reg.step cfg s1 op)
        let model := s!"{exp.getD "none"} | {stateStr cfg s1}"
        let impl := s!"{accS} | {stS}"
        if aw.head? == some "L" then
          let newestIdx := (if aw.getD 1 "" == "flag" then before.flagHist.length else before.lockHist.length) - 1
          if i != newestIdx then st := { st with stale := st.stale + 1 }
          if aw.getD 1 "" == "lock" && (kv aw "r") == some "1" then st := { st with spins := st.spins + 1 }
        if s1.cache != before.cache && !s1.cache.isEmpty then st := { st with rebuilds := st.rebuilds + 1 }
        if !legal then
          IO.println s!"MISMATCH case={id} line={lineNo}: {opS} load index not legal in the model impl=[{impl}]"
          mism := mism + 1
        else if model != impl then
          IO.println s!"MISMATCH case={id} line={lineNo}: {opS} impl=[{impl}] model=[{model}]"
          mism := mism + 1
      else
        -- counter j: named in the access (`ctr<j>`)
        let locW := aw.getD 1 "ctr0"
        let j := nat! (locW.drop 3).toString
        let front := t < n
        let c := P.ctr
        let sj := cs.getD j {}
        let op : Ctr.Op := if front then .inc j i else .get i
        let legal := decide (Ctr.Enabled c sj op)
        let exp := expectedCtr c sj j front i
        let sj' := Ctr.step c sj op
        cs := cs.setIfInBounds j sj'
        let repTok :=
          if sj'.returns.length > sj.returns.length && sj'.returns.getLast?.getD 0 > 0 then
            s!"rep={j}:{sj'.returns.getLast?.getD 0} " else ""
        if repTok != "" then st := { st with reports := st.reports + 1 }
        if aw.head? == some "L" && i + 1 != sj.hist.length then st := { st with stale := st.stale + 1 }
        let incs := joinNat (cs.toList.map (·.incs))
        let reps := joinNat (cs.toList.map (fun x => x.returns.sum))
        let model := s!"{exp} | {repTok}incs={incs} reps={reps}"
        -- the pass counter of the harness is not modelled
        let stW := (Drv.words stS).filter (fun w => !w.startsWith "pass=")
        let impl := s!"{accS} | {" ".intercalate stW}"
        if !legal then
          IO.println s!"MISMATCH case={id} line={lineNo}: {opS} load index not legal in the model impl=[{impl}]"
          mism := mism + 1
        else if model != impl then
          IO.println s!"MISMATCH case={id} line={lineNo}: {opS} impl=[{impl}] model=[{model}]"
          mism := mism + 1
    | ["end"] =>
      if proto == 1 then
        let model := s!"list={joinNat s1.list} cache={joinNat s1.cache} flag={b2n (_root_.Reg.newest s1.flagHist)}"
        if model != obsS then
          IO.println s!"MISMATCH case={id} line={lineNo}: end impl=[{obsS}] model=[{model}]"
          mism := mism + 1
        -- the theorems' conclusions evaluated on the model's end state (non-zero only when a premise is broken)
        let missing := (List.range n).filter (fun t => (s1.fr t).rest.isEmpty && !s1.cache.contains t)
        if !missing.isEmpty then
          lost := lost + 1
          IO.println s!"MODEL-LOST case={id} registered-not-cached={joinNat missing} (the model reproduces the schedule)"
        if s1.raced then
          raced := raced + 1
          IO.println s!"MODEL-RACE case={id}"
      else
        let incs := joinNat (cs.toList.map (·.incs))
        let reps := joinNat (cs.toList.map (fun x => x.returns.sum))
        let resid := joinNat (cs.toList.map (fun x => Ctr.newest x.hist))
        let model := s!"incs={incs} reps={reps} resid={resid}"
        if model != obsS then
          IO.println s!"MISMATCH case={id} line={lineNo}: end impl=[{obsS}] model=[{model}]"
          mism := mism + 1
        if cs.toList.any (fun x => x.returns.sum + Ctr.newest x.hist != x.incs) then
          lost := lost + 1
          IO.println s!"MODEL-LOST case={id} reported+residual≠increments (the model reproduces the schedule)"
    | _ =>
      IO.println s!"BAD-LINE line {lineNo}: {line}"
      mism := mism + 1
  if cases > 0 then
    IO.println s!"TRACE {id} lines={st.lines} stale={st.stale} spins={st.spins} rebuilds={st.rebuilds} reports={st.reports}"
  IO.println s!"DONE cases={cases} mismatches={mism} model_lost={lost} model_raced={raced}"
  return (if mism == 0 then 0 else 1)

def main : List String → IO UInt32
  | ["trace"] => runTrace
  | _ => do IO.println "usage: driver reg trace"; return 2

end Drv.Reg
