import QuillModel.Uspsc.Api
import QuillModel.Uspsc.ReadPass
import QuillModel.Drivers.Spsc
/-! Correspondence driver for the unbounded queue: replays the trace of `harness/h1_uspsc.cpp` on the model. -/
namespace Drv.Uspsc
open _root_.Spsc _root_.Uspsc Drv.Spsc

structure Ctx where
  o : UParams
  f : Flags
  maxCap : Nat
  s : US
  nlines : Nat := 0
  grows : Nat := 0
  shrinks : Nat := 0
  switches : Nat := 0
  grants : Nat := 0
  denies : Nat := 0
  throws : Nat := 0
  reads : Nat := 0
  stale : Nat := 0
  passes : Nat := 0     -- `rp` lines (whole read passes)
  chained : Nat := 0    -- … that followed the chain through more than one switch
  coh : Bool := false   -- the consumer has observed `next` of its node (possibly only through `empty()`)

def Ctx.summary (c : Ctx) (id : String) : String :=
  s!"TRACE {id} lines={c.nlines} grows={c.grows} shrinks={c.shrinks} switches={c.switches} grants={c.grants} denies={c.denies} throws={c.throws} reads={c.reads} stale={c.stale} passes={c.passes} chained={c.chained}"

def checkUOps (o : UParams) : US → List UOp → List String
  | _, [] => []
  | s, op :: ops =>
    let p1 := if decide (UEnabled o s op) then [] else [s!"MODEL-NOT-ENABLED {repr op}"]
    let p2 := if usafeB s op then [] else [s!"MODEL-UNSAFE {repr op}"]
    p1 ++ p2 ++ checkUOps o (ustep o s op) ops

def weaker (a b : MO) : MO := if a.isRel && b.isRel then a else .relaxed

/-- parse: init id cap max pct wStore wLoad rStore rLoad drain nsGrow nsShrink nLoad rereads commitBeforePublish commitReadBeforeDelete -/
def parseInit : List String → Option (Ctx × String)
  | ["init", id, cap, mx, pct, a, b, c, d, dr, g, sh, nl, rr, cbp, crd] => do
    let q ← parseParams a b c d dr
    let g' ← moOf g; let sh' ← moOf sh; let nl' ← moOf nl
    let o : UParams := { q := q, nextStore := weaker g' sh', nextLoad := nl', rereads := rr == "1" }
    let p := nat! pct
    let batch : Nat → Nat := fun cp => cp * p / 100
    pure ({ o := o, f := { commitBeforePublish := cbp == "1", commitReadBeforeDelete := crd == "1" },
            maxCap := nat! mx, s := uinit (nat! cap) batch }, id)
  | _ => none

/-- one API line → (micro-steps, observation); `follow`: publication decision of `cr` taken from the implementation -/
def apiLine (c : Ctx) (ws : List String) (follow : Option Bool) : Option (List UOp × String) :=
  match ws with
  | ["pw", n, k] =>
    let r := apiPrepareWrite c.o c.f c.maxCap c.s (nat! n) (nat! k); some (r.1, r.2.show)
  | ["fw", n] => some ([.p (.write (nat! n))], "ok")
  | ["cw"] => some ([.p .commitW], s!"pub {c.s.pnode.q.wpos}")
  | ["sh", x] => let r := apiShrink c.s (nat! x); some (r.1, r.2.show)
  | ["pr", k1, k2, k3, k4] =>
    let r := apiPrepareRead c.o c.f c.s c.coh (nat! k1) (nat! k2) (nat! k3) (nat! k4); some (r.1, r.2.show)
  | ["rp", fl] =>
    -- the backend's read of the queue: `prepare_read()`, repeated after a switch into an empty node when `fl` = 1
    let r := apiRead (fl == "1") c.o c.f c.s.n c.s; some (r.1, r.2.show)
  | ["fr", n] => some ([.c (.read (nat! n))], "ok")
  | ["cr"] =>
    let b := match follow with | some b => b | none => publishes c.o.q c.s.cnode.q
    some ([.c (.commitR b)], if b then s!"pub {c.s.cnode.q.rpos}" else "nopub")
  | ["em", k1, k2] => let r := apiEmpty c.o c.s c.coh (nat! k1) (nat! k2); some (r.1, r.2.show)
  | _ => none

def runTrace (followPub : Bool) : IO UInt32 := do
  let stdin ← IO.getStdin
  let lines ← Drv.readLines stdin
  let mut ctx : Option Ctx := none
  let mut traceId := ""
  let mut mism := 0
  let mut probs := 0
  let mut total := 0
  let mut traces := 0
  let mut lineNo := 0
  for line in lines do
    lineNo := lineNo + 1
    if line.isEmpty || line.startsWith "#" || line.startsWith "ORACLE" || line.startsWith "ORDERS-SEEN"
        || line.startsWith "STATS" then continue
    let (opS, obsS) := Drv.splitArrow line
    let ws := Drv.words opS
    if ws.head? == some "init" then
      if let some c := ctx then IO.println (c.summary traceId)
      match parseInit ws with
      | some (c, id) => ctx := some c; traceId := id; traces := traces + 1
      | none => IO.println s!"BAD-INIT line {lineNo}: {line}"; probs := probs + 1; ctx := none
      continue
    match ctx with
    | none => IO.println s!"NO-INIT line {lineNo}"; probs := probs + 1
    | some c =>
      let follow : Option Bool := if followPub then some (obsS.startsWith "pub") else none
      match apiLine c ws follow with
      | none => IO.println s!"BAD-OP line {lineNo}: {line}"; probs := probs + 1
      | some (ops, mobs) =>
        total := total + 1
        for p in checkUOps c.o c.s ops do
          IO.println s!"{p} trace={traceId} line={lineNo}: {opS}"
          probs := probs + 1
        if mobs ≠ obsS then
          IO.println s!"MISMATCH trace={traceId} line={lineNo}: {opS} impl=[{obsS}] model=[{mobs}]"
          mism := mism + 1
        let s' := urun c.o c.s ops
        let isPw := ws.head? == some "pw"
        let staleInc : Nat := if ws.tail.any (fun w => w ≠ "0" && (ws.head? == some "pr" || ws.head? == some "em")) then 1 else 0
        let c' : Ctx :=
          { o := c.o, f := c.f, maxCap := c.maxCap, s := s', nlines := c.nlines + 1,
            grows := c.grows + (if mobs.startsWith "grow" then 1 else 0),
            shrinks := c.shrinks + (if mobs.startsWith "shrunk" then 1 else 0),
            switches := c.switches + (if mobs.startsWith "switch" then 1 else 0),
            grants := c.grants + (if isPw && (mobs.splitOn "grant").length > 1 then 1 else 0),
            denies := c.denies + (if isPw && mobs.endsWith "null" then 1 else 0),
            throws := c.throws + (if mobs == "throw" then 1 else 0),
            reads := c.reads + (if (mobs.splitOn "read ").length > 1 then 1 else 0),
            passes := c.passes + (if ws.head? == some "rp" then 1 else 0),
            chained := c.chained + (if ws.head? == some "rp" && (mobs.splitOn "switch").length > 2 then 1 else 0),
            stale := c.stale + staleInc,
            coh := if ws.head? == some "rp" && ws.tail == ["1"] && mobs.startsWith "switch" && mobs.endsWith "null" then s'.sawNext
                   else if mobs.startsWith "switch" then false
                   else c.coh || s'.sawNext || (ws.head? == some "em" && mobs == "empty 0" &&
                                                 decide (s'.cnode.q.wcache = s'.cnode.q.rpos)) }
        ctx := some c'
  if let some c := ctx then IO.println (c.summary traceId)
  IO.println s!"DONE traces={traces} lines={total} mismatches={mism} problems={probs}"
  return (if mism + probs == 0 then 0 else 1)

/-! ### model-side search for an unsafe schedule (API level, small capacities) -/

structure SS where
  s : US
  grant : Option Nat := none
  reading : Bool := false

def candidates (x : SS) : List (List String) :=
  let p : List (List String) := match x.grant with
    | none => [["pw", "3", "0"], ["pw", "4", "0"], ["pw", "6", "0"]]
    | some n => [["fw", toString n], ["fw", toString n]]
  let c : List (List String) :=
    if x.reading then [["fr", toString (x.s.cnode.q.endOf x.s.cnode.q.rpos - x.s.cnode.q.rpos)]]
    else [["pr", "0", "0", "0", "0"], ["pr", "0", "0", "1", "0"], ["pr", "1", "0", "0", "0"]]
  p ++ [["cw"]] ++ c ++ [["cr"]]

partial def dfs (c0 : Ctx) (depth : Nat) (x : SS) (path : List String) : Option (List String) :=
  if depth = 0 then none else
  (candidates x).firstM (fun ws =>
    let c : Ctx := { c0 with s := x.s }
    match apiLine c ws none with
    | none => none
    | some (ops, mobs) =>
      let line := " ".intercalate ws
      let problems := checkUOps c.o c.s ops
      if problems.any (fun p => p.startsWith "MODEL-UNSAFE") then some ((line :: path).reverse)
      else if !problems.isEmpty then none
      else
        let s' := urun c.o c.s ops
        let x' : SS := match ws with
          | "pw" :: n :: _ => { x with s := s', grant := if (mobs.splitOn "grant").length > 1 then some (nat! n) else none }
          | "fw" :: _ => { x with s := s', grant := none }
          | "pr" :: _ => { x with s := s', reading := (mobs.splitOn "read ").length > 1 }
          | "fr" :: _ => { x with s := s', reading := false }
          | _ => { x with s := s' }
        dfs c0 (depth - 1) x' (line :: path))

def search (args : List String) : IO UInt32 := do
  -- args: cap max pct + 11 params + depth
  match args.reverse with
  | depth :: revInit =>
    let initWs := "init" :: "search" :: revInit.reverse
    match parseInit initWs with
    | none => IO.println "BAD-ARGS"; return 2
    | some (c0, _) =>
      for dep in List.range (nat! depth + 1) do
        match dfs c0 dep { s := c0.s } [] with
        | some path =>
          IO.println s!"UNSAFE-SCHEDULE depth={dep}"
          IO.println (" ".intercalate initWs)
          for l in path do IO.println l
          return 1
        | none => pure ()
      IO.println s!"NO-UNSAFE-SCHEDULE up to depth {depth}"
      return 0
  | [] => IO.println "usage: uspsc search cap max pct <11 params> depth"; return 2

def main : List String → IO UInt32
  | ["trace"] => runTrace false
  | ["anypub"] => runTrace true
  | "search" :: rest => search rest
  | _ => do IO.println "usage: driver uspsc trace|anypub|search …"; return 2

end Drv.Uspsc
