import QuillModel.Transit.Model
import QuillModel.Drivers.Util
/-! Correspondence driver for `TransitEventBuffer`: replays the trace of `harness/h3_transit.cpp`. -/
namespace Drv.Transit
open _root_.Transit Drv

def obs (b : TB Nat) : String :=
  let f := match b.front with | some x => toString x | none => "-"
  s!"front={f} size={b.size} cap={b.cap} empty={if b.isEmpty then 1 else 0}"

def runTrace : IO UInt32 := do
  let stdin ← IO.getStdin
  let lines ← Drv.readLines stdin
  let mut b : TB Nat := TB.init 1 0
  let mut id := "-"
  let mut n := 0
  let mut mism := 0
  let mut traces := 0
  let mut expands := 0
  let mut shrinks := 0
  let mut lineNo := 0
  for line in lines do
    lineNo := lineNo + 1
    if line.isEmpty || line.startsWith "#" || line.startsWith "ORACLE" || line.startsWith "STATS" then continue
    let (opS, obsS) := Drv.splitArrow line
    match Drv.words opS with
    | ["init", name, c] =>
      if traces > 0 then IO.println s!"TRACE {id} lines={n} expands={expands} shrinks={shrinks}"
      id := name; b := TB.init (nat! c) 0; n := 0; traces := traces + 1; expands := 0; shrinks := 0
    | w =>
      let op : Option (Op Nat) := match w with
        | ["push", x] => some (.push (nat! x))
        | ["pop"] => some .pop
        | ["reqshrink"] => some .requestShrink
        | ["tryshrink"] => some .tryShrink
        | _ => none
      match op with
      | none => IO.println s!"BAD-OP line {lineNo}: {line}"; mism := mism + 1
      | some o =>
        let b' := step b o
        if b'.cap > b.cap then expands := expands + 1
        if b'.cap < b.cap then shrinks := shrinks + 1
        b := b'
        n := n + 1
        if obs b ≠ obsS then
          IO.println s!"MISMATCH trace={id} line={lineNo}: {opS} impl=[{obsS}] model=[{obs b}]"
          mism := mism + 1
  if traces > 0 then IO.println s!"TRACE {id} lines={n} expands={expands} shrinks={shrinks}"
  IO.println s!"DONE traces={traces} mismatches={mism}"
  return (if mism == 0 then 0 else 1)

def main : List String → IO UInt32
  | ["trace"] => runTrace
  | _ => do IO.println "usage: driver transit trace"; return 2

end Drv.Transit
