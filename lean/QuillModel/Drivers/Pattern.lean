import QuillModel.Pattern.Calls
import QuillModel.Pattern.Sinks
import QuillModel.Drivers.Util
/-!
Correspondence driver for C12. Input: the lines printed by `harness/h3_pattern.cpp`
(`fmt …  => observation` from the real `PatternFormatter`, `be … => observation` from the real backend
dispatch). Each observation is recomputed with `Pattern.formatPattern`, `Pattern.metaView`, `Pattern.dispatch`
and `Pattern.applyRuntimeMeta` — the definitions the theorems of `Props/C12.lean` are about — and compared.
A `fmt` line with a `pre=` field (the timestamps, with their reference time texts, of the calls the real formatter
handled before the observed one) is recomputed with `Pattern.formatLast`: the instance model of `Pattern/Calls.lean`
run over those calls (decoy values, as in the harness) and then the observed call.
An `mb` line (several loggers, sinks with and without override pattern, calls in a given order) is recomputed with
`Pattern.callLines false` threaded through `Pattern.dispatch1` — the model of `Pattern/Sinks.lean`, whose rule is
`patternFor`.
-/
namespace Drv.Pattern
open _root_.Pattern

def strOfHex (t : String) : Option Str :=
  if t.startsWith "x" then (Drv.unhex (t.drop 1).toString).map (·.map Char.ofNat) else none

def hexOfStr (s : Str) : String := "x" ++ Drv.hexOf (s.map Char.toNat)

def kvOf (ws : List String) : List (String × String) :=
  ws.filterMap fun w =>
    match w.splitOn "=" with
    | k :: v :: _ => some (k, v)
    | _ => none

def getS (kv : List (String × String)) (k : String) : Str :=
  match kv.lookup k with
  | some v => (strOfHex v).getD []
  | none => []

def getOptS (kv : List (String × String)) (k : String) : Option Str :=
  match kv.lookup k with
  | some v => if v == "-" then none else strOfHex v
  | none => none

/-- `-` (nullptr) | `0` (empty vector) | `k:xK,xV;xK,xV` -/
def namedOf (t : String) : Option (List (Str × Str)) :=
  if t == "-" then none
  else if t == "0" then some []
  else
    let body := (t.drop 2).toString
    some ((body.splitOn ";").filterMap fun pr =>
      match pr.splitOn "," with
      | [k, v] => match strOfHex k, strOfHex v with
        | some a, some b => some (a, b)
        | _, _ => none
      | _ => none)

def showResult : Result → String
  | .line s => "line " ++ hexOfStr s
  | .ctorError .unterminated => "error ctor-unterminated"
  | .ctorError (.unknownAttr n) => "error ctor-unknown " ++ hexOfStr n
  | .ctorError .tooManyFields => "ub too-many-fields"
  | .ctorError .fuel => "model-fuel"
  | .formatError => "error format"
  | .unsupported => "unsupported"

structure Tally where
  cases : Nat := 0
  mismatches : Nat := 0
  unsupported : Nat := 0
  ub : Nat := 0
  fmtCases : Nat := 0
  beCases : Nat := 0
  lines : Nat := 0
  ctorErrors : Nat := 0
  formatErrors : Nat := 0
  multiField : Nat := 0
  withSpec : Nat := 0
  beMultiPiece : Nat := 0
  beRuntime : Nat := 0
  mbCases : Nat := 0
  mbWithOverride : Nat := 0

def countSub (s : Str) (a b : Char) : Nat :=
  match s with
  | x :: y :: r => (if x = a ∧ y = b then 1 else 0) + countSub (y :: r) a b
  | _ => 0

/-- `-` | `N:xHEX,N:xHEX,…` : timestamps of the earlier calls with the reference's time text for each -/
def preOf (t : String) : List (Nat × Str) :=
  if t == "-" then []
  else (t.splitOn ",").filterMap fun it =>
    match it.splitOn ":" with
    | [n, h] => (strOfHex h).map fun s => (Drv.nat! n, s)
    | _ => none

/-- the values the harness passes in the calls made before the observed one -/
def decoyStmt : Stmt := {
  time := [], threadId := "decoy-tid".toList, threadName := "decoy-thread-name".toList, processId := "decoy-pid".toList,
  logger := "decoy-logger".toList, levelDesc := "DECOYLEVEL".toList, levelShort := "DL".toList,
  src := "/decoy/dir/decoy_file.cc:9".toList, caller := "decoy_fn".toList, tags := some "decoy tags".toList,
  named := some [("dk".toList, "dv".toList), ("dk2".toList, "dv2".toList)] }

def decoyVals : Attr → Str :=
  match metaView decoyStmt.src with
  | some mv => valuation decoyStmt mv "decoy message that is longer than most of the real ones {} %(x)".toList
  | none => fun _ => []

/-- model observation for a `fmt` line -/
def fmtObs (kv : List (String × String)) : String × Result :=
  let src := getS kv "src"
  match metaView src with
  | none => ("ub metadata", .unsupported)
  | some mv =>
    let st : Stmt := {
      time := getS kv "time", threadId := getS kv "tid", threadName := getS kv "tname", processId := getS kv "pid",
      logger := getS kv "logger", levelDesc := getS kv "lvl", levelShort := getS kv "lvls", src := src,
      caller := getS kv "fn", tags := getOptS kv "tags", named := namedOf ((kv.lookup "na").getD "-") }
    let vals := valuation st mv (getS kv "msg")
    let r := match kv.lookup "pre" with
      | none => formatPattern (getS kv "p") vals          -- older replay files: a single call
      | some pre =>
        let tsn := Drv.nat! ((kv.lookup "tsn").getD "0")
        let earlier := preOf pre
        -- `tf`: the time text of each timestamp that occurs, as the reference computed it
        let tab := (tsn, st.time) :: earlier
        let tf : Nat → Str := fun ts => ((tab.find? (·.1 == ts)).map (·.2)).getD []
        formatLast (getS kv "p") tf (earlier.map fun e => ⟨e.1, decoyVals⟩) ⟨tsn, vals⟩
    (showResult r, r)

/-- model observation for a `be` line -/
def beObs (kv : List (String × String)) : String × Nat × Bool :=
  let kind := (kv.lookup "kind").getD "plain"
  let ml := (kv.lookup "ml").getD "1" != "0"
  let msg := getS kv "msg"
  let parts : Option (Str × Str × Str) :=
    if kind == "rt" then
      match applyRuntimeMeta (msg ++ magicSep ++ getS kv "file" ++ magicSep ++ getS kv "line" ++ magicSep ++ getS kv "fn") with
      | some rm => some (rm.message, rm.fileline, rm.function)
      | none => none
    else some (msg, getS kv "src", getS kv "caller")
  match parts with
  | none => ("ub runtime-metadata", 0, false)
  | some (message, src, caller) =>
    match metaView src with
    | none => ("ub metadata", 0, false)
    | some mv =>
      let named : Option (List (Str × Str)) := if kind == "named" then some [("key".toList, msg)] else none
      let st : Stmt := {
        time := [], threadId := [], threadName := [], processId := [], logger := getS kv "logger",
        levelDesc := getS kv "lvl", levelShort := getS kv "lvls", src := src, caller := caller, tags := none, named := named }
      let pieces := dispatch ml (named.getD []).isEmpty message
      let rs := statements (getS kv "p") st mv ml message
      let lines := rs.filterMap fun r => match r with | .line s => some s | _ => none
      if rs.any (fun r => match r with | .unsupported => true | _ => false) then ("unsupported", pieces.length, kind == "rt")
      else if lines.length ≠ rs.length then ("lost", pieces.length, kind == "rt")
      else
        (s!"ok src={hexOfStr src} caller={hexOfStr caller} n={lines.length}" ++
          String.join (lines.map fun l => " " ++ hexOfStr l), pieces.length, kind == "rt")

/-- `mb` line: loggers=<name>:<ml>:x<pat>,… sinks=-|<ml>:x<pat>,… attach=<k>.<k>,… calls=<l>:x<msg>,… -/
def mbObs (kv : List (String × String)) : String × Nat × Nat :=
  let lgs := (((kv.lookup "loggers").getD "").splitOn ",").filterMap fun t =>
    match t.splitOn ":" with
    | [name, ml, p] => (strOfHex p).map fun pat => (name.toList, ({ pattern := pat, ml := ml != "0" } : FmtOpts))
    | _ => none
  let sks : List SinkCfg := (((kv.lookup "sinks").getD "").splitOn ",").map fun t =>
    match t.splitOn ":" with
    | [ml, p] => { override := (strOfHex p).map fun pat => { pattern := pat, ml := ml != "0" } }
    | _ => { override := none }
  let att : List (List Nat) := (((kv.lookup "attach").getD "").splitOn ",").map fun t =>
    (t.splitOn ".").filterMap fun x => x.toNat?
  let cfg : Config := {
    loggers := (lgs.zip (att ++ List.replicate lgs.length [])).map fun (lo, a) => { opts := lo.2, sinks := a }
    sinks := sks }
  let calls := (((kv.lookup "calls").getD "").splitOn ",").filterMap fun t =>
    match t.splitOn ":" with
    | [l, m] => match l.toNat?, strOfHex m with
      | some li, some msg => some (li, msg)
      | _, _ => none
    | _ => none
  let src := "/virtual/h3/site.cpp:1000".toList
  match metaView src with
  | none => ("ub metadata", 0, 0)
  | some mv =>
    let step := fun (acc : BState × List String × Bool × Nat) (c : Nat × Str) =>
      let (st, outs, bad, k) := acc
      let name := ((lgs[c.1]?).map (·.1)).getD []
      let stmt : Stmt := {
        time := [], threadId := [], threadName := [], processId := [], logger := name, levelDesc := "INFO".toList,
        levelShort := "I".toList, src := src, caller := "site_plain".toList, tags := none, named := none }
      let per := callLines false cfg st c.1 stmt mv c.2
      let notLine := per.any fun kr => kr.2.any fun r => match r with | .line _ => false | _ => true
      let txt := if per.isEmpty then "-" else "/".intercalate (per.map fun kr =>
        s!"s{kr.1}:" ++ "+".intercalate (kr.2.filterMap fun r => match r with | .line s => some (hexOfStr s) | _ => none))
      ((dispatch1 false cfg st c.1).1, outs ++ [s!"c{k}={txt}"], bad || notLine, k + 1)
    let (_, outs, bad, _) := calls.foldl step (BState.init, [], false, 0)
    let overrides := (sks.filter fun s => s.override.isSome).length
    if bad then ("unsupported", lgs.length, overrides)
    else (" ".intercalate ("ok" :: outs), lgs.length, overrides)

def run : IO UInt32 := do
  let stdin ← IO.getStdin
  let mut t : Tally := {}
  let mut lineNo := 0
  repeat
    let raw ← stdin.getLine
    if raw.isEmpty then break
    lineNo := lineNo + 1
    let line := raw.trimAscii.toString
    if line.startsWith "fmt " then
      let (op, impl) := Drv.splitArrow line
      let kv := kvOf (Drv.words op)
      let (model, r) := fmtObs kv
      let p := getS kv "p"
      let nf := countSub p '%' '('
      let isLine := match r with | .line _ => 1 | _ => 0
      let isCtor := match r with | .ctorError _ => 1 | _ => 0
      let isFmtE := match r with | .formatError => 1 | _ => 0
      t := { t with cases := t.cases + 1, fmtCases := t.fmtCases + 1, lines := t.lines + isLine,
                    ctorErrors := t.ctorErrors + isCtor, formatErrors := t.formatErrors + isFmtE,
                    multiField := t.multiField + (if nf ≥ 2 then 1 else 0),
                    withSpec := t.withSpec + (if p.contains ':' ∧ nf ≥ 1 then 1 else 0) }
      if model == "unsupported" then
        t := { t with unsupported := t.unsupported + 1 }
        IO.println s!"UNSUPPORTED line={lineNo} impl={impl.take 80}"
      else if model.startsWith "ub" then
        t := { t with ub := t.ub + 1 }
        IO.println s!"OUT-OF-MODEL line={lineNo} {model} impl={impl.take 80}"
      else if model != impl then
        t := { t with mismatches := t.mismatches + 1 }
        IO.println s!"MISMATCH line={lineNo} kind=fmt model={model.take 400} impl={impl.take 400} case={op.take 300}"
    else if line.startsWith "be " then
      let (op, impl) := Drv.splitArrow line
      let kv := kvOf (Drv.words op)
      let (model, npieces, isRt) := beObs kv
      t := { t with cases := t.cases + 1, beCases := t.beCases + 1,
                    beMultiPiece := t.beMultiPiece + (if npieces ≥ 2 then 1 else 0),
                    beRuntime := t.beRuntime + (if isRt then 1 else 0) }
      if model == "unsupported" then
        t := { t with unsupported := t.unsupported + 1 }
        IO.println s!"UNSUPPORTED line={lineNo} impl={impl.take 80}"
      else if model.startsWith "ub" then
        t := { t with ub := t.ub + 1 }
        IO.println s!"OUT-OF-MODEL line={lineNo} {model} impl={impl.take 80}"
      else if model != impl then
        t := { t with mismatches := t.mismatches + 1 }
        IO.println s!"MISMATCH line={lineNo} kind=be model={model.take 400} impl={impl.take 400} case={op.take 300}"
    else if line.startsWith "mb " then
      let (op, impl) := Drv.splitArrow line
      let kv := kvOf (Drv.words op)
      let (model, _nl, nov) := mbObs kv
      t := { t with cases := t.cases + 1, mbCases := t.mbCases + 1, mbWithOverride := t.mbWithOverride + (if nov > 0 then 1 else 0) }
      if model == "unsupported" then
        t := { t with unsupported := t.unsupported + 1 }
        IO.println s!"UNSUPPORTED line={lineNo} impl={impl.take 80}"
      else if model.startsWith "ub" then
        t := { t with ub := t.ub + 1 }
        IO.println s!"OUT-OF-MODEL line={lineNo} {model} impl={impl.take 80}"
      else if model != impl then
        t := { t with mismatches := t.mismatches + 1 }
        IO.println s!"MISMATCH line={lineNo} kind=mb model={model.take 500} impl={impl.take 500} case={op.take 300}"
    else pure ()
  IO.println s!"DONE cases={t.cases} fmt={t.fmtCases} be={t.beCases} mismatches={t.mismatches} unsupported={t.unsupported} out_of_model={t.ub} lines={t.lines} ctor_errors={t.ctorErrors} format_errors={t.formatErrors} multi_field={t.multiField} with_spec={t.withSpec} be_multi_piece={t.beMultiPiece} be_runtime={t.beRuntime} mb={t.mbCases} mb_with_override={t.mbWithOverride}"
  return (if t.mismatches == 0 then 0 else 1)

/-- `driver pattern check` : read harness lines from stdin -/
def main : List String → IO UInt32
  | ["check"] => run
  | _ => do IO.println "usage: driver pattern check < harness-output"; return 2

end Drv.Pattern
