import QuillModel.LogReg.Model
import QuillModel.Drivers.Util
/-!
Correspondence driver for the logger-registry stream of C17. Input: the traces printed by `harness/h3_logreg.cpp`.

* `init <id> <findAt> <insertAt> <name,name,…>` — the bounds (`lower`/`upper`) as extracted, and the names of the case
  in `std::string` order (a name is modelled by its rank in this table);
* `cg <name> => id=<k> new=<0|1>` | `guard`, `get <name> => id=<k>` | `none`, `rm <name> => ok` | `none`,
  `cleanup <bits|-> => removed=<name,…|-> n=<size> flag=<0|1>`, `all => <k,…|->`, `count => <n>`.

Every observation is recomputed with `LogReg.step` (the definition the theorems are about) and compared as a string.
Per case a `TRACE` line with what the case exercised, at the end `DONE`.
-/
namespace Drv.LogReg
open _root_.LogReg

def boundOf : String → Option Bound
  | "lower" => some .lower
  | "upper" => some .upper
  | _ => none

structure Ctx where
  id : String
  p : Params
  names : List String
  s : St := {}
  nlines : Nat := 0
  created : Nat := 0
  reused : Nat := 0
  guards : Nat := 0
  getOk : Nat := 0
  getNone : Nat := 0
  removes : Nat := 0
  sweeps : Nat := 0
  erased : Nat := 0
  keptBusy : Nat := 0
  partialErase : Nat := 0   -- clean-ups that erased an entry sorting before ≥ 2 entries that stayed
  lookupsAfter : Nat := 0   -- cg / get answered after such a clean-up
  maxLen : Nat := 0

def nameIx (c : Ctx) (n : String) : Option Nat :=
  let i := c.names.idxOf n
  if i < c.names.length then some i else none

def showNames (c : Ctx) (l : List Nat) : String :=
  if l.isEmpty then "-" else ",".intercalate (l.map (fun n => c.names.getD n "?"))

def showIds (l : List Nat) : String :=
  if l.isEmpty then "-" else ",".intercalate (l.map toString)

def bitsOf (s : String) : List Bool :=
  if s == "-" then [] else s.toList.map (fun ch => ch != '0')

/-- did the clean-up erase an entry with at least two surviving entries behind it (by name)? -/
def erasedBeforeTwo (before after : List Entry) : Bool :=
  before.any (fun e => !after.contains e && (after.filter (fun f => e.name < f.name)).length ≥ 2)

/-- one call: new context and the model's observation -/
def opLine (c : Ctx) : List String → Option (Ctx × String)
  | ["cg", n] => do
    let k ← nameIx c n
    let r := step c.p c.s (.createOrGet k)
    let fresh := r.1.next != c.s.next
    let la := if c.partialErase > 0 then c.lookupsAfter + 1 else c.lookupsAfter
    match r.2 with
    | .id i =>
      let c1 := if fresh then { c with created := c.created + 1 } else { c with reused := c.reused + 1 }
      pure ({ c1 with s := r.1, lookupsAfter := la }, s!"id={i} new={if fresh then 1 else 0}")
    | .guard => pure ({ c with s := r.1, guards := c.guards + 1 }, "guard")
    | _ => none
  | ["get", n] => do
    let k ← nameIx c n
    let r := step c.p c.s (.get k)
    let la := if c.partialErase > 0 then c.lookupsAfter + 1 else c.lookupsAfter
    match r.2 with
    | .id i => pure ({ c with s := r.1, getOk := c.getOk + 1, lookupsAfter := la }, s!"id={i}")
    | .none => pure ({ c with s := r.1, getNone := c.getNone + 1, lookupsAfter := la }, "none")
    | _ => none
  | ["rm", n] => do
    let k ← nameIx c n
    let r := step c.p c.s (.remove k)
    match r.2 with
    | .ok => pure ({ c with s := r.1, removes := c.removes + 1 }, "ok")
    | .none => pure ({ c with s := r.1 }, "none")
    | _ => none
  | ["cleanup", b] =>
    let r := step c.p c.s (.cleanup (bitsOf b))
    match r.2 with
    | .removed names size flag =>
      let pe := if erasedBeforeTwo c.s.entries r.1.entries then c.partialErase + 1 else c.partialErase
      let kb := if flag then c.keptBusy + 1 else c.keptBusy
      some ({ c with s := r.1, sweeps := c.sweeps + 1, erased := c.erased + names.length, partialErase := pe, keptBusy := kb },
            s!"removed={showNames c names} n={size} flag={if flag then 1 else 0}")
    | _ => none
  | ["all"] =>
    match (step c.p c.s .all).2 with
    | .ids l => some (c, showIds l)
    | _ => none
  | ["count"] =>
    match (step c.p c.s .count).2 with
    | .size k => some (c, toString k)
    | _ => none
  | _ => none

def Ctx.summary (c : Ctx) : String :=
  s!"TRACE {c.id} lines={c.nlines} created={c.created} reused={c.reused} guards={c.guards} get_ok={c.getOk} get_none={c.getNone} removes={c.removes} sweeps={c.sweeps} erased={c.erased} kept_busy={c.keptBusy} partial_erase={c.partialErase} lookups_after_partial_erase={c.lookupsAfter} max_entries={c.maxLen}"

def mkCtx : List String → Option Ctx
  | ["init", id, f, i, names] => do
    let fb ← boundOf f
    let ib ← boundOf i
    pure { id := id, p := { findAt := fb, insertAt := ib }, names := names.splitOn "," }
  | _ => none

def runTrace : IO UInt32 := do
  let stdin ← IO.getStdin
  let lines ← Drv.readLines stdin
  let mut ctx : Option Ctx := none
  let mut traces := 0
  let mut nl := 0
  let mut mism := 0
  let mut probs := 0
  let mut lineNo := 0
  let mut created := 0
  let mut partials := 0
  let mut lookupsAfter := 0
  for line in lines do
    lineNo := lineNo + 1
    if line.isEmpty || line.startsWith "#" || line.startsWith "ORACLE" || line.startsWith "STATS" then continue
    let (opS, obsS) := Drv.splitArrow line
    let ws := Drv.words opS
    match ws with
    | "init" :: _ =>
      if let some c := ctx then
        IO.println c.summary
        created := created + c.created; partials := partials + c.partialErase; lookupsAfter := lookupsAfter + c.lookupsAfter
      match mkCtx ws with
      | some c => ctx := some c; traces := traces + 1
      | none => IO.println s!"BAD-INIT line {lineNo}: {line}"; probs := probs + 1; ctx := none
    | _ =>
      match ctx with
      | none => IO.println s!"NO-INIT line {lineNo}"; probs := probs + 1
      | some c =>
        match opLine c ws with
        | none => IO.println s!"BAD-OP trace={c.id} line={lineNo}: {line}"; probs := probs + 1
        | some (c', mobs) =>
          nl := nl + 1
          if mobs ≠ obsS then
            IO.println s!"MISMATCH trace={c.id} line={lineNo}: {opS} impl=[{obsS}] model=[{mobs}]"
            mism := mism + 1
          let ml := if c'.s.entries.length > c'.maxLen then c'.s.entries.length else c'.maxLen
          ctx := some { c' with nlines := c'.nlines + 1, maxLen := ml }
  if let some c := ctx then
    IO.println c.summary
    created := created + c.created; partials := partials + c.partialErase; lookupsAfter := lookupsAfter + c.lookupsAfter
  IO.println s!"DONE traces={traces} lines={nl} mismatches={mism} problems={probs} created={created} cleanups_erasing_before_two_remaining={partials} lookups_after_partial_erase={lookupsAfter}"
  return (if mism + probs == 0 then 0 else 1)

/-- `driver logreg trace` -/
def main : List String → IO UInt32
  | ["trace"] => runTrace
  | _ => do IO.println "usage: driver logreg trace"; return 2

end Drv.LogReg
