import QuillModel.Backtrace.Model
import QuillModel.Drivers.Util
/-!
Correspondence driver for C18. Input: the traces printed by `harness/h3_backtrace.cpp`.

* `init <id> ring <params>` — then one line per call made on the real `BacktraceStorage`:
  `cap N => ok`, `st X => ok`, `pr => x1,x2,…` (`-` when the callback was not invoked).
* `init <id> e2e <params> <level table>` — calls made on real `Logger`s with a recording sink and the
  `ManualBackendWorker`: `ib L cap Level`, `lg L Level id` / `ld L Level id` (LOG_DYNAMIC) / `lgx …` (from a short-lived thread),
  `bt L id` / `btx L id`, `fb L`
  (`=> ok`), and `poll => L:Level:id,…,E,…` (the `write_log` calls and `init_backtrace`-missing errors of that poll).

`<params>` = resetsIndexOnFlush guardsZeroCapacity startsAtIndex clearsOnFlush wrapSlack flushCmp, as extracted.
Every observation is recomputed with `Backtrace.step` / `Backtrace.stepEv` (the definitions the theorems are
about); the specification (`Spec`, `specStepEv`) is run alongside and a deviation of the *model* from it is
reported too (`MODEL-SPEC-DIFF`, `MODEL-UB`) — with the extracted parameters of an unrepaired tree this is the
model-side failing history. `search` enumerates small histories for such a deviation.
-/
namespace Drv.Backtrace
open _root_.Backtrace

def cmpOf : String → Option Cmp
  | "ge" => some .ge | "gt" => some .gt | "le" => some .le | "lt" => some .lt | "eq" => some .eq | "ne" => some .ne
  | _ => none

def parseParams : List String → Option Params
  | [a, b, c, d, k, cmp] => do
    let cm ← cmpOf cmp
    pure { resetsIndexOnFlush := a == "1", guardsZeroCapacity := b == "1", startsAtIndex := c == "1",
           clearsOnFlush := d == "1", wrapSlack := nat! k, flushCmp := cm }
  | _ => none

def showIds (l : List Nat) : String := if l.isEmpty then "-" else ",".intercalate (l.map toString)

structure Ctx where
  id : String
  isRing : Bool
  p : Params
  table : List String := []
  bt : Nat := 0
  r : Ring Nat := {}
  s : Spec Nat := {}
  b : BSt := BSt.init 0
  sb : SSt := SSt.init 0
  queue : List Ev := []
  loggers : List String := []
  -- statistics
  nlines : Nat := 0
  stores : Nat := 0
  flushes : Nat := 0
  nonempty : Nat := 0
  wrapped : Nat := 0      -- flushes of a ring that had wrapped (more stored than the capacity ≥ 1)
  postwrap : Nat := 0     -- non-empty flushes after a wrapped flush (the F1 class)
  sawWrapped : Bool := false
  resizes : Nat := 0
  cap0 : Nat := 0         -- stores with capacity 0 (the F2 class)
  stmts : Nat := 0
  auto : Nat := 0
  replayed : Nat := 0
  errs : Nat := 0
  polls : Nat := 0
  ubSeen : Bool := false

def Ctx.summary (c : Ctx) : String :=
  if c.isRing then
    s!"TRACE {c.id} kind=ring lines={c.nlines} stores={c.stores} flushes={c.flushes} nonempty={c.nonempty} wrapped={c.wrapped} postwrap={c.postwrap} resizes={c.resizes} cap0stores={c.cap0}"
  else
    s!"TRACE {c.id} kind=e2e lines={c.nlines} stores={c.stores} flushes={c.flushes} nonempty={c.nonempty} wrapped={c.wrapped} postwrap={c.postwrap} resizes={c.resizes} cap0stores={c.cap0} stmts={c.stmts} auto={c.auto} replayed={c.replayed} errs={c.errs} polls={c.polls}"

/-- bookkeeping at a flush of a specification ring -/
def noteFlush (c : Ctx) (sp : Spec Nat) : Ctx :=
  let out := lastN sp.cap sp.pend
  let w : Bool := decide (sp.cap ≥ 1 ∧ sp.pend.length > sp.cap)
  let c1 := { c with flushes := c.flushes + 1 }
  let c2 := if out.isEmpty then c1 else { c1 with nonempty := c1.nonempty + 1 }
  let c3 := if c2.sawWrapped && !out.isEmpty then { c2 with postwrap := c2.postwrap + 1 } else c2
  if w then { c3 with wrapped := c3.wrapped + 1, sawWrapped := true } else c3

/-- one ring call; returns the new context, the model's observation and problems -/
def ringLine (c : Ctx) : List String → Option (Ctx × String × List String)
  | ["cap", n] =>
    let k := nat! n
    let rs := if c.s.cap = k then c.resizes else c.resizes + 1
    let saw := if c.s.cap = k then c.sawWrapped else false
    some ({ c with r := setCapacity c.r k, s := (c.s.step (.setCapacity k)).1, resizes := rs, sawWrapped := saw }, "ok", [])
  | ["st", x] =>
    let r' := store c.p c.r (nat! x)
    let c0 := if c.s.cap = 0 then c.cap0 + 1 else c.cap0
    let pb := if r'.ub && !c.ubSeen then ["MODEL-UB store evaluates _stored_events[_index] out of range"] else []
    some ({ c with r := r', s := (c.s.step (.store (nat! x))).1, stores := c.stores + 1, cap0 := c0, ubSeen := r'.ub },
          "ok", pb)
  | ["pr"] =>
    let pr := process c.p c.r
    let sp := c.s.step .process
    let pb1 := if pr.1.ub && !c.ubSeen then ["MODEL-UB process evaluates _stored_events[index] out of range"] else []
    let pb2 := if pr.2 == sp.2 then [] else [s!"MODEL-SPEC-DIFF model=[{showIds pr.2}] spec=[{showIds sp.2}]"]
    let c1 := noteFlush c c.s
    some ({ c1 with r := pr.1, s := sp.1, ubSeen := pr.1.ub }, showIds pr.2, pb1 ++ pb2)
  | _ => none

def loggerIx (c : Ctx) (name : String) : Ctx × Nat :=
  let i := c.loggers.idxOf name
  if i < c.loggers.length then (c, i) else ({ c with loggers := c.loggers ++ [name] }, c.loggers.length)

def showOut (c : Ctx) (o : Out) : List String :=
  o.writes.map (fun w => s!"{c.loggers.getD w.lg "?"}:{c.table.getD w.lvl "?"}:{w.id}") ++ (if o.err then ["E"] else [])

/-- process the queued events in order (one `poll`) -/
def drain (c : Ctx) : Ctx × List String × List String := Id.run do
  let mut c := c
  let mut toks : List String := []
  let mut pbs : List String := []
  for e in c.queue do
    let m := stepEv c.p c.bt c.b e
    let sp := specStepEv c.bt c.sb e
    -- statistics from the specification side
    match e with
    | .log lg lvl _ =>
      if lvl = c.bt then
        match c.sb.ring lg with
        | some rg => c := { c with stores := c.stores + 1, cap0 := if rg.cap = 0 then c.cap0 + 1 else c.cap0 }
        | none => c := { c with errs := c.errs + 1 }
      else
        c := { c with stmts := c.stmts + 1 }
        if lvl ≥ c.sb.flushLvl lg then
          match c.sb.ring lg with
          | some rg => c := { noteFlush c rg with auto := c.auto + 1 }
          | none => pure ()
    | .flushBt lg =>
      match c.sb.ring lg with
      | some rg => c := noteFlush c rg
      | none => pure ()
    | .initBt lg cap =>
      match c.sb.ring lg with
      | some rg => if rg.cap ≠ cap then c := { c with resizes := c.resizes + 1 }
      | none => c := { c with resizes := c.resizes + 1 }
    | _ => pure ()
    if m.2 != sp.2 then
      pbs := pbs ++ [s!"MODEL-SPEC-DIFF event={repr e} model=[{",".intercalate (showOut c m.2)}] spec=[{",".intercalate (showOut c sp.2)}]"]
    let ub := match (m.1.ring 0), (m.1.ring 1), (m.1.ring 2) with
      | a, b, d => (a.map (·.ub)).getD false || (b.map (·.ub)).getD false || (d.map (·.ub)).getD false
    if ub && !c.ubSeen then
      pbs := pbs ++ ["MODEL-UB an out-of-range _stored_events[...] is evaluated"]
      c := { c with ubSeen := true }
    c := { c with replayed := c.replayed + (m.2.writes.filter (fun w => w.lvl = c.bt)).length }
    toks := toks ++ showOut c m.2
    c := { c with b := m.1, sb := sp.1 }
  c := { c with queue := [], polls := c.polls + 1 }
  return (c, toks, pbs)

def e2eLine (c : Ctx) : List String → Option (Ctx × String × List String)
  | ["ib", lg, cap, lvl] =>
    match rank c.table lvl with
    | none => none
    | some k =>
      let (c1, i) := loggerIx c lg
      let b' := (stepEv c1.p c1.bt c1.b (.setFlushLvl i k)).1
      let sb' := (specStepEv c1.bt c1.sb (.setFlushLvl i k)).1
      some ({ c1 with queue := c1.queue ++ [.initBt i (nat! cap)], b := b', sb := sb' }, "ok", [])
  | [op, lg, lvl, id] =>
    if op == "lg" || op == "ld" || op == "lgx" then
      match rank c.table lvl with
      | none => none
      | some k =>
        let (c1, i) := loggerIx c lg
        some ({ c1 with queue := c1.queue ++ [.log i k (nat! id)] }, "ok", [])
    else none
  | [op, lg, id] =>
    if op == "bt" || op == "btx" then
      let (c1, i) := loggerIx c lg
      some ({ c1 with queue := c1.queue ++ [.log i c1.bt (nat! id)] }, "ok", [])
    else none
  | ["fb", lg] =>
    let (c1, i) := loggerIx c lg
    some ({ c1 with queue := c1.queue ++ [.flushBt i] }, "ok", [])
  | ["poll"] =>
    let (c1, toks, pbs) := drain c
    some (c1, if toks.isEmpty then "-" else ",".intercalate toks, pbs)
  | _ => none

def mkCtx : List String → Option Ctx
  | ["init", id, "ring", a, b, c, d, k, cmp] => do
    let p ← parseParams [a, b, c, d, k, cmp]
    pure { id := id, isRing := true, p := p }
  | ["init", id, "e2e", a, b, c, d, k, cmp, levels] => do
    let p ← parseParams [a, b, c, d, k, cmp]
    let table := levels.splitOn ","
    let bt ← rank table "Backtrace"
    let nn ← rank table "None"
    pure { id := id, isRing := false, p := p, table := table, bt := bt, b := BSt.init nn, sb := SSt.init nn }
  | _ => none

def runTrace : IO UInt32 := do
  let stdin ← IO.getStdin
  let lines ← Drv.readLines stdin
  let mut ctx : Option Ctx := none
  let mut traces := 0
  let mut nl := 0
  let mut mism := 0
  let mut probs := 0
  let mut lineNo := 0
  let mut flushes := 0
  let mut wrapped := 0
  let mut postwrap := 0
  for line in lines do
    lineNo := lineNo + 1
    if line.isEmpty || line.startsWith "#" || line.startsWith "ORACLE" || line.startsWith "STATS" then continue
    let (opS, obsS) := Drv.splitArrow line
    let ws := Drv.words opS
    match ws with
    | "init" :: _ =>
      if let some c := ctx then
        IO.println c.summary
        flushes := flushes + c.flushes; wrapped := wrapped + c.wrapped; postwrap := postwrap + c.postwrap
      match mkCtx ws with
      | some c => ctx := some c; traces := traces + 1
      | none => IO.println s!"BAD-INIT line {lineNo}: {line}"; probs := probs + 1; ctx := none
    | _ =>
      match ctx with
      | none => IO.println s!"NO-INIT line {lineNo}"; probs := probs + 1
      | some c =>
        match (if c.isRing then ringLine c ws else e2eLine c ws) with
        | none => IO.println s!"BAD-OP trace={c.id} line={lineNo}: {line}"; probs := probs + 1
        | some (c', mobs, pbs) =>
          nl := nl + 1
          for p in pbs do
            IO.println s!"{p} trace={c.id} line={lineNo}: {opS}"
            probs := probs + 1
          if mobs ≠ obsS then
            IO.println s!"MISMATCH trace={c.id} line={lineNo}: {opS} impl=[{obsS}] model=[{mobs}]"
            mism := mism + 1
          ctx := some { c' with nlines := c'.nlines + 1 }
  if let some c := ctx then
    IO.println c.summary
    flushes := flushes + c.flushes; wrapped := wrapped + c.wrapped; postwrap := postwrap + c.postwrap
  IO.println s!"DONE traces={traces} lines={nl} mismatches={mism} problems={probs} flushes={flushes} wrapped_flushes={wrapped} flushes_after_a_wrapped_flush={postwrap}"
  return (if mism + probs == 0 then 0 else 1)

/-! ### search on the model for a history that deviates from the specification -/

def opsOfBits (len bits : Nat) : List (Op Nat) := Id.run do
  let mut out : List (Op Nat) := []
  let mut next := 1
  for i in List.range len do
    if (bits >>> i) % 2 == 0 then
      out := out ++ [.store next]
      next := next + 1
    else out := out ++ [.process]
  return out

def showOp : Op Nat → String
  | .store x => s!"st {x}"
  | .process => "pr"
  | .setCapacity c => s!"cap {c}"

def paramWords (p : Params) : String :=
  let b (x : Bool) := if x then "1" else "0"
  let cm := match p.flushCmp with | .ge => "ge" | .gt => "gt" | .le => "le" | .lt => "lt" | .eq => "eq" | .ne => "ne"
  s!"{b p.resetsIndexOnFlush} {b p.guardsZeroCapacity} {b p.startsAtIndex} {b p.clearsOnFlush} {p.wrapSlack} {cm}"

/-- `search <params> <levels> <maxlen>`: shortest `cap c` + store/flush history (c ≤ 4) whose model trace differs
    from the specification or touches an out-of-range slot; then the flush-level boundary -/
def search (args : List String) : IO UInt32 := do
  match args with
  | [a, b, c, d, k, cmp, levels, maxlen] =>
    match parseParams [a, b, c, d, k, cmp] with
    | none => IO.println "BAD-ARGS"; return 2
    | some p =>
      let mut found := false
      for len in List.range (nat! maxlen + 1) do
        if found then break
        for cap in [0, 1, 2, 3, 4] do
          if found then break
          for bits in List.range (2 ^ len) do
            let ops : List (Op Nat) := .setCapacity cap :: opsOfBits len bits
            let ub := (run p {} ops).ub
            if ub || trace p {} ops != Spec.trace {} ops then
              IO.println s!"FAILING-HISTORY kind={if ub then "ub" else "order"} len={len + 1}"
              IO.println s!"init search ring {paramWords p}"
              for o in ops do IO.println (showOp o)
              found := true
              break
      -- the trigger rule
      let table := levels.splitOn ","
      let mut found2 := false
      match rank table "Backtrace", rank table "None" with
      | some bt, some _ =>
        for f in severityOrder do
          if found2 then break
          for s in severityOrder do
            match rank table s, rank table f with
            | some ls, some lf =>
              let want := decide (severityOrder.idxOf s ≥ severityOrder.idxOf f)
              if (action p.flushCmp bt lf (.log 0 ls 1)).flush != want then
                IO.println s!"FAILING-HISTORY kind=trigger statement={s} flush_level={f}"
                IO.println s!"init search e2e {paramWords p} {levels}"
                IO.println s!"ib A 2 {f}"
                IO.println "poll"
                IO.println "bt A 1"
                IO.println s!"lg A {s} 2"
                IO.println "poll"
                found2 := true
                break
            | _, _ => pure ()
      | _, _ => IO.println "LEVEL-TABLE-UNUSABLE"
      if !found && !found2 then IO.println s!"NO-FAILING-HISTORY up to length {maxlen}"
      return (if found || found2 then 1 else 0)
  | _ => IO.println "usage: backtrace search <6 params> <levels> <maxlen>"; return 2

/-- `driver backtrace trace | search …` -/
def main : List String → IO UInt32
  | ["trace"] => runTrace
  | "search" :: rest => search rest
  | _ => do IO.println "usage: driver backtrace trace|search …"; return 2

end Drv.Backtrace
