import QuillModel.FileSink.Model
import QuillModel.Drivers.Util
/-!
Correspondence driver for the stream-sink stream of C06. Input: the traces printed by `harness/h3_filesink.cpp`.

* `init <id> <kind> hook=<0|1|2> fsync=<0|1> wbuf=<n> <plainSetsDirty> <hookSetsDirty> <flushTestsFlag> <flushResetsFlag>` —
  the sink class, its configuration, and the structure of `write_log` / `flush_sink` as extracted (0/1);
* `w <k> <size> t=<bytes after the callback> => ok`, `rp => ok`,
  `fl => bytes=<n> ids=<k.k.k|->` — what a second descriptor reads from the path after `flush_sink()` returned.

The flush observation is recomputed with `FileSink.step` (the definition the theorems are about): bytes = sum of the
transformed sizes of the model's `file`, ids = its statement ids.
-/
namespace Drv.FileSink
open _root_.FileSink

structure Ctx where
  id : String
  p : Params
  hook : Bool
  s : St := {}
  nlines : Nat := 0
  writes : Nat := 0
  flushes : Nat := 0
  idle : Nat := 0        -- flushes with nothing new to flush
  drained : Nat := 0     -- flushes that moved at least one statement
  left : Nat := 0        -- flushes after which the model's stdio buffer is not empty (a write path forgot the flag)

def showIds (l : List Stmt) : String := if l.isEmpty then "-" else ".".intercalate (l.map (fun x => toString x.id))

def kvGet (ws : List String) (k : String) : Option String :=
  ws.findSome? (fun w => if w.startsWith (k ++ "=") then some ((w.drop (k.length + 1)).toString) else none)

def opLine (c : Ctx) : List String → Option (Ctx × String)
  | "w" :: k :: _size :: rest => do
    let t ← kvGet rest "t"
    let s' := step c.p c.s (.write c.hook { id := Drv.nat! k, size := Drv.nat! t })
    pure ({ c with s := s', writes := c.writes + 1 }, "ok")
  | ["rp"] => some ({ c with s := step c.p c.s .periodic }, "ok")
  | ["fl"] =>
    let s' := step c.p c.s .flush
    let moved := s'.file.length > c.s.file.length
    let c1 := { c with s := s', flushes := c.flushes + 1 }
    let c2 := if moved then { c1 with drained := c1.drained + 1 } else { c1 with idle := c1.idle + 1 }
    let c3 := if s'.buf.isEmpty then c2 else { c2 with left := c2.left + 1 }
    some (c3, s!"bytes={(s'.file.map (·.size)).foldl (· + ·) 0} ids={showIds s'.file}")
  | _ => none

def Ctx.summary (c : Ctx) : String :=
  s!"TRACE {c.id} lines={c.nlines} writes={c.writes} flushes={c.flushes} draining={c.drained} idle={c.idle} hook={if c.hook then 1 else 0} model_left_in_buffer={c.left}"

def mkCtx : List String → Option Ctx
  | ["init", id, _kind, hook, _fsync, _wbuf, a, b, c, d] => do
    let h ← kvGet [hook] "hook"
    pure { id := id, hook := h != "0",
           p := { plainSetsDirty := a == "1", hookSetsDirty := b == "1", flushTestsFlag := c == "1", flushResetsFlag := d == "1" } }
  | _ => none

def runTrace : IO UInt32 := do
  let stdin ← IO.getStdin
  let lines ← Drv.readLines stdin
  let mut ctx : Option Ctx := none
  let mut traces := 0
  let mut nl := 0
  let mut mism := 0
  let mut probs := 0
  let mut lineNo := 0
  let mut flushes := 0
  let mut draining := 0
  for line in lines do
    lineNo := lineNo + 1
    if line.isEmpty || line.startsWith "#" || line.startsWith "ORACLE" || line.startsWith "STATS" then continue
    let (opS, obsS) := Drv.splitArrow line
    let ws := Drv.words opS
    match ws with
    | "init" :: _ =>
      if let some c := ctx then
        IO.println c.summary
        flushes := flushes + c.flushes; draining := draining + c.drained
      match mkCtx ws with
      | some c => ctx := some c; traces := traces + 1
      | none => IO.println s!"BAD-INIT line {lineNo}: {line}"; probs := probs + 1; ctx := none
    | _ =>
      match ctx with
      | none => IO.println s!"NO-INIT line {lineNo}"; probs := probs + 1
      | some c =>
        match opLine c ws with
        | none => IO.println s!"BAD-OP trace={c.id} line={lineNo}: {line}"; probs := probs + 1
        | some (c', mobs) =>
          nl := nl + 1
          if mobs ≠ obsS then
            IO.println s!"MISMATCH trace={c.id} line={lineNo}: {opS} impl=[{obsS}] model=[{mobs}]"
            mism := mism + 1
          ctx := some { c' with nlines := c'.nlines + 1 }
  if let some c := ctx then
    IO.println c.summary
    flushes := flushes + c.flushes; draining := draining + c.drained
  IO.println s!"DONE traces={traces} lines={nl} mismatches={mism} problems={probs} flushes={flushes} draining_flushes={draining}"
  return (if mism + probs == 0 then 0 else 1)

/-- `driver filesink trace` -/
def main : List String → IO UInt32
  | ["trace"] => runTrace
  | _ => do IO.println "usage: driver filesink trace"; return 2

end Drv.FileSink
