import QuillModel.MathUtil.TransitW
import QuillModel.Drivers.Util
/-!
Correspondence driver for `harness/h3_math.cpp`: recomputes every observation with the definitions of
`MathUtil/Model.lean` and `MathUtil/TransitW.lean` (the ones the theorems of `Props/C0{1,2,3}Cap.lean` are about).
`driver mathutil trace` reads the harness lines on stdin.
-/
namespace Drv.MathUtil
open _root_.MathUtil Drv

def int! (s : String) : Int :=
  if s.startsWith "-" then - ((s.drop 1).toString.toNat?.getD 0 : Nat) else (s.toNat?.getD 0 : Nat)

def b01 (b : Bool) : String := if b then "1" else "0"

/-- an allocation request the address space cannot satisfy makes `_alloc_aligned` throw (`mmap` fails) -/
def allocThrows (bytes : Nat) : Bool := bytes + 144 > 2 ^ 47

structure DSt where
  /-- extracted flag `ctorRejectsOversized` (second driver argument) -/
  rej : Bool := false
  ucap : Nat := 0
  umax : Nat := 0
  tb : WB Nat := { initCap := 1, cap := 1, mask := 0, store := fun _ => 0, rpos := 0, wpos := 0, shrinkReq := false }

def tobs (b : WB Nat) : String :=
  let f := match b.front with | some x => toString x | none => "-"
  s!"front={f} size={b.size 64} cap={b.cap} mask={b.mask} empty={b01 b.isEmpty} r={b.rpos} w={b.wpos}"

/-- (new state, expected observation, parameter-only part of the observation) for one op line; `none` = not an op -/
def exec (s : DSt) (ws : List String) : Option (DSt × String × String) :=
  match ws with
  | ["ip2", n] => some (s, b01 (isPow2 (nat! n)), "")
  | ["mp2", w] => some (s, toString (maxPow2 (nat! w)), "")
  | ["np2", w, n] => some (s, toString (nextPow2W (nat! w) (nat! n)), "")
  | ["np2s", w, n] => some (s, toString (nextPow2S (nat! w) (int! n)), "")
  | ["bctor", w, req, pct] =>
    match boundedCtorR s.rej (nat! w) (nat! req) (nat! pct) with
    | none => some (s, "throw", "")
    | some c =>
    if allocThrows c.allocBytes then some (s, "throw", "")
    else
      let exact := decide (c.capacity * nat! pct < 2 ^ 53)
      some (s, s!"cap={c.capacity} mask={c.mask} alloc={c.allocBytes} apicap={c.capacity}",
            if exact then s!"batch={c.bytesPerBatch}" else "")
  | ["uq", i, m] =>
    let cap := nextPow2W 64 (nat! i)
    some ({ s with ucap := cap, umax := nat! m }, s!"cap={cap}", "")
  | ["upw", n] =>
    let n := nat! n
    if n ≤ s.ucap then some (s, s!"grant cap={s.ucap}", "")
    else match handleFullR s.rej s.ucap n s.umax with
      | .alloc c => some ({ s with ucap := c }, s!"grant cap={c}", "")
      | .null => some (s, s!"null cap={s.ucap}", "")
      | .throw => some (s, s!"throw cap={s.ucap}", "")
      | .hang => some (s, s!"hang cap={s.ucap}", "")
  | ["ushrink", c] =>
    match shrinkCap s.ucap (nat! c) with
    | some c' => some ({ s with ucap := c' }, s!"cap={c'}", "")
    | none => some (s, s!"cap={s.ucap}", "")
  | ["tb", req] =>
    let c := transitCtor 64 (nat! req)
    let b : WB Nat := { initCap := c.initialCapacity, cap := c.capacity, mask := c.mask, store := fun _ => 0,
                        rpos := 0, wpos := 0, shrinkReq := false }
    some ({ s with tb := b }, s!"cap={c.capacity} mask={c.mask} init={c.initialCapacity}", "")
  | ["tpush", x] => let b := stepW 64 s.tb (.push (nat! x)); some ({ s with tb := b }, tobs b, "")
  | ["tpop"] => let b := stepW 64 s.tb .pop; some ({ s with tb := b }, tobs b, "")
  | ["treq"] => let b := stepW 64 s.tb .requestShrink; some ({ s with tb := b }, tobs b, "")
  | ["ttry"] => let b := stepW 64 s.tb .tryShrink; some ({ s with tb := b }, tobs b, "")
  | ["tsetpos", p] =>
    let b0 := s.tb
    let b := if b0.isEmpty then { b0 with rpos := nat! p, wpos := nat! p } else b0
    some ({ s with tb := b }, tobs b, "")
  | _ => none

/-- split the implementation's observation into (everything but `batch=…`, the `batch=…` word) -/
def splitBatch (obs : String) : String × String :=
  let ws := Drv.words obs
  (" ".intercalate (ws.filter (fun w => !w.startsWith "batch=")),
   " ".intercalate (ws.filter (fun w => w.startsWith "batch=")))

def runTrace (rej : Bool) : IO UInt32 := do
  let stdin ← IO.getStdin
  let lines ← Drv.readLines stdin
  let mut s : DSt := { rej := rej }
  let mut n := 0
  let mut mism := 0
  let mut pdiff := 0
  let mut lineNo := 0
  let mut wraps := 0
  let mut expands := 0
  let mut sat := 0
  let mut loops := 0
  for line in lines do
    lineNo := lineNo + 1
    if line.isEmpty || line.startsWith "#" || line.startsWith "ORACLE" || line.startsWith "STATS" then continue
    let (opS, obsS) := Drv.splitArrow line
    let ws := Drv.words opS
    match exec s ws with
    | none => IO.println s!"BAD-OP line={lineNo}: {line}"; mism := mism + 1
    | some (s', want, wantParam) =>
      -- branch statistics of the model (which parts of the definitions the stream exercised)
      match ws with
      | ["np2", w, x] =>
        if nat! x ≥ maxPow2 (nat! w) then sat := sat + 1
        else if !isPow2 (nat! x) then loops := loops + 1
      | _ => pure ()
      if s'.tb.cap > s.tb.cap && ws.head? == some "tpush" then expands := expands + 1
      if s'.tb.wpos < s.tb.wpos && ws.head? == some "tpush" && s'.tb.cap == s.tb.cap then wraps := wraps + 1
      s := s'
      n := n + 1
      let (got, gotParam) := splitBatch obsS
      if got ≠ want then
        IO.println s!"MISMATCH line={lineNo}: {opS} impl=[{got}] model=[{want}]"
        mism := mism + 1
      else if wantParam ≠ "" && gotParam ≠ wantParam then
        IO.println s!"PARAM-DIFF line={lineNo}: {opS} impl=[{gotParam}] model=[{wantParam}]"
        pdiff := pdiff + 1
  IO.println s!"DONE lines={n} mismatches={mism} param_diffs={pdiff} saturating={sat} loop_runs={loops} transit_expands={expands} transit_counter_wraps={wraps}"
  return (if mism == 0 then 0 else 1)

def main : List String → IO UInt32
  | ["trace"] => runTrace false
  | ["trace", r] => runTrace (r == "1")
  | _ => do IO.println "usage: driver mathutil trace [ctorRejectsOversized: 0|1]"; return 2

end Drv.MathUtil
