import QuillModel.Time.Supported
import QuillModel.Drivers.Util
/-!
Correspondence driver for C13. Input: the lines printed by `harness/h3_time.cpp`

    case <id> <G|L> <zone> <class> <pattern-hex|->
    ctor => ok | err X | err excl | err once
    t <ns> <gmtoff> <isdst> <abbr-hex> => <rendered-hex|->

(`gmtoff isdst abbr` is what `localtime_r` said about that instant in the case's zone: the offset table the
local-time model is parametric in.) The driver builds `Time.TF.init` / `Time.TF.step` — the definitions the
theorems of `Props/C13.lean` are about — replays the same instants, compares every observation (`MISMATCH`),
and also compares the machine's output with `Time.strftimeRef` (`MODEL-REF-DIFF` when the pattern satisfies the
theorem's hypotheses, i.e. when the theorem says they must agree). Class `ext` (glibc flag/width extensions,
outside the model) is only counted.
-/
namespace Drv.Time
open _root_.Time

def charsOfHex (h : String) : Option (List Char) :=
  if h == "-" then some [] else (Drv.unhex h).map (·.map Char.ofNat)

def hexOfChars (cs : List Char) : String :=
  if cs.isEmpty then "-" else Drv.hexOf (cs.map Char.toNat)

def intOf (s : String) : Int := s.toInt?.getD 0

structure Ctx where
  id : String
  cls : String
  loc : Bool
  pat : List Char
  tf : Option TF
  supported : Bool
  applies : Bool          -- every hypothesis of the accept-theorem that depends on the pattern only
  tab : List (Nat × ZInfo) := []
  steps : Nat := 0
  recalc : Nat := 0
  patch : Nat := 0
  fallback : Nat := 0
  same : Nat := 0
  static : Nat := 0
  refdiff : Nat := 0
  mism : Nat := 0
  epochBad : Nat := 0

def Ctx.summary (P : Nat) (c : Ctx) : String :=
  let prem := if c.loc then (if zonePremiseOn P c.tab then 1 else 0) else 1
  s!"TRACE {c.id} class={c.cls} mode={if c.loc then "L" else "G"} steps={c.steps} recalc={c.recalc} patch={c.patch} fallback={c.fallback} same={c.same} static={c.static} supported={if c.supported then 1 else 0} applies={if c.applies then 1 else 0} premise={prem} refdiff={c.refdiff} mism={c.mism}"

def ctorText : Except InitError TF → String
  | .ok _ => "ok"
  | .error .percentX => "err X"
  | .error .exclusive => "err excl"
  | .error .repeated => "err once"

structure Totals where
  cases : Nat := 0
  lines : Nat := 0
  mismatches : Nat := 0
  problems : Nat := 0
  supportedCases : Nat := 0
  appliesCases : Nat := 0
  refdiffUnsupported : Nat := 0
  recalc : Nat := 0
  patch : Nat := 0
  fallback : Nat := 0
  same : Nat := 0
  static : Nat := 0
  rejected : Nat := 0

def fold (c : Ctx) (t : Totals) : Totals :=
  { t with recalc := t.recalc + c.recalc, patch := t.patch + c.patch, fallback := t.fallback + c.fallback,
           same := t.same + c.same, static := t.static + c.static,
           refdiffUnsupported := t.refdiffUnsupported + (if c.applies then 0 else c.refdiff) }

def runTrace (P : Nat) (rr : Bool) : IO UInt32 := do
  let stdin ← IO.getStdin
  let lines ← Drv.readLines stdin
  let mut ctx : Option Ctx := none
  let mut t : Totals := {}
  let mut lineNo := 0
  for line in lines do
    lineNo := lineNo + 1
    if line.isEmpty || line.startsWith "#" || line.startsWith "ORACLE" || line.startsWith "ZONE"
        || line.startsWith "STATS" || line.startsWith "DIST" then continue
    let (opS, obsS) := Drv.splitArrow line
    let ws := Drv.words opS
    match ws with
    | ["case", id, mode, _zone, cls, pathex] =>
      if let some c := ctx then
        t := fold c t
        IO.println (c.summary P)
      match charsOfHex pathex with
      | none =>
        IO.println s!"BAD-CASE line {lineNo}: {line}"
        t := { t with problems := t.problems + 1 }
        ctx := none
      | some pat =>
        let loc := mode == "L"
        let toks := lex pat
        let sup := supportedToks toks
        let app := sup && !hasX toks && fracCount toks ≤ 1
        let tf := match TF.init rr pat loc with
          | .ok f => some f
          | .error _ => none
        ctx := some { id := id, cls := cls, loc := loc, pat := pat, tf := tf, supported := sup, applies := app }
        t := { t with cases := t.cases + 1, supportedCases := t.supportedCases + (if sup then 1 else 0),
                      appliesCases := t.appliesCases + (if app then 1 else 0) }
    | ["ctor"] =>
      match ctx with
      | none => IO.println s!"NO-CASE line {lineNo}"; t := { t with problems := t.problems + 1 }
      | some c =>
        if c.cls == "ext" then continue
        let m := ctorText (TF.init rr c.pat c.loc)
        t := { t with lines := t.lines + 1, rejected := t.rejected + (if m == "ok" then 0 else 1) }
        if m ≠ obsS then
          IO.println s!"MISMATCH case={c.id} line={lineNo}: ctor impl=[{obsS}] model=[{m}]"
          t := { t with mismatches := t.mismatches + 1 }
          ctx := some { c with mism := c.mism + 1 }
        -- the rejection half of the theorem, on the model
        let toks := lex c.pat
        if c.supported then
          -- what `C13_rejects` / `C13_core` say about the constructor
          let agrees :=
            if kindCount toks ≥ 2 then m == "err excl"
            else if fracCount toks ≥ 2 then (if rr then (m == "err once" || m == "err X") else true)
            else if hasX toks then m == "err X" else m == "ok"
          let want := if kindCount toks ≥ 2 then "err excl" else if fracCount toks ≥ 2 then "err once|err X" else if hasX toks then "err X" else "ok"
          if !agrees then
            IO.println s!"MODEL-REF-DIFF case={c.id} line={lineNo}: ctor model=[{m}] theorem=[{want}]"
            t := { t with problems := t.problems + 1 }
    | ["t", nsS, offS, dstS, abbrS] =>
      match ctx with
      | none => IO.println s!"NO-CASE line {lineNo}"; t := { t with problems := t.problems + 1 }
      | some c =>
        if c.cls == "ext" then
          ctx := some { c with steps := c.steps + 1 }
          continue
        match c.tf, charsOfHex abbrS with
        | some f, some abbr =>
          let ns := Drv.nat! nsS
          let secs := ns / 1000000000
          let zi : ZInfo := { off := intOf offS, isdst := dstS == "1", abbr := abbr }
          let tz : Nat → ZInfo := fun _ => zi
          let p := f.p1
          let isFallback := decide (secs < p.cachedTs)
          let isRecalc := !isFallback && decide (p.nextRecalc ≤ secs)
          let r := f.step P tz ns
          let p' := r.1.p1
          let isStatic := !isFallback && p'.idx.isEmpty
          let isSame := !isFallback && !isStatic && !isRecalc && decide (p.cachedTs = secs)
          let isPatch := !isFallback && !isStatic && !isRecalc && !isSame
          let out := hexOfChars r.2
          let reference := strftimeRef c.pat (tmOf c.loc tz secs) (ns % 1000000000)
          let epochOK := !usesEpoch (lex c.pat) || decide (1000000000 ≤ secs)
          let rd := reference ≠ r.2
          let mm := out ≠ obsS
          t := { t with lines := t.lines + 1 }
          if mm then
            IO.println s!"MISMATCH case={c.id} line={lineNo}: {opS} impl=[{obsS}] model=[{out}]"
            t := { t with mismatches := t.mismatches + 1 }
          if rd && c.applies && epochOK && (!c.loc || zonePremiseOn P ((secs, zi) :: c.tab)) then
            IO.println s!"MODEL-REF-DIFF case={c.id} line={lineNo}: {opS} model=[{out}] strftimeRef=[{hexOfChars reference}]"
            t := { t with problems := t.problems + 1 }
          let tab := if c.tab.any (fun e => e.1 == secs) then c.tab else (secs, zi) :: c.tab
          ctx := some { c with tf := some r.1, tab := tab, steps := c.steps + 1,
                               recalc := c.recalc + (if isRecalc then 1 else 0),
                               patch := c.patch + (if isPatch then 1 else 0),
                               fallback := c.fallback + (if isFallback then 1 else 0),
                               same := c.same + (if isSame then 1 else 0),
                               static := c.static + (if isStatic && !isRecalc then 1 else 0),
                               refdiff := c.refdiff + (if rd then 1 else 0),
                               mism := c.mism + (if mm then 1 else 0),
                               epochBad := c.epochBad + (if epochOK then 0 else 1) }
        | none, _ =>
          IO.println s!"MISMATCH case={c.id} line={lineNo}: the model rejected the pattern, the implementation rendered [{obsS}]"
          t := { t with mismatches := t.mismatches + 1 }
        | _, none =>
          IO.println s!"BAD-OP line {lineNo}: {line}"
          t := { t with problems := t.problems + 1 }
    | _ =>
      IO.println s!"BAD-OP line {lineNo}: {line}"
      t := { t with problems := t.problems + 1 }
  if let some c := ctx then
    t := fold c t
    IO.println (c.summary P)
  IO.println s!"DONE cases={t.cases} lines={t.lines} mismatches={t.mismatches} problems={t.problems} supported_cases={t.supportedCases} theorem_applies_cases={t.appliesCases} rejected={t.rejected} recalc={t.recalc} patch={t.patch} fallback={t.fallback} same={t.same} static={t.static} refdiff_outside_theorem={t.refdiffUnsupported}"
  return (if t.mismatches + t.problems == 0 then 0 else 1)

/-- `driver time trace <P> <rr>`: the local-time recalculation period and the repeated-specifier flag extracted from the headers -/
def main : List String → IO UInt32
  | ["trace", p, rr] => runTrace (Drv.nat! p) (rr == "1")
  | _ => do IO.println "usage: driver time trace <local-recalculation-period> <rejects-repeated-specifier 0|1>"; return 2

end Drv.Time
