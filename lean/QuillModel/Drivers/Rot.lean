import QuillModel.Rot.Render
import QuillModel.Rot.Json
import QuillModel.Drivers.Util
/-!
Correspondence driver for the rotation model. Input: the trace printed by `harness/h3_rot.cpp`
(`case …` then one `op => observation` line per operation performed on the real `RotatingFileSink` in a scratch
directory; a `start` op may end in `sp=<k>`, the spelling of the path used for that start, which the model ignores). The driver replays the operations on `Rot.restart` / `Rot.write` (the definitions the theorems are
about), renders the abstract file system and sink state and compares field by field:

  `next=<_next_rotation_time|-> open=<_open_file_timestamp> fsz=<_file_size> dq=<_created_files back→front> | <listing>`

`MISMATCH case=… line=… fields=a,b : …` names the fields that differ, so that each property's check can look at the
observations that concern it. `driver rot trace <advancesFromSchedule 0|1> <minLimit> <deletesAllExcess 0|1>`.
-/
namespace Drv.Rot
open _root_.Rot

structure Ctx where
  id : String := ""
  kind : String := ""
  sch : Scheme := .index
  base : String := "log.log"
  blind : Bool := false   -- the directory scan does not see the sink's own rotated files (base without extension)
  skip : Bool := false
  fs : FS := []
  sink : Option Sink := none
  ztab : List (Nat × Int) := []
  -- statistics
  ops : Nat := 0
  writes : Nat := 0
  timeRot : Nat := 0
  sizeRot : Nat := 0
  skippedEmpty : Nat := 0
  stoppedN : Nat := 0
  deletions : Nat := 0
  restarts : Nat := 0
  gaps : Nat := 0
  bumps : Nat := 0
  maxFiles : Nat := 0

def zOf (tab : List (Nat × Int)) (ts : Nat) : Int :=
  match tab.find? (·.1 == ts) with
  | some p => p.2
  | none => 0

def int! (s : String) : Int := s.toInt?.getD 0

def schemeOf : String → Scheme
  | "D" => .date
  | "T" => .dateTime
  | _ => .index

def freqOf : String → Freq
  | "D" => .daily
  | "H" => .hourly
  | "M" => .minutely
  | _ => .disabled

def insertSorted (x : String × String) : List (String × String) → List (String × String)
  | [] => [x]
  | y :: ys => if x.1 < y.1 then x :: y :: ys else y :: insertSorted x ys

def listing (base : String) (sch : Scheme) (fs : FS) : String :=
  let rows := fs.foldl (fun acc p =>
    insertSorted (renderNameB base sch p.1, ".".intercalate (p.2.map (fun s => toString s.id))) acc) []
  ";".intercalate (rows.map (fun r => r.1 ++ "=" ++ r.2))

def showState (base : String) (sch : Scheme) (fs : FS) (s : Sink) : List (String × String) :=
  [("next", if s.cfg.freq = .disabled then "-" else toString s.nextRot),
   ("open", toString s.openTs),
   ("fsz", toString s.fileSize),
   ("dq", ",".intercalate (s.created.map (fun e => renderNameB base sch e.name))),
   ("listing", listing base sch fs)]

def parseObs (obs : String) : List (String × String) :=
  match obs.splitOn " | " with
  | [st, ls] =>
    (Drv.words st).filterMap (fun w => match w.splitOn "=" with
      | [k, v] => some (k, v)
      | _ => none) ++ [("listing", ls.trimAscii.toString)]
  | [st] =>
    (Drv.words st).filterMap (fun w => match w.splitOn "=" with
      | [k, v] => some (k, v)
      | _ => none) ++ [("listing", "")]
  | _ => []

def diffFields (impl model : List (String × String)) : List String :=
  model.filterMap (fun (k, v) => match impl.find? (·.1 == k) with
    | some (_, v') => if v == v' then none else some k
    | none => some k)

def Ctx.summary (c : Ctx) : String :=
  s!"TRACE {c.id} kind={c.kind} skipped={if c.skip then 1 else 0} ops={c.ops} writes={c.writes} timerot={c.timeRot} sizerot={c.sizeRot} emptyskip={c.skippedEmpty} stopped={c.stoppedN} deletions={c.deletions} restarts={c.restarts} gaps={c.gaps} bumps={c.bumps} maxfiles={c.maxFiles}"

def plantName : List String → Option Name
  | ["F", idx] => some (.file none (Drv.nat! idx))
  | ["J", k] => some (.junk (Drv.nat! k))
  | ["X", k] => some (.foreign (Drv.nat! k))
  | _ => none

def runTrace (adv : Bool) (minLimit : Nat) (delAllExcess : Bool) : IO UInt32 := do
  let stdin ← IO.getStdin
  let lines ← Drv.readLines stdin
  let P : Params := { advancesFromSchedule := adv, deletesAllExcess := delAllExcess }
  let mut c : Ctx := {}
  let mut have_ := false
  let mut lineNo := 0
  let mut mism := 0
  let mut problems := 0
  let mut traces := 0
  let mut total := 0
  let mut skipped := 0
  for line in lines do
    lineNo := lineNo + 1
    if line.isEmpty || line.startsWith "#" || line.startsWith "ORACLE" || line.startsWith "STATS"
        || line.startsWith "NOTE" then continue
    let (opS, obsS) := Drv.splitArrow line
    let ws := Drv.words opS
    match ws with
    | "case" :: id :: sch :: dst :: kind :: _tz :: extras =>
      if have_ then IO.println c.summary
      have_ := true
      traces := traces + 1
      -- optional: base=<file name> (rendered by the model), sink=J (RotatingJsonFileSink: bytes on disk differ from the
      -- statement size the sink counts — one size per statement in the model) and fa=<FilenameAppendOption> (the name
      -- carries the wall-clock date): the last two are driven with the property oracle only
      let base := (extras.filterMap (fun w => if w.startsWith "base=" then some (w.drop 5).toString else none)).headD "log.log"
      let oracleOnly := extras.any (fun w => w.startsWith "fa=" || w.startsWith "oo=")
      let sk := dst == "dst=1" || oracleOnly
      if sk then skipped := skipped + 1
      let blind := !scanSeesOwn base.toList base.toList
      c := { id := id, kind := kind, sch := schemeOf sch, skip := sk, base := base, blind := blind }
    | "cfg" :: rest =>
      -- validation probes of the configuration setters
      let model : String := match rest with
        | ["limit", v] => if limitAccepted minLimit (Drv.nat! v) then "ok" else "throw"
        | ["freq", ch, iv] => match freqAccepted (ch.toList.headD ' ') (Drv.nat! iv) with
          | some .minutely => "ok:M" | some .hourly => "ok:H" | _ => "throw"
        | ["daily", s] => match dailyAccepted s with
          | some (h, m) => s!"ok:{h}:{m}" | none => "throw"
        | _ => "bad-op"
      total := total + 1
      if model ≠ obsS then
        IO.println s!"MISMATCH case={c.id} line={lineNo} fields=cfg : {opS} impl=[{obsS}] model=[{model}]"
        mism := mism + 1
    | _ =>
      if c.skip then continue
      if !have_ then
        IO.println s!"NO-CASE line {lineNo}"; problems := problems + 1; continue
      let impl := parseObs obsS
      match ws with
      | "plant" :: rest =>
        match plantName rest with
        | some n =>
          let fs' := c.fs.put n []
          c := { c with fs := fs', ops := c.ops + 1 }
          total := total + 1
          let model := [("listing", listing c.base c.sch fs')]
          let d := diffFields impl model
          if !d.isEmpty then
            IO.println s!"MISMATCH case={c.id} line={lineNo} fields={",".intercalate d} : {opS} impl=[{obsS}] model=[{listing c.base c.sch fs'}]"
            mism := mism + 1
        | none => IO.println s!"BAD-OP line {lineNo}: {line}"; problems := problems + 1
      -- `_spelling`: nothing, or `sp=<k>` — how the harness spelled the sink's path for this (re)start (canonical,
      -- relative, `./`, `x/../x`, through a symlink, …). The model has no such parameter: what is recovered and how the
      -- sequence continues must not depend on it, so the driver ignores it by construction.
      | "start" :: limit :: mx :: ow :: mode :: cl :: fr :: iv :: hh :: mm :: ts :: off :: spelling =>
        -- a start that changes the naming scheme (`sch=`): from here on the case is checked by the property oracle only
        -- (the model's names carry one kind of suffix for the life of a directory)
        if spelling.any (fun w => w.startsWith "sch=" && (w.drop 4).toString != (match c.sch with | .index => "I" | .date => "D" | .dateTime => "T")) then
          c := { c with skip := true }
          skipped := skipped + 1
          continue
        let cfg : Cfg := { scheme := c.sch, limit := Drv.nat! limit, maxBackup := Drv.nat! mx, overwrite := ow == "1",
                           append := mode == "a", removeOld := cl == "1", freq := freqOf fr, interval := Drv.nat! iv,
                           dailyH := Drv.nat! hh, dailyM := Drv.nat! mm }
        let tsN := Drv.nat! ts
        let ztab := (tsN, int! off) :: c.ztab
        let w := if c.blind then restartBlind (zOf ztab) c.fs cfg tsN else restart (zOf ztab) c.fs cfg tsN
        let st := showState c.base c.sch w.fs w.sink
        let d := diffFields impl st
        total := total + 1
        if !d.isEmpty then
          let ms := " ".intercalate (st.map (fun (k, v) => k ++ "=" ++ v))
          IO.println s!"MISMATCH case={c.id} line={lineNo} fields={",".intercalate d} : {opS} impl=[{obsS}] model=[{ms}]"
          mism := mism + 1
        c := { c with fs := w.fs, sink := some w.sink, ztab := ztab, ops := c.ops + 1, restarts := c.restarts + 1,
                      maxFiles := max c.maxFiles w.sink.created.length }
      -- `wire=<n>` (JSON sink): the bytes the base sink wrote for the statement; `size` is what RotatingSink counts
      | "w" :: id :: size :: ts :: off :: wextra =>
        match c.sink with
        | none => IO.println s!"NO-START line {lineNo}"; problems := problems + 1
        | some s =>
          let tsN := Drv.nat! ts
          let ztab := if c.ztab.any (·.1 == tsN) then c.ztab else (tsN, int! off) :: c.ztab
          let z := zOf ztab
          let w0 : World := { fs := c.fs, sink := s }
          let counted := Drv.nat! size
          let wire := (wextra.filterMap (fun x => if x.startsWith "wire=" then some (Drv.nat! (x.drop 5).toString) else none)).headD counted
          let stm : Stmt := { id := Drv.nat! id, size := wire }
          let timeFired := s.cfg.freq ≠ .disabled && decide (tsN ≥ s.nextRot)
          let sizeFired := !timeFired && s.cfg.limit ≠ 0 && decide (s.fileSize + counted > s.cfg.limit)
          let wp := prepare P z w0 counted tsN
          let rotated := (timeFired || sizeFired) && decide (wp.sink.openTs = tsN) && decide (wp.sink.fileSize = 0)
                           && decide (bytes (content c.fs curInfo) ≠ 0)
          let w := writeC P z w0 stm counted tsN
          let st := showState c.base c.sch w.fs w.sink
          let d := diffFields impl st
          total := total + 1
          if !d.isEmpty then
            let ms := " ".intercalate (st.map (fun (k, v) => k ++ "=" ++ v))
            IO.println s!"MISMATCH case={c.id} line={lineNo} fields={",".intercalate d} : {opS} impl=[{obsS}] model=[{ms}]"
            mism := mism + 1
          let isStopped := (timeFired || sizeFired) && stopped s
          let emptySkip := (timeFired || sizeFired) && !rotated && !isStopped
          let deleted := rotated && decide (w.sink.created.length ≤ s.created.length)
          let gap := timeFired && decide (tsN ≥ s.nextRot + period s.cfg)
          let bump := rotated && w.sink.created.any (fun e => e.sfx.isSome && decide (e.idx > 0))
          c := { c with fs := w.fs, sink := some w.sink, ztab := ztab, ops := c.ops + 1, writes := c.writes + 1,
                        timeRot := c.timeRot + (if timeFired && rotated then 1 else 0),
                        sizeRot := c.sizeRot + (if sizeFired && rotated then 1 else 0),
                        skippedEmpty := c.skippedEmpty + (if emptySkip then 1 else 0),
                        stoppedN := c.stoppedN + (if isStopped then 1 else 0),
                        deletions := c.deletions + (if deleted then 1 else 0),
                        gaps := c.gaps + (if gap then 1 else 0),
                        bumps := c.bumps + (if bump then 1 else 0),
                        maxFiles := max c.maxFiles w.sink.created.length }
      | _ => IO.println s!"BAD-OP line {lineNo}: {line}"; problems := problems + 1
  if have_ then IO.println c.summary
  IO.println s!"DONE traces={traces} skipped_dst={skipped} lines={total} mismatches={mism} problems={problems}"
  return (if mism + problems == 0 then 0 else 1)

/-- `driver rot trace <adv> <minLimit> <deletesAllExcess>` -/
def main : List String → IO UInt32
  | ["trace", adv, minLimit, del] => runTrace (adv == "1") (Drv.nat! minLimit) (del == "1")
  | _ => do IO.println "usage: driver rot trace <advancesFromSchedule 0|1> <minLimit> <deletesAllExcess 0|1>"; return 2

end Drv.Rot
