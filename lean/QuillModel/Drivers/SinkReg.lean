import QuillModel.SinkReg.Model
import QuillModel.Drivers.Util
/-!
Correspondence driver for the sink-registry stream of C17. Input: the traces printed by `harness/h3_sinkreg.cpp`.

* `init <id> <findAt> <insertAt> <name,name,…>` — the bounds (`lower`/`upper`) as extracted, and the names of the case
  in `std::string` order (a name is modelled by its rank in this table);
* `cg <name> => id=<k> new=<0|1> list=<dump>`, `get <name> => id=<k> list=<dump>` | `err=QuillError list=<dump>`,
  `drop <k> => ok list=<dump>`, `cleanup => removed=<n> list=<dump>`; `<dump>` = the `_sinks` vector as
  `name:<k>` (alive) / `name:x` (expired), `-` when empty.

Every observation is recomputed with `SinkReg.step` (the definition the theorems are about) and compared as a string.
Per case a `TRACE` line with what the case exercised, at the end `DONE`.
-/
namespace Drv.SinkReg
open _root_.SinkReg

def boundOf : String → Option Bound
  | "lower" => some .lower
  | "upper" => some .upper
  | _ => none

structure Ctx where
  id : String
  p : Params
  names : List String
  s : St := {}
  nlines : Nat := 0
  created : Nat := 0
  reused : Nat := 0
  getOk : Nat := 0
  getErr : Nat := 0
  drops : Nat := 0
  sweeps : Nat := 0
  swept : Nat := 0
  coexist : Nat := 0      -- ops answered in a state where an expired and an alive entry of one name coexist
  behindExpired : Nat := 0 -- create/get of a name whose alive entry has an expired entry of the same name next to it
  maxLen : Nat := 0
  twoAlive : Bool := false

def showList (c : Ctx) (l : List Entry) : String :=
  if l.isEmpty then "-"
  else ",".intercalate (l.map (fun e => s!"{c.names.getD e.name "?"}:{if e.alive then toString e.id else "x"}"))

def hasCoexist (l : List Entry) : Bool :=
  l.any (fun e => !e.alive && l.any (fun f => f.alive && f.name == e.name))

def hasTwoAlive (l : List Entry) : Bool :=
  l.any (fun e => e.alive && (l.filter (fun f => f.alive && f.name == e.name)).length > 1)

def nameIx (c : Ctx) (n : String) : Option Nat :=
  let i := c.names.idxOf n
  if i < c.names.length then some i else none

/-- one call: new context and the model's observation -/
def opLine (c : Ctx) : List String → Option (Ctx × String)
  | ["cg", n] => do
    let k ← nameIx c n
    let nameCoexist := c.s.entries.any (fun e => e.name == k && !e.alive)
    let r := step c.p c.s (.createOrGet k)
    let fresh := r.1.next != c.s.next
    let c1 := if fresh then { c with created := c.created + 1 } else { c with reused := c.reused + 1 }
    let c2 := if nameCoexist then { c1 with behindExpired := c1.behindExpired + 1 } else c1
    match r.2 with
    | .id i => pure ({ c2 with s := r.1 }, s!"id={i} new={if fresh then 1 else 0} list={showList c r.1.entries}")
    | _ => none
  | ["get", n] => do
    let k ← nameIx c n
    let nameCoexist := c.s.entries.any (fun e => e.name == k && !e.alive)
    let r := step c.p c.s (.get k)
    let c2 := if nameCoexist then { c with behindExpired := c.behindExpired + 1 } else c
    match r.2 with
    | .id i => pure ({ c2 with s := r.1, getOk := c2.getOk + 1 }, s!"id={i} list={showList c r.1.entries}")
    | .notFound => pure ({ c2 with s := r.1, getErr := c2.getErr + 1 }, s!"err=QuillError list={showList c r.1.entries}")
    | _ => none
  | ["drop", i] =>
    let r := step c.p c.s (.drop (Drv.nat! i))
    some ({ c with s := r.1, drops := c.drops + 1 }, s!"ok list={showList c r.1.entries}")
  | ["cleanup"] =>
    let r := step c.p c.s .cleanup
    match r.2 with
    | .removed k => some ({ c with s := r.1, sweeps := c.sweeps + 1, swept := c.swept + k }, s!"removed={k} list={showList c r.1.entries}")
    | _ => none
  | _ => none

def Ctx.summary (c : Ctx) : String :=
  s!"TRACE {c.id} lines={c.nlines} created={c.created} reused={c.reused} get_ok={c.getOk} get_err={c.getErr} drops={c.drops} sweeps={c.sweeps} swept={c.swept} coexist={c.coexist} answered_next_to_expired={c.behindExpired} max_entries={c.maxLen} model_two_alive={if c.twoAlive then 1 else 0}"

def mkCtx : List String → Option Ctx
  | ["init", id, f, i, names] => do
    let fb ← boundOf f
    let ib ← boundOf i
    pure { id := id, p := { findAt := fb, insertAt := ib }, names := names.splitOn "," }
  | _ => none

def runTrace : IO UInt32 := do
  let stdin ← IO.getStdin
  let lines ← Drv.readLines stdin
  let mut ctx : Option Ctx := none
  let mut traces := 0
  let mut nl := 0
  let mut mism := 0
  let mut probs := 0
  let mut lineNo := 0
  let mut coexist := 0
  let mut created := 0
  let mut nextTo := 0
  for line in lines do
    lineNo := lineNo + 1
    if line.isEmpty || line.startsWith "#" || line.startsWith "ORACLE" || line.startsWith "STATS" then continue
    let (opS, obsS) := Drv.splitArrow line
    let ws := Drv.words opS
    match ws with
    | "init" :: _ =>
      if let some c := ctx then
        IO.println c.summary
        coexist := coexist + c.coexist; created := created + c.created; nextTo := nextTo + c.behindExpired
      match mkCtx ws with
      | some c => ctx := some c; traces := traces + 1
      | none => IO.println s!"BAD-INIT line {lineNo}: {line}"; probs := probs + 1; ctx := none
    | _ =>
      match ctx with
      | none => IO.println s!"NO-INIT line {lineNo}"; probs := probs + 1
      | some c =>
        match opLine c ws with
        | none => IO.println s!"BAD-OP trace={c.id} line={lineNo}: {line}"; probs := probs + 1
        | some (c', mobs) =>
          nl := nl + 1
          if mobs ≠ obsS then
            IO.println s!"MISMATCH trace={c.id} line={lineNo}: {opS} impl=[{obsS}] model=[{mobs}]"
            mism := mism + 1
          let co := if hasCoexist c'.s.entries then c'.coexist + 1 else c'.coexist
          let ta := c'.twoAlive || hasTwoAlive c'.s.entries
          let ml := if c'.s.entries.length > c'.maxLen then c'.s.entries.length else c'.maxLen
          ctx := some { c' with nlines := c'.nlines + 1, coexist := co, twoAlive := ta, maxLen := ml }
  if let some c := ctx then
    IO.println c.summary
    coexist := coexist + c.coexist; created := created + c.created; nextTo := nextTo + c.behindExpired
  IO.println s!"DONE traces={traces} lines={nl} mismatches={mism} problems={probs} created={created} states_with_expired_and_alive_entry_of_one_name={coexist} answered_next_to_expired={nextTo}"
  return (if mism + probs == 0 then 0 else 1)

/-- `driver sinkreg trace` -/
def main : List String → IO UInt32
  | ["trace"] => runTrace
  | _ => do IO.println "usage: driver sinkreg trace"; return 2

end Drv.SinkReg
