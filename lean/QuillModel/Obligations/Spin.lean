import QuillModel.Extracted.Spin
import QuillModel.Props.C17Spin
/-! The spinlock theorem for the memory orders found in the current `core/Spinlock.h`. -/
namespace Obligations

theorem spin_extraction_complete : Extracted.spinFailures = [] := by decide
theorem spin_orders_ok : Spin.OrdersOK Extracted.spinOrders := by decide
theorem spin_structure_ok : Extracted.lockIsExchangeLoop = true ∧ Extracted.guardUnlocksInDtor = true := by decide

theorem C17_spinlock_extracted (n : Nat) (ops : List Spin.Op) (hr : Spin.Run Extracted.spinOrders { nthreads := n } ops) :
    (∀ t u, (Spin.run Extracted.spinOrders { nthreads := n } ops).inCS t = true →
            (Spin.run Extracted.spinOrders { nthreads := n } ops).inCS u = true → t = u) ∧
    (∀ op, Spin.Enabled (Spin.run Extracted.spinOrders { nthreads := n } ops) op →
           Spin.Safe (Spin.run Extracted.spinOrders { nthreads := n } ops) op) :=
  Spin.C17_spinlock_safe _ spin_orders_ok n ops hr

end Obligations
