import QuillModel.Extracted.Queue
import QuillModel.Props.C02
/-!
Side-conditions of the unbounded-queue theorems for the values extracted from the current headers
(`UnboundedSPSCQueue.h`): release publication / acquire observation of `next`, the re-read before the
switch, commit before publication, commit_read before delete, and the two over-limit exits.
-/
namespace Obligations
open Spsc Uspsc

def weakerStore (a b : MO) : MO := if a.isRel && b.isRel then a else .relaxed

def unboundedParams : UParams :=
  { q := Extracted.boundedParams,
    nextStore := weakerStore Extracted.nextStoreGrow Extracted.nextStoreShrink,
    nextLoad := Extracted.nextLoad,
    rereads := Extracted.rereadBeforeSwitch }

theorem unbounded_orders_ok : UOrdersOK unboundedParams := by decide

theorem unbounded_structure_ok :
    Extracted.commitBeforePublish = true ∧ Extracted.commitReadBeforeDelete = true ∧
    Extracted.throwsOverMax = true ∧ Extracted.nullOverMax = true := by decide

/-- C02 for the code as extracted -/
theorem C02_extracted (cap : Nat) (batch : Nat → Nat) (hc : 0 < cap) (ops : List UOp)
    (hr : URun unboundedParams (uinit cap batch) ops) (op : UOp)
    (he : UEnabled unboundedParams (urun unboundedParams (uinit cap batch) ops) op) :
    USafe (urun unboundedParams (uinit cap batch) ops) op :=
  C02_reachable_safe _ unbounded_orders_ok cap batch hc ops hr op he

end Obligations
