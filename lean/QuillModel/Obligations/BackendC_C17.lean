import QuillModel.Extracted.Backend
import QuillModel.Props.C17
import QuillModel.Props.C17Removal
/-! Split of `Obligations/BackendC.lean` (one module per property, so that a broken fact breaks the proof side of the
    property that rests on it and of no other). -/
namespace Obligations.BackendC
open Backend

/-- the constructs `cleanupLoggers`, `applyFront (.removeBlocking …)` and `afterEnq` mirror are in place:
    `LoggerManager::cleanup_invalidated_loggers` erases an invalid logger only in the else-branch of
    `!check_queues_empty()`, re-evaluated for every invalid logger; that check is
    `_check_frontend_queues_and_cached_transit_events_empty` (all queues and transit buffers); the removal flag is
    stored after the erase and after the sink pruning; `remove_logger_blocking` enqueues its request before it
    invalidates the logger and waits for the flag afterwards -/
theorem c17_structure :
    Extracted.eraseGuardedByEmptyCheck = true ∧ Extracted.checksQueuesPerLogger = true ∧
    Extracted.emptyCheckIsAllQueues = true ∧ Extracted.removalFlagAfterErase = true ∧
    Extracted.removalRequestBeforeInvalidate = true := by decide

theorem C17_erased_logger_has_no_record_extracted (s0 : BSt) (h0 : LoggerFresh s0) (ops : List Op) :
    ∀ i, i < (runOps s0 ops).ths.length → ∀ st,
      (st ∈ ((runOps s0 ops).th i).qStmts ∨ st ∈ ((runOps s0 ops).th i).buf) →
      ((runOps s0 ops).lgOf st.lg).erased = false :=
  (C17_erased_logger_has_no_record s0 h0 ops).1

/-- instance of the global removal theorem: with the flag stored after the erase and the request enqueued before the
    invalidation (`c17_structure`), a raised removal flag means the named logger object is erased -/
theorem C17_removal_flag_after_erase_extracted (s0 : BSt) (h0 : RemovalFresh s0) (ops : List Op) (i : Nat) (st : Stmt)
    (f : Nat) (hst : st ∈ ((runOps s0 ops).th i).accepted) (hk : st.kind = .removal f) (hf : f ∈ (runOps s0 ops).flags) :
    ((runOps s0 ops).lgOf st.lg).erased = true :=
  C17_removal_flag_after_erase s0 h0 ops i st f hst hk hf

/-! ### C07 (drain part) -/

end Obligations.BackendC
