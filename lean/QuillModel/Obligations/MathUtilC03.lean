import QuillModel.Extracted.Math
import QuillModel.Props.C03Cap
/-!
Side-conditions of `Props/C03Cap.lean` for the shapes extracted from `MathUtilities.h` and `TransitEventBuffer.h`
(constructor, `_mask`, `_expand`: move with the old mask, new mask from the new capacity; `try_shrink`; `pos & _mask`;
`size = writer - reader`; the declared width of the positions).
-/
namespace Obligations
open MathUtil

theorem math_common_found_t : Extracted.mathMissingCommon = [] ∧ Extracted.mathFailures = [] := by decide

theorem math_pow2_shape_t :
    Extracted.mathIp2NonzeroGuard = true ∧ Extracted.mathIp2BitTrick = true ∧ Extracted.mathIp2Conjunction = true ∧
    Extracted.mathMaxShift = 1 ∧ Extracted.mathMaxAdd = 1 ∧
    (Extracted.mathSatOp = ">=" ∨ Extracted.mathSatOp = ">") ∧ Extracted.mathSatConstFromMax = true ∧ Extracted.mathEarlyReturnPow2 = true ∧
    Extracted.mathLoopInit = 1 ∧ (Extracted.mathLoopCmp = "<" ∨ Extracted.mathLoopCmp = "<=") ∧ Extracted.mathLoopShift = 1 ∧
    Extracted.mathReturnsResult = true ∧ Extracted.mathOrderOK = true := by decide

theorem math_transit_found : Extracted.mathMissingTransit = [] := by decide

theorem math_transit_shape :
    Extracted.mathTInitialFromNextPow2 = true ∧ Extracted.mathTCapacityFromInitial = true ∧ Extracted.mathTMaskMinus = 1 ∧
    Extracted.mathTStorageOfCapacity = true ∧ Extracted.mathTExpandFactor = 2 ∧
    Extracted.mathTExpandMovesWithOldMask = true ∧ Extracted.mathTExpandMaskFromNewCapacity = true ∧
    Extracted.mathTExpandMaskMinus = 1 ∧ Extracted.mathTExpandResetsPositions = true ∧
    Extracted.mathTShrinkMaskFromNewCapacity = true ∧ Extracted.mathTShrinkMaskMinus = 1 ∧
    Extracted.mathTFrontMasked = true ∧ Extracted.mathTBackMasked = true ∧ Extracted.mathTSizeIsDifference = true ∧
    Extracted.mathTFullTest = true := by decide

/-- positions and capacity are 64-bit: the width `C03_transit_real_widths` is instantiated at -/
theorem math_transit_widths : Extracted.mathTPosBits = 64 ∧ Extracted.mathTCapBits = 64 := by decide

theorem math_transit_extracted :
    (transitCtor Extracted.mathTPosBits 100).capacity = 128 ∧
    (transitCtor Extracted.mathTPosBits 100).mask + Extracted.mathTMaskMinus = 128 ∧
    dblW Extracted.mathTCapBits 128 = 128 * Extracted.mathTExpandFactor := by decide

theorem C03_cap_extracted (req : Nat) : 0 < (transitCtor Extracted.mathTPosBits req).capacity := by
  obtain ⟨_, _, _, _, _, h⟩ := transitCtor_ok (w := Extracted.mathTPosBits) (by decide) req
  exact h

/-- whichever of the equivalent spellings (`n > max` / `n >= max`, `result <= n` / `result < n`) the header uses, the function is
    the `nextPow2W` the theorems are about (`MathUtil.nextPow2V_eq`) -/
theorem math_spelling_extracted_t (w : Nat) (hw : 1 ≤ w) (n : Nat) :
    nextPow2V Extracted.mathSatStrict Extracted.mathLoopLe w n = nextPow2W w n :=
  nextPow2V_eq hw _ _ n

end Obligations
