import QuillModel.Extracted.Codec
import QuillModel.Props.C04
/-!
Side-conditions of the C04 theorems, re-proved for what `tools/extractors/codec.py` found in the current headers.
An edit that makes a shortcut apply to a non-arithmetic element, drops the element-count prefix on one side only,
counts the dynamic level without writing it (or vice versa), changes the clearing rule or the escape format stops this
file from compiling — the obligation is broken and the check goes looking for a failing input.
-/
namespace Obligations

theorem codec_extraction_complete : Extracted.codecFailures = [] := by decide

/-- the cached lengths are `uint32_t` (where the model truncates) — capacity and growth of the vector are C11's subject
    (`Obligations/CodecAlloc.lean`); the C04 theorems hold for every capacity -/
theorem codec_cache_elem : Extracted.cacheElemBytes = 4 := by decide

/-- no std/ codec `memcpy`s `pair` elements (side condition `ki.ok` of `wf`) -/
theorem codec_kinds_ok : Extracted.kindTable.all (fun p => p.2.ok) = true := by decide

/-- the ten container families are all there, with the structure the model's `Arg.seq` interprets -/
theorem codec_kind_names : Extracted.kindTable.map (·.1) =
    ["vector", "deque", "list", "forward_list", "set", "unordered_set", "map", "unordered_map", "array", "carray"] := by
  decide

/-- every shortcut is guarded by `is_arithmetic || is_enum` only (the model's `PrimKind.fast`), on the element type
    (on both `Key` and `T` for the map families) -/
theorem codec_fast_traits :
    Extracted.fastTraits.all (fun p => p.2.all (fun t => t.1 == "is_arithmetic" || t.1 == "is_enum")) = true ∧
    Extracted.kindTable.all (fun p =>
      (!p.2.fastSize || (Extracted.fastTraits.lookup (p.1 ++ ".size")).isSome) &&
      (!p.2.fastEncode || (Extracted.fastTraits.lookup (p.1 ++ ".encode")).isSome) &&
      (!p.2.mapLike || (Extracted.fastTraits.lookup (p.1 ++ ".size")) ==
          some [("is_arithmetic", "Key"), ("is_enum", "Key"), ("is_arithmetic", "T"), ("is_enum", "T")])) = true := by
  decide

/-- header pointers counted = written = read; dynamic level counted ⇔ written ⇔ read; the size reserved is the size
    committed -/
theorem codec_framing_consistent :
    Extracted.hdrPtrsWritten = Extracted.frame.nPtrs ∧ Extracted.hdrPtrsRead = Extracted.frame.nPtrs ∧
    Extracted.lvlCounted = Extracted.lvlWritten ∧ Extracted.lvlWritten = Extracted.lvlRead ∧
    Extracted.sameSizeReservedCommitted = true ∧ 0 < Extracted.frame.tsBytes := by decide

/-- the clearing rule of the model (`needsClear`: everything but plain objects and `std::string`/`string_view`) -/
theorem codec_clear_rule :
    Extracted.clearExempt = ["is_arithmetic", "is_enum", "is_same:void const*", "is_std_string", "is_same:std::string_view"] ∧
    Extracted.clearsCache = true ∧ Extracted.encodeStartsAtZero = true := by decide

/-- … and *where* it clears: at the start of the size pass, before anything is sized (`sizeStatementAt true`), while
    the encode pass only reads the cache (`const&`, no `clear`/`push_back`/`assign`) — so a statement dropped or
    rejected between the two passes leaves nothing behind (`C04_drop_leaves_nothing`; the other placement is refuted by
    `C04_clear_position_matters`) -/
theorem codec_clear_position :
    Extracted.clearAtStart = true ∧ Extracted.encodeCacheConst = true ∧ Extracted.encodeMutatesCache = false := by decide

/-- C04 after any history of logged and dropped statements, for the record layout as extracted -/
theorem C04_extracted_after_drops (old : Codec.Mem) (c : Codec.Cache) (ops : List Codec.StmtOp) (args : List Codec.Arg)
    (pos : Nat) (dyn : Bool) (hdr lvl rest : Codec.Bytes) (h : Codec.wfL args = true)
    (hh : hdr.length = Extracted.frame.header) (hl : lvl.length = if dyn then Extracted.frame.lvlBytes else 0) :
    ∃ record, Codec.writeRecord old (Codec.cacheAfter Extracted.clearAtStart c ops) pos hdr args lvl = some record ∧
      record.length = Codec.reserved Extracted.frame c args dyn ∧
      Codec.readRecord Extracted.frame (Codec.shapesOf args) pos dyn (record ++ rest) =
        some (hdr, Codec.viewL args, lvl, rest) := by
  rw [codec_clear_position.1]
  obtain ⟨record, h1, h2, h3, h4⟩ :=
    Codec.C04_framing_after_drops old Extracted.frame c ops args pos dyn hdr lvl rest h hh hl
  exact ⟨record, h1, by rw [h2, h3], h4⟩

/-- the escape is backslash, `x`, high nibble, low nibble in upper-case hex; bytes ≥ 0x80 fail the predicate under
    either signedness of `char`; the sanitiser runs only for statements with a string related argument -/
theorem codec_escape_format :
    Extracted.escapePrefix = [92, 120] ∧ Extracted.escapeHex = "0123456789ABCDEF" ∧
    Extracted.escapeNibbles = ["hex[(c>>4)&0xF]", "hex[c&0xF]"] ∧ Extracted.printable.hi < 128 ∧
    Extracted.printable.extra.all (· < 128) = true ∧ Extracted.sanitizeGuard = true := by decide

/-- both loops of `sanitize_non_printable_chars` call the user's `check_printable_char` on every byte, first thing in
    the loop body (the model's `sanitizeBy`, `C04_sanitize_any_predicate`; a range shortcut before the call is refuted by
    `C04_sanitize_shortcut_misses`) -/
theorem codec_sanitize_every_byte : Extracted.sanitizeAsksEveryByte = true := by decide

/-- `Codec<std::set/multiset>::decode_arg` rebuilds the container with the argument type's comparator (`std::less`
    rebound to the decoded key type, any other comparator kept): the backend iterates it in encode order
    (`C04_set_view_in_encode_order`; a re-sorting decode is refuted by `C04_resorting_decode_differs`) -/
theorem codec_set_order : Extracted.setKeepsComparator = true := by decide

theorem codec_events : Extracted.unformattedEvents.all (Extracted.macroEvents.contains ·) = true ∧
    Extracted.macroEvents.contains "Log" = true := by decide

theorem codec_user_codecs : Extracted.directPushes = 1 ∧ Extracted.nonpodSlackSites = 3 := by decide

/-- C04 framing for the record layout as extracted -/
theorem C04_extracted (old : Codec.Mem) (c : Codec.Cache) (args : List Codec.Arg) (pos : Nat) (dyn : Bool)
    (hdr lvl rest : Codec.Bytes) (h : Codec.wfL args = true) (hh : hdr.length = Extracted.frame.header)
    (hl : lvl.length = if dyn then Extracted.frame.lvlBytes else 0) :
    ∃ record, Codec.writeRecord old c pos hdr args lvl = some record ∧
      record.length = Codec.reserved Extracted.frame c args dyn ∧
      Codec.readRecord Extracted.frame (Codec.shapesOf args) pos dyn (record ++ rest) =
        some (hdr, Codec.viewL args, lvl, rest) :=
  Codec.C04_framing old Extracted.frame c args pos dyn hdr lvl rest h hh hl

end Obligations
