import QuillModel.Obligations.BackendA_C03
import QuillModel.Obligations.BackendA_C08
import QuillModel.Obligations.BackendA_C10
import QuillModel.Obligations.BackendA_Common
/-! Umbrella of the per-property obligation modules of proof bundle A (`BackendA_<Cxx>.lean`). -/
