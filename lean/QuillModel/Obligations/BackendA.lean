import QuillModel.Extracted.Backend
import QuillModel.Props.C03
import QuillModel.Props.C10
import QuillModel.Props.C08
/-!
Side-conditions of the conservation / exactly-once theorems (C03), the fault theorems (C10) and the dropping-queue
accounting (C08) for the facts extracted from the current headers (`BackendWorker.h`, `Logger.h`,
`ThreadContextManager.h`): the structural facts the model hard-wires (a record is finished only after it was decoded
into a transit event, the commit happens only if something was read; a context is dropped only when invalid with an
empty queue *and* an empty transit buffer; the event is popped on the exception path too, before the flag is raised;
every sink is flushed in its own try/catch; only ordinary log events are counted) and the `Cfg` flags the theorems
carry as explicit hypotheses (`reportBeforeFlushCleanup`).
-/
namespace Obligations
open Backend Backend.PA

theorem backendA_extraction_ok : Extracted.backendFailures = [] := by decide

/-- what the C03 theorems assume of the code, as extracted: the read loop finishes a record only after decoding it
    and commits only what it read; clean-up requires the empty transit buffer; the event is popped inside the
    per-event try/catch path whatever is thrown, and before a flush flag is raised -/
theorem backendA_C03_structure :
    Extracted.readLoopShape = true ∧ Extracted.cleanupNeedsEmptyBuffer = true ∧ Extracted.perEventCatch = true ∧
    Extracted.popBeforeFlag = true := by decide

/-- C03 for the code as extracted: every configuration carrying the extracted parameters (counter width, refresh
    order, report-before-clean-up), every freshly started system, every schedule -/
theorem C03_extracted (s0 : BSt) (h0 : Fresh s0)
    (_hb : s0.cfg.invalidBits = Extracted.invalidBits) (_hr : s0.cfg.refreshAfterSample = Extracted.refreshAfterSample)
    (_hf : s0.cfg.reportBeforeFlushCleanup = Extracted.reportBeforeFlushCleanup) (ops : List Op) (i : Nat) :
    ((runOps s0 ops).th i).accepted =
        ((runOps s0 ops).th i).popped ++ ((runOps s0 ops).th i).buf ++ ((runOps s0 ops).th i).qStmts ∧
    (((runOps s0 ops).th i).removed = true →
        ((runOps s0 ops).th i).accepted = ((runOps s0 ops).th i).popped) ∧
    (∀ st ∈ ((runOps s0 ops).th i).accepted, isOrd st = true → ∀ sid,
        wcount (runOps s0 ops).log sid st.id ≤ ((runOps s0 ops).lgOf st.lg).sinks.count sid) :=
  ⟨C03_conservation s0 h0.inv ops i, fun hr => (C03_removed_drained s0 h0.inv ops i hr).2.2.2,
   fun st hm ho sid => C03_at_most_once s0 h0.inv ops i st hm ho sid⟩

/-- what the C10 theorems assume of the code, as extracted: the per-event try/catch (with the pop after it, before
    the flag), the per-sink try/catch around `flush_sink`, the catch-all around the formatting step -/
theorem backendA_C10_structure :
    Extracted.perEventCatch = true ∧ Extracted.perSinkFlushCatch = true ∧ Extracted.popBeforeFlag = true ∧
    Extracted.catchAllFormat = true := by decide

/-- C10 for the code as extracted: every fresh system (any sinks with any fault assignment) whose configuration
    carries the extracted parameters, every schedule: conservation per context, the fault assignment is never
    altered, at most once per sink -/
theorem C10_extracted (s0 : BSt) (h0 : Fresh s0) (_hc : s0.cfg.catchAllFormat = Extracted.catchAllFormat)
    (_hb : s0.cfg.invalidBits = Extracted.invalidBits) (ops : List Op) (i : Nat) :
    ((runOps s0 ops).th i).accepted =
        ((runOps s0 ops).th i).popped ++ ((runOps s0 ops).th i).buf ++ ((runOps s0 ops).th i).qStmts ∧
    (∀ sid, ((runOps s0 ops).sinkOf sid).wthrow = (s0.sinkOf sid).wthrow ∧
            ((runOps s0 ops).sinkOf sid).fthrow = (s0.sinkOf sid).fthrow) ∧
    (∀ st ∈ ((runOps s0 ops).th i).accepted, isOrd st = true → ∀ sid,
        wcount (runOps s0 ops).log sid st.id ≤ ((runOps s0 ops).lgOf st.lg).sinks.count sid) :=
  ⟨C10_conservation_under_faults s0 h0.inv ops i,
   fun sid => ⟨(C10_fault_schedule_constant s0 ops sid).1, (C10_fault_schedule_constant s0 ops sid).2.1⟩,
   fun st hm ho sid => C10_at_most_once_under_faults s0 h0.inv ops i st hm ho sid⟩

/-- what the C08 theorems assume of the code, as extracted: only ordinary log events bump the failure counter, the
    control requests retry, the Flush path reports the counters before it removes contexts, and the clean-up keeps a
    context whose counter is non-zero (the flag `C08_removed_context_reported` carries as a hypothesis and the witness
    `C08_count_lost_between_check_and_cleanup` shows to be necessary) -/
theorem backendA_C08_structure :
    Extracted.countsOnlyLogEvents = true ∧ Extracted.flushRetries = true ∧
    Extracted.reportBeforeFlushCleanup = true ∧ Extracted.cleanupKeepsUnreported = true := by decide

/-- C08 for the code as extracted: every started system with a dropping queue, every schedule: no call blocks and
    Σ discarded = reported + Σ fail over all contexts -/
theorem C08_extracted (s0 : BSt) (h0 : Started s0) (hd : s0.cfg.dropping = true)
    (_hf : s0.cfg.reportBeforeFlushCleanup = Extracted.reportBeforeFlushCleanup) (ops : List Op) :
    (∀ c ∈ ctrs (runOps s0 ops), c.2.2 = 0) ∧
    ((ctrs (runOps s0 ops)).map (fun c => c.2.1)).sum =
      (runOps s0 ops).reported + ((ctrs (runOps s0 ops)).map (·.1)).sum :=
  C08_dropped_equals_reported_plus_pending s0 (C08_started_inv s0 h0) hd ops

/-- a reclaimed context has no unreported drops, for every fresh system whose configuration carries the extracted
    clean-up flag, every schedule -/
theorem C08_removed_extracted (s0 : BSt) (h0 : Fresh s0)
    (hk : s0.cfg.cleanupKeepsUnreported = Extracted.cleanupKeepsUnreported) (ops : List Op) (i : Nat)
    (hr : ((runOps s0 ops).th i).removed = true) : ((runOps s0 ops).th i).fail = 0 :=
  C08_removed_context_reported s0 (C08_fresh_reclaim_inv s0 h0 (hk.trans backendA_C08_structure.2.2.2)) ops i hr

/-- the two witness schedules lose nothing for the extracted flag values -/
theorem C08_witnesses_extracted :
    ((runOps (c08Init Extracted.reportBeforeFlushCleanup Extracted.cleanupKeepsUnreported) f17Sched).th 0).fail = 0 ∧
    (runOps (c08Init Extracted.reportBeforeFlushCleanup Extracted.cleanupKeepsUnreported) f17Sched).reported = 1 ∧
    ((runOps (c08Init Extracted.reportBeforeFlushCleanup Extracted.cleanupKeepsUnreported) f23Sched).th 0).removed = false := by
  decide

end Obligations
