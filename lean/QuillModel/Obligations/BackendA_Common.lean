import QuillModel.Extracted.Backend
/-! Split of `Obligations/BackendA.lean` (one module per property, so that a broken fact breaks the proof side of the
    property that rests on it and of no other). -/
namespace Obligations

theorem backendA_extraction_ok : Extracted.backendFailures = [] := by decide

end Obligations
