import QuillModel.Extracted.Backend
import QuillModel.Props.C05
/-!
Side-conditions of the ordering theorem (C05) for the facts extracted from the current headers
(`BackendWorker.h`): the context cache is refreshed after `ts_now` is sampled (the `Cfg` flag the theorem carries as
an explicit hypothesis), and the structural facts the model of the pass hard-wires — a record newer than `ts_now`
stays in its queue, the read loop is the do-while with the capacity / hard-limit exits, the minimum front is chosen
with a strict comparison, both batch loops are guarded by the pending check.
-/
namespace Obligations
open Backend

theorem backendB_extraction_ok : Extracted.backendFailures = [] := by decide

/-- what `C05_statement_order` assumes of the code, as extracted -/
theorem backendB_order_structure :
    Extracted.refreshAfterSample = true ∧ Extracted.stopsOnFutureTimestamp = true ∧
    Extracted.readLoopShape = true ∧ Extracted.strictMinimum = true ∧
    Extracted.batchGuardInPoll = true ∧ Extracted.batchGuardInExit = true := by decide

/-- C05 for the code as extracted: every configuration that carries the extracted refresh order -/
theorem C05_extracted (s0 : BSt) (h0 : Start s0) (hg : s0.cfg.grace ≠ 0)
    (hc : s0.cfg.refreshAfterSample = Extracted.refreshAfterSample) (ops : List Op)
    (hp : GracePremise (runOps s0 ops)) :
    (((runOps s0 ops).popLog.reverse.filter (fun st => st.kind = .log ∧ st.lvl ≠ 9)).map (·.ts)).Pairwise (· ≤ ·) :=
  C05_statement_order s0 h0 hg (hc.trans backendB_order_structure.1) ops hp

end Obligations
