import QuillModel.Extracted.Backend
import QuillModel.Extracted.Queue
import QuillModel.Props.C05
import QuillModel.Props.C06
import QuillModel.Props.C09Backend
/-!
Side-conditions of the ordering theorem (C05) and of the flush theorems (C06) for the facts extracted from the
current headers (`BackendWorker.h`, `Logger.h`).

C05: the context cache is refreshed after `ts_now` is sampled (the `Cfg` flag the theorem carries as an explicit
hypothesis), and the structural facts the model of the pass hard-wires — a record newer than `ts_now` stays in its
queue, the read loop is the do-while with the capacity / hard-limit exits, the minimum front is chosen with a
strict comparison, both batch loops are guarded by the pending check.

C06: the Flush branch of `_process_transit_event` flushes the active sinks unconditionally (interval 0) *before* it
captures the flag; the flag is stored only after `pop_front`; every sink flush is wrapped in its own try/catch;
`flush_log` retries a refused request in a loop, then waits on the flag; only `Event::Log` statements bump the
failure counter. `flushOnlyValidLoggers = false` records that the flush also covers the sinks of loggers marked for removal and not erased yet (F12, repaired).

C09 (end to end): `commit_read` publishes on drain (the `Params` extracted from `BoundedSPSCQueue.h`); on a blocking
queue `log_statement` retries a refused reservation with the same size until it is granted and then writes
(`blockingRetriesSameRequest`), with the timestamp taken before the first attempt.
-/
namespace Obligations
open Backend

theorem backendB_extraction_ok : Extracted.backendFailures = [] := by decide

/-- what `C05_statement_order` assumes of the code, as extracted -/
theorem backendB_order_structure :
    Extracted.refreshAfterSample = true ∧ Extracted.stopsOnFutureTimestamp = true ∧
    Extracted.readLoopShape = true ∧ Extracted.strictMinimum = true ∧
    Extracted.batchGuardInPoll = true ∧ Extracted.batchGuardInExit = true := by decide

/-- C05 for the code as extracted: every configuration that carries the extracted refresh order -/
theorem C05_extracted (s0 : BSt) (h0 : Start s0) (hg : s0.cfg.grace ≠ 0)
    (hc : s0.cfg.refreshAfterSample = Extracted.refreshAfterSample) (ops : List Op)
    (hp : GracePremise (runOps s0 ops)) :
    (((runOps s0 ops).popLog.reverse.filter (fun st => st.kind = .log ∧ st.lvl ≠ 9)).map (·.ts)).Pairwise (· ≤ ·) :=
  C05_statement_order s0 h0 hg (hc.trans backendB_order_structure.1) ops hp

/-- what the C06 theorems (the shape of `processLowest` / `processEvent` / `flushSinks` / `enqFlow` in the model)
    assume of the code, as extracted -/
theorem backendB_flush_structure :
    Extracted.flushBeforeFlag = true ∧ Extracted.flushIgnoresInterval = true ∧ Extracted.popBeforeFlag = true ∧
    Extracted.perSinkFlushCatch = true ∧ Extracted.perEventCatch = true ∧ Extracted.flushRetries = true ∧
    Extracted.flushWaitsOnFlag = true ∧ Extracted.countsOnlyLogEvents = true ∧
    Extracted.flushOnlyValidLoggers = false := by decide

/-- C06 (other threads) for the code as extracted -/
theorem C06_extracted (s0 : BSt) (h0 : StartF s0) (hg : s0.cfg.grace ≠ 0)
    (hc : s0.cfg.refreshAfterSample = Extracted.refreshAfterSample) (ops : List Op)
    (hp : GracePremise (runOps s0 ops)) (i : Nat) (st : Stmt) (f : Nat)
    (hst : st ∈ ((runOps s0 ops).th i).accepted) (hk : st.kind = .flush f) (hf : f ∈ (runOps s0 ops).flags)
    (k : Nat) (r : Stmt) (hrk : r ∈ ((runOps s0 ops).th k).accepted)
    (hlt : r.ts < st.ts) : r ∈ ((runOps s0 ops).th k).popped :=
  C06_other_threads s0 h0 hg (hc.trans backendB_order_structure.1) ops hp i st f hst hk hf k r hrk hlt

/-- what the end-to-end C09 theorems (the retry of `enqFlow`, the publication rule of the queue the model embeds)
    assume of the code, as extracted -/
theorem backendB_retry_structure :
    Extracted.boundedParams.drainPublish = true ∧ Extracted.blockingRetriesSameRequest = true ∧
    Extracted.timestampBeforeContext = true := by decide

/-- C09 (a blocked log call resumes) for the code as extracted: every configuration that carries the extracted queue
    parameters -/
theorem C09_backend_extracted (s0 : BSt) (h0 : StartF s0) (hqp : s0.cfg.qp = Extracted.boundedParams) (pre : List Op)
    (a : Nat) (x : Actor) (st : Stmt) (k : Nat) (hblk : s0.cfg.dropping = false)
    (hx : (runOps s0 pre).actor a = some x) (hp : x.pend = .retry st k) (hsz : st.size ≤ s0.cfg.qcap)
    (hrun : (runOps s0 pre).backendGone = false) (dt : Nat) (hdt : s0.cfg.grace ≤ dt)
    (suffix : List Op) (hq : ∀ o ∈ suffix, quietOp o = true) (hn : PB.pendingCount (runOps s0 pre) ≤ pollCount suffix)
    (hk : st.kind = .log) (hk0 : k = 0) :
    (resume (runOps (runOps s0 pre) (.front (.tick dt) :: suffix)) a).2 = s!"id={st.id} ret=1 ev=1 bytes={st.size}" := by
  have h := (C09_blocked_call_resumes s0 h0 pre a x st k (by rw [hqp]; exact backendB_retry_structure.1) hblk hx hp hsz
    hrun dt hdt suffix hq hn).2.2 hk (Or.inl hk0)
  rw [h.1, hk0]; exact C09_obs_ret1 st

end Obligations
