import QuillModel.Obligations.BackendB_C05
import QuillModel.Obligations.BackendB_C06
import QuillModel.Obligations.BackendB_C09
import QuillModel.Obligations.BackendB_Common
/-! Umbrella of the per-property obligation modules of proof bundle B (`BackendB_<Cxx>.lean`). -/
