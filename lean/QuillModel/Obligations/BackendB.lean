import QuillModel.Extracted.Backend
import QuillModel.Props.C05
import QuillModel.Props.C06
/-!
Side-conditions of the ordering theorem (C05) and of the flush theorems (C06) for the facts extracted from the
current headers (`BackendWorker.h`, `Logger.h`).

C05: the context cache is refreshed after `ts_now` is sampled (the `Cfg` flag the theorem carries as an explicit
hypothesis), and the structural facts the model of the pass hard-wires — a record newer than `ts_now` stays in its
queue, the read loop is the do-while with the capacity / hard-limit exits, the minimum front is chosen with a
strict comparison, both batch loops are guarded by the pending check.

C06: the Flush branch of `_process_transit_event` flushes the active sinks unconditionally (interval 0) *before* it
captures the flag; the flag is stored only after `pop_front`; every sink flush is wrapped in its own try/catch;
`flush_log` retries a refused request in a loop, then waits on the flag; only `Event::Log` statements bump the
failure counter. `flushOnlyValidLoggers = false` records that the flush also covers the sinks of loggers marked for removal and not erased yet (F12, repaired).
-/
namespace Obligations
open Backend

theorem backendB_extraction_ok : Extracted.backendFailures = [] := by decide

/-- what `C05_statement_order` assumes of the code, as extracted -/
theorem backendB_order_structure :
    Extracted.refreshAfterSample = true ∧ Extracted.stopsOnFutureTimestamp = true ∧
    Extracted.readLoopShape = true ∧ Extracted.strictMinimum = true ∧
    Extracted.batchGuardInPoll = true ∧ Extracted.batchGuardInExit = true := by decide

/-- C05 for the code as extracted: every configuration that carries the extracted refresh order -/
theorem C05_extracted (s0 : BSt) (h0 : Start s0) (hg : s0.cfg.grace ≠ 0)
    (hc : s0.cfg.refreshAfterSample = Extracted.refreshAfterSample) (ops : List Op)
    (hp : GracePremise (runOps s0 ops)) :
    (((runOps s0 ops).popLog.reverse.filter (fun st => st.kind = .log ∧ st.lvl ≠ 9)).map (·.ts)).Pairwise (· ≤ ·) :=
  C05_statement_order s0 h0 hg (hc.trans backendB_order_structure.1) ops hp

/-- what the C06 theorems (the shape of `processLowest` / `processEvent` / `flushSinks` / `enqFlow` in the model)
    assume of the code, as extracted -/
theorem backendB_flush_structure :
    Extracted.flushBeforeFlag = true ∧ Extracted.flushIgnoresInterval = true ∧ Extracted.popBeforeFlag = true ∧
    Extracted.perSinkFlushCatch = true ∧ Extracted.perEventCatch = true ∧ Extracted.flushRetries = true ∧
    Extracted.flushWaitsOnFlag = true ∧ Extracted.countsOnlyLogEvents = true ∧
    Extracted.flushOnlyValidLoggers = false := by decide

/-- C06 (other threads) for the code as extracted -/
theorem C06_extracted (s0 : BSt) (h0 : StartF s0) (hg : s0.cfg.grace ≠ 0)
    (hc : s0.cfg.refreshAfterSample = Extracted.refreshAfterSample) (ops : List Op)
    (hp : GracePremise (runOps s0 ops)) (i : Nat) (st : Stmt) (f : Nat)
    (hst : st ∈ ((runOps s0 ops).th i).accepted) (hk : st.kind = .flush f) (hf : f ∈ (runOps s0 ops).flags)
    (k : Nat) (r : Stmt) (hrk : r ∈ ((runOps s0 ops).th k).accepted)
    (hlt : r.ts < st.ts) : r ∈ ((runOps s0 ops).th k).popped :=
  C06_other_threads s0 h0 hg (hc.trans backendB_order_structure.1) ops hp i st f hst hk hf k r hrk hlt

end Obligations
