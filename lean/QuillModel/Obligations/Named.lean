import QuillModel.Extracted.Named
import QuillModel.Props.C19
import QuillModel.Props.C19Json
/-!
Side-conditions of the C19 theorems, re-proved for the values extracted from the current headers
(`tools/extractors/named.py`): the separator is non-empty and unbordered; the JSON header literal has the fixed
seven keys in the fixed order and the per-pair / closing literals are the ones the model appends; the newline
rewrite replaces `'\n'` by one space; the scanners test exactly the characters the model tests (and still have the
loop shape the model transcribes); the cache is keyed by the original template; the LOGJ_ helpers have the shape
`text " {x1}, {x2}, …"`. If an edit to the headers changes any of these, this file stops compiling.
-/
namespace Obligations
open Named

theorem named_extraction_complete : Extracted.namedFailures = [] := by decide

/-- the separator meets the hypotheses of `C19_split_join` -/
theorem named_separator_ok : Extracted.separator ≠ [] ∧ unbordered Extracted.separator = true := by decide

/-- fixed key order of the JSON header -/
theorem named_json_layout :
    Extracted.jsonLayout =
      [("timestamp".toList, .timestamp), ("file_name".toList, .fileName), ("line".toList, .line),
       ("thread_id".toList, .threadId), ("logger".toList, .logger), ("log_level".toList, .logLevel),
       ("message".toList, .messageFormat)] := by decide

/-- the literals appended around each pair and at the end are those of `jsonArgs` / `jsonLine` -/
theorem named_json_literals :
    (∀ k v : Str, jsonArgs [(k, v)] = Extracted.jsonArgOpen ++ k ++ Extracted.jsonArgMid ++ v ++ Extracted.jsonArgClose) ∧
    Extracted.jsonTail = ['}', '\n'] ∧ Extracted.jsonNlChar = '\n' ∧ Extracted.jsonNlRepl = [' '] := by
  refine ⟨fun k v => ?_, by decide, by decide, by decide⟩
  simp [jsonArgs, Extracted.jsonArgOpen, Extracted.jsonArgMid, Extracted.jsonArgClose]

/-- the characters and ranges `_contains_named_args` tests, and its loop shape -/
theorem named_detect_chars :
    Extracted.detectEqChars = ['{', '{', '}', '}'] ∧
    (∀ c : Char, isAlpha c = Extracted.detectAlphaRanges.any (fun r => decide (r.1 ≤ c) && decide (c ≤ r.2))) ∧
    Extracted.detectNeedsCount = true ∧ Extracted.detectTrailingInc = true := by
  refine ⟨by decide, fun c => ?_, by decide, by decide⟩
  simp [isAlpha, Extracted.detectAlphaRanges]

/-- the characters `_process_named_args_format_message` searches for, the `':'` split, its two adjacency tests,
    the emitted `text{syntax}` piece, and where the `{` search resumes -/
theorem named_process_chars :
    Extracted.processFindChars = ['{', '{', '{', '}', '}', '}', '{'] ∧ Extracted.processColon = ':' ∧
    Extracted.processAdjacentTests = 2 ∧ Extracted.processEmitFormat = "{}{{{}}}".toList ∧
    Extracted.processReopensAtClose = true := by decide

theorem named_cache_key : Extracted.cacheKeyIsOriginalTemplate = true := by decide

theorem named_logj_shape : Extracted.logjShapeOK = true ∧ Extracted.logjMaxArity = 26 := by decide

/-- C19 split∘join for the separator as extracted -/
theorem C19_split_join_extracted (vals : List Str) (hv : ∀ v ∈ vals, containsSub Extracted.separator v = false) :
    splitValues Extracted.separator (joinVals Extracted.separator vals) vals.length = vals :=
  C19_split_join named_separator_ok.1 named_separator_ok.2 vals hv

/-- C19 pairs for the separator as extracted -/
theorem C19_pairs_extracted (san : Bool) (keys : List (Str × Str)) (fv : List Str) (hlen : keys.length ≤ fv.length)
    (hv : ∀ v ∈ fv, containsSub Extracted.separator v = false) :
    namedPairs Extracted.separator san keys fv = (populateNames keys fv.length).zip (if san then fv.map sanitize else fv) :=
  C19_pairs named_separator_ok.1 named_separator_ok.2 san keys fv hlen hv

/-- C19 JSON line for the layout as extracted: the seven fixed members in the fixed order, then the pairs -/
theorem C19_json_extracted (h : Hdr) (tmpl : Str) (pairs : Option (List (Str × Str))) :
    jsonLine Extracted.jsonLayout h tmpl pairs =
      '{' :: joinVals [',']
        ([member "timestamp".toList h.timestamp, member "file_name".toList h.fileName, member "line".toList h.line,
          member "thread_id".toList h.threadId, member "logger".toList h.logger, member "log_level".toList h.logLevel,
          member "message".toList (tmpl.map replNl)] ++ (pairs.getD []).map (fun kv => member kv.1 kv.2))
      ++ ['}'] ++ ['\n'] := by
  rw [C19_json_members _ (by rw [named_json_layout]; simp), named_json_layout]
  rfl

/-- C19 single line for the layout as extracted: the keys are newline-free, so only run-time values count -/
theorem C19_json_single_line_extracted (h : Hdr) (tmpl : Str) (pairs : Option (List (Str × Str))) :
    ∃ body, jsonLine Extracted.jsonLayout h tmpl pairs = body ++ ['\n'] ∧
      ('\n' ∈ body ↔
        ('\n' ∈ h.timestamp ∨ '\n' ∈ h.fileName ∨ '\n' ∈ h.line ∨ '\n' ∈ h.threadId ∨ '\n' ∈ h.logger ∨ '\n' ∈ h.logLevel) ∨
        (∃ kv ∈ pairs.getD [], '\n' ∈ kv.1 ∨ '\n' ∈ kv.2)) := by
  obtain ⟨body, hb, hiff⟩ := C19_json_single_line Extracted.jsonLayout (by rw [named_json_layout]; simp) h tmpl pairs
  refine ⟨body, hb, ?_⟩
  rw [hiff, named_json_layout]
  simp [Hdr.get]

/-- C19 "parses as JSON" for the layout as extracted: the seven keys need no escaping, so only run-time strings count -/
theorem C19_json_parses_extracted (h : Hdr) (tmpl : Str) (pairs : Option (List (Str × Str)))
    (hh : noEscapeNeeded h.timestamp = true ∧ noEscapeNeeded h.fileName = true ∧ noEscapeNeeded h.line = true ∧
          noEscapeNeeded h.threadId = true ∧ noEscapeNeeded h.logger = true ∧ noEscapeNeeded h.logLevel = true)
    (ht : noEscapeNeeded (tmpl.map replNl) = true)
    (hp : ∀ kv ∈ pairs.getD [], noEscapeNeeded kv.1 = true ∧ noEscapeNeeded kv.2 = true) :
    ∃ body, jsonLine Extracted.jsonLayout h tmpl pairs = body ++ ['\n'] ∧
      parseFlat body = some
        ([("timestamp".toList, h.timestamp), ("file_name".toList, h.fileName), ("line".toList, h.line),
          ("thread_id".toList, h.threadId), ("logger".toList, h.logger), ("log_level".toList, h.logLevel),
          ("message".toList, tmpl.map replNl)] ++ pairs.getD []) := by
  obtain ⟨body, hb, hparse⟩ := C19_json_parses Extracted.jsonLayout (by rw [named_json_layout]; simp) h tmpl pairs
    (by
      rw [named_json_layout]
      intro kf hkf
      simp only [List.mem_cons, List.mem_nil_iff, or_false] at hkf
      obtain ⟨h1, h2, h3, h4, h5, h6⟩ := hh
      rcases hkf with rfl | rfl | rfl | rfl | rfl | rfl | rfl <;> simp only [Hdr.get] <;>
        first
        | exact ⟨by decide, h1⟩ | exact ⟨by decide, h2⟩ | exact ⟨by decide, h3⟩ | exact ⟨by decide, h4⟩
        | exact ⟨by decide, h5⟩ | exact ⟨by decide, h6⟩ | exact ⟨by decide, ht⟩)
    hp
  refine ⟨body, hb, ?_⟩
  rw [hparse, named_json_layout]
  rfl

/-- `JsonSink::write_log` empties `_json_message` BEFORE the (virtual, possibly throwing) `generate_json_message` call,
    and then does generate; append `}\n`; base `write_log` with the buffer, in this order, unconditionally -/
theorem named_json_clear_before_generate :
    Extracted.jsonSinkParams.clearBefore = true ∧ Extracted.jsonWriteOrderOK = true := by decide

/-- C19/C10 "a throwing JSON sink leaves nothing behind" for the code as extracted: for every sequence of statements and
    every fault schedule the file is the lines of the statements that did not fault, each with the fixed seven members
    and its own pairs (`C19_json_extracted`), and every fault is reported once -/
theorem C19_json_faults_extracted (stmts : List JStmt) :
    (runJson Extracted.jsonLayout Extracted.jsonSinkParams {} stmts).file =
      (stmts.filter (fun st => decide (st.fault = .none))).flatMap
        (fun st => jsonLine Extracted.jsonLayout st.h st.tmpl st.pairs) ∧
    (runJson Extracted.jsonLayout Extracted.jsonSinkParams {} stmts).reports =
      (stmts.filter (fun st => decide (st.fault ≠ .none))).length :=
  C19_json_faults_leave_nothing _ _ named_json_clear_before_generate.1 stmts

end Obligations
