import QuillModel.Obligations.BackendC_C07
import QuillModel.Obligations.BackendC_C16
import QuillModel.Obligations.BackendC_C17
import QuillModel.Obligations.BackendC_C20
import QuillModel.Obligations.BackendC_Common
/-! Umbrella of the per-property obligation modules of proof bundle C (`BackendC_<Cxx>.lean`). -/
