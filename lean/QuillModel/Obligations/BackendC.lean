import QuillModel.Extracted.Backend
import QuillModel.Props.C16
import QuillModel.Props.C20
import QuillModel.Props.C07Drain
import QuillModel.Props.C17
import QuillModel.Props.C17Removal
/-!
Side-conditions of the C16 / C17 / C20 / C07-drain theorems, re-proved for the facts extracted from the current
headers (`tools/extractors/backend.py`). If an edit to the headers changes one of the constructs the model
mirrors (a comparison operator, the guard of a macro, the width of a counter …) this file stops compiling.
-/
namespace Obligations.BackendC
open Backend

theorem extraction_complete : Extracted.backendFailures = [] := by decide

/-! ### C16 -/

/-- the model's numeric levels are the ranks of `enum class LogLevel`: the enum has exactly these enumerators in
    this order and no explicit values, so the C++ comparison of two `LogLevel`s is the comparison of the
    positions — which is what `shouldLog` / `sinkAccepts` compare -/
theorem level_order :
    Extracted.backendLevelNames =
      ["TraceL3", "TraceL2", "TraceL1", "Debug", "Info", "Notice", "Warning", "Error", "Critical", "Backtrace",
       "None", "Dynamic"] := by decide

/-- rank of a level name in the extracted enum -/
def levelRank (n : String) : Nat := Extracted.backendLevelNames.idxOf n

/-- the numbers the model uses: 0 TraceL3 … 4 Info … 8 Critical, 9 Backtrace (the backtrace branch of
    `processEvent`), 10 None (default backtrace flush level) -/
theorem level_ranks :
    levelRank "TraceL3" = 0 ∧ levelRank "TraceL2" = 1 ∧ levelRank "TraceL1" = 2 ∧ levelRank "Debug" = 3 ∧
    levelRank "Info" = 4 ∧ levelRank "Notice" = 5 ∧ levelRank "Warning" = 6 ∧ levelRank "Error" = 7 ∧
    levelRank "Critical" = 8 ∧ levelRank "Backtrace" = 9 ∧ levelRank "None" = 10 ∧ levelRank "Dynamic" = 11 := by
  decide

/-- the severity order the documentation promises is the numeric order the model compares:
    for every pair of user levels, `shouldLog a b` iff `b` does not come after `a` in the enum -/
theorem level_compare_is_rank_compare :
    (List.range 9).all (fun a => (List.range 11).all (fun b =>
      shouldLog a b == decide (Extracted.backendLevelNames.idxOf (Extracted.backendLevelNames.getD b "") ≤
                               Extracted.backendLevelNames.idxOf (Extracted.backendLevelNames.getD a "")))) = true := by
  decide

/-- the constructs `shouldLog`, `applyFront (.log …)`, `sinkAccepts` and `writeToSinks` mirror are in place:
    `should_log_statement` is `>=`; both macros wrap the call (hence the argument evaluation) in that test;
    `Sink::apply_all_filters` is "level `<` threshold ⇒ false, then all_of the filters"; `_write_log_statement`
    asks each sink's own `apply_all_filters` inside the loop and passes `transit_event.log_level()`;
    `TransitEvent::log_level()` selects the macro's level unless it is `Dynamic`; the decoder reads the dynamic
    level or resets it to `None` for a reused event -/
theorem c16_structure :
    Extracted.frontendLevelCmpGe = true ∧ Extracted.macroGuardsEvaluation = true ∧
    Extracted.sinkLevelCmpLt = true ∧ Extracted.sinkFiltersAllOf = true ∧ Extracted.perSinkFilterInLoop = true ∧
    Extracted.eventLevelSelect = true ∧ Extracted.dynamicLevelDecodedOrReset = true := by decide

/-- C16, frontend, in the names of the header: a statement of level `stmt` is skipped by a logger at level
    `lg` iff `stmt` comes before `lg` in `enum class LogLevel` -/
theorem C16_frontend_extracted (stmt lg : String)
    (h1 : stmt ∈ Extracted.backendLevelNames) (h2 : lg ∈ Extracted.backendLevelNames) :
    shouldLog (levelRank stmt) (levelRank lg) = true ↔ levelRank lg ≤ levelRank stmt := by
  have _ := h1; have _ := h2
  exact C16_shouldLog_iff _ _

/-- C16, backend, for any state: instance of `C16_sinks_exact` (no side-condition depends on the extraction
    beyond `c16_structure`) -/
theorem C16_sinks_extracted (s : BSt) (st : Stmt) (sids : List Nat) (h : (writeToSinks s st sids).2 = false) :
    (writeToSinks s st sids).1.log =
      ((sids.filter (fun sid => sinkAccepts (s.sinkOf sid) st)).map (PC.writeEv st)).reverse ++ s.log :=
  C16_sinks_exact s st sids h

/-! ### C20 -/

/-- the obligation chosen for the invalid-context counter: at least 32 bits, i.e. it cannot wrap while fewer than
    `2^32` thread contexts are registered at once (each owns a queue of at least a kilobyte: beyond any process).
    The 8-bit counter of the pinned tree fails this (finding F13, repaired). -/
theorem invalid_counter_wide : 32 ≤ Extracted.invalidBits := by decide

/-- a context is dropped only when invalid with an empty queue and an empty transit buffer (`ctxEmpty` in
    `cleanupContexts.go.findFirst`) -/
theorem c20_structure : Extracted.cleanupNeedsEmptyBuffer = true := by decide

/-- C20 for the extracted width: along every schedule, while fewer than `2^32` contexts are registered, the
    counter is exactly the number of registered contexts of exited threads -/
theorem C20_counter_extracted (s0 : BSt) (h0 : CtxFresh s0) (ops : List Op)
    (hb : (runOps s0 ops).cfg.invalidBits = Extracted.invalidBits)
    (hn : (runOps s0 ops).registry.length < 2 ^ 32) :
    (runOps s0 ops).invalidCnt = invalidRegistered (runOps s0 ops) := by
  apply C20_counter_exact s0 h0 ops
  rw [hb]
  exact Nat.lt_of_lt_of_le hn (Nat.pow_le_pow_right (by decide) invalid_counter_wide)

/-- and the clean-up returns early only when there is nothing to reclaim -/
theorem C20_early_return_extracted (s0 : BSt) (h0 : CtxFresh s0) (ops : List Op)
    (hb : (runOps s0 ops).cfg.invalidBits = Extracted.invalidBits)
    (hn : (runOps s0 ops).registry.length < 2 ^ 32) :
    (runOps s0 ops).invalidCnt = 0 ↔ ∀ i ∈ (runOps s0 ops).registry, ((runOps s0 ops).th i).valid = true := by
  apply C20_early_return_iff s0 h0 ops
  rw [hb]
  exact Nat.lt_of_lt_of_le hn (Nat.pow_le_pow_right (by decide) invalid_counter_wide)

/-! ### C17 -/

/-- the constructs `cleanupLoggers`, `applyFront (.removeBlocking …)` and `afterEnq` mirror are in place:
    `LoggerManager::cleanup_invalidated_loggers` erases an invalid logger only in the else-branch of
    `!check_queues_empty()`, re-evaluated for every invalid logger; that check is
    `_check_frontend_queues_and_cached_transit_events_empty` (all queues and transit buffers); the removal flag is
    stored after the erase and after the sink pruning; `remove_logger_blocking` enqueues its request before it
    invalidates the logger and waits for the flag afterwards -/
theorem c17_structure :
    Extracted.eraseGuardedByEmptyCheck = true ∧ Extracted.checksQueuesPerLogger = true ∧
    Extracted.emptyCheckIsAllQueues = true ∧ Extracted.removalFlagAfterErase = true ∧
    Extracted.removalRequestBeforeInvalidate = true := by decide

/-- instance of the main C17 theorem (no side-condition depends on an extracted value beyond `c17_structure`) -/
theorem C17_erased_logger_has_no_record_extracted (s0 : BSt) (h0 : LoggerFresh s0) (ops : List Op) :
    ∀ i, i < (runOps s0 ops).ths.length → ∀ st,
      (st ∈ ((runOps s0 ops).th i).qStmts ∨ st ∈ ((runOps s0 ops).th i).buf) →
      ((runOps s0 ops).lgOf st.lg).erased = false :=
  (C17_erased_logger_has_no_record s0 h0 ops).1

/-- instance of the global removal theorem: with the flag stored after the erase and the request enqueued before the
    invalidation (`c17_structure`), a raised removal flag means the named logger object is erased -/
theorem C17_removal_flag_after_erase_extracted (s0 : BSt) (h0 : RemovalFresh s0) (ops : List Op) (i : Nat) (st : Stmt)
    (f : Nat) (hst : st ∈ ((runOps s0 ops).th i).accepted) (hk : st.kind = .removal f) (hf : f ∈ (runOps s0 ops).flags) :
    ((runOps s0 ops).lgOf st.lg).erased = true :=
  C17_removal_flag_after_erase s0 h0 ops i st f hst hk hf

/-! ### C07 (drain part) -/

/-- `_exit` has the shape `exitLoop` mirrors: loop until the emptiness check says yes, then report the failure
    counters, flush the sinks and leave the loop; the batch loop inside is guarded by the pending check; contexts
    and loggers are reclaimed after the loop -/
theorem c07_structure : Extracted.exitDrainShape = true ∧ Extracted.batchGuardInExit = true := by decide

/-- instance of the drain theorem (its only side-condition on the configuration is a positive header size, part of
    `DrainFresh`) -/
theorem C07_exit_drains_extracted (s0 : BSt) (h0 : DrainFresh s0) (ops : List Op)
    (hg : (runOps s0 ops).backendGone = false)
    (he : PC.exitEnds (runInj []) 1000 100000 { runOps s0 ops with siteCnt := [] }) :
    ∀ i, i < (applyOp (runOps s0 ops) .exit).1.ths.length →
      ((applyOp (runOps s0 ops) .exit).1.th i).accepted = ((applyOp (runOps s0 ops) .exit).1.th i).popped :=
  fun i hi => ((C07_exit_drains s0 h0 ops hg he).1 i hi).2.2

end Obligations.BackendC
