import QuillModel.Extracted.Backend
import QuillModel.Extracted.Queue
/-! Split of `Obligations/BackendB.lean` (one module per property, so that a broken fact breaks the proof side of the
    property that rests on it and of no other). -/
namespace Obligations

theorem backendB_extraction_ok : Extracted.backendFailures = [] := by decide

end Obligations
