import QuillModel.Extracted.Sinkreg
import QuillModel.Props.C17SinkReg
/-!
Side-conditions of the sink-registry theorems (C17), re-proved for the structure extracted from the current
`core/SinkManager.h`: both `_find_sink` and `_insert_sink` search for the LOWER bound with an ascending comparator; the
name test, the `weak_ptr::lock()`, the create-only-when-null shape, the throw of `get_sink` and the erase-iff-expired
loop are the ones `SinkReg.step` transcribes. If an edit changes any of these (e.g. inserts at the upper bound), this
file stops compiling: the proof obligation is broken and the check relies on the harness's oracles for a failing
op sequence on the real class.
-/
namespace Obligations
open SinkReg

theorem sinkreg_extraction_complete : Extracted.sinkregFailures = [] := by decide

theorem sinkreg_params_ok : Extracted.sinkRegParams.OK := by decide

theorem sinkreg_comparators_ascending : Extracted.sinkRegComparatorsAscending = true := by decide

theorem sinkreg_structure :
    Extracted.sinkRegStructure =
      [("findTestsNameThenLocks", true), ("insertsAtBound", true), ("createOnlyWhenNotFound", true),
       ("getThrowsWhenNull", true), ("cleanupErasesIffExpired", true), ("publicOpsLocked", true), ("weakEntries", true)] := by
  decide

/-- idempotence of the by-name lookup for the code as extracted -/
theorem C17_sinkreg_idempotent_extracted (ops : List Op) (n : Nat) (ops2 : List Op) :
    let r := step Extracted.sinkRegParams (run Extracted.sinkRegParams {} ops) (.createOrGet n)
    ∀ i, r.2 = .id i → (∀ op ∈ ops2, op ≠ .drop i) →
      step Extracted.sinkRegParams (run Extracted.sinkRegParams r.1 ops2) (.get n) = (run Extracted.sinkRegParams r.1 ops2, .id i) ∧
      step Extracted.sinkRegParams (run Extracted.sinkRegParams r.1 ops2) (.createOrGet n) =
        (run Extracted.sinkRegParams r.1 ops2, .id i) :=
  C17_sinkreg_idempotent _ sinkreg_params_ok ops n ops2

/-- at most one alive object per name, sorted vector, for the code as extracted -/
theorem C17_sinkreg_unique_extracted (ops : List Op) (n : Nat) :
    (aliveIds (run Extracted.sinkRegParams {} ops) n).length ≤ 1 ∧
    (run Extracted.sinkRegParams {} ops).entries.Pairwise (fun a b => a.name ≤ b.name) :=
  ⟨C17_sinkreg_one_alive_per_name _ sinkreg_params_ok ops n, C17_sinkreg_sorted _ sinkreg_params_ok ops⟩

end Obligations
