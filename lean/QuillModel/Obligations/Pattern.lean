import QuillModel.Extracted.Pattern
import QuillModel.Props.C12
/-!
Side-conditions of the C12 theorems, re-proved for what the extraction reads off the current headers. The model
(`Pattern/Model.lean`) has the attribute tables, the scanner rules and the split rules built in; these obligations state
that the tables and structural facts extracted from `PatternFormatter.h`, `PatternFormatterOptions.h`,
`MacroMetadata.h`, `BackendWorker.h`, `Common.h` and `LogMacros.h` are the ones the model was written for. An edit that
swaps two table entries, drops the appended newline, changes an accessor of `MacroMetadata` or the multi-line guard
makes this file stop compiling.
-/
namespace Obligations
open Pattern

/-- C++ enumerator of each attribute -/
def cppName : Attr → String
  | .time => "Time" | .fileName => "FileName" | .callerFunction => "CallerFunction" | .logLevel => "LogLevel"
  | .logLevelShortCode => "LogLevelShortCode" | .lineNumber => "LineNumber" | .logger => "Logger"
  | .fullPath => "FullPath" | .threadId => "ThreadId" | .threadName => "ThreadName" | .processId => "ProcessId"
  | .sourceLocation => "SourceLocation" | .shortSourceLocation => "ShortSourceLocation" | .message => "Message"
  | .tags => "Tags" | .namedArgs => "NamedArgs"

theorem pattern_extraction_complete : Extracted.patternFailures = [] := by decide

/-- sixteen attributes, in the enum order of the model -/
theorem pattern_enum : Extracted.attrEnum.map String.toList = Attr.all.map (fun a => (cppName a).toList) ∧
    Extracted.attrEnum.length = nrItems ∧ (Attr.all.map Attr.idx) = List.range 16 := by decide

/-- the `"name"_a` list (slot ids) is the model's name table, in enum order, names unique -/
theorem pattern_arg_names : Extracted.argNames.map String.toList = Attr.all.map Attr.name ∧
    (Extracted.argNames.map String.toList).Nodup := by decide

/-- `_attribute_from_string` maps every name to the enumerator at the same position -/
theorem pattern_attr_map :
    Extracted.attrMap.map (fun p => (p.1.toList, p.2.toList)) = Attr.all.map (fun a => (a.name, (cppName a).toList)) := by
  decide

/-- `_set_arg<Attribute::X>("x")`: every slot is initialised with its own attribute, enum order -/
theorem pattern_set_arg_seq :
    Extracted.setArgSeq.map (fun p => (p.1.toList, p.2.toList)) = Attr.all.map (fun a => ((cppName a).toList, a.name)) := by
  decide

/-- `format()` fills the attributes in the model's `formatOrder`, each from its own source, each guarded by its own
    `_is_set_in_pattern` bit — except `Message`, which is filled unconditionally and last -/
theorem pattern_format_seq :
    Extracted.formatSeq.map (fun p => (p.1.toList, p.2.1.toList, p.2.2.toList)) =
      formatOrder.map (fun a => ((cppName a).toList, a.name, if a = .message then [] else (cppName a).toList)) := by
  decide

/-- the scanner rules the model implements -/
theorem pattern_scanner_facts :
    Extracted.appendsNewline = true ∧ Extracted.orderFillIsLast = true ∧ Extracted.argIdxIsUint8 = true ∧
    Extracted.fieldStartIsPercentParen = true ∧ Extracted.fieldEndIsFirstCloseParen = true ∧
    Extracted.specStartsAtFirstColon = true ∧ Extracted.unterminatedThrows = true ∧ Extracted.unknownThrows = true ∧
    Extracted.rescansFromStart = true ∧ Extracted.slotIsArgIdxPostIncrement = true ∧
    Extracted.replacementPlain.toList = ['{', '}'] ∧ Extracted.replacementSpecOpen.toList = ['{'] ∧
    Extracted.replacementSpecClose.toList = ['}'] ∧
    Extracted.emptyPatternReturnsEmpty = true ∧ Extracted.vformatOnRewrittenString = true ∧
    Extracted.namedArgsKeyValueSep.toList = [':', ' '] ∧ Extracted.namedArgsPairSep.toList = [',', ' '] := by decide

/-- `MacroMetadata`: last colon, after the last slash, and the five accessors -/
theorem pattern_metadata_facts :
    Extracted.colonIsLastColon = true ∧ Extracted.fileNameAfterLastSlash = true ∧
    Extracted.metaSourceLocation.toList = "_source_location".toList ∧
    Extracted.metaLine.toList = "_source_location+_colon_separator_pos+1".toList ∧
    Extracted.metaFullPath.toList = "std::string_view{_source_location,_colon_separator_pos}".toList ∧
    Extracted.metaFileName.toList =
      "std::string_view{_source_location+_file_name_pos,static_cast<size_t>(_colon_separator_pos-_file_name_pos)}".toList ∧
    Extracted.metaShort.toList = "_source_location+_file_name_pos".toList := by decide

/-- backend: multi-line guard, strip rule, split loop, runtime-metadata split; a sink's override pattern is selected per
    sink on the write path by the sink's options (its formatter created there on first use), not where the logger's
    formatter is set up or shared — the model's `patternFor` rule (`C12_sink_pattern_rule`) -/
theorem pattern_backend_facts :
    Extracted.multiLineGuard = true ∧ Extracted.stripsOneTrailingNewline = true ∧ Extracted.splitLoop = true ∧
    Extracted.runtimeSplitsOnSeparator = true ∧ Extracted.runtimeMetadataArgs = true ∧ Extracted.runtimeMacroOrder = true ∧
    Extracted.runtimeFileLineJoin.toList = [':'] ∧ Extracted.defaultAddMetadata = true ∧
    Extracted.overrideChosenOnWritePath = true := by decide

/-- the separator the runtime-metadata theorem is proved for -/
theorem pattern_magic_separator : Extracted.magicSeparator.map Char.ofNat = magicSep := by decide

/-- the default pattern is the item list `defaultItems`, which meets the hypotheses of the main theorem -/
theorem pattern_default_is_wellformed :
    Extracted.defaultPattern.toList = printPattern defaultItems ∧ WF defaultItems ∧ NoBrace defaultItems := by decide

/-- C12 for the default pattern as extracted -/
theorem C12_default_pattern_extracted (vals : Attr → Str) :
    formatPattern Extracted.defaultPattern.toList vals = .line (defaultItems.flatMap (render vals) ++ ['\n']) := by
  rw [pattern_default_is_wellformed.1]
  exact C12_format_eq_substitution_partial defaultItems vals pattern_default_is_wellformed.2.1
    pattern_default_is_wellformed.2.2 (by decide)

end Obligations
