import QuillModel.Extracted.Backend
import QuillModel.Extracted.Queue
import QuillModel.Props.C09Backend
/-! Split of `Obligations/BackendB.lean` (one module per property, so that a broken fact breaks the proof side of the
    property that rests on it and of no other). -/
namespace Obligations
open Backend

/-- what the end-to-end C09 theorems (the retry of `enqFlow`, the publication rule of the queue the model embeds)
    assume of the code, as extracted -/
theorem backendB_retry_structure :
    Extracted.boundedParams.drainPublish = true ∧ Extracted.blockingRetriesSameRequest = true ∧
    Extracted.timestampBeforeContext = true := by decide

/-- C09 (a blocked log call resumes) for the code as extracted: every configuration that carries the extracted queue
    parameters -/
theorem C09_backend_extracted (s0 : BSt) (h0 : StartF s0) (hqp : s0.cfg.qp = Extracted.boundedParams) (pre : List Op)
    (a : Nat) (x : Actor) (st : Stmt) (k : Nat) (hblk : s0.cfg.dropping = false)
    (hx : (runOps s0 pre).actor a = some x) (hp : x.pend = .retry st k) (hsz : st.size ≤ s0.cfg.qcap)
    (hrun : (runOps s0 pre).backendGone = false) (dt : Nat) (hdt : s0.cfg.grace ≤ dt)
    (suffix : List Op) (hq : ∀ o ∈ suffix, quietOp o = true) (hn : PB.pendingCount (runOps s0 pre) ≤ pollCount suffix)
    (hk : st.kind = .log) (hk0 : k = 0) :
    (resume (runOps (runOps s0 pre) (.front (.tick dt) :: suffix)) a).2 = s!"id={st.id} ret=1 ev=1 bytes={st.size}" := by
  have h := (C09_blocked_call_resumes s0 h0 pre a x st k (by rw [hqp]; exact backendB_retry_structure.1) hblk hx hp hsz
    hrun dt hdt suffix hq hn).2.2 hk (Or.inl hk0)
  rw [h.1, hk0]; exact C09_obs_ret1 st

end Obligations
