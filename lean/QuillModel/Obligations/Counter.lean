import QuillModel.Extracted.Reg
import QuillModel.Props.C08Counter
/-! The failure-counter theorem (C08) for the shape of `increment_failure_counter` / `get_and_reset_failure_counter` found in
    the current `core/ThreadContextManager.h`. -/
namespace Obligations

theorem ctr_extraction_complete : Extracted.regFailures = [] := by decide

/-- `increment_failure_counter` is a read-modify-write; `get_and_reset_failure_counter` returns its `exchange(0)` -/
theorem ctr_cfg_ok : Ctr.CfgOK Extracted.ctrCfg := by decide

theorem C08_counter_extracted (ops : List Ctr.Op) :
    (Ctr.run Extracted.ctrCfg {} ops).returns.sum + Ctr.newest (Ctr.run Extracted.ctrCfg {} ops).hist =
      (Ctr.run Extracted.ctrCfg {} ops).incs :=
  Ctr.C08_counter_conservation _ ctr_cfg_ok ops

end Obligations
