import QuillModel.Extracted.Codec
import QuillModel.Props.C04
/-!
The obligation behind `C04_store_per_statement`, in a module of its own (C04 and C10 both rest on it): the decoder
stored in every record header, `detail::decode_and_store_args<Args...>`, begins with an unconditional
`args_store.clear()` — no branch on the argument count around it or around the decode — and
`DynamicFormatArgStore::clear()` drops the values, the owned copies and the string-related flag. A change that skips the
reset for some statements (say for an empty argument pack) stops this file from compiling; the check then exhibits the
statement that is formatted from another statement's arguments (harness H3, stream `seq`).
-/
namespace Obligations

theorem codec_store_reset :
    Extracted.decodeClearsStoreFirst = true ∧ Extracted.storeClearResetsAll = true := by decide

/-- every statement is formatted from its own decoded arguments only — for the decoder as extracted -/
theorem C04_store_extracted (s0 : Codec.Store) (hist : List (List Codec.Shape × Nat × Codec.Bytes))
    (shapes : List Codec.Shape) (pos : Nat) (bs : Codec.Bytes) (p : Option Codec.Printable)
    (fmt : Codec.Bytes → List Codec.Val → Option Codec.Bytes) (err : Codec.Bytes → Codec.Bytes) (fmtStr : Codec.Bytes) :
    (Codec.decodeStatementAt Extracted.decodeClearsStoreFirst shapes pos bs
        (Codec.storeAfter Extracted.decodeClearsStoreFirst s0 hist)).map (fun r => Codec.storeText p fmt err fmtStr r.1) =
      (Codec.decodeStatementAt Extracted.decodeClearsStoreFirst shapes pos bs Codec.Store.empty).map
        (fun r => Codec.storeText p fmt err fmtStr r.1) ∧
    Codec.decodeStatementAt Extracted.decodeClearsStoreFirst [] pos bs
        (Codec.storeAfter Extracted.decodeClearsStoreFirst s0 hist) = some (Codec.Store.empty, bs) := by
  rw [codec_store_reset.1]
  have h := Codec.C04_store_per_statement (fun _ => 0) s0 hist shapes pos bs p fmt err fmtStr
  exact ⟨h.2.1, h.2.2.2⟩

end Obligations
