import QuillModel.Extracted.Filt
import QuillModel.Props.C16Filt
/-! The filter-concurrency theorems (C16) for the structure and the memory orders found in the current `sinks/Sink.h` /
`core/Spinlock.h`. `Filt/Model.lean` is written after exactly this structure; a fact that no longer holds means the model
(and with it the theorems) no longer describes the code. -/
namespace Obligations

theorem filt_extraction_complete : Extracted.filtFailures = [] := by decide

/-- `lock()` acquires, `unlock()` releases -/
theorem filt_orders_ok : Spin.OrdersOK Extracted.filtParams.lock := by decide

/-- the backend waits for the lock (`LockGuard`): no `try_lock` anywhere in `Sink.h` -/
theorem filt_no_try_lock : Extracted.filtParams.tryLock = false := by decide

/-- add_filter: guard first, then the push, then `_new_filter.store(true)` in the guard's scope;
    apply_all_filters: level load, flag load, `_local_filters.clear()` before the guard, copy loop and
    `_new_filter.store(false)` after the guard in the guard's scope (in either order: `filtParams.resetBeforeCopy`), the
    evaluation after the block; the lock is only taken through the two guards; the flag is written in exactly two places -/
theorem filt_structure_ok :
    (Extracted.filtAddGuardBeforePush && Extracted.filtAddFlagAfterPushUnderGuard && Extracted.filtClearBeforeLock &&
     Extracted.filtCopyUnderGuard && Extracted.filtResetUnderGuard && Extracted.filtLevelThenFlagThenEval &&
     Extracted.filtLockOnlyViaGuard) = true ∧ Extracted.filtFlagWrites = 2 := by decide

theorem C16_filter_lock_exclusive_extracted (n lvl0 : Nat) (ops : List Filt.Op)
    (hr : Filt.Run Extracted.filtParams (Filt.init n lvl0) ops) :
    (Filt.run Extracted.filtParams (Filt.init n lvl0) ops).races = 0 ∧
    (∀ t u, (Filt.run Extracted.filtParams (Filt.init n lvl0) ops).lock.inCS t = true →
            (Filt.run Extracted.filtParams (Filt.init n lvl0) ops).lock.inCS u = true → t = u) :=
  let h := Filt.C16_filter_lock_exclusive _ filt_orders_ok filt_no_try_lock n lvl0 ops hr
  ⟨h.1, h.2.1⟩

theorem C16_filter_visibility_extracted (n lvl0 : Nat) (ops : List Filt.Op)
    (hr : Filt.Run Extracted.filtParams (Filt.init n lvl0) ops) :
    ∀ e, e ∈ (Filt.run Extracted.filtParams (Filt.init n lvl0) ops).evals → Filt.Good e ∧ e.leaked = false :=
  fun e he => ⟨Filt.C16_filter_visibility _ filt_orders_ok filt_no_try_lock n lvl0 ops hr e he,
               Filt.C16_no_rejected_statement_accepted _ filt_orders_ok filt_no_try_lock n lvl0 ops hr e he⟩

end Obligations
