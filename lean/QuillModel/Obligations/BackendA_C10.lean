import QuillModel.Extracted.Backend
import QuillModel.Props.C10
/-! Split of `Obligations/BackendA.lean` (one module per property, so that a broken fact breaks the proof side of the
    property that rests on it and of no other). -/
namespace Obligations
open Backend Backend.PA

/-- what the C10 theorems assume of the code, as extracted: the per-event try/catch (with the pop after it, before
    the flag), the per-sink try/catch around `flush_sink`, the catch-all around the formatting step -/
theorem backendA_C10_structure :
    Extracted.perEventCatch = true ∧ Extracted.perSinkFlushCatch = true ∧ Extracted.popBeforeFlag = true ∧
    Extracted.catchAllFormat = true := by decide

/-- C10 for the code as extracted: every fresh system (any sinks with any fault assignment) whose configuration
    carries the extracted parameters, every schedule: conservation per context, the fault assignment is never
    altered, at most once per sink -/
theorem C10_extracted (s0 : BSt) (h0 : Fresh s0) (_hc : s0.cfg.catchAllFormat = Extracted.catchAllFormat)
    (_hb : s0.cfg.invalidBits = Extracted.invalidBits) (ops : List Op) (i : Nat) :
    ((runOps s0 ops).th i).accepted =
        ((runOps s0 ops).th i).popped ++ ((runOps s0 ops).th i).buf ++ ((runOps s0 ops).th i).qStmts ∧
    (∀ sid, ((runOps s0 ops).sinkOf sid).wthrow = (s0.sinkOf sid).wthrow ∧
            ((runOps s0 ops).sinkOf sid).fthrow = (s0.sinkOf sid).fthrow) ∧
    (∀ st ∈ ((runOps s0 ops).th i).accepted, isOrd st = true → ∀ sid,
        wcount (runOps s0 ops).log sid st.id ≤ ((runOps s0 ops).lgOf st.lg).sinks.count sid) :=
  ⟨C10_conservation_under_faults s0 h0.inv ops i,
   fun sid => ⟨(C10_fault_schedule_constant s0 ops sid).1, (C10_fault_schedule_constant s0 ops sid).2.1⟩,
   fun st hm ho sid => C10_at_most_once_under_faults s0 h0.inv ops i st hm ho sid⟩

end Obligations
