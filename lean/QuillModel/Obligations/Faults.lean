import QuillModel.Extracted.Faults
import QuillModel.Props.Faults
/-!
Extraction obligations of the fault machine (w2_faults): the three structural facts `FCfg` is parametric in hold of the current
headers, so the theorems of `Props/Faults.lean` speak about the machine the code implements (`FCfg` with every flag true).
-/
namespace Obligations
open Backend

theorem faults_extraction_complete : Extracted.faultsFailures = [] := by decide

/-- the override formatter is created inside the per-sink loop, after the filter test, before `write_log`, nowhere else -/
theorem override_formatter_created_in_loop_after_filter :
    Extracted.overrideFormatterCreatedInsideSinkLoopAfterFilter = true := by decide

/-- no try/catch inside the read pass: an exception raised while one queue is read ends the pass and the poll -/
theorem read_pass_has_no_catch : Extracted.readPassHasNoCatch = true := by decide

/-- both handlers of `_process_lowest_timestamp_transit_event` call the notifier directly, whatever the text -/
theorem process_handlers_notify_unconditionally : Extracted.processHandlersNotifyUnconditionally = true := by decide

/-- the machine for the code as extracted -/
def extractedFCfg : FCfg :=
  { patInLoop := Extracted.overrideFormatterCreatedInsideSinkLoopAfterFilter, readAborts := Extracted.readPassHasNoCatch,
    notifyAlways := Extracted.processHandlersNotifyUnconditionally }

theorem C10_fault_reported_kind_extracted (s : BSt) (i : Nat) (st : Stmt) (rest : List Stmt)
    (hk : st.kind = .log) (hl : st.lvl ≠ 9) (m : String) (hx : (dispatchF extractedFCfg s st).2 = some m) :
    (popStepF extractedFCfg s i st rest).log = Ev.notify m :: (dispatchF extractedFCfg s st).1.log :=
  C10_fault_reported_kind extractedFCfg process_handlers_notify_unconditionally s i st rest hk hl m hx

/-- for the code as extracted the dispatch IS the per-sink loop (nothing is created before it) -/
theorem C16_dispatch_is_loop_extracted (s : BSt) (st : Stmt) :
    dispatchF extractedFCfg s st = writeToSinksF s st (s.lgOf st.lg).sinks := by
  unfold dispatchF extractedFCfg
  simp [override_formatter_created_in_loop_after_filter]

theorem C05_aborted_poll_extracted (inj : BSt → Nat → BSt) (s : BSt) (ha : (populateF extractedFCfg inj s).2.2 = true) :
    pollF extractedFCfg inj s = (populateF extractedFCfg inj s).1.emit (.notify "n:dfail") :=
  C05_aborted_poll_is_the_pass extractedFCfg inj s ha

end Obligations
