import QuillModel.Extracted.Filesink
import QuillModel.Props.C06Sink
/-!
Side-conditions of the sink half of C06, re-proved for the structure extracted from the current `sinks/StreamSink.h` and
`sinks/FileSink.h`: every path of `StreamSink::write_log` that reaches `fwrite` — with or without the `before_write`
callback — sets `_write_occurred` before it returns; `flush_sink` ends in `flush()` = reset the flag + `fflush(_file)`;
`FileSink::flush_sink` tests the same flag and delegates. If an edit lets one write path forget the flag this file stops
compiling and the check relies on the harness's oracle (a second descriptor reading the file after `flush_sink()`).
-/
namespace Obligations
open FileSink

theorem filesink_extraction_complete : Extracted.filesinkFailures = [] := by decide

/-- every writing path marks the stream dirty -/
theorem filesink_params_ok : Extracted.fileSinkParams.OK := by decide

theorem filesink_structure :
    Extracted.fileSinkStructure =
      [("hookPathCallsCallbackBeforeWrite", true), ("oneWritePerPath", true), ("flushCallsFlush", true),
       ("flushFflushes", true), ("fileFlushDelegates", true), ("flagStartsFalse", true)] := by decide

/-- `flush_sink()` makes everything written so far readable, for the code as extracted -/
theorem C06_sink_flush_makes_readable_extracted (ops : List Op) :
    (step Extracted.fileSinkParams (run Extracted.fileSinkParams {} ops) .flush).file = stmtsOf ops ∧
    (step Extracted.fileSinkParams (run Extracted.fileSinkParams {} ops) .flush).buf = [] :=
  C06_sink_flush_makes_readable _ filesink_params_ok ops

end Obligations
