import QuillModel.Extracted.Logreg
import QuillModel.Props.C17LogReg
/-!
Side-conditions of the logger-registry theorems (C17), re-proved for the structure extracted from the current
`core/LoggerManager.h`: both `_find_logger` and `_insert_logger` search for the LOWER bound with an ascending comparator;
the end + name test, the create-only-when-null shape, the validity test of `get_logger`, `remove_logger`, and the
clean-up loop — early return on a lowered flag, one `check_queues_empty()` per invalid entry, re-arming, and the erase IN
PLACE inside a forward loop (`it = _loggers.erase(it)`: what makes the result an order-preserving sublist,
`LogReg.sweep`) — are the ones `LogReg.step` transcribes. If an edit changes any of these (e.g. a clean-up through
`std::partition`, whose effect on the lookups is `C17_logreg_unstable_cleanup_lookup_fails`), this file stops
compiling: the proof obligation is broken and the check relies on the harness's linear-search oracle for a failing op
sequence on the real class.
-/
namespace Obligations
open LogReg

theorem logreg_extraction_complete : Extracted.logregFailures = [] := by decide

theorem logreg_params_ok : Extracted.logRegParams.OK := by decide

theorem logreg_comparators_ascending : Extracted.logRegComparatorsAscending = true := by decide

theorem logreg_structure :
    Extracted.logRegStructure =
      [("findTestsEndThenName", true), ("insertsAtBound", true), ("createOnlyWhenNotFound", true), ("getChecksValid", true),
       ("removeMarksInvalidRaisesFlag", true), ("cleanupFlagProtocol", true), ("cleanupChecksQueuesPerInvalid", true),
       ("cleanupErasesInPlace", true), ("allFiltersValid", true), ("countIsSize", true), ("publicOpsLocked", true),
       ("sortedVectorOfOwners", true)] := by
  decide

/-- the clean-up of the code as extracted erases in place: the order of the remaining entries is the old one -/
theorem logreg_cleanup_erases_in_place : Extracted.logRegStructure.lookup "cleanupErasesInPlace" = some true := by decide

/-- idempotence of the by-name lookup for the code as extracted -/
theorem C17_logreg_idempotent_extracted (ops : List Op) (n : Nat) (ops2 : List Op) :
    let r := step Extracted.logRegParams (run Extracted.logRegParams {} ops) (.createOrGet n)
    ∀ i, r.2 = .id i → (∀ op ∈ ops2, op ≠ .remove n) →
      step Extracted.logRegParams (run Extracted.logRegParams r.1 ops2) (.get n) = (run Extracted.logRegParams r.1 ops2, .id i) ∧
      step Extracted.logRegParams (run Extracted.logRegParams r.1 ops2) (.createOrGet n) =
        (run Extracted.logRegParams r.1 ops2, .id i) :=
  C17_logreg_idempotent _ logreg_params_ok ops n ops2

/-- strictly sorted vector (one entry per name) and binary search = linear search, for the code as extracted -/
theorem C17_logreg_sorted_extracted (ops : List Op) (n : Nat) :
    (run Extracted.logRegParams {} ops).entries.Pairwise (fun a b => a.name < b.name) ∧
    find Extracted.logRegParams (run Extracted.logRegParams {} ops) n =
      (run Extracted.logRegParams {} ops).entries.find? (fun e => e.name == n) :=
  ⟨C17_logreg_sorted _ logreg_params_ok ops, C17_logreg_find_is_linear_search _ logreg_params_ok ops n⟩

end Obligations
