import QuillModel.Extracted.Codec
import QuillModel.Props.C11
/-!
The C11 obligation that finding F16 broke on the pinned tree, in a module of its own: no container codec copies its
elements into temporaries (`pairTemp = false` for every family). Before the repair (`quill/std/Map.h` /
`UnorderedMap.h` handing `pair<const Key,T>` elements to `Codec<std::pair<Key,T>>`) this file did not compile and only
the proved negation `Codec.C11_map_pair_temporary_allocates` and `C11_no_events` under `listed` were available; since the
`fix:` commit the key and the mapped value go through their own codecs and maps of listed types are covered in full.
A reversion flips the extracted flag, breaks this module and is exhibited by `corpus/C11/f16_map_pair_temporary.txt`.
-/
namespace Obligations

theorem alloc_no_pair_temporaries : Extracted.kindTable.all (fun p => !p.2.pairTemp) = true := by decide

/-- with that, every container of listed element types is listed, whatever its family -/
theorem C11_maps_listed (name : String) (ki : Codec.KindInfo) (hk : (name, ki) ∈ Extracted.kindTable)
    (es : Codec.Shape) (elems : List Codec.Arg) : Codec.listed (.seq ki es elems) = Codec.listedL elems := by
  have h := alloc_no_pair_temporaries
  rw [List.all_eq_true] at h
  have := h (name, ki) hk
  exact Codec.C11_listed_of_no_pair_temporaries ki es elems (by simpa using this)

/-- **C11 in full for the repaired code**: every container family of the extracted table, with listed element types
    (`listedL elems`), is listed — so `C11_no_events` covers `std::map<std::string,int>` like any other container -/
theorem C11_no_events_maps (name : String) (ki : Codec.KindInfo) (hk : (name, ki) ∈ Extracted.kindTable)
    (es : Codec.Shape) (elems : List Codec.Arg) (fe : Codec.Frontend) (dyn : Bool)
    (h : Codec.wfL [Codec.Arg.seq ki es elems] = true) (hreg : fe.registered = true)
    (hcache : (Codec.lensL [Codec.Arg.seq ki es elems]).length ≤ fe.cache.cap)
    (hfit : fe.queue.fits (Codec.reserved Extracted.frame fe.cache [Codec.Arg.seq ki es elems] dyn) = true)
    (hl : Codec.listedL elems = true) :
    (Codec.logCall Extracted.frame fe [Codec.Arg.seq ki es elems] dyn).1 = [] :=
  Codec.C11_no_events Extracted.frame fe _ dyn h hreg hcache hfit
    (by simp [Codec.listedL, C11_maps_listed name ki hk es elems, hl])

end Obligations
