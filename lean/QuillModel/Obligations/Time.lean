import QuillModel.Extracted.Time
import QuillModel.Time.Cache
/-!
Side-conditions of the C13 theorems, re-proved for the tables and constants extracted from the current
`StringFromTime.h` / `TimestampFormatter.h`. The model's own tables (`Time.modifierTable`, `Time.patchTable`, …)
are what its functions implement (`model_tables_coherent`); if an edit to the headers changes a modifier, a width,
a fill, the argument of a patch (`hours > 12` → `>=`), a rewrite, the rejected substring, a recalculation constant,
the fallback / recalculation condition, the fraction widths or divisors or the alignment of the fraction writer,
this file stops compiling — a broken tie, and the check goes looking for a failing input.
-/
namespace Obligations

theorem time_extraction_complete : Extracted.timeFailures = [] := by decide

theorem time_modifiers : Extracted.modifierTable = Time.modifierTable := by decide
theorem time_patch_table : Extracted.patchTable = Time.patchTable := by decide
theorem time_patch_args : Extracted.patchArgs = Time.patchArgs := by decide
theorem time_rewrites : Extracted.rewriteTable = Time.rewriteTable := by decide
theorem time_rejected : Extracted.rejectedTable = Time.rejectedTable := by decide
theorem time_noon_midnight : Extracted.noonMidnightTable = Time.noonMidnightTable := by decide
theorem time_hms : Extracted.hmsDivisors = Time.hmsDivisors := by decide
theorem time_cached_seconds :
    Extracted.cachedSecondsExpr = "(time_info.tm_hour*3600)+(time_info.tm_min*60)+time_info.tm_sec" := by decide
theorem time_conditions :
    Extracted.fallbackCond = "timestamp<_cached_timestamp" ∧
    Extracted.recalcCond = "timestamp>=_next_recalculation_timestamp" ∧
    Extracted.emptyIndexReturn = true ∧ Extracted.sameTimestampReturn = true := by decide
theorem time_frac_table : Extracted.fracTable = Time.fracTable := by decide
theorem time_frac_ctor :
    Extracted.fracSearchOrder = ["Qms", "Qus", "Qns"] ∧ Extracted.specifierLength = 4 ∧
    Extracted.nsPerSec = 1000000000 ∧ Extracted.fracRightAligned = true ∧ Extracted.exclusiveThrows = 2 := by decide
/-- the doubling loop of `_safe_strftime` terminates only from a positive size with a factor above one; the empty
    format (for which `strftime` returns 0 legitimately) is guarded -/
theorem time_strftime_buffer :
    0 < Extracted.strftimeBuf.1 ∧ 1 < Extracted.strftimeBuf.2 ∧ Extracted.emptyFormatGuard = true := by decide

/-- what the local-time theorem needs from the recalculation period -/
theorem time_local_period : 0 < Extracted.localPeriod ∧ 43200 % Extracted.localPeriod = 0 := by decide

/-- the model's tables are the ones its functions implement -/
theorem model_tables_coherent :
    Time.modifierTable.all Time.isModifier = true ∧
    Time.modifierTable = [Time.FT.H, .M, .S, .I, .k, .l, .s].map Time.FT.char ∧
    (∀ ft : Time.FT, Time.FT.ofChar ft.char = some ft) ∧
    Time.patchTable.map (fun e => (e.1, e.2.1)) = [Time.FT.H, .M, .S, .I, .k, .l, .s].map (fun ft => (ft.char, ft.back)) ∧
    Time.fracTable = [Time.Frac.ms, .us, .ns].map
      (fun k => (String.ofList (Time.Tok.frac k).chars, k.width, 1000000000 / (k.value 1000000000))) := by
  refine ⟨by decide, by decide, ?_, by decide, by decide⟩
  intro ft; cases ft <;> decide

end Obligations
