import QuillModel.Extracted.Time
import QuillModel.Props.C13
/-!
Side-conditions of the C13 theorems, re-proved for the tables and constants extracted from the current
`StringFromTime.h` / `TimestampFormatter.h`. The model's own tables (`Time.modifierTable`, `Time.patchTable`, …)
are what its functions implement (`model_tables_coherent`); if an edit to the headers changes a modifier, a width,
a fill, the argument of a patch (`hours > 12` → `>=`), a rewrite, the rejected substring, a recalculation constant,
the fallback / recalculation condition, the fraction widths or divisors or the alignment of the fraction writer,
this file stops compiling — a broken tie, and the check goes looking for a failing input.
-/
namespace Obligations

theorem time_extraction_complete : Extracted.timeFailures = [] := by decide

theorem time_modifiers : Extracted.modifierTable = Time.modifierTable := by decide
/-- the split is made at the lowest position among the per-modifier hits (`Time.splitOnceCpp`, `Time.splitOnceCpp_eq`) -/
theorem time_split_lowest : Extracted.splitAtLowestIndex = true := by decide
theorem time_patch_table : Extracted.patchTable = Time.patchTable := by decide
theorem time_patch_args : Extracted.patchArgs = Time.patchArgs := by decide
theorem time_rewrites : Extracted.rewriteTable = Time.rewriteTable := by decide
/-- `_replace_all` is the find / replace / skip-the-replacement loop (`Time.replaceAllCppF`, `Time.replaceAllCpp_eq`) -/
theorem time_replace_loop : Extracted.replaceAllLoop = true := by decide
theorem time_rejected : Extracted.rejectedTable = Time.rejectedTable := by decide
theorem time_noon_midnight : Extracted.noonMidnightTable = Time.noonMidnightTable := by decide
theorem time_hms : Extracted.hmsDivisors = Time.hmsDivisors := by decide
theorem time_cached_seconds :
    Extracted.cachedSecondsExpr = "(time_info.tm_hour*3600)+(time_info.tm_min*60)+time_info.tm_sec" := by decide
theorem time_conditions :
    Extracted.fallbackCond = "timestamp<_cached_timestamp" ∧
    Extracted.recalcCond = "timestamp>=_next_recalculation_timestamp" ∧
    Extracted.emptyIndexReturn = true ∧ Extracted.sameTimestampReturn = true := by decide
theorem time_frac_table : Extracted.fracTable = Time.fracTable := by decide
theorem time_frac_ctor :
    Extracted.fracSearchOrder = ["Qms", "Qus", "Qns"] ∧ Extracted.specifierLength = 4 ∧
    Extracted.nsPerSec = 1000000000 ∧ Extracted.fracRightAligned = true ∧ Extracted.exclusiveThrows = 2 := by decide
/-- the doubling loop of `_safe_strftime` terminates only from a positive size with a factor above one; the empty
    format (for which `strftime` returns 0 legitimately) is guarded -/
theorem time_strftime_buffer :
    0 < Extracted.strftimeBuf.1 ∧ 1 < Extracted.strftimeBuf.2 ∧ Extracted.emptyFormatGuard = true := by decide

/-- finding F21 is repaired in the current header: a repeated fractional specifier is rejected -/
theorem time_rejects_repeated : Extracted.rejectsRepeatedSpecifier = true := by decide

/-- what the local-time theorem needs from the recalculation period -/
theorem time_local_period : 0 < Extracted.localPeriod ∧ 43200 % Extracted.localPeriod = 0 := by decide

/-- the model's tables are the ones its functions implement -/
theorem model_tables_coherent :
    Time.modifierTable.all Time.isModifier = true ∧
    Time.modifierTable = [Time.FT.H, .M, .S, .I, .k, .l, .s].map Time.FT.char ∧
    (∀ ft : Time.FT, Time.FT.ofChar ft.char = some ft) ∧
    Time.patchTable.map (fun e => (e.1, e.2.1)) = [Time.FT.H, .M, .S, .I, .k, .l, .s].map (fun ft => (ft.char, ft.back)) ∧
    Time.fracTable = [Time.Frac.ms, .us, .ns].map
      (fun k => (String.ofList (Time.Tok.frac k).chars, k.width, 1000000000 / (k.value 1000000000))) := by
  refine ⟨by decide, by decide, ?_, by decide, by decide⟩
  intro ft; cases ft <;> decide

/-- the patch switch of the model writes what the extracted table says: fill, width and argument per modifier -/
theorem model_patch_text (h m s ts : Nat) :
    [Time.FT.H, .M, .S, .I, .k, .l, .s].map (fun ft => Time.patchText ft h m s ts) =
      [Time.padNum '0' 2 h, Time.padNum '0' 2 m, Time.padNum '0' 2 s,
       Time.padNum '0' 2 (if h = 0 then 12 else if h > 12 then h - 12 else h), Time.padNum ' ' 2 h,
       Time.padNum ' ' 2 (if h = 0 then 12 else if h > 12 then h - 12 else h), Time.padNum ' ' 10 ts] := rfl

/-- **C13 (local time) for the recalculation period written in the current header**: the zone premise only has to
    be stated for that period; positivity and divisibility of a half day are re-proved from the extracted value -/
theorem C13_extracted (tz : Nat → Time.ZInfo)
    (hconst : ∀ t t', t / Extracted.localPeriod = t' / Extracted.localPeriod → tz t = tz t')
    (haligned : ∀ t, (tz t).off % (Extracted.localPeriod : Int) = 0)
    (hlower : ∀ t, -(978307200 : Int) ≤ (tz t).off)
    (p : List Char) (hs : Time.supportedToks (Time.lex p) = true) (hx : Time.hasX (Time.lex p) = false)
    (hf : Time.fracCount (Time.lex p) ≤ 1) (nss : List Nat) (hr : ∀ ns ∈ nss, Time.InRange p ns) :
    Time.renderAll Extracted.rejectsRepeatedSpecifier Extracted.localPeriod tz p true nss =
      some (nss.map (fun ns =>
        Time.strftimeRef p (Time.mkTm (ns / 1000000000) (tz (ns / 1000000000))) (ns % 1000000000))) :=
  Time.C13_local Extracted.rejectsRepeatedSpecifier Extracted.localPeriod tz
    ⟨time_local_period.1, time_local_period.2, hconst, haligned, hlower⟩ p hs hx hf nss hr

/-- **C13 rejections for the constructor as extracted**: more than one fractional specifier, or `%X`, throws -/
theorem C13_rejects_extracted (p : List Char) (loc : Bool) (hs : Time.supportedToks (Time.lex p) = true)
    (h : 2 ≤ Time.fracCount (Time.lex p) ∨ Time.hasX (Time.lex p) = true) :
    ∃ e, Time.TF.init Extracted.rejectsRepeatedSpecifier p loc = .error e := by
  rw [time_rejects_repeated]
  obtain ⟨h1, h2, h3⟩ := Time.C13_rejects true p loc hs
  rcases Nat.lt_or_ge (Time.kindCount (Time.lex p)) 2 with hk | hk
  · rcases Nat.lt_or_ge (Time.fracCount (Time.lex p)) 2 with hf | hf
    · rcases h with h | h
      · omega
      · exact ⟨_, h3 (by omega) h⟩
    · rcases h2 (by omega) hf with e | e
      · exact ⟨_, e⟩
      · exact ⟨_, e⟩
  · exact ⟨_, h1 hk⟩

end Obligations
