import QuillModel.Extracted.Rot
import QuillModel.Props.C15
/-!
Side-conditions of the C15 theorems, re-proved for what was extracted from the current `RotatingSink.h`: the model is
parametric in `advancesFromSchedule` (the grid theorem needs `true`) and assumes the structure recorded in
`Extracted.rotTimeFacts` (`>=` trigger, rotate-then-advance, `true` returned when due, the periods added by
`_calculate_rotation_tp`, the first point of `_calculate_initial_rotation_tp`, suffix from `_open_file_timestamp`,
setter validation). If an edit to the header changes one of them this file stops compiling.
-/
namespace Obligations

theorem rot_time_extraction_complete : Extracted.rotFailures = [] ∧ Extracted.rotTimeProblems = [] := by decide

theorem rot_time_facts_hold : Extracted.rotTimeFacts.all (·.2) = true ∧ Extracted.rotTimeFacts.length = 13 := by decide

/-- `_time_rotation` advances from the scheduled point (the repair of F9 is in place) -/
theorem rot_advances_from_schedule : Extracted.rotParams.advancesFromSchedule = true := by decide

/-- C15 grid theorem for the code as extracted -/
theorem C15_extracted (z : Nat → Int) (fs : Rot.FS) (c : Rot.Cfg) (start : Nat) (hc : Rot.CfgOK c)
    (hf : c.freq ≠ .disabled) (l : List (Rot.Stmt × Nat)) :
    Rot.GridInv (Rot.initialRot z c start) (Rot.period c) (l.map (·.2))
      (Rot.run Extracted.rotParams z (Rot.restart z fs c start) (Rot.writeOps l)).sink.nextRot := by
  exact Rot.C15_grid _ rot_advances_from_schedule z fs c start hc hf l

end Obligations
