import QuillModel.Extracted.Backend
import QuillModel.Props.C08
/-! Split of `Obligations/BackendA.lean` (one module per property, so that a broken fact breaks the proof side of the
    property that rests on it and of no other). -/
namespace Obligations
open Backend Backend.PA

/-- what the C08 theorems assume of the code, as extracted: only ordinary log events bump the failure counter, the
    control requests retry, the Flush path reports the counters before it removes contexts, and the clean-up keeps a
    context whose counter is non-zero (the flag `C08_removed_context_reported` carries as a hypothesis and the witness
    `C08_count_lost_between_check_and_cleanup` shows to be necessary) -/
theorem backendA_C08_structure :
    Extracted.countsOnlyLogEvents = true ∧ Extracted.flushRetries = true ∧
    Extracted.reportBeforeFlushCleanup = true ∧ Extracted.cleanupKeepsUnreported = true := by decide

/-- C08 for the code as extracted: every started system with a dropping queue, every schedule: no call blocks and
    Σ discarded = reported + Σ fail over all contexts -/
theorem C08_extracted (s0 : BSt) (h0 : Started s0) (hd : s0.cfg.dropping = true)
    (_hf : s0.cfg.reportBeforeFlushCleanup = Extracted.reportBeforeFlushCleanup) (ops : List Op) :
    (∀ c ∈ ctrs (runOps s0 ops), c.2.2 = 0) ∧
    ((ctrs (runOps s0 ops)).map (fun c => c.2.1)).sum =
      (runOps s0 ops).reported + ((ctrs (runOps s0 ops)).map (·.1)).sum :=
  C08_dropped_equals_reported_plus_pending s0 (C08_started_inv s0 h0) hd ops

/-- a reclaimed context has no unreported drops, for every fresh system whose configuration carries the extracted
    clean-up flag, every schedule -/
theorem C08_removed_extracted (s0 : BSt) (h0 : Fresh s0)
    (hk : s0.cfg.cleanupKeepsUnreported = Extracted.cleanupKeepsUnreported) (ops : List Op) (i : Nat)
    (hr : ((runOps s0 ops).th i).removed = true) : ((runOps s0 ops).th i).fail = 0 :=
  C08_removed_context_reported s0 (C08_fresh_reclaim_inv s0 h0 (hk.trans backendA_C08_structure.2.2.2)) ops i hr

/-- the two witness schedules lose nothing for the extracted flag values -/
theorem C08_witnesses_extracted :
    ((runOps (c08Init Extracted.reportBeforeFlushCleanup Extracted.cleanupKeepsUnreported) f17Sched).th 0).fail = 0 ∧
    (runOps (c08Init Extracted.reportBeforeFlushCleanup Extracted.cleanupKeepsUnreported) f17Sched).reported = 1 ∧
    ((runOps (c08Init Extracted.reportBeforeFlushCleanup Extracted.cleanupKeepsUnreported) f23Sched).th 0).removed = false := by
  decide

end Obligations
