import QuillModel.Extracted.Rot
import QuillModel.Props.C14
/-!
Side-conditions of the C14 theorems, re-proved for what was extracted from the current `RotatingSink.h`.
The model assumes the structure recorded in `Extracted.rotSizeFacts` (size-trigger comparison and its place before the
write, stop test, empty-file test, oldest-first loop and bump rule, order close → rename → delete → push → open,
one deletion per rotation, naming, clean / recover rules, constructor order). If an edit to the header changes one of
them this file stops compiling — the proof obligation is broken and the check looks for a failing history on the real
code. (The time-rotation facts are in `Obligations/RotTime.lean`.)
-/
namespace Obligations

theorem rot_extraction_complete : Extracted.rotFailures = [] := by decide

/-- every structural fact the size / naming / start-up part of the model relies on was found in the header -/
theorem rot_size_facts_hold : Extracted.rotSizeFacts.all (·.2) = true ∧ Extracted.rotSizeFacts.length = 17 := by decide

/-- the member initialisers are the model's defaults -/
theorem rot_defaults : Extracted.rotDefaults = ({} : Rot.Cfg) := by decide

theorem rot_enums : Extracted.rotSchemes = ["Index", "Date", "DateAndTime"] ∧
    Extracted.rotFreqs = ["Disabled", "Daily", "Hourly", "Minutely"] := by decide

/-- `_rotate_files` removes every file in excess of `max_backup_files` (the repair of F18 is in place) -/
theorem rot_deletes_all_excess : Extracted.rotParams.deletesAllExcess = true := by decide

/-- the backup bound after a rotation, for the code as extracted -/
theorem C14_bound_extracted (z : Nat → Int) (w : Rot.World) (st : Rot.Stmt) (ts : Nat)
    (hdue : Rot.timeDue w ts ∨ Rot.sizeDue w st.size ts) (hr : Rot.rotates w) :
    (Rot.write Extracted.rotParams z w st ts).sink.created.length - 1 ≤ w.sink.cfg.maxBackup :=
  Rot.C14_index_backup_bound_after_rotation _ rot_deletes_all_excess z w st ts hdue hr

/-- C14 (Index scheme) for the code as extracted — whatever `_time_rotation`'s advance rule is -/
theorem C14_extracted (z : Nat → Int) (fs0 : Rot.FS) (hd : Rot.DirOK fs0) (c0 : Rot.Cfg) (start0 : Nat)
    (hc0 : Rot.RestartOK c0) (ops : List Rot.Op) (hops : ∀ op ∈ ops, Rot.OpAppend op) :
    Rot.IndexInv (Rot.run Extracted.rotParams z (Rot.restart z fs0 c0 start0) ops) ∧
      Rot.diskSeq (Rot.run Extracted.rotParams z (Rot.restart z fs0 c0 start0) ops) <:+
        Rot.diskSeq (Rot.restart z fs0 c0 start0) ++ Rot.written ops :=
  ⟨Rot.C14_index_invariant _ z fs0 hd c0 start0 hc0 ops (fun op ho => (hops op ho).ok),
   Rot.C14_index_sequence _ z fs0 hd c0 start0 hc0 ops hops⟩

end Obligations
