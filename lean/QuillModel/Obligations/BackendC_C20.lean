import QuillModel.Extracted.Backend
import QuillModel.Props.C20
/-! Split of `Obligations/BackendC.lean` (one module per property, so that a broken fact breaks the proof side of the
    property that rests on it and of no other). -/
namespace Obligations.BackendC
open Backend

/-- the obligation chosen for the invalid-context counter: at least 32 bits, i.e. it cannot wrap while fewer than
    `2^32` thread contexts are registered at once (each owns a queue of at least a kilobyte: beyond any process).
    The 8-bit counter of the pinned tree fails this (finding F13, repaired). -/
theorem invalid_counter_wide : 32 ≤ Extracted.invalidBits := by decide

/-- a context is dropped only when invalid with an empty queue and an empty transit buffer (`ctxEmpty` in
    `cleanupContexts.go.findFirst`) -/
theorem c20_structure : Extracted.cleanupNeedsEmptyBuffer = true := by decide

/-- C20 for the extracted width: along every schedule, while fewer than `2^32` contexts are registered, the
    counter is exactly the number of registered contexts of exited threads -/
theorem C20_counter_extracted (s0 : BSt) (h0 : CtxFresh s0) (ops : List Op)
    (hb : (runOps s0 ops).cfg.invalidBits = Extracted.invalidBits)
    (hn : (runOps s0 ops).registry.length < 2 ^ 32) :
    (runOps s0 ops).invalidCnt = invalidRegistered (runOps s0 ops) := by
  apply C20_counter_exact s0 h0 ops
  rw [hb]
  exact Nat.lt_of_lt_of_le hn (Nat.pow_le_pow_right (by decide) invalid_counter_wide)

/-- and the clean-up returns early only when there is nothing to reclaim -/
theorem C20_early_return_extracted (s0 : BSt) (h0 : CtxFresh s0) (ops : List Op)
    (hb : (runOps s0 ops).cfg.invalidBits = Extracted.invalidBits)
    (hn : (runOps s0 ops).registry.length < 2 ^ 32) :
    (runOps s0 ops).invalidCnt = 0 ↔ ∀ i ∈ (runOps s0 ops).registry, ((runOps s0 ops).th i).valid = true := by
  apply C20_early_return_iff s0 h0 ops
  rw [hb]
  exact Nat.lt_of_lt_of_le hn (Nat.pow_le_pow_right (by decide) invalid_counter_wide)

/-! ### C17 -/

end Obligations.BackendC
