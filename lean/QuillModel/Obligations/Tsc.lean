import QuillModel.Extracted.Tsc
import QuillModel.Props.C05Tsc
/-!
Side-conditions of the TSC-conversion theorems (C05/C06 with `ClockSourceType::Tsc`), re-proved for what
`tools/extractors/tsc.py` reads off the current `backend/RdtscClock.h`, `backend/BackendWorker.h`, `backend/BackendOptions.h`,
`core/Rdtsc.h` and `Logger.h`: the constants and comparison operators are those of `Tsc.Params.code` (the record the theorems
are stated for), the slot/version protocol stores the new base and only then bumps the version with `release`, and the
statement shapes the model transcribes are still there. An edit that changes any of them (another lag bound, `>=` in the
trigger, the version bumped first, the stale slot written, the conversion after the gate, the gate chained as `else if` behind the TSC
branch so that TSC loggers skip it, a pop rule on another field …)
stops this file from compiling: a broken proof obligation; the check then relies on the correspondence stream and the
harness oracles for a failing input.
-/
namespace Obligations
open Tsc

theorem tsc_extraction_complete : Extracted.tscFailures = [] := by decide

/-- the extracted constants and operators are the ones the theorems are stated for -/
theorem tsc_params_are_code : Extracted.tscParams = Params.code := by decide

/-- `_version.load(relaxed)` on the resyncing (backend) thread, `_version.fetch_add(1, release)` after both fields of the
    other slot were stored: a reader of `time_since_epoch_safe` that sees the new version sees the new base -/
theorem tsc_publication_orders : Extracted.tscOrders = ("relaxed", "release") := by decide

theorem tsc_default_resync_interval : Extracted.tscDefaultResyncMs = 500 := by decide

theorem tsc_structure :
    Extracted.tscStructure =
      [("attemptLoop", true), ("ctorShape", true), ("readOrder", true), ("storeThenFlip", true), ("failureDoubles", true),
       ("tseShape", true), ("safeShape", true), ("fastAverage", true), ("intervalInit", true), ("twoSlots", true),
       ("nsPerTickConst", true), ("convertBeforeGate", true), ("gateForNonUser", true), ("gateReturnsFalse", true), ("lazyClock", true),
       ("popComparesStored", true), ("idleShape", true), ("frontendReadsRdtsc", true), ("rdtscIsIntrinsic", true)] := by
  decide

/-- (i) for the code as extracted -/
theorem C05Tsc_monotone_between_resyncs_extracted {sc : Int → Int} {ε : Int} (hs : ScaleOK sc ε) (c : Clock) (ops : List COp) :
    (crun Extracted.tscParams sc c ops).Pairwise (fun o1 o2 => o1.epoch = o2.epoch →
      InWin o1.base.tsc o1.tsc → InWin o1.base.tsc o2.tsc →
      (o1.tsc ≤ o2.tsc → o1.value ≤ o2.value) ∧ (o2.tsc ≤ o1.tsc → o2.value ≤ o1.value)) := by
  rw [tsc_params_are_code]; exact C05Tsc_monotone_between_resyncs hs c ops

/-- the F38 witnesses for the code as extracted -/
theorem C05Tsc_backstep_witness_extracted :
    ((prun Extracted.tscParams sc1 { clock := wClock } wBackstep).written.map (fun e => (e.id, e.tsc, e.ts)))
      = [(1, 2002100, 1700000000001002100), (2, 2002150, 1700000000001001650)] := by
  rw [tsc_params_are_code]; exact C05Tsc_backstep_witness.1

end Obligations
