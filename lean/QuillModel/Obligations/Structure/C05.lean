import QuillModel.Extracted.Backend
/-! Structural facts the end-to-end backend model builds in, re-checked on the current headers — the part that
    property C05 rests on (own module: a broken fact breaks this property's proof side only). -/
namespace Obligations

/-- C05: timestamp taken before the context is looked up; one cut-off per pass, sampled before the cache refresh;
    a future timestamp stops the read; strict minimum; the batch loops are guarded by the pending check -/
theorem structure_C05 :
    Extracted.timestampBeforeContext = true ∧ Extracted.refreshAfterSample = true ∧
    Extracted.refreshAlsoBeforeSampleInPoll = false ∧ Extracted.stopsOnFutureTimestamp = true ∧
    Extracted.strictMinimum = true ∧ Extracted.batchGuardInPoll = true ∧ Extracted.batchGuardInExit = true ∧
    Extracted.unboundedReadFollowsEmptyBuffers = true := by decide

end Obligations
