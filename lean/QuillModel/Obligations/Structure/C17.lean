import QuillModel.Extracted.Backend
/-! Structural facts the end-to-end backend model builds in, re-checked on the current headers — the part that
    property C17 rests on (own module: a broken fact breaks this property's proof side only). -/
namespace Obligations

/-- C17: the emptiness of all queues is re-checked for every invalid logger, after its validity was read -/
theorem structure_C17 : Extracted.checksQueuesPerLogger = true := by decide

end Obligations
