import QuillModel.Extracted.Backend
/-! Structural facts the end-to-end backend model builds in, re-checked on the current headers — the part that
    property C10 rests on (own module: a broken fact breaks this property's proof side only). -/
namespace Obligations

/-- C10: per-event catch (std::exception and catch-all), catch-all in the formatting step, per-sink flush catch -/
theorem structure_C10 :
    Extracted.perEventCatch = true ∧ Extracted.catchAllFormat = true ∧ Extracted.perSinkFlushCatch = true := by decide

end Obligations
