import QuillModel.Extracted.Backend
/-! Structural facts the end-to-end backend model builds in, re-checked on the current headers — the part that
    property C20 rests on (own module: a broken fact breaks this property's proof side only). -/
namespace Obligations

/-- C20: the invalid-context counter is at least 32 bits wide; contexts dropped only when drained -/
theorem structure_C20 : 32 ≤ Extracted.invalidBits ∧ Extracted.cleanupNeedsEmptyBuffer = true := by decide

end Obligations
