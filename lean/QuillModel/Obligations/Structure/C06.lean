import QuillModel.Extracted.Backend
/-! Structural facts the end-to-end backend model builds in, re-checked on the current headers — the part that
    property C06 rests on (own module: a broken fact breaks this property's proof side only). -/
namespace Obligations

/-- C06: the event is popped before the flag is raised; the flush request is retried; every sink is flushed in its own
    try/catch -/
theorem structure_C06 :
    Extracted.popBeforeFlag = true ∧ Extracted.flushRetries = true ∧ Extracted.perSinkFlushCatch = true := by decide

end Obligations
