import QuillModel.Extracted.Backend
/-! Structural facts the end-to-end backend model builds in, re-checked on the current headers — the part that
    property (all backend properties: the extraction found every construct) rests on (own module: a broken fact breaks this property's proof side only). -/
namespace Obligations

theorem backend_extraction_complete : Extracted.backendFailures = [] := by decide

end Obligations
