import QuillModel.Extracted.Backend
/-! Structural facts the end-to-end backend model builds in, re-checked on the current headers — the part that
    property C16 rests on (own module: a broken fact breaks this property's proof side only). -/
namespace Obligations

/-- C16 rests on no structural flag beyond the extraction being complete -/
theorem structure_C16 : Extracted.backendFailures = [] := by decide

end Obligations
