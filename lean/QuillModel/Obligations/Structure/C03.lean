import QuillModel.Extracted.Backend
/-! Structural facts the end-to-end backend model builds in, re-checked on the current headers — the part that
    property C03 rests on (own module: a broken fact breaks this property's proof side only). -/
namespace Obligations

/-- C03: records are finished only after decoding, commit only if something was read; contexts are dropped only when
    invalid with an empty queue *and* an empty transit buffer -/
theorem structure_C03 : Extracted.readLoopShape = true ∧ Extracted.cleanupNeedsEmptyBuffer = true := by decide

end Obligations
