import QuillModel.Extracted.Backend
/-! Structural facts the end-to-end backend model builds in, re-checked on the current headers — the part that
    property C08 rests on (own module: a broken fact breaks this property's proof side only). -/
namespace Obligations

/-- C08: only ordinary log events are counted; the Flush path reports the counters before it removes contexts -/
theorem structure_C08 : Extracted.countsOnlyLogEvents = true ∧ Extracted.reportBeforeFlushCleanup = true ∧
    Extracted.cleanupKeepsUnreported = true ∧ Extracted.counterResetAtomic = true := by decide

end Obligations
