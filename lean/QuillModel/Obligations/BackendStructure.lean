import QuillModel.Extracted.Backend
/-!
Structural facts of `BackendWorker.h`, `LoggerManager.h`, `ThreadContextManager.h` and `Logger.h` that the end-to-end
model (`Backend/`) builds in, re-checked on the constructs found in the current headers. One theorem per property, so that
an edit that removes a construct a property rests on breaks that property's obligation (and only that one).
-/
namespace Obligations

theorem backend_extraction_complete : Extracted.backendFailures = [] := by decide

/-- C03: records are finished only after decoding, commit only if something was read; contexts are dropped only when
    invalid with an empty queue *and* an empty transit buffer -/
theorem structure_C03 : Extracted.readLoopShape = true ∧ Extracted.cleanupNeedsEmptyBuffer = true := by decide

/-- C05: timestamp taken before the context is looked up; one cut-off per pass, sampled before the cache refresh;
    a future timestamp stops the read; strict minimum; the batch loops are guarded by the pending check -/
theorem structure_C05 :
    Extracted.timestampBeforeContext = true ∧ Extracted.refreshAfterSample = true ∧
    Extracted.refreshAlsoBeforeSampleInPoll = false ∧ Extracted.stopsOnFutureTimestamp = true ∧
    Extracted.strictMinimum = true ∧ Extracted.batchGuardInPoll = true ∧ Extracted.batchGuardInExit = true ∧
    Extracted.unboundedReadFollowsEmptyBuffers = true := by decide

/-- C06: the event is popped before the flag is raised; the flush request is retried; every sink is flushed in its own
    try/catch -/
theorem structure_C06 :
    Extracted.popBeforeFlag = true ∧ Extracted.flushRetries = true ∧ Extracted.perSinkFlushCatch = true := by decide

/-- C08: only ordinary log events are counted; the Flush path reports the counters before it removes contexts -/
theorem structure_C08 : Extracted.countsOnlyLogEvents = true ∧ Extracted.reportBeforeFlushCleanup = true ∧
    Extracted.cleanupKeepsUnreported = true ∧ Extracted.counterResetAtomic = true := by decide

/-- C10: per-event catch (std::exception and catch-all), catch-all in the formatting step, per-sink flush catch -/
theorem structure_C10 :
    Extracted.perEventCatch = true ∧ Extracted.catchAllFormat = true ∧ Extracted.perSinkFlushCatch = true := by decide

/-- C17: the emptiness of all queues is re-checked for every invalid logger, after its validity was read -/
theorem structure_C17 : Extracted.checksQueuesPerLogger = true := by decide

/-- C20: the invalid-context counter is at least 32 bits wide; contexts dropped only when drained -/
theorem structure_C20 : 32 ≤ Extracted.invalidBits ∧ Extracted.cleanupNeedsEmptyBuffer = true := by decide

/-- C16 rests on no structural flag beyond the extraction being complete -/
theorem structure_C16 : Extracted.backendFailures = [] := by decide

end Obligations
