import QuillModel.Extracted.Backtrace
import QuillModel.Props.C18
/-!
Side-conditions of the C18 theorems, re-proved for the values extracted from the current headers
(`BacktraceStorage.h`, `BackendWorker.h::_process_transit_event`, `LogLevel.h`). If an edit reverts the repair
of F1 (`_index = 0` after `clear()`) or of F2 (the capacity-0 guard), starts the walk elsewhere, drops the
`clear()`, changes the wrap bound or the comparison against the flush level, or reorders the level enum, this
file stops compiling — the proof obligation is broken and the check goes looking for a failing history.
-/
namespace Obligations
open Backtrace

theorem bt_extraction_complete : Extracted.backtraceFailures = [] := by decide

theorem bt_resets_index_on_flush : Extracted.backtraceParams.resetsIndexOnFlush = true := by decide

theorem bt_guards_zero_capacity : Extracted.backtraceParams.guardsZeroCapacity = true := by decide

theorem bt_ring_ok : Extracted.backtraceParams.RingOK := by decide

theorem bt_flush_cmp_ge : Extracted.backtraceParams.flushCmp = .ge := by decide

theorem bt_params_ok : Extracted.backtraceParams.OK := ⟨bt_ring_ok, bt_flush_cmp_ge⟩

/-- order of the branches of `_process_transit_event` that the model's `applyAction` / `stepEv` assume -/
theorem bt_dispatch_structure :
    Extracted.writesBeforeReplay = true ∧ Extracted.backtraceBranchStoresOnly = true ∧
    Extracted.explicitFlushReplays = true ∧ Extracted.initSetsCapacity = true := by decide

theorem bt_levels_ok : LevelsOK Extracted.levelTable = true := by decide

/-- ranks of the two special levels in the extracted enum -/
def btRank : Nat := (rank Extracted.levelTable "Backtrace").getD 0
def noneRank : Nat := (rank Extracted.levelTable "None").getD 0

theorem bt_ranks_found :
    rank Extracted.levelTable "Backtrace" = some btRank ∧ rank Extracted.levelTable "None" = some noneRank := by
  decide

/-- with the default flush level (`None`) no statement of any severity triggers a replay, and with a severity
    as flush level exactly the severities at or above it (documented order) trigger -/
theorem bt_trigger_table :
    severityOrder.all (fun a => severityOrder.all (fun f =>
      match rank Extracted.levelTable a, rank Extracted.levelTable f with
      | some la, some lf =>
        (action Extracted.backtraceParams.flushCmp btRank noneRank (.log 0 la 1)).flush == false &&
        ((action Extracted.backtraceParams.flushCmp btRank lf (.log 0 la 1)).flush ==
          decide (severityOrder.idxOf a ≥ severityOrder.idxOf f)) &&
        (action Extracted.backtraceParams.flushCmp btRank lf (.log 0 la 1)).write &&
        !(action Extracted.backtraceParams.flushCmp btRank lf (.log 0 la 1)).store
      | _, _ => false)) = true := by decide

/-- C18 (ring) for the code as extracted -/
theorem C18_ring_extracted {α : Type} (ops : List (Op α)) :
    trace Extracted.backtraceParams {} ops = Spec.trace {} ops ∧
    (run Extracted.backtraceParams {} ops).ub = false :=
  ⟨(C18_ring_refines _ bt_ring_ok ops).1, (C18_ring_refines _ bt_ring_ok ops).2.1⟩

theorem C18_flush_extracted {α : Type} (ops : List (Op α)) :
    (process Extracted.backtraceParams (run Extracted.backtraceParams {} ops)).2 =
      lastN (capacity ops) (pending ops) :=
  (C18_flush_emits_lastN _ bt_ring_ok ops).1

/-- C18 (backend decisions + ring) for the code as extracted -/
theorem C18_backend_extracted (es : List Ev) :
    runEv Extracted.backtraceParams btRank (BSt.init noneRank) es = specRunEv btRank (SSt.init noneRank) es :=
  C18_backend_refines _ bt_params_ok btRank noneRank es

end Obligations
