import QuillModel.Extracted.Backend
import QuillModel.Props.C16
/-! Split of `Obligations/BackendC.lean` (one module per property, so that a broken fact breaks the proof side of the
    property that rests on it and of no other). -/
namespace Obligations.BackendC
open Backend

/-- the model's numeric levels are the ranks of `enum class LogLevel`: the enum has exactly these enumerators in
    this order and no explicit values, so the C++ comparison of two `LogLevel`s is the comparison of the
    positions — which is what `shouldLog` / `sinkAccepts` compare -/
theorem level_order :
    Extracted.backendLevelNames =
      ["TraceL3", "TraceL2", "TraceL1", "Debug", "Info", "Notice", "Warning", "Error", "Critical", "Backtrace",
       "None", "Dynamic"] := by decide

/-- rank of a level name in the extracted enum -/
def levelRank (n : String) : Nat := Extracted.backendLevelNames.idxOf n

/-- the numbers the model uses: 0 TraceL3 … 4 Info … 8 Critical, 9 Backtrace (the backtrace branch of
    `processEvent`), 10 None (default backtrace flush level) -/
theorem level_ranks :
    levelRank "TraceL3" = 0 ∧ levelRank "TraceL2" = 1 ∧ levelRank "TraceL1" = 2 ∧ levelRank "Debug" = 3 ∧
    levelRank "Info" = 4 ∧ levelRank "Notice" = 5 ∧ levelRank "Warning" = 6 ∧ levelRank "Error" = 7 ∧
    levelRank "Critical" = 8 ∧ levelRank "Backtrace" = 9 ∧ levelRank "None" = 10 ∧ levelRank "Dynamic" = 11 := by
  decide

/-- the severity order the documentation promises is the numeric order the model compares:
    for every pair of user levels, `shouldLog a b` iff `b` does not come after `a` in the enum -/
theorem level_compare_is_rank_compare :
    (List.range 9).all (fun a => (List.range 11).all (fun b =>
      shouldLog a b == decide (Extracted.backendLevelNames.idxOf (Extracted.backendLevelNames.getD b "") ≤
                               Extracted.backendLevelNames.idxOf (Extracted.backendLevelNames.getD a "")))) = true := by
  decide

/-- the constructs `shouldLog`, `applyFront (.log …)`, `sinkAccepts` and `writeToSinks` mirror are in place:
    `should_log_statement` is `>=`; both macros wrap the call (hence the argument evaluation) in that test;
    `Sink::apply_all_filters` is "level `<` threshold ⇒ false, then all_of the filters"; `_write_log_statement`
    asks each sink's own `apply_all_filters` inside the loop and passes `transit_event.log_level()`;
    `TransitEvent::log_level()` selects the macro's level unless it is `Dynamic`; the decoder reads the dynamic
    level or resets it to `None` for a reused event -/
theorem c16_structure :
    Extracted.frontendLevelCmpGe = true ∧ Extracted.macroGuardsEvaluation = true ∧
    Extracted.sinkLevelCmpLt = true ∧ Extracted.sinkFiltersAllOf = true ∧ Extracted.perSinkFilterInLoop = true ∧
    Extracted.eventLevelSelect = true ∧ Extracted.dynamicLevelDecodedOrReset = true := by decide

/-- C16, frontend, in the names of the header: a statement of level `stmt` is skipped by a logger at level
    `lg` iff `stmt` comes before `lg` in `enum class LogLevel` -/
theorem C16_frontend_extracted (stmt lg : String)
    (h1 : stmt ∈ Extracted.backendLevelNames) (h2 : lg ∈ Extracted.backendLevelNames) :
    shouldLog (levelRank stmt) (levelRank lg) = true ↔ levelRank lg ≤ levelRank stmt := by
  have _ := h1; have _ := h2
  exact C16_shouldLog_iff _ _

/-- C16, backend, for any state: instance of `C16_sinks_exact` (no side-condition depends on the extraction
    beyond `c16_structure`) -/
theorem C16_sinks_extracted (s : BSt) (st : Stmt) (sids : List Nat) (h : (writeToSinks s st sids).2 = false) :
    (writeToSinks s st sids).1.log =
      ((sids.filter (fun sid => sinkAccepts (s.sinkOf sid) st)).map (PC.writeEv st)).reverse ++ s.log :=
  C16_sinks_exact s st sids h

/-! ### C20 -/

end Obligations.BackendC
