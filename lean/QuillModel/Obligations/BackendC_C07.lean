import QuillModel.Extracted.Backend
import QuillModel.Props.C07Drain
/-! Split of `Obligations/BackendC.lean` (one module per property, so that a broken fact breaks the proof side of the
    property that rests on it and of no other). -/
namespace Obligations.BackendC
open Backend

/-- `_exit` has the shape `exitLoop` mirrors: loop until the emptiness check says yes, then report the failure
    counters, flush the sinks and leave the loop; the batch loop inside is guarded by the pending check; contexts
    and loggers are reclaimed after the loop -/
theorem c07_structure : Extracted.exitDrainShape = true ∧ Extracted.batchGuardInExit = true := by decide

theorem C07_exit_drains_extracted (s0 : BSt) (h0 : DrainFresh s0) (ops : List Op)
    (hg : (runOps s0 ops).backendGone = false)
    (he : PC.exitEnds (runInj []) 1000 100000 { runOps s0 ops with siteCnt := [] }) :
    ∀ i, i < (applyOp (runOps s0 ops) .exit).1.ths.length →
      ((applyOp (runOps s0 ops) .exit).1.th i).accepted = ((applyOp (runOps s0 ops) .exit).1.th i).popped :=
  fun i hi => ((C07_exit_drains s0 h0 ops hg he).1 i hi).2.2

end Obligations.BackendC
