import QuillModel.Extracted.Backend
import QuillModel.Extracted.Queue
import QuillModel.Props.C05
import QuillModel.Props.C06
import QuillModel.Obligations.BackendB_C05
/-! Split of `Obligations/BackendB.lean` (one module per property, so that a broken fact breaks the proof side of the
    property that rests on it and of no other). -/
namespace Obligations
open Backend

/-- what the C06 theorems (the shape of `processLowest` / `processEvent` / `flushSinks` / `enqFlow` in the model)
    assume of the code, as extracted -/
theorem backendB_flush_structure :
    Extracted.flushBeforeFlag = true ∧ Extracted.flushIgnoresInterval = true ∧ Extracted.popBeforeFlag = true ∧
    Extracted.perSinkFlushCatch = true ∧ Extracted.perEventCatch = true ∧ Extracted.flushRetries = true ∧
    Extracted.flushWaitsOnFlag = true ∧ Extracted.countsOnlyLogEvents = true ∧
    Extracted.flushOnlyValidLoggers = false := by decide

/-- `sink_min_flush_interval` (C06 / F33): the model's call sites are the code's — the idle branch of `_poll` passes the
    option (`flushGate`), the Flush event and `_exit` pass the literal 0 (`flushSinks`), the gate has the modelled shape
    (0 = always; else `now - last > interval`, then `last := now`), there is no other call site, and the logger clean-up
    flushes before it erases (F33 repaired: what `StartC` asks for when the interval is not 0) -/
theorem backendB_flush_interval_structure :
    Extracted.idleFlushPassesOption = true ∧ Extracted.flushIgnoresInterval = true ∧
    Extracted.exitFlushIgnoresInterval = true ∧ Extracted.flushGateShape = true ∧
    Extracted.flushCallSitesAllModelled = true ∧ Extracted.flushBeforeLoggerErase = true := by decide

/-- for the code as extracted, `StartC`'s F33 clause holds for **every** interval -/
theorem backendB_startC_f33 (c : Cfg) (h : c.flushBeforeLoggerErase = Extracted.flushBeforeLoggerErase) :
    c.flushInterval = 0 ∨ c.flushBeforeLoggerErase = true :=
  Or.inr (h.trans backendB_flush_interval_structure.2.2.2.2.2)

/-- C06 (other threads) for the code as extracted -/
theorem C06_extracted (s0 : BSt) (h0 : StartF s0) (hg : s0.cfg.grace ≠ 0)
    (hc : s0.cfg.refreshAfterSample = Extracted.refreshAfterSample) (ops : List Op)
    (hp : GracePremise (runOps s0 ops)) (i : Nat) (st : Stmt) (f : Nat)
    (hst : st ∈ ((runOps s0 ops).th i).accepted) (hk : st.kind = .flush f) (hf : f ∈ (runOps s0 ops).flags)
    (k : Nat) (r : Stmt) (hrk : r ∈ ((runOps s0 ops).th k).accepted)
    (hlt : r.ts < st.ts) : r ∈ ((runOps s0 ops).th k).popped :=
  C06_other_threads s0 h0 hg (hc.trans backendB_order_structure.1) ops hp i st f hst hk hf k r hrk hlt

end Obligations
