import QuillModel.Extracted.Mixed
import QuillModel.Props.C08Mixed
/-! The two-frontend theorems (C08) for the per-context dispatch found in the current `backend/BackendWorker.h`:
    `_check_failure_counter` has no exit before or inside its loop that depends on a single context, tests and reports the
    loop's own context, and the clean-up's "unreported counter" rule is in the bounded branch only. -/
namespace Obligations

theorem mixed_extraction_complete : Extracted.mixedFailures = [] := by decide

theorem mixed_check_is_per_context :
    Extracted.checkNoExitBeforeLoop = true ∧ Extracted.checkTestsEveryContext = true ∧
    Extracted.checkUsesLoopContext = true ∧ Extracted.cleanupCounterRuleBoundedOnly = true := by decide

/-- the header is not the seeded early-return variant -/
theorem mixed_no_early_return : Extracted.mixEarly = false := by decide

/-- the accounting and the visit-every-bounded-context theorems at the extracted flag value -/
theorem C08Mixed_extracted (u : List Nat) (s0 : Backend.BSt) (h0 : Backend.PA.InvD s0) (ops : List Backend.Op) :
    ((Backend.PA.ctrs (Backend.runOpsM { uActors := u, early := Extracted.mixEarly } s0 ops)).map (fun c => c.2.1 + c.2.2)).sum =
      (Backend.runOpsM { uActors := u, early := Extracted.mixEarly } s0 ops).reported +
        ((Backend.PA.ctrs (Backend.runOpsM { uActors := u, early := Extracted.mixEarly } s0 ops)).map (·.1)).sum :=
  Backend.C08Mixed_accounting _ s0 h0 ops

theorem C08Mixed_check_extracted (u : List Nat) (s : Backend.BSt) :
    Backend.checkFailuresM { uActors := u, early := Extracted.mixEarly } (fun x _ => x) s =
      s.cache.foldl (fun s i => if !Backend.isU { uActors := u, early := Extracted.mixEarly } (s.th i) && (s.th i).fail > 0
        then Backend.PA.failReset s i else s) s :=
  Backend.C08Mixed_check_visits_every_bounded_context _ mixed_no_early_return s

end Obligations
