import QuillModel.Extracted.Backend
import QuillModel.Props.C10Replay
/-!
Obligation of the audit bundle for C10 / C18 (finding F26): in the current header both `backtrace_storage->process`
callbacks replay through a function whose whole body is `try { _dispatch_transit_event_to_sinks(…) } catch → error_notifier`
(`extractors/backend.py`, fact `replayCatchesPerEvent`). With the plain dispatch as callback this fails — and
`Backend.C10_replay_fault_duplicates` is the failing schedule.
-/
namespace Obligations
open Backend

/-- the extracted callback shape is the repaired one -/
theorem C10_replay_extracted : Extracted.replayCatchesPerEvent = true := by decide

/-- … so on the witness schedule of F26 the model of the current tree writes every stored statement at most once -/
theorem C10_replay_schedule_extracted :
    bwcount (runOps (c10ReplayInit Extracted.replayCatchesPerEvent) c10ReplaySched).log 1 0 = 1 ∧
    bwcount (runOps (c10ReplayInit Extracted.replayCatchesPerEvent) c10ReplaySched).log 1 2 = 1 := by decide

end Obligations
