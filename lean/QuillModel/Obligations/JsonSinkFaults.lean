import QuillModel.Extracted.Named
import QuillModel.Props.C19Json
/-!
C10 ("a throwing sink disturbs nothing else") for the one concrete sink of the library that keeps a buffer across
statements, the JSON sink: the extracted position of the buffer reset and the fault theorem instantiated with it.
Kept apart from `Obligations/Named.lean` so that C10's proof side depends on these two facts only.
-/
namespace Obligations
open Named

/-- `JsonSink::write_log` empties its line buffer before the (virtual, possibly throwing) `generate_json_message` call -/
theorem json_sink_clear_before_generate :
    Extracted.jsonSinkParams.clearBefore = true ∧ Extracted.jsonWriteOrderOK = true := by decide

/-- for the code as extracted: whatever statements fault (half-way through the record or at the write), the file holds exactly
    the lines of the statements that did not, and every fault is reported once -/
theorem C10_json_sink_faults_extracted (stmts : List JStmt) :
    (runJson Extracted.jsonLayout Extracted.jsonSinkParams {} stmts).file =
      (stmts.filter (fun st => decide (st.fault = .none))).flatMap
        (fun st => jsonLine Extracted.jsonLayout st.h st.tmpl st.pairs) ∧
    (runJson Extracted.jsonLayout Extracted.jsonSinkParams {} stmts).reports =
      (stmts.filter (fun st => decide (st.fault ≠ .none))).length :=
  C19_json_faults_leave_nothing _ _ json_sink_clear_before_generate.1 stmts

end Obligations
