import QuillModel.Extracted.Codec
import QuillModel.Props.C11
/-!
Side-conditions of the C11 theorems for the values extracted from the current headers: the inline capacity the
property's quantifier names ("up to twelve variable-length C-string arguments"), and where formatters are called by the
two user-type codecs. (Kept apart from `Obligations/Codec.lean` so that a change of the inline capacity — harmless for
C04, whose theorems hold for every capacity — breaks only C11's obligation.)
-/
namespace Obligations

/-- the size cache doubles on growth with exactly one allocation, and `clear()` keeps the storage (the model's
    `Cache.push` / `Cache.clear`) -/
theorem alloc_cache_geometry :
    0 < Extracted.cacheInlineCap ∧ Extracted.cacheGrowthFactor = 2 ∧ Extracted.cacheGrowAllocs = 1 ∧
    Extracted.clearKeepsCapacity = true := by decide

/-- `InlinedVector<uint32_t, 12>`: twelve lengths fit without a heap allocation -/
theorem alloc_inline_capacity : Extracted.cacheInlineCap = 12 := by decide

/-- `DirectFormatCodec` calls the formatter twice on the caller (`formatted_size`, `format_to_n`) — the model's
    `argEvents (.direct _)`; `DeferredFormatCodec` never does in `compute_encoded_size` / `encode` -/
theorem alloc_formatter_sites : Extracted.directFormatCalls = 2 ∧ Extracted.deferredFormatCalls = 0 := by decide

/-- C11 for the code as extracted: a registered thread whose size cache still has its inline capacity, at most twelve
    cached lengths, a fitting record, listed argument types ⇒ no allocation, no user code on the caller -/
theorem C11_extracted (fe : Codec.Frontend) (args : List Codec.Arg) (dyn : Bool) (h : Codec.wfL args = true)
    (hreg : fe.registered = true) (hcap : Extracted.cacheInlineCap ≤ fe.cache.cap)
    (hk : (Codec.lensL args).length ≤ 12)
    (hfit : fe.queue.fits (Codec.reserved Extracted.frame fe.cache args dyn) = true)
    (hl : Codec.listedL args = true) :
    (Codec.logCall Extracted.frame fe args dyn).1 = [] :=
  Codec.C11_no_events Extracted.frame fe args dyn h hreg
    (by have := alloc_inline_capacity; omega) hfit hl

end Obligations
