import QuillModel.Extracted.Codec
import QuillModel.Props.C11
/-!
Side-conditions of the C11 theorems for the values extracted from the current headers: the inline capacity the
property's quantifier names ("up to twelve variable-length C-string arguments"), and where formatters are called by the
two user-type codecs. (Kept apart from `Obligations/Codec.lean` so that a change of the inline capacity — harmless for
C04, whose theorems hold for every capacity — breaks only C11's obligation.)
-/
namespace Obligations

/-- the size cache doubles on growth with exactly one allocation, and `clear()` keeps the storage (the model's
    `Cache.push` / `Cache.clear`) -/
theorem alloc_cache_geometry :
    0 < Extracted.cacheInlineCap ∧ Extracted.cacheGrowthFactor = 2 ∧ Extracted.cacheGrowAllocs = 1 ∧
    Extracted.clearKeepsCapacity = true := by decide

/-- `InlinedVector<uint32_t, 12>`: twelve lengths fit without a heap allocation -/
theorem alloc_inline_capacity : Extracted.cacheInlineCap = 12 := by decide

/-- `DirectFormatCodec` calls the formatter twice on the caller (`formatted_size`, `format_to_n`) — the model's
    `argEvents (.direct _)`; `DeferredFormatCodec` never does in `compute_encoded_size` / `encode` -/
theorem alloc_formatter_sites : Extracted.directFormatCalls = 2 ∧ Extracted.deferredFormatCalls = 0 := by decide

/-- the budget of the size cache is the documented one: of the container families only `forward_list` takes a slot
    (for its element count) — the extracted table *is* the table `C11_cstr_budget` / `C11_container_slots` speak about -/
theorem alloc_count_slots :
    Extracted.kindTable.map (fun p => (p.1, Codec.specKind p.1 p.2)) = Extracted.kindTable := by decide

/-- `commit_read` publishes the reader position as soon as the queue is drained (an unguarded disjunct next to the
    batch test, reached by the unbounded queue through its node's bounded queue), once per backend pass — the model's
    `Queue.drain true` -/
theorem alloc_drain_publishes :
    Extracted.drainPublishes = true ∧ Extracted.commitReadPerPass = true ∧ 0 < Extracted.readerBatchPercent := by decide

/-- C11 between log calls, for the code as extracted: after any history of the thread that ends with a backend pass
    draining its queue, a statement of listed types with at most twelve cached lengths whose record does not exceed the
    capacity of the thread's current buffer allocates nothing -/
theorem C11_extracted_after_drain (fe : Codec.Frontend) (ops : List Codec.FOp) (args : List Codec.Arg) (dyn : Bool)
    (h : Codec.wfL args = true) (hreg : fe.registered = true)
    (hcache : (Codec.lensL args).length ≤
      (Codec.Frontend.run Extracted.frame Extracted.drainPublishes Extracted.readerBatchPercent fe (ops ++ [.drain])).cache.cap)
    (hfit : Codec.reserved Extracted.frame
        (Codec.Frontend.run Extracted.frame Extracted.drainPublishes Extracted.readerBatchPercent fe (ops ++ [.drain])).cache args dyn ≤
      (Codec.Frontend.run Extracted.frame Extracted.drainPublishes Extracted.readerBatchPercent fe (ops ++ [.drain])).queue.cap)
    (hl : Codec.listedL args = true) :
    (Codec.logCall Extracted.frame
      (Codec.Frontend.run Extracted.frame Extracted.drainPublishes Extracted.readerBatchPercent fe (ops ++ [.drain])) args dyn).1 = [] := by
  rw [alloc_drain_publishes.1] at hcache hfit ⊢
  exact Codec.C11_no_events_after_drain Extracted.frame fe ops _ args dyn h hreg hcache hfit hl

/-- C11 for the code as extracted: a registered thread whose size cache still has its inline capacity, at most twelve
    cached lengths, a fitting record, listed argument types ⇒ no allocation, no user code on the caller -/
theorem C11_extracted (fe : Codec.Frontend) (args : List Codec.Arg) (dyn : Bool) (h : Codec.wfL args = true)
    (hreg : fe.registered = true) (hcap : Extracted.cacheInlineCap ≤ fe.cache.cap)
    (hk : (Codec.lensL args).length ≤ 12)
    (hfit : fe.queue.fits (Codec.reserved Extracted.frame fe.cache args dyn) = true)
    (hl : Codec.listedL args = true) :
    (Codec.logCall Extracted.frame fe args dyn).1 = [] :=
  Codec.C11_no_events Extracted.frame fe args dyn h hreg
    (by have := alloc_inline_capacity; omega) hfit hl

end Obligations
