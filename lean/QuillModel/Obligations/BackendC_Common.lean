import QuillModel.Extracted.Backend
/-! Split of `Obligations/BackendC.lean` (one module per property, so that a broken fact breaks the proof side of the
    property that rests on it and of no other). -/
namespace Obligations.BackendC

theorem extraction_complete : Extracted.backendFailures = [] := by decide

/-! ### C16 -/

end Obligations.BackendC
