import QuillModel.Extracted.Backend
import QuillModel.Extracted.Queue
import QuillModel.Props.C05
/-! Split of `Obligations/BackendB.lean` (one module per property, so that a broken fact breaks the proof side of the
    property that rests on it and of no other). -/
namespace Obligations
open Backend

/-- what `C05_statement_order` assumes of the code, as extracted -/
theorem backendB_order_structure :
    Extracted.refreshAfterSample = true ∧ Extracted.stopsOnFutureTimestamp = true ∧
    Extracted.readLoopShape = true ∧ Extracted.strictMinimum = true ∧
    Extracted.batchGuardInPoll = true ∧ Extracted.batchGuardInExit = true := by decide

/-- C05 for the code as extracted: every configuration that carries the extracted refresh order -/
theorem C05_extracted (s0 : BSt) (h0 : Start s0) (hg : s0.cfg.grace ≠ 0)
    (hc : s0.cfg.refreshAfterSample = Extracted.refreshAfterSample) (ops : List Op)
    (hp : GracePremise (runOps s0 ops)) :
    (((runOps s0 ops).popLog.reverse.filter (fun st => st.kind = .log ∧ st.lvl ≠ 9)).map (·.ts)).Pairwise (· ≤ ·) :=
  C05_statement_order s0 h0 hg (hc.trans backendB_order_structure.1) ops hp

end Obligations
