import QuillModel.Extracted.Math
import QuillModel.Props.C02Cap
/-!
Side-conditions of `Props/C02Cap.lean` for the shapes extracted from `MathUtilities.h` and `UnboundedSPSCQueue.h`
(`_handle_full_queue` doubling loop, `shrink`, the node constructor forwarding to the bounded queue).
-/
namespace Obligations
open MathUtil

theorem math_common_found_u : Extracted.mathMissingCommon = [] ∧ Extracted.mathFailures = [] := by decide

theorem math_pow2_shape_u :
    Extracted.mathIp2NonzeroGuard = true ∧ Extracted.mathIp2BitTrick = true ∧ Extracted.mathIp2Conjunction = true ∧
    Extracted.mathMaxShift = 1 ∧ Extracted.mathMaxAdd = 1 ∧
    (Extracted.mathSatOp = ">=" ∨ Extracted.mathSatOp = ">") ∧ Extracted.mathSatConstFromMax = true ∧ Extracted.mathEarlyReturnPow2 = true ∧
    Extracted.mathLoopInit = 1 ∧ (Extracted.mathLoopCmp = "<" ∨ Extracted.mathLoopCmp = "<=") ∧ Extracted.mathLoopShift = 1 ∧
    Extracted.mathReturnsResult = true ∧ Extracted.mathOrderOK = true := by decide

theorem math_unbounded_found : Extracted.mathMissingUnbounded = [] := by decide

/-- `capacity() * 2ull; while (capacity < nbytes) capacity = capacity * 2ull; new Node{capacity,…}`;
    `if (capacity > (capacity() >> 1)) return; new Node{capacity,…}`; nodes forward the capacity to the bounded queue,
    whose constructor rounds with `next_power_of_two` -/
theorem math_unbounded_shape :
    Extracted.mathUFirstFactor = 2 ∧ Extracted.mathULoopCmp = "<" ∧ Extracted.mathULoopFactor = 2 ∧
    Extracted.mathUNodeFromCapacity = true ∧ Extracted.mathUShrinkCmp = ">" ∧ Extracted.mathUShrinkShift = 1 ∧
    Extracted.mathUShrinkNodeFromCapacity = true ∧ Extracted.mathUNodeCtorForwards = true ∧
    Extracted.mathUCtorNodeFromInitial = true ∧ Extracted.mathBCapacityFromNextPow2 = true := by decide

/-- the model's loop with the extracted factors on sample values -/
theorem math_unbounded_extracted :
    handleFullCap 1024 5000 = some (1024 * Extracted.mathUFirstFactor * Extracted.mathULoopFactor ^ 2) ∧
    shrinkCap 4096 (4096 >>> Extracted.mathUShrinkShift) = some 2048 ∧
    shrinkCap 4096 ((4096 >>> Extracted.mathUShrinkShift) + 1) = none := by decide

theorem C02_cap_extracted (req : Nat) : 0 < nextPow2W 64 req := by
  obtain ⟨j, _, hc⟩ := C02_node_capacity_pow2 req
  rw [hc]; exact Nat.two_pow_pos j

/-- whichever of the equivalent spellings (`n > max` / `n >= max`, `result <= n` / `result < n`) the header uses, the function is
    the `nextPow2W` the theorems are about (`MathUtil.nextPow2V_eq`) -/
theorem math_spelling_extracted_u (w : Nat) (hw : 1 ≤ w) (n : Nat) :
    nextPow2V Extracted.mathSatStrict Extracted.mathLoopLe w n = nextPow2W w n :=
  nextPow2V_eq hw _ _ n

end Obligations
