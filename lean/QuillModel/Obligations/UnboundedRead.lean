import QuillModel.Extracted.Backend
import QuillModel.Props.C05Unbounded
/-!
The completeness of the backend's read of an unbounded frontend queue (C05, finding F25) for the retry rule extracted
from `BackendWorker::_read_unbounded_frontend_queue` in the current header: after a switch that found the new buffer
empty the read looks again (`Extracted.unboundedReadFollowsEmptyBuffers`).
-/
namespace Obligations
open Uspsc Spsc

/-- the construct the theorem needs is in the header -/
theorem unbounded_read_follows : Extracted.unboundedReadFollowsEmptyBuffers = true := by decide

/-- C05 on the unbounded queue for the code as extracted: with the extracted retry rule, in every reachable state of the
    chain model, a read that answers "nothing" has seen the whole chain drained -/
theorem C05_unbounded_read_complete_extracted (o : UParams) (ho : UOrdersOK o) (f : Flags) (cap : Nat)
    (batch : Nat → Nat) (hc : 0 < cap) (ops : List UOp) (hr : URun o (uinit cap batch) ops)
    (hn : (apiRead Extracted.unboundedReadFollowsEmptyBuffers o f (urun o (uinit cap batch) ops).n
      (urun o (uinit cap batch) ops)).2.final = .null) (k : Nat)
    (h1 : (urun o (uinit cap batch) ops).ci ≤ k) (h2 : k ≤ (urun o (uinit cap batch) ops).pi) :
    ¬ pend (urun o (uinit cap batch) ops) k := by
  rw [unbounded_read_follows] at hn
  exact (C05_unbounded_read_complete o ho f cap batch hc ops hr).2.1 hn k h1 h2

/-- the F25 state is read completely with the extracted rule -/
theorem f25_read_extracted :
    (apiRead Extracted.unboundedReadFollowsEmptyBuffers quillU f25Flags f25State.n f25State).2.final.readsAt =
      some (2, 0) := by decide

end Obligations
