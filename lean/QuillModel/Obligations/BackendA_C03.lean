import QuillModel.Extracted.Backend
import QuillModel.Props.C03
/-! Split of `Obligations/BackendA.lean` (one module per property, so that a broken fact breaks the proof side of the
    property that rests on it and of no other). -/
namespace Obligations
open Backend Backend.PA

/-- what the C03 theorems assume of the code, as extracted: the read loop finishes a record only after decoding it
    and commits only what it read; clean-up requires the empty transit buffer; the event is popped inside the
    per-event try/catch path whatever is thrown, and before a flush flag is raised -/
theorem backendA_C03_structure :
    Extracted.readLoopShape = true ∧ Extracted.cleanupNeedsEmptyBuffer = true ∧ Extracted.perEventCatch = true ∧
    Extracted.popBeforeFlag = true := by decide

/-- C03 for the code as extracted: every configuration carrying the extracted parameters (counter width, refresh
    order, report-before-clean-up), every freshly started system, every schedule -/
theorem C03_extracted (s0 : BSt) (h0 : Fresh s0)
    (_hb : s0.cfg.invalidBits = Extracted.invalidBits) (_hr : s0.cfg.refreshAfterSample = Extracted.refreshAfterSample)
    (_hf : s0.cfg.reportBeforeFlushCleanup = Extracted.reportBeforeFlushCleanup) (ops : List Op) (i : Nat) :
    ((runOps s0 ops).th i).accepted =
        ((runOps s0 ops).th i).popped ++ ((runOps s0 ops).th i).buf ++ ((runOps s0 ops).th i).qStmts ∧
    (((runOps s0 ops).th i).removed = true →
        ((runOps s0 ops).th i).accepted = ((runOps s0 ops).th i).popped) ∧
    (∀ st ∈ ((runOps s0 ops).th i).accepted, isOrd st = true → ∀ sid,
        wcount (runOps s0 ops).log sid st.id ≤ ((runOps s0 ops).lgOf st.lg).sinks.count sid) :=
  ⟨C03_conservation s0 h0.inv ops i, fun hr => (C03_removed_drained s0 h0.inv ops i hr).2.2.2,
   fun st hm ho sid => C03_at_most_once s0 h0.inv ops i st hm ho sid⟩

end Obligations
