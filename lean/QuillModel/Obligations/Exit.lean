import QuillModel.Extracted.Exit
import QuillModel.Props.C07
/-!
Side-conditions of the C07 theorems, re-proved for what `tools/extractors/exit.py` reads from the current headers
(`SignalHandler.h`, `Backend.h`, `BackendManager.h`, `BackendWorker.h`, `ManualBackendWorker.h`, `BackendOptions.h`).

* `exit_onSignal_agrees`: the control-flow skeleton of `detail::on_signal`, interpreted, makes exactly the calls of
  the decision function `Exit.onSignal` the theorems are about — on every context. Re-ordering the handler
  (re-raise before the flush, notice after the flush, SIGTERM re-raised, a branch dropped …) breaks this.
* the default `catchable_signals` are the six handled signals (SIGALRM is not among them);
* the life-cycle facts are those of the repaired code (`stop` renews the once-flag, `Backend::stop()` and the `atexit`
  handler clear the id the signal handler compares against — F23);
* the structure of `run` / `stop` / `_exit` / `stop_backend_thread` / both `start` overloads / `~ManualBackendWorker`
  and the default of `wait_for_queues_to_empty_before_exit`.
-/
namespace Obligations
open Exit

theorem exit_extraction_complete : Extracted.exitFailures = [] := by decide

/-- the extracted handler = the model's decision function, for all 8·2⁶ contexts -/
theorem exit_onSignal_agrees (x : Ctx) : Extracted.onSignalProg.actions x = onSignal x := by
  have h : allCtx.all (fun x => decide (Extracted.onSignalProg.actions x = onSignal x)) = true := by decide +kernel
  simpa using forall_ctx_of_all h x

/-- default `catchable_signals` = the handled signals of the property (as a set) -/
theorem exit_catchable_is_handled (s : Sig) : s ∈ Extracted.catchableDefault ↔ s ∈ handled := by
  have h : Sig.all.all (fun s => decide (s ∈ Extracted.catchableDefault) == decide (s ∈ handled)) = true := by decide
  have := forall_sig_of_all h s
  simpa using this

theorem exit_alarm_not_catchable : Sig.alrm ∉ Extracted.catchableDefault := by decide

theorem exit_catchable_no_duplicates : Extracted.catchableDefault.Nodup := by decide

theorem exit_life_params_repaired : Extracted.lifeParams = LParams.repaired := by decide

/-- `Backend::stop()` and the `atexit` handler of the signal-handler overload, flattened through `stop_backend_thread` and
    `BackendWorker::stop`, take their steps in the order the interleaving theorems are about: stop request, wake, join,
    forget the worker id, fresh once-flag — and only then clear the id the signal handler reads -/
theorem exit_stop_sequence : Extracted.stopSeq = stopSeqCurrent ∧ Extracted.atexitSeq = stopSeqCurrent := by decide

theorem exit_wait_for_queues_default : Extracted.waitForQueuesDefault = true := by decide

/-- `run`: init, set the running flag, poll while it is set, then `_exit()` and nothing else; the starter waits for
    the flag. `stop`: early return when not running, wake, join, clear the thread id -/
theorem exit_worker_structure :
    Extracted.runPollsThenExits = true ∧ Extracted.runWaitsForRunningFlag = true ∧ Extracted.workerStopShape = true := by
  decide

/-- `_exit`: loops until (`!wait_for_queues…` or every queue **and** transit buffer is empty), leaves only there and
    only after flushing the sinks; otherwise populates and runs the guarded batch loop; `~ManualBackendWorker` calls it -/
theorem exit_drain_structure :
    Extracted.exitLoopShape = true ∧ Extracted.exitHonoursWaitOption = true ∧ Extracted.exitFlushesSinksWhenEmpty = true ∧
    Extracted.emptyCheckCoversQueuesAndBuffers = true ∧ Extracted.manualDtorCallsExit = true := by
  decide

/-- both `start` overloads run under the current once-flag, spawn, then register exactly one `atexit` handler that
    stops the backend thread; the signal-handler overload blocks all signals, installs the handlers, spawns,
    publishes the thread id, restores the mask — in this order; `stop_backend_thread` stops the worker and then
    installs a fresh once-flag, which is the one `start` reads -/
theorem exit_start_stop_structure :
    Extracted.startUsesOnceFlag = true ∧ Extracted.plainStartSpawnsThenRegistersAtexit = true ∧
    Extracted.shStartOrder = true ∧ Extracted.atexitStopsBackendThread = true ∧ Extracted.stopStopsBackendThread = true ∧
    Extracted.stopBackendThreadStopsWorker = true ∧ Extracted.onceFlagIsTheCurrentOne = true ∧
    Extracted.startBackendThreadRuns = true := by
  decide

/-- `init_signal_handler` installs `on_signal` for every listed signal (rejecting SIGALRM) and `on_alarm` for SIGALRM;
    `on_alarm` restores the default action of the stored signal and raises it; the notice macro tests the logger's
    level and then logs on the calling thread -/
theorem exit_handler_installation :
    Extracted.initInstallsHandlers = true ∧ Extracted.alarmRestoresThenRaisesStored = true ∧
    Extracted.noticeMacroChecksLevelThenLogs = true := by
  decide

/-! ### the theorems instantiated for the code as extracted -/

/-- C07 (signal half) for the handler as extracted and the life-cycle facts as extracted -/
theorem C07_signal_extracted (ops : List LOp) (thread : Nat) (s : Sig) (hs : s ∈ Extracted.catchableDefault)
    (pr : Bool) (earlier : List Nat) (w q : List Item) (hsplit : w ++ q = earlier.map Item.stmt) :
    let st := Life.run Extracted.lifeParams {} ops
    st.ctxTid ≠ 0 → thread ≠ st.workerTid →
    exec (st.env true true) s (Extracted.onSignalProg.actions (st.ctx thread s true pr true true)) false false
        { queue := q, written := w } =
      if s = .int ∨ s = .term then ({ queue := [], written := earlier.map Item.stmt ++ [.notice] }, .exit0)
      else ({ queue := [], written := earlier.map Item.stmt ++ [.notice, .critical] }, .diedBy s) := by
  rw [exit_life_params_repaired]
  intro st hctx hthr
  rw [exit_onSignal_agrees]
  have h := C07_signal_in_any_cycle ops thread s pr true true earlier w q hsplit
  rw [h hctx hthr]
  have hh := (exit_catchable_is_handled s).mp hs
  simp only [handled, List.mem_cons, List.not_mem_nil, or_false] at hh
  rcases hh with h | h | h | h | h | h <;> subst h <;> simp [notices, Sig.graceful, Life.env]

/-- restart after any number of cycles, for the life-cycle facts as extracted -/
theorem C07_restart_extracted (cs : List Cycle) (sh : Bool) :
    (Life.run Extracted.lifeParams {} (cs.flatMap Cycle.ops ++ [if sh then .startSH else .start])).running = true := by
  rw [exit_life_params_repaired]
  exact (C07_start_after_cycles_runs cs sh).1

/-- stop / normal exit / handled signal at every point of every program, for the facts and the handler as extracted -/
theorem C07_program_extracted (ops : List POp) (hne : noExit ops = true) :
    ((Sys.run Extracted.lifeParams {} ops).life.running = true →
      (Sys.run Extracted.lifeParams {} (ops ++ [.life .stop])).fe = { queue := [], written := logged ops }) ∧
    (Sys.run Extracted.lifeParams {} (ops ++ [.life .exit])).fe = { queue := [], written := logged ops } ∧
    (∀ (thread : Nat) (s : Sig) (pr : Bool), s ∈ Extracted.catchableDefault →
      (Sys.run Extracted.lifeParams {} ops).life.ctxTid ≠ 0 → thread ≠ (Sys.run Extracted.lifeParams {} ops).life.workerTid →
      exec ((Sys.run Extracted.lifeParams {} ops).life.env true true) s
          (Extracted.onSignalProg.actions ((Sys.run Extracted.lifeParams {} ops).life.ctx thread s true pr true true))
          false false (Sys.run Extracted.lifeParams {} ops).fe =
        ({ queue := [], written := logged ops ++ (if s.graceful then [.notice] else [.notice, .critical]) },
         if s.graceful then .exit0 else .diedBy s)) := by
  rw [exit_life_params_repaired]
  refine ⟨fun hrun => ?_, ?_, fun thread s pr _ hctx hthr => ?_⟩
  · obtain ⟨h1, h2, _⟩ := C07_stop_writes_everything ops hne hrun
    generalize (Sys.run LParams.repaired {} (ops ++ [.life .stop])).fe = f at h1 h2
    cases f; simp_all
  · obtain ⟨h1, h2, _⟩ := C07_exit_writes_everything ops hne
    generalize (Sys.run LParams.repaired {} (ops ++ [.life .exit])).fe = f at h1 h2
    cases f; simp_all
  · rw [exit_onSignal_agrees]
    have := C07_program_signal ops hne thread s pr true true hctx hthr
    rw [this]
    cases hg : s.graceful <;> simp [notices, Life.env, hg]

/-- a handled signal while another thread is inside `Backend::stop()` or the process is inside the `atexit` stop, for
    the step order as extracted: served at every point before the backend thread's last look at the queues -/
theorem C07_signal_during_stop_extracted (viaAtexit wait : Bool) (s : Sig) (pr : Bool) (earlier : List Nat) (w q : List Item)
    (hsplit : w ++ q = earlier.map Item.stmt) (pre mid : List Ev) :
    let seq := if viaAtexit then Extracted.atexitSeq else Extracted.stopSeq
    let a := (CS.init { queue := q, written := w }).run seq wait pre
    let b := a.run seq wait mid
    a.pc < 6 → b.serving = true →
    signalDuringStop wait true true s pr a b =
      ({ queue := [], written := earlier.map Item.stmt ++ loggedEv (pre ++ mid) ++ notices { backendRunning := true } s },
       if s.graceful then .exit0 else .diedBy s) := by
  have hseq : (if viaAtexit then Extracted.atexitSeq else Extracted.stopSeq) = stopSeqCurrent := by
    cases viaAtexit
    · exact exit_stop_sequence.1
    · exact exit_stop_sequence.2
  rw [hseq]
  exact C07_signal_during_stop_served wait true true s pr earlier w q hsplit pre mid

/-- whichever way the handler as extracted waits for its flush request — `flush_log(0)`, for ever (the current code), or
    until the backend thread is gone (`flushEndsWhenBackendGone`, the candidate repair of F27) — at every point of
    `stop()` before the backend thread's last look at the queues the outcome is the one of `C07_signal_during_stop_served`;
    after that look it is F27 (`C07_signal_during_stop_after_last_look_hangs`) resp. `C07_F27_repair_never_hangs` -/
theorem C07_signal_during_stop_extracted_flush (wait info crit : Bool) (s : Sig) (pr : Bool) (f : Fe) (pre mid : List Ev) :
    let a := (CS.init f).run stopSeqCurrent wait pre
    let b := a.run stopSeqCurrent wait mid
    a.pc < 6 → b.serving = true →
    signalDuringStopG Extracted.flushEndsWhenBackendGone wait info crit s pr a b = signalDuringStop wait info crit s pr a b := by
  intro a b ha hb
  cases Extracted.flushEndsWhenBackendGone
  · rfl
  · exact (C07_F27_repair_never_hangs wait info crit s pr f pre mid ha).2.1 hb

end Obligations
