import QuillModel.Extracted.Math
import QuillModel.Props.C01Cap
/-!
Side-conditions of `Props/C01Cap.lean` for the shapes extracted from the current `MathUtilities.h` and
`BoundedSPSCQueue.h`: the model `MathUtil.isPow2 / maxPow2 / nextPow2W / boundedCtor` is written for exactly these
operators and constants. If an edit changes the saturation comparison, drops the `!= 0`, changes the loop test, the mask
or the allocation factor, this file stops compiling.
-/
namespace Obligations
open MathUtil

theorem math_common_found : Extracted.mathMissingCommon = [] ∧ Extracted.mathFailures = [] := by decide

/-- `(number != 0) && ((number & (number - 1)) == 0)` -/
theorem math_is_pow2_shape :
    Extracted.mathIp2NonzeroGuard = true ∧ Extracted.mathIp2BitTrick = true ∧ Extracted.mathIp2Conjunction = true := by
  decide

/-- `(max() >> 1) + 1` -/
theorem math_max_pow2_shape : Extracted.mathMaxShift = 1 ∧ Extracted.mathMaxAdd = 1 := by decide

/-- `if (n >= max) return max; if (is_power_of_two(n)) return n; T result = 1; while (result < n) result <<= 1; return result;` -/
theorem math_next_pow2_shape :
    (Extracted.mathSatOp = ">=" ∨ Extracted.mathSatOp = ">") ∧ Extracted.mathSatConstFromMax = true ∧ Extracted.mathEarlyReturnPow2 = true ∧
    Extracted.mathLoopInit = 1 ∧ (Extracted.mathLoopCmp = "<" ∨ Extracted.mathLoopCmp = "<=") ∧ Extracted.mathLoopShift = 1 ∧
    Extracted.mathReturnsResult = true ∧ Extracted.mathOrderOK = true := by decide

theorem math_bounded_found : Extracted.mathMissingBounded = [] := by decide

/-- `_capacity(next_power_of_two(capacity))`, `_mask(_capacity - 1)`, `2ull * uint64_t(_capacity)` bytes allocated and
    cleared, offsets `pos & _mask`, batch threshold `capacity * percent / 100` -/
theorem math_bounded_ctor_shape :
    Extracted.mathBCapacityFromNextPow2 = true ∧ Extracted.mathBMaskMinus = 1 ∧ Extracted.mathBAllocFactor = 2 ∧
    Extracted.mathBMemsetFactor = 2 ∧ Extracted.mathBBatchDiv = 100 ∧ Extracted.mathBWriteOffsetMasked = true ∧
    Extracted.mathBReadOffsetMasked = true ∧ Extracted.mathBCapacityDeclaredBeforeMask = true := by decide

/-- the model's constructor with the extracted constants, on sample requests of every class (below, at and above the
    saturation point; 0) — ties the constants to `boundedCtor` -/
theorem math_bounded_ctor_extracted :
    ∀ req ∈ [0, 1, 3, 64, 100, 128, 129, 255],
      (boundedCtor 8 req 5).mask + Extracted.mathBMaskMinus = (boundedCtor 8 req 5).capacity ∧
      (boundedCtor 8 req 5).allocBytes = Extracted.mathBAllocFactor * (boundedCtor 8 req 5).capacity ∧
      (boundedCtor 8 req 5).bytesPerBatch = (boundedCtor 8 req 5).capacity * 5 / Extracted.mathBBatchDiv := by decide

/-- `C01_any_requested_capacity` / `C01_wrap_any_requested_capacity` for the widths the code instantiates -/
theorem C01_cap_extracted (req pct : Nat) :
    ∀ w ∈ [8, 16, 32, 64], 0 < (boundedCtor w req pct).capacity ∧ (boundedCtor w req pct).capacity ∣ 2 ^ w ∧
      (boundedCtor w req pct).capacity < 2 ^ w := by
  intro w hw
  have h1 : 1 ≤ w := by simp only [List.mem_cons, List.mem_nil_iff, or_false] at hw; omega
  obtain ⟨_, _, _, _, a, b, c, _⟩ := boundedCtor_ok h1 req pct
  exact ⟨a, b, c⟩

/-- whichever of the equivalent spellings (`n > max` / `n >= max`, `result <= n` / `result < n`) the header uses, the function is
    the `nextPow2W` the theorems are about (`MathUtil.nextPow2V_eq`) -/
theorem math_spelling_extracted (w : Nat) (hw : 1 ≤ w) (n : Nat) :
    nextPow2V Extracted.mathSatStrict Extracted.mathLoopLe w n = nextPow2W w n :=
  nextPow2V_eq hw _ _ n

/-- the constructor rejects a capacity whose doubled byte count does not fit (repair of F32). On the pinned header this is
    `false` and the obligation fails: `MathUtil.C01_unrepaired_flag_witness` / the harness oracle exhibit the failing request. -/
theorem math_ctor_rejects_oversized : Extracted.mathCtorRejectsOversized = true := by decide

/-- `C01_storage_exact` for the extracted constructor: accepted ⇒ exactly `2·capacity` bytes; rejected ⇒ throws before storage -/
theorem C01_storage_exact_extracted (w req pct : Nat) :
    (∃ c, boundedCtorR Extracted.mathCtorRejectsOversized w req pct = some c ∧ c.allocBytes = 2 * c.capacity) ∨
    boundedCtorR Extracted.mathCtorRejectsOversized w req pct = none := by
  rw [math_ctor_rejects_oversized]
  rcases C01_storage_exact w req pct with ⟨c, h, _, ha⟩ | ⟨h, _⟩
  · exact Or.inl ⟨c, h, ha⟩
  · exact Or.inr h

end Obligations
