import QuillModel.Extracted.Queue
import QuillModel.Props.C01
import QuillModel.Props.C09
/-!
Side-conditions of the queue theorems, re-proved for the values extracted from the current headers.
If an edit to `BoundedSPSCQueue.h` weakens a memory order or drops the drain rule, this file stops
compiling — the proof obligation is broken and the check goes looking for a failing schedule.
-/
namespace Obligations

theorem extraction_complete : Extracted.queueFailures = [] := by decide

theorem bounded_orders_ok : Spsc.OrdersOK Extracted.boundedParams := by decide

theorem bounded_drain_publish : Extracted.boundedParams.drainPublish = true := by decide

/-- C01 for the code as extracted -/
theorem C01_extracted (cap batch : Nat) (hc : 0 < cap) (ops : List Spsc.Op)
    (hr : Spsc.Run Extracted.boundedParams (Spsc.init cap batch) ops) (op : Spsc.Op)
    (he : Spsc.Enabled (Spsc.run Extracted.boundedParams (Spsc.init cap batch) ops) op) :
    Spsc.Safe (Spsc.run Extracted.boundedParams (Spsc.init cap batch) ops) op :=
  Spsc.C01_reachable_safe _ bounded_orders_ok cap batch hc ops hr op he

/-- C09 (queue level) for the code as extracted -/
theorem C09_extracted (cap batch : Nat) (hc : 0 < cap) (ops : List Spsc.Op)
    (hr : Spsc.Run Extracted.boundedParams (Spsc.init cap batch) ops)
    (hd : (Spsc.run Extracted.boundedParams (Spsc.init cap batch) ops).rpos =
          (Spsc.run Extracted.boundedParams (Spsc.init cap batch) ops).wpos)
    (n : Nat) (hn0 : 0 < n) (hn : n ≤ cap) :
    Spsc.Enabled (Spsc.cppCommitRead Extracted.boundedParams (Spsc.run Extracted.boundedParams (Spsc.init cap batch) ops))
      (.reloadR ((Spsc.cppCommitRead Extracted.boundedParams (Spsc.run Extracted.boundedParams (Spsc.init cap batch) ops)).rHist.headD 0)) ∧
    Spsc.Enabled (Spsc.step Extracted.boundedParams
      (Spsc.cppCommitRead Extracted.boundedParams (Spsc.run Extracted.boundedParams (Spsc.init cap batch) ops))
      (.reloadR ((Spsc.cppCommitRead Extracted.boundedParams (Spsc.run Extracted.boundedParams (Spsc.init cap batch) ops)).rHist.headD 0)))
      (.write n) :=
  Spsc.C09_drained_grants _ bounded_orders_ok bounded_drain_publish cap batch hc ops hr hd n hn0 hn

end Obligations
