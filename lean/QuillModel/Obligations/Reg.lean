import QuillModel.Extracted.Reg
import QuillModel.Extracted.Spin
import QuillModel.Props.C20Reg
/-! The registration theorems (C20) for the programs and memory orders found in the current
    `core/ThreadContextManager.h`, `core/Spinlock.h` and `backend/BackendWorker.h`. -/
namespace Obligations

/-- the model configuration read off the current headers, for `n` registering threads -/
def regCfg (n : Nat) : Reg.Cfg :=
  { fprog := Extracted.regProg, bprog := Extracted.updProg, ord := Extracted.spinOrders, n := n }

theorem reg_extraction_complete : Extracted.regFailures = [] := by decide

/-- `register_thread_context`: lock, push under the lock, unlock, flag store after `lock()` returned -/
theorem reg_register_program_ok :
    Reg.wfF false false Extracted.regProg = true ∧ Extracted.regProg.contains .setFlag = true ∧
      Extracted.regProg.contains .push = true := by decide

/-- the backend: reset and clear before the copy, copy and unlock under the lock -/
theorem reg_update_program_ok :
    Reg.wfB false Extracted.updProg = true ∧ Extracted.updProg.contains .reset = true := by decide

/-- the manager's spinlock acquires and releases (list accesses race-free) -/
theorem reg_lock_orders_ok : Spin.OrdersOK Extracted.spinOrders := by decide

theorem reg_cfg_ok (n : Nat) : Reg.CfgOK (regCfg n) :=
  ⟨reg_register_program_ok.1, reg_register_program_ok.2.1, reg_register_program_ok.2.2, reg_update_program_ok.1,
   reg_update_program_ok.2, reg_lock_orders_ok⟩

theorem C20_registration_extracted (n : Nat) (ops : List Reg.Op) (hr : Reg.Run (regCfg n) (Reg.init (regCfg n)) ops) :
    (Reg.run (regCfg n) (Reg.init (regCfg n)) ops).raced = false ∧
    (∀ t, t < n → ((Reg.run (regCfg n) (Reg.init (regCfg n)) ops).fr t).rest = [] →
        t ∈ (Reg.run (regCfg n) (Reg.init (regCfg n)) ops).cache ∨
        Reg.newest (Reg.run (regCfg n) (Reg.init (regCfg n)) ops).flagHist = true ∨
        Reg.BInstr.copy ∈ (Reg.run (regCfg n) (Reg.init (regCfg n)) ops).brest) :=
  ⟨(Reg.C20_registration_not_lost _ (reg_cfg_ok n) ops hr).1,
   fun t ht hret => Reg.C20_registered_cached_or_flagged _ (reg_cfg_ok n) ops hr t ht hret⟩

theorem C20_next_update_extracted (n : Nat) (ops : List Reg.Op) (hr : Reg.Run (regCfg n) (Reg.init (regCfg n)) ops)
    (hall : ∀ u, u < n → ((Reg.run (regCfg n) (Reg.init (regCfg n)) ops).fr u).rest = []) (t : Nat) (ht : t < n) :
    t ∈ (Reg.soloUpdate (regCfg n) (Reg.finishUpdate (regCfg n)
          (2 * (Reg.run (regCfg n) (Reg.init (regCfg n)) ops).brest.length) (Reg.run (regCfg n) (Reg.init (regCfg n)) ops))).cache :=
  Reg.C20_next_update_picks_up _ (reg_cfg_ok n) ops hr
    (Reg.C20_all_returned_lock_free _ (reg_cfg_ok n) ops hr hall) t ht (hall t ht)

end Obligations
