import QuillModel.Extracted.Rot
import QuillModel.Props.C14
import QuillModel.Props.C15
/-!
Side-conditions of the rotation theorems, re-proved for what was extracted from the current `RotatingSink.h`.
The model assumes the structure recorded in `Extracted.rotFacts` (trigger comparisons, order of rename / delete /
open, oldest-first loop, recovery rules, …) and is parametric in `advancesFromSchedule`. If an edit to the header
changes one of them this file stops compiling — the proof obligation is broken and the check looks for a failing
history on the real code.
-/
namespace Obligations

theorem rot_extraction_complete : Extracted.rotFailures = [] := by decide

/-- every structural fact the model relies on was found in the header -/
theorem rot_facts_hold : Extracted.rotFacts.all (·.2) = true ∧ Extracted.rotFacts.length = 28 := by decide

/-- the member initialisers are the model's defaults -/
theorem rot_defaults : Extracted.rotDefaults = ({} : Rot.Cfg) := by decide

theorem rot_enums : Extracted.rotSchemes = ["Index", "Date", "DateAndTime"] ∧
    Extracted.rotFreqs = ["Disabled", "Daily", "Hourly", "Minutely"] := by decide

/-- `_time_rotation` advances from the scheduled point (the repair of F9 is in place) -/
theorem rot_advances_from_schedule : Extracted.rotParams = ⟨true⟩ := by decide

/-- C14 (Index scheme) for the code as extracted -/
theorem C14_extracted (z : Nat → Int) (fs0 : Rot.FS) (hd : Rot.DirOK fs0) (c0 : Rot.Cfg) (start0 : Nat)
    (hc0 : Rot.RestartOK c0) (ops : List Rot.Op) (hops : ∀ op ∈ ops, Rot.OpAppend op) :
    Rot.IndexInv (Rot.run Extracted.rotParams z (Rot.restart z fs0 c0 start0) ops) ∧
      Rot.diskSeq (Rot.run Extracted.rotParams z (Rot.restart z fs0 c0 start0) ops) <:+
        Rot.diskSeq (Rot.restart z fs0 c0 start0) ++ Rot.written ops :=
  Rot.C15_composes_with_C14 _ z fs0 hd c0 start0 hc0 ops hops

/-- C15 grid theorem for the code as extracted -/
theorem C15_extracted (z : Nat → Int) (fs : Rot.FS) (c : Rot.Cfg) (start : Nat) (hc : Rot.CfgOK c)
    (hf : c.freq ≠ .disabled) (l : List (Rot.Stmt × Nat)) :
    Rot.GridInv (Rot.initialRot z c start) (Rot.period c) (l.map (·.2))
      (Rot.run Extracted.rotParams z (Rot.restart z fs c start) (Rot.writeOps l)).sink.nextRot := by
  rw [rot_advances_from_schedule]
  exact Rot.C15_grid z fs c start hc hf l

end Obligations
