import QuillModel.Extracted.Pattern
import QuillModel.Props.C12
/-!
C16 ("each sink receives the line formatted with its own override pattern if it has one, else the logger's") rests on one
fact of the pattern bundle: the pattern a sink gets does not depend on the order in which loggers were first dispatched nor on
which loggers share a formatter. Kept apart from `Obligations/Pattern.lean` so that C16's proof side depends on this fact only.
-/
namespace Obligations
open Pattern

/-- the override formatter of a sink is selected (and lazily created) on the write path, per sink — not inside the block that
    creates a logger's formatter, which is skipped when the formatter of another logger with equal options is shared -/
theorem sink_override_on_write_path : Extracted.overrideChosenOnWritePath = true := by decide

/-- for the code as extracted: whatever the history of dispatches and the starting state of the formatter cache, every
    sink gets `patternFor sink logger` -/
theorem C16_sink_pattern_extracted (cfg : Config) (ls : List Nat) (st : BState) :
    runHistory (!Extracted.overrideChosenOnWritePath) cfg st ls = ls.map (ruleFor cfg) := by
  rw [sink_override_on_write_path]
  exact (C12_sink_pattern_independent_of_history cfg ls st st).1

end Obligations
