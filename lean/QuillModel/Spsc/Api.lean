import QuillModel.Spsc.Model
/-!
# The queue's API calls as sequences of model steps, and the `2^w`-modular implementation layer

`absApi` mirrors the control flow of each C++ member function one-to-one, in terms of the micro-steps of
`Model.lean`; it is what the correspondence driver executes. `modApi` is the same control flow computed
with values modulo `M = 2^w` exactly as the C++ does (`static_cast<T>(a - b)`, `& mask`, `+=` wrapping).
`Wrap.lean` proves that the second simulates the first through any number of wraps.
-/
namespace Spsc

inductive Api
  | prepareWrite (n v : Nat)   -- `v`: the value the reload returns, should one happen
  | finishWrite (n : Nat)
  | commitWrite
  | empty (v : Nat)            -- `v`: the value the load returns, should one happen
  | prepareRead (v : Nat)
  | finishRead (n : Nat)
  | commitRead
  deriving Repr

inductive Obs
  | grant (off : Nat) | null | ok | isEmpty (b : Bool) | readAt (off : Nat) | pub (v : Nat) | nopub
  deriving Repr, DecidableEq

/-- free space as the producer sees it -/
def St.free (s : St) : Nat := s.cap - (s.wpos - s.rcache)

/-- micro-steps an API call performs in state `s` -/
def apiOps (o : Params) (s : St) : Api → List Op
  | .prepareWrite n v => if s.free < n then [.reloadR v] else []
  | .finishWrite n    => [.write n]
  | .commitWrite      => [.commitW]
  | .empty v          => if s.wcache = s.rpos then [.loadW v] else []
  | .prepareRead v    => if s.wcache = s.rpos then [.loadW v] else []
  | .finishRead n     => [.read n]
  | .commitRead       => [.commitR (publishes o s)]

/-- `commit_read()` as the C++ performs it: the publication decision is `publishes` -/
def cppCommitRead (o : Params) (s : St) : St := step o s (.commitR (publishes o s))

/-- what the caller (or, for `commit_read`, the other thread through the atomic) observes -/
def apiObs (o : Params) (s s' : St) : Api → Obs
  | .prepareWrite n _ => if s'.free < n then .null else .grant (s'.wpos % s'.cap)
  | .finishWrite _    => .ok
  | .commitWrite      => .pub s'.wpos
  | .empty _          => .isEmpty (s'.wcache = s'.rpos)
  | .prepareRead _    => if s'.wcache = s'.rpos then .null else .readAt (s'.rpos % s'.cap)
  | .finishRead _     => .ok
  | .commitRead       => if publishes o s then .pub s.rpos else .nopub

def absApi (o : Params) (s : St) (a : Api) : St × Obs :=
  let s' := run o s (apiOps o s a)
  (s', apiObs o s s' a)

/-! ## implementation layer: the fields of the C++ object, all values `< M` -/

structure MSt where
  cap : Nat
  batch : Nat
  wpos : Nat
  rcache : Nat
  rpos : Nat
  wcache : Nat
  aw : Nat      -- newest value of `_atomic_writer_pos`
  ar : Nat      -- newest value of `_atomic_reader_pos` (read back relaxed by its own writer)
  deriving Repr, DecidableEq

/-- `static_cast<T>(a - b)` for `a b < M` -/
def subM (M a b : Nat) : Nat := (a + M - b) % M

def modApi (M : Nat) (o : Params) (m : MSt) : Api → MSt × Obs
  | .prepareWrite n v =>
      let m1 := if m.cap - subM M m.wpos m.rcache < n then { m with rcache := v } else m
      (m1, if m1.cap - subM M m1.wpos m1.rcache < n then .null else .grant (m1.wpos % m1.cap))
  | .finishWrite n    => ({ m with wpos := (m.wpos + n) % M }, .ok)
  | .commitWrite      => ({ m with aw := m.wpos }, .pub m.wpos)
  | .empty v          =>
      let m1 := if m.wcache = m.rpos then { m with wcache := v } else m
      (m1, .isEmpty (m1.wcache = m1.rpos))
  | .prepareRead v    =>
      let m1 := if m.wcache = m.rpos then { m with wcache := v } else m
      (m1, if m1.wcache = m1.rpos then .null else .readAt (m1.rpos % m1.cap))
  | .finishRead n     => ({ m with rpos := (m.rpos + n) % M }, .ok)
  | .commitRead       =>
      if decide (m.batch ≤ subM M m.rpos m.ar) || (o.drainPublish && decide (m.rpos = m.wcache))
      then ({ m with ar := m.rpos }, .pub m.rpos) else (m, .nopub)

def absM (M : Nat) (s : St) : MSt :=
  { cap := s.cap, batch := s.batch, wpos := s.wpos % M, rcache := s.rcache % M, rpos := s.rpos % M,
    wcache := s.wcache % M, aw := s.wHist.headD 0 % M, ar := s.rHist.headD 0 % M }

def Api.modM (M : Nat) : Api → Api
  | .prepareWrite n v => .prepareWrite n (v % M)
  | .empty v => .empty (v % M)
  | .prepareRead v => .prepareRead (v % M)
  | a => a

def Obs.modM (M : Nat) : Obs → Obs
  | .pub v => .pub (v % M)
  | x => x

/-- the `k`-th newest distinct legal result of a load: any stored value not older than the cached one -/
def pick (hist : List Nat) (cache k : Nat) : Nat :=
  let legal := (hist.filter (fun v => decide (cache ≤ v))).eraseDups
  legal.getD (min k (legal.length - 1)) cache

end Spsc
