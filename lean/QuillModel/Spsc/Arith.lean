namespace Spsc

/-- Two records that both lie in a window of at most `cap` free-running positions occupy disjoint
    physical cells, although records never wrap (they spill into the second half of the storage). -/
theorem cells_disjoint (cap a a' w n r : Nat) (hc : 0 < cap) (haw : a' ≤ w)
    (hr : r ≤ a) (hfit : w + n ≤ cap + r) (i j : Nat) (hi : i < a' - a) (hj : j < n) :
    a % cap + i ≠ w % cap + j := by
  have ha := Nat.div_add_mod a cap
  have hw := Nat.div_add_mod w cap
  have hra := Nat.mod_lt a hc
  have hrw := Nat.mod_lt w hc
  have hle : a / cap ≤ w / cap := Nat.div_le_div_right (by omega)
  have hlt : w / cap ≤ a / cap + 1 := by
    have : w / cap ≤ (a + cap) / cap := Nat.div_le_div_right (by omega)
    rwa [Nat.add_div_right a hc] at this
  rcases Nat.lt_or_ge (a / cap) (w / cap) with h | h
  · have hq : w / cap = a / cap + 1 := by omega
    rw [hq, Nat.mul_succ] at hw
    omega
  · have hq : w / cap = a / cap := by omega
    rw [hq] at hw
    omega

theorem phys_in_storage (cap w n r : Nat) (hc : 0 < cap) (hfit : w + n ≤ cap + r) (hr : r ≤ w) :
    w % cap + n ≤ 2 * cap := by
  have := Nat.mod_lt w hc
  omega

end Spsc
