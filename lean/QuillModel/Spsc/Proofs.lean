import QuillModel.Spsc.Model
import QuillModel.Spsc.Arith
/-! Invariant preservation and step safety for the bounded SPSC model. -/
namespace Spsc

theorem take_sum_le (l : List Nat) (k : Nat) : (l.take k).sum ≤ l.sum := by
  induction l generalizing k with
  | nil => simp
  | cons a as ih =>
    cases k with
    | zero => simp
    | succ k => simp only [List.take_succ_cons, List.sum_cons]; have := ih k; omega

theorem startK_le_sum (l : List Nat) (k : Nat) : startK l k ≤ l.sum := take_sum_le l k

theorem startK_succ (l : List Nat) (k : Nat) (hk : k < l.length) :
    startK l (k + 1) = startK l k + l[k] := by
  unfold startK
  induction l generalizing k with
  | nil => simp at hk
  | cons a as ih =>
    cases k with
    | zero => simp
    | succ k =>
      simp only [List.take_succ_cons, List.sum_cons, List.getElem_cons_succ]
      have := ih k (by simpa using hk)
      omega

theorem startK_append_le (l : List Nat) (n k : Nat) (hk : k ≤ l.length) :
    startK (l ++ [n]) k = startK l k := by
  unfold startK
  rw [List.take_append_of_le_length hk]

theorem startK_length (l : List Nat) : startK l l.length = l.sum := by
  unfold startK; rw [List.take_length]

theorem startK_append_last (l : List Nat) (n : Nat) :
    startK (l ++ [n]) (l.length + 1) = l.sum + n := by
  have : startK (l ++ [n]) ((l ++ [n]).length) = (l ++ [n]).sum := startK_length _
  simpa using this

theorem QInv.rc_le_wpos {s : St} (h : QInv s) : s.rcache ≤ s.wpos := by
  have := h.rcIn; have := h.pHbLe; have := h.rNew; have := h.rw; have := h.wcLe; have := h.cHbLe; have := h.wNew
  omega

theorem QInv.rpos_le_wpos {s : St} (h : QInv s) : s.rpos ≤ s.wpos := by
  have := h.rw; have := h.wcLe; have := h.cHbLe; have := h.wNew
  omega

theorem QInv.bndWpos {s : St} (h : QInv s) : Bnd s s.wpos :=
  ⟨Nat.le_refl _, fun x hx => Or.inr (h.ext x hx).2.2.1⟩

/-- a boundary `b ≤ x` lies at or below the start of `x`'s record -/
theorem Bnd.le_start {s : St} (h : QInv s) {b x : Nat} (hb : Bnd s b) (hx : x < s.wpos) (hbx : b ≤ x) :
    b ≤ s.startOf x := by
  rcases hb.2 x hx with h1 | h1
  · exact h1
  · have := (h.ext x hx).2.1; omega

/-- a boundary `b > x` lies at or above the end of `x`'s record -/
theorem Bnd.end_le {s : St} (h : QInv s) {b x : Nat} (hb : Bnd s b) (hx : x < s.wpos) (hbx : x < b) :
    s.endOf x ≤ b := by
  rcases hb.2 x hx with h1 | h1
  · have := (h.ext x hx).1; omega
  · exact h1

/-- Every enabled step of either thread is safe: the producer stays inside the storage and overwrites
    only bytes whose reads happen-before; the consumer reads only committed, synchronised, intact bytes. -/
theorem step_safe (s : St) (op : Op) (h : QInv s) (he : Enabled s op) : Safe s op := by
  cases op with
  | write n =>
    obtain ⟨hn0, hn⟩ := he
    have hrw := h.rc_le_wpos
    have hroom := h.room
    have hfit : s.wpos + n ≤ s.cap + s.rcache := by omega
    refine ⟨phys_in_storage s.cap s.wpos n s.rcache h.capPos hfit hrw, ?_⟩
    intro c x hc1 hc2 hm
    obtain ⟨hcx, hxw⟩ := h.memAt c x hm
    apply Classical.byContradiction
    intro hnot
    have hx : s.rcache ≤ x := by have := h.rcIn; omega
    have hst := Bnd.le_start h h.bRc hxw hx
    obtain ⟨e1, e2, e3, _⟩ := h.ext x hxw
    have := cells_disjoint s.cap (s.startOf x) (s.endOf x) s.wpos n s.rcache h.capPos e3 hst hfit
      (x - s.startOf x) (c - s.wpos % s.cap) (by omega) (by omega)
    unfold St.phys at hcx
    omega
  | read n =>
    obtain ⟨hlt, hn⟩ := he
    have hxw : s.rpos < s.wpos := by
      have := h.wcLe; have := h.cHbLe; have := h.wNew; omega
    have hend := Bnd.end_le h h.bWc hxw hlt
    obtain ⟨e1, e2, e3, _⟩ := h.ext s.rpos hxw
    refine ⟨by have := h.wcLe; omega, ?_⟩
    intro j hj
    exact h.live (s.rpos + j) (by omega) (by omega)
  | reloadR v => trivial
  | commitW => trivial
  | loadW v => trivial
  | commitR b => trivial

theorem Bnd.write {o : Params} {s : St} {n b : Nat} (hb : Bnd s b) : Bnd (step o s (.write n)) b := by
  refine ⟨by have := hb.1; simp [step]; omega, ?_⟩
  intro x hx
  simp only [step] at hx ⊢
  by_cases hin : s.wpos ≤ x ∧ x < s.wpos + n
  · left; simp [hin]; exact hb.1
  · have hx' : x < s.wpos := by omega
    simp [hin]; exact hb.2 x hx'

/-- the record the consumer is about to read is the `nread`-th record written -/
theorem QInv.read_is_next {s : St} (h : QInv s) (hlt : s.rpos < s.wpos) :
    ∃ hk : s.nread < s.recs.length, s.startOf s.rpos = s.rpos ∧ s.endOf s.rpos = s.rpos + s.recs[s.nread] := by
  have hk : s.nread < s.recs.length := by
    rcases Nat.lt_or_ge s.nread s.recs.length with h1 | h1
    · exact h1
    · have : s.nread = s.recs.length := Nat.le_antisymm h.nreadLe h1
      have h2 := h.rSum; rw [this, startK_length] at h2
      have := h.wSum; omega
  refine ⟨hk, ?_⟩
  have hs := startK_succ s.recs s.nread hk
  have hpos := h.recPos _ (List.getElem_mem hk)
  have := h.recExt s.nread hk s.rpos (by rw [← h.rSum]; exact Nat.le_refl _) (by rw [hs, ← h.rSum]; omega)
  rw [hs, ← h.rSum] at this
  exact this

theorem step_inv (o : Params) (ho : OrdersOK o) (s : St) (op : Op) (h : QInv s) (he : Enabled s op) :
    QInv (step o s op) := by
  obtain ⟨hsW, hsR⟩ := ho
  cases op with
  | reloadR v =>
    obtain ⟨hv, hcoh⟩ := he
    have hvle := h.rhLe v hv
    have hroom := h.room
    refine { h with rcIn := ?_, pHbLe := ?_, room := ?_, bRc := ?_ } <;> simp only [step, hsR, if_true]
    · omega
    · have := h.pHbLe; omega
    · omega
    · exact h.bRh v hv
  | commitW =>
    have hb := h.bndWpos
    refine { h with whLe := ?_, cHbLe := ?_, wNew := ?_, bWh := ?_ } <;> simp only [step, List.headD_cons]
    · intro v hv
      rcases List.mem_cons.mp hv with rfl | hv
      · exact Nat.le_refl _
      · have := h.whLe v hv; have := h.wNew; omega
    · have := h.cHbLe; have := h.wNew; omega
    · exact Nat.le_refl _
    · intro v hv
      rcases List.mem_cons.mp hv with rfl | hv
      · exact hb
      · exact h.bWh v hv
  | loadW v =>
    obtain ⟨hv, hcoh⟩ := he
    have hvle := h.whLe v hv
    refine { h with rw := ?_, wcLe := ?_, cHbLe := ?_, bWc := ?_ } <;> simp only [step, hsW, if_true]
    · have := h.rw; omega
    · omega
    · have := h.cHbLe; omega
    · exact h.bWh v hv
  | read n =>
    obtain ⟨hlt, hn⟩ := he
    have hxw : s.rpos < s.wpos := by
      have := h.wcLe; have := h.cHbLe; have := h.wNew; omega
    have hend := Bnd.end_le h h.bWc hxw hlt
    obtain ⟨e1, e2, e3, _⟩ := h.ext s.rpos hxw
    obtain ⟨hk, hst, hen⟩ := h.read_is_next hxw
    have hnew : s.rpos + n = s.endOf s.rpos := by omega
    refine { h with rNew := ?_, rw := ?_, bRp := ?_, live := ?_, nreadLe := ?_, rSum := ?_ } <;> simp only [step]
    · have := h.rNew; omega
    · omega
    · rw [hnew]
      refine ⟨e3, ?_⟩
      intro x hx
      dsimp only at hx ⊢
      rcases h.bRp.2 x hx with h1 | h1
      · by_cases h2 : s.startOf x < s.endOf s.rpos
        · right
          obtain ⟨x1, x2, _, _⟩ := h.ext x hx
          have a := h.extS s.rpos (s.startOf x) hxw (by omega) h2
          have b := h.extS x (s.startOf x) hx (Nat.le_refl _) (by omega)
          omega
        · left; omega
      · right; omega
    · intro x hx1 hx2
      exact h.live x (by omega) hx2
    · omega
    · rw [startK_succ _ _ hk, ← h.rSum]; omega
  | commitR b =>
    simp only [step]
    split
    · refine { h with rh0 := ?_, rhLe := ?_, pHbLe := ?_, rNew := ?_, bRh := ?_ } <;> simp only [List.headD_cons]
      · simp
      · intro v hv
        rcases List.mem_cons.mp hv with rfl | hv
        · exact Nat.le_refl _
        · have := h.rhLe v hv; have := h.rNew; omega
      · have := h.pHbLe; have := h.rNew; omega
      · exact Nat.le_refl _
      · intro v hv
        rcases List.mem_cons.mp hv with rfl | hv
        · exact h.bRp
        · exact h.bRh v hv
    · exact h
  | write n =>
    obtain ⟨hn0, hn⟩ := he
    have hrw := h.rc_le_wpos
    have hroom := h.room
    have hfit : s.wpos + n ≤ s.cap + s.rcache := by omega
    have hncap : n ≤ s.cap := by omega
    refine { capPos := h.capPos, rh0 := h.rh0, rhLe := h.rhLe, whLe := h.whLe, rcIn := h.rcIn,
             pHbLe := h.pHbLe, rNew := h.rNew, rw := h.rw, wcLe := h.wcLe, cHbLe := h.cHbLe,
             wNew := ?_, room := ?_, ext := ?_, extS := ?_, bRc := h.bRc.write, bRp := h.bRp.write,
             bWc := h.bWc.write, bRh := fun v hv => (h.bRh v hv).write, bWh := fun v hv => (h.bWh v hv).write,
             memAt := ?_, live := ?_, recPos := ?_, wSum := ?_, nreadLe := ?_, rSum := ?_, recExt := ?_ }
    · simp only [step]; have := h.wNew; omega
    · simp only [step]; omega
    · intro x hx
      simp only [step] at hx ⊢
      by_cases hin : s.wpos ≤ x ∧ x < s.wpos + n
      · simp [hin]; omega
      · have hx' : x < s.wpos := by omega
        obtain ⟨e1, e2, e3, e4⟩ := h.ext x hx'
        simp [hin]; omega
    · intro x y hx hy1 hy2
      simp only [step] at hx hy1 hy2 ⊢
      by_cases hin : s.wpos ≤ x ∧ x < s.wpos + n
      · simp [hin] at hy1 hy2
        have hiny : s.wpos ≤ y ∧ y < s.wpos + n := ⟨hy1, hy2⟩
        simp [hin, hiny]
      · have hx' : x < s.wpos := by omega
        simp [hin] at hy1 hy2
        obtain ⟨e1, e2, e3, e4⟩ := h.ext x hx'
        have hiny : ¬ (s.wpos ≤ y ∧ y < s.wpos + n) := by omega
        simp [hin, hiny]
        exact h.extS x y hx' hy1 hy2
    · intro c x hm
      simp only [step, St.phys] at hm ⊢
      by_cases hc : s.wpos % s.cap ≤ c ∧ c < s.wpos % s.cap + n
      · simp [hc] at hm
        subst hm
        have hin : s.wpos ≤ s.wpos + (c - s.wpos % s.cap) ∧ s.wpos + (c - s.wpos % s.cap) < s.wpos + n := by omega
        simp [hin]; omega
      · simp [hc] at hm
        obtain ⟨m1, m2⟩ := h.memAt c x hm
        have hin : ¬ (s.wpos ≤ x ∧ x < s.wpos + n) := by omega
        simp [hin]
        exact ⟨m1, by omega⟩
    · intro x hx1 hx2
      simp only [step, St.phys] at hx1 hx2 ⊢
      by_cases hin : s.wpos ≤ x ∧ x < s.wpos + n
      · have hc : s.wpos % s.cap ≤ s.wpos % s.cap + (x - s.wpos) ∧ s.wpos % s.cap + (x - s.wpos) < s.wpos % s.cap + n := by omega
        simp [hin, hc]
      · have hx' : x < s.wpos := by omega
        obtain ⟨e1, e2, e3, _⟩ := h.ext x hx'
        have hrx : s.rcache ≤ x := by
          have := h.rcIn; have := h.pHbLe; have := h.rNew; omega
        have hst := Bnd.le_start h h.bRc hx' hrx
        have hdis := cells_disjoint s.cap (s.startOf x) (s.endOf x) s.wpos n s.rcache h.capPos e3 hst hfit
        have hc : ¬ (s.wpos % s.cap ≤ s.startOf x % s.cap + (x - s.startOf x) ∧
                     s.startOf x % s.cap + (x - s.startOf x) < s.wpos % s.cap + n) := by
          intro hc
          have := hdis (x - s.startOf x) (s.startOf x % s.cap + (x - s.startOf x) - s.wpos % s.cap) (by omega) (by omega)
          omega
        simp [hin, hc]
        exact h.live x hx1 hx'
    · intro m hm
      simp only [step] at hm
      rcases List.mem_append.mp hm with h1 | h1
      · exact h.recPos m h1
      · simp at h1; omega
    · simp only [step, List.sum_append, List.sum_cons, List.sum_nil]; have := h.wSum; omega
    · simp only [step, List.length_append, List.length_cons, List.length_nil]; have := h.nreadLe; omega
    · simp only [step]; rw [startK_append_le _ _ _ h.nreadLe]; exact h.rSum
    · intro k hk x hx1 hx2
      simp only [step, List.length_append, List.length_cons, List.length_nil] at hk hx1 hx2 ⊢
      rcases Nat.lt_or_ge k s.recs.length with hk' | hk'
      · rw [startK_append_le _ _ _ (Nat.le_of_lt hk')] at hx1 ⊢
        rw [startK_append_le s.recs n (k + 1) hk'] at hx2 ⊢
        have hle := startK_le_sum s.recs (k + 1)
        have hnot : ¬ (s.wpos ≤ x ∧ x < s.wpos + n) := by have := h.wSum; omega
        simp only [hnot, if_false]
        exact h.recExt k hk' x hx1 hx2
      · have hkeq : k = s.recs.length := by omega
        subst hkeq
        rw [startK_append_le _ _ _ (Nat.le_refl _), startK_length] at hx1 ⊢
        rw [startK_append_last] at hx2 ⊢
        have hin : s.wpos ≤ x ∧ x < s.wpos + n := by have := h.wSum; omega
        simp only [hin, and_self, if_true]
        have := h.wSum; omega

theorem init_inv (cap batch : Nat) (hc : 0 < cap) : QInv (init cap batch) := by
  constructor <;> simp [init, Bnd, startK]
  · exact hc

/-- every state reached by any legal schedule (any interleaving, any legal stale load) satisfies the
    invariant -/
theorem reachable_inv (o : Params) (ho : OrdersOK o) :
    ∀ (ops : List Op) (s : St), QInv s → Run o s ops → QInv (run o s ops)
  | [], _, h, _ => h
  | op :: ops, s, h, hr => reachable_inv o ho ops _ (step_inv o ho s op h hr.1) hr.2

theorem safeB_iff (s : St) (op : Op) : safeB s op = true ↔ Safe s op := by
  cases op with
  | write n =>
    simp only [safeB, Safe, Bool.and_eq_true, decide_eq_true_eq, List.all_eq_true, List.mem_range]
    constructor
    · rintro ⟨h1, h2⟩
      refine ⟨h1, ?_⟩
      intro c x hc1 hc2 hm
      have := h2 (c - s.wpos % s.cap) (by omega)
      have e : s.wpos % s.cap + (c - s.wpos % s.cap) = c := by omega
      rw [e, hm] at this
      simpa using this
    · rintro ⟨h1, h2⟩
      refine ⟨h1, ?_⟩
      intro j hj
      cases hm : s.mem (s.wpos % s.cap + j) with
      | none => rfl
      | some x => simpa using h2 _ x (by omega) (by omega) hm
  | read n =>
    simp only [safeB, Safe, Bool.and_eq_true, decide_eq_true_eq, List.all_eq_true, List.mem_range, beq_iff_eq]
  | reloadR v => simp [safeB, Safe]
  | commitW => simp [safeB, Safe]
  | loadW v => simp [safeB, Safe]
  | commitR b => simp [safeB, Safe]

end Spsc
