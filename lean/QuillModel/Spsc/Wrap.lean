import QuillModel.Spsc.Api
import QuillModel.Spsc.Proofs
/-!
# Wrap-around refinement

The C++ keeps every position in an unsigned integer type `T` of `w` bits and computes distances as
`static_cast<T>(a - b)`, offsets as `pos & (capacity - 1)`. With `M = 2^w`, `cap ∣ M` and `cap < M`
(capacity is a power of two representable in `T`), the implementation-layer machine `modApi` started
from `absM M s` produces exactly the image of what the free-running machine `absApi` produces from `s`,
for every reachable `s` — i.e. through any number of integer wrap-arounds.
-/
namespace Spsc

theorem subM_eq (M a b : Nat) (hM : 0 < M) (hba : b ≤ a) (hlt : a - b < M) :
    subM M (a % M) (b % M) = a - b := by
  unfold subM
  have ha := Nat.div_add_mod a M
  have hb := Nat.div_add_mod b M
  have hra := Nat.mod_lt a hM
  have hrb := Nat.mod_lt b hM
  have hle : b / M ≤ a / M := Nat.div_le_div_right hba
  have hlt2 : a / M ≤ b / M + 1 := by
    have : a / M ≤ (b + M) / M := Nat.div_le_div_right (by omega)
    rwa [Nat.add_div_right b hM] at this
  rcases Nat.lt_or_ge (b / M) (a / M) with h | h
  · have hq : a / M = b / M + 1 := by omega
    rw [hq, Nat.mul_succ] at ha
    have e : a % M + M - b % M = a - b := by omega
    rw [e]; exact Nat.mod_eq_of_lt hlt
  · have hq : a / M = b / M := by omega
    rw [hq] at ha
    have e : a % M + M - b % M = (a - b) + M := by omega
    rw [e, Nat.add_mod_right]; exact Nat.mod_eq_of_lt hlt

theorem mod_eq_iff (M a b : Nat) (hM : 0 < M) (hba : b ≤ a) (hlt : a - b < M) :
    a % M = b % M ↔ a = b := by
  constructor
  · intro h
    have h1 := subM_eq M a b hM hba hlt
    rw [h] at h1
    unfold subM at h1
    have : b % M + M - b % M = M := by omega
    rw [this, Nat.mod_self] at h1
    omega
  · intro h; rw [h]

theorem add_modM (M a n : Nat) : (a % M + n) % M = (a + n) % M := by
  rw [Nat.add_mod, Nat.mod_mod, ← Nat.add_mod]

/-- the arithmetic facts of a reachable state that the refinement needs -/
structure WrapOK (M : Nat) (s : St) : Prop where
  mPos : 0 < M
  dvd : s.cap ∣ M
  capLt : s.cap < M
  rcw : s.rcache ≤ s.wpos
  room : s.wpos - s.rcache ≤ s.cap
  rw : s.rpos ≤ s.wcache
  ww : s.wcache ≤ s.wpos
  pubR : s.rHist.headD 0 ≤ s.rpos
  rcPub : s.rcache ≤ s.rHist.headD 0

theorem QInv.wrapOK {s : St} (h : QInv s) (M : Nat) (hd : s.cap ∣ M) (hlt : s.cap < M) : WrapOK M s where
  mPos := by have := h.capPos; omega
  dvd := hd
  capLt := hlt
  rcw := h.rc_le_wpos
  room := h.room
  rw := h.rw
  ww := by have := h.wcLe; have := h.cHbLe; have := h.wNew; omega
  pubR := h.rNew
  rcPub := by have := h.rcIn; have := h.pHbLe; omega

theorem free_mod {M : Nat} {s : St} (h : WrapOK M s) :
    s.cap - subM M (s.wpos % M) (s.rcache % M) = s.free := by
  rw [subM_eq M _ _ h.mPos h.rcw (by have := h.room; have := h.capLt; omega)]; rfl

theorem empty_mod {M : Nat} {s : St} (h : WrapOK M s) :
    (s.wcache % M = s.rpos % M) ↔ (s.wcache = s.rpos) :=
  mod_eq_iff M _ _ h.mPos h.rw (by have := h.room; have := h.capLt; have := h.ww; have := h.rcPub; have := h.pubR; omega)

theorem batch_mod {M : Nat} {s : St} (h : WrapOK M s) :
    subM M (s.rpos % M) (s.rHist.headD 0 % M) = s.rpos - s.rHist.headD 0 :=
  subM_eq M _ _ h.mPos h.pubR (by have := h.room; have := h.capLt; have := h.ww; have := h.rcPub; have := h.rw; omega)

theorem off_mod {M : Nat} {s : St} (h : WrapOK M s) (x : Nat) : x % M % s.cap = x % s.cap :=
  Nat.mod_mod_of_dvd x h.dvd

/-- what a caller must respect: `finish_write n` after a grant of `n`, `finish_read n` of the record the
    bytes describe after a non-null `prepare_read`, and a legal load result -/
def ApiOK (s : St) : Api → Prop
  | .prepareWrite _ v => v ∈ s.rHist ∧ s.rcache ≤ v
  | .finishWrite n    => 0 < n ∧ n ≤ s.free
  | .commitWrite      => True
  | .empty v          => v ∈ s.wHist ∧ s.wcache ≤ v
  | .prepareRead v    => v ∈ s.wHist ∧ s.wcache ≤ v
  | .finishRead n     => s.rpos < s.wcache ∧ n = s.endOf s.rpos - s.rpos
  | .commitRead       => True

/-- an API call made within its contract is a legal run of model micro-steps -/
theorem api_run (o : Params) (s : St) (a : Api) (hok : ApiOK s a) : Run o s (apiOps o s a) := by
  cases a <;> simp only [apiOps, ApiOK] at * <;> try (split <;> simp [Run, Enabled, *])
  all_goals simp_all [Run, Enabled, St.free]

theorem api_inv (o : Params) (ho : OrdersOK o) (s : St) (a : Api) (h : QInv s) (hok : ApiOK s a) :
    QInv (absApi o s a).1 :=
  reachable_inv o ho _ s h (api_run o s a hok)

theorem modApi_pw_reload (M : Nat) (o : Params) (m : MSt) (n v : Nat)
    (h : m.cap - subM M m.wpos m.rcache < n) :
    modApi M o m (.prepareWrite n v) =
      ({ m with rcache := v }, if m.cap - subM M m.wpos v < n then .null else .grant (m.wpos % m.cap)) := by
  simp [modApi, h]

theorem modApi_pw_keep (M : Nat) (o : Params) (m : MSt) (n v : Nat)
    (h : ¬ (m.cap - subM M m.wpos m.rcache < n)) :
    modApi M o m (.prepareWrite n v) = (m, .grant (m.wpos % m.cap)) := by
  simp [modApi, h]

theorem modApi_cr_pub (M : Nat) (o : Params) (m : MSt)
    (h : (decide (m.batch ≤ subM M m.rpos m.ar) || (o.drainPublish && decide (m.rpos = m.wcache))) = true) :
    modApi M o m .commitRead = ({ m with ar := m.rpos }, .pub m.rpos) := by
  simp only [modApi]; rw [if_pos h]

theorem modApi_cr_nopub (M : Nat) (o : Params) (m : MSt)
    (h : ¬ ((decide (m.batch ≤ subM M m.rpos m.ar) || (o.drainPublish && decide (m.rpos = m.wcache))) = true)) :
    modApi M o m .commitRead = (m, .nopub) := by
  simp only [modApi]; rw [if_neg h]

/-- **Wrap-around refinement**: the implementation-layer step from the image of `s` is the image of the
    free-running step from `s`, with the same observation (positions published modulo `M`). -/
theorem wrap_refines (M : Nat) (o : Params) (ho : OrdersOK o) (s : St) (a : Api) (h : QInv s)
    (hd : s.cap ∣ M) (hlt : s.cap < M) (hok : ApiOK s a) :
    modApi M o (absM M s) (a.modM M) = (absM M (absApi o s a).1, (absApi o s a).2.modM M) := by
  have hw := h.wrapOK M hd hlt
  have hinv' := api_inv o ho s a h hok
  cases a with
  | prepareWrite n v =>
    have hfm := free_mod hw
    by_cases hfree : s.free < n
    · have hops : apiOps o s (.prepareWrite n v) = [.reloadR v] := by simp [apiOps, hfree]
      have hs' : (absApi o s (.prepareWrite n v)).1 = step o s (.reloadR v) := by
        simp [absApi, hops, run]
      rw [hs'] at hinv'
      have hw' := hinv'.wrapOK M (by simpa [step] using hd) (by simpa [step] using hlt)
      have hfm' := free_mod hw'
      simp only [step, St.free] at hfm'
      have hc : (absM M s).cap - subM M (absM M s).wpos (absM M s).rcache < n := by
        simp only [absM]; rw [hfm]; exact hfree
      simp only [Api.modM]
      rw [modApi_pw_reload M o _ n _ hc]
      simp only [absM, absApi, hops, run, apiObs, step, St.free, hfm']
      split
      · simp [Obs.modM]
      · simp [Obs.modM, off_mod hw]
    · have hops : apiOps o s (.prepareWrite n v) = [] := by simp [apiOps, hfree]
      have hc : ¬ ((absM M s).cap - subM M (absM M s).wpos (absM M s).rcache < n) := by
        simp only [absM]; rw [hfm]; exact hfree
      simp only [Api.modM]
      rw [modApi_pw_keep M o _ n _ hc]
      simp only [absM, absApi, hops, run, apiObs]
      rw [if_neg hfree]
      simp [Obs.modM, off_mod hw]
  | finishWrite n =>
    simp only [modApi, Api.modM, absM, absApi, apiOps, run, step, apiObs, Obs.modM, add_modM]
  | commitWrite =>
    simp only [modApi, Api.modM, absM, absApi, apiOps, run, step, apiObs, Obs.modM, List.headD_cons]
  | empty v =>
    have hem := empty_mod hw
    by_cases he : s.wcache = s.rpos
    · have hops : apiOps o s (.empty v) = [.loadW v] := by simp [apiOps, he]
      have hs' : (absApi o s (.empty v)).1 = step o s (.loadW v) := by simp [absApi, hops, run]
      rw [hs'] at hinv'
      have hw' := hinv'.wrapOK M (by simpa [step] using hd) (by simpa [step] using hlt)
      have hem' := empty_mod hw'
      simp only [step] at hem'
      simp only [modApi, Api.modM, absM, hem.mpr he, if_true, absApi, hops, run, apiObs, step, Obs.modM]
      simp [hem']
    · have hops : apiOps o s (.empty v) = [] := by simp [apiOps, he]
      have hne : ¬ (s.wcache % M = s.rpos % M) := fun hh => he (hem.mp hh)
      simp [modApi, Api.modM, absM, hne, he, absApi, hops, run, apiObs, Obs.modM]
  | prepareRead v =>
    have hem := empty_mod hw
    by_cases he : s.wcache = s.rpos
    · have hops : apiOps o s (.prepareRead v) = [.loadW v] := by simp [apiOps, he]
      have hs' : (absApi o s (.prepareRead v)).1 = step o s (.loadW v) := by simp [absApi, hops, run]
      rw [hs'] at hinv'
      have hw' := hinv'.wrapOK M (by simpa [step] using hd) (by simpa [step] using hlt)
      have hem' := empty_mod hw'
      simp only [step] at hem'
      simp only [modApi, Api.modM, absM, hem.mpr he, if_true, absApi, hops, run, apiObs, step]
      by_cases hv : v = s.rpos
      · have : v % M = s.rpos % M := by rw [hv]
        simp [hv, Obs.modM]
      · have : ¬ (v % M = s.rpos % M) := fun hh => hv (hem'.mp hh)
        simp [hv, this, Obs.modM, off_mod hw]
    · have hops : apiOps o s (.prepareRead v) = [] := by simp [apiOps, he]
      have hne : ¬ (s.wcache % M = s.rpos % M) := fun hh => he (hem.mp hh)
      simp [modApi, Api.modM, absM, hne, he, absApi, hops, run, apiObs, Obs.modM, off_mod hw]
  | finishRead n =>
    simp only [modApi, Api.modM, absM, absApi, apiOps, run, step, apiObs, Obs.modM, add_modM]
  | commitRead =>
    have hb := batch_mod hw
    have hem := empty_mod hw
    have hdr : (s.rpos % M = s.wcache % M) ↔ (s.rpos = s.wcache) := by
      constructor
      · intro hh; exact (hem.mp hh.symm).symm
      · intro hh; rw [hh]
    by_cases hp : publishes o s = true
    · have hp' : (decide ((absM M s).batch ≤ subM M (absM M s).rpos (absM M s).ar) ||
          (o.drainPublish && decide ((absM M s).rpos = (absM M s).wcache))) = true := by
        simp only [Bool.or_eq_true, Bool.and_eq_true, decide_eq_true_eq]
        simp only [absM]
        rw [hb, hdr]
        simpa [publishes] using hp
      simp only [Api.modM]
      rw [modApi_cr_pub M o _ hp']
      simp only [absM, absApi, apiOps, run, step, hp, apiObs, Obs.modM, List.headD_cons, if_true]
    · have hp' : ¬ ((decide ((absM M s).batch ≤ subM M (absM M s).rpos (absM M s).ar) ||
          (o.drainPublish && decide ((absM M s).rpos = (absM M s).wcache))) = true) := by
        simp only [Bool.or_eq_true, Bool.and_eq_true, decide_eq_true_eq]
        simp only [absM]
        rw [hb, hdr]
        simpa [publishes] using hp
      simp only [Api.modM]
      rw [modApi_cr_nopub M o _ hp']
      simp [absM, absApi, apiOps, run, step, hp, apiObs, Obs.modM]

end Spsc
