/-!
# Bounded SPSC queue (`quill::detail::BoundedSPSCQueueImpl<T>`) under a release/acquire view semantics

Anchors: `include/quill/core/BoundedSPSCQueue.h` — `prepare_write`, `finish_write`, `commit_write`,
`prepare_read` / `empty`, `finish_read`, `commit_read`.

* Positions are free-running naturals here; `Wrap.lean` relates them to the `2^w`-modular values the C++
  computes with.
* Each of the two atomics has a single writer and carries a monotone counter, so its store history is kept
  as the *set of values ever stored*; a load by the other thread may return any stored value that is not
  older than the last one this thread observed (`v ∈ hist ∧ cache ≤ v`) — the legal results of a C++11
  atomic load on a single-writer location.
* `pHb` / `cHb` are the synchronised frontiers: plain accesses of the other thread to bytes below the
  frontier happen-before my next action. They advance only through an acquire load of a release store.
* Physical memory is modelled: record with free-running start `s` occupies cells
  `[s % cap, s % cap + n)` of a `2·cap` array (quill's records never wrap; they spill into the second half).
* Ghost: `mem` (which absolute byte a cell holds), `startOf`/`endOf` (record extent of an absolute byte —
  "what the bytes say" to the decoding consumer), `recs` (lengths of the records written, oldest first)
  and `nread` (how many records the consumer has finished).
-/
namespace Spsc

inductive MO | relaxed | consume | acquire | release | acqrel | seqcst
  deriving DecidableEq, Repr, Inhabited

def MO.isAcq : MO → Bool | .acquire | .acqrel | .seqcst | .consume => true | _ => false
def MO.isRel : MO → Bool | .release | .acqrel | .seqcst => true | _ => false

/-- What the extraction reads off the header: the memory order of the four cross-thread accesses and
    whether `commit_read` also publishes when the consumer has drained the queue. -/
structure Params where
  wStore : MO   -- commit_write   : `_atomic_writer_pos.store`
  wLoad  : MO   -- empty()        : `_atomic_writer_pos.load`
  rStore : MO   -- commit_read    : `_atomic_reader_pos.store`
  rLoad  : MO   -- prepare_write  : `_atomic_reader_pos.load`
  drainPublish : Bool
  deriving Repr, DecidableEq

def Params.syncW (o : Params) : Bool := o.wStore.isRel && o.wLoad.isAcq
def Params.syncR (o : Params) : Bool := o.rStore.isRel && o.rLoad.isAcq
def OrdersOK (o : Params) : Prop := o.syncW = true ∧ o.syncR = true
instance (o : Params) : Decidable (OrdersOK o) := by unfold OrdersOK; infer_instance

structure St where
  cap : Nat
  batch : Nat
  -- producer private
  wpos : Nat
  rcache : Nat
  pHb : Nat
  -- consumer private
  rpos : Nat
  wcache : Nat
  cHb : Nat
  -- atomics: every value ever stored, newest first
  wHist : List Nat
  rHist : List Nat
  -- ghost
  mem : Nat → Option Nat
  startOf : Nat → Nat
  endOf : Nat → Nat
  recs : List Nat
  nread : Nat

def St.phys (s : St) (x : Nat) : Nat := s.startOf x % s.cap + (x - s.startOf x)

inductive Op
  | reloadR (v : Nat)        -- producer: load of the reader position inside `prepare_write`, result `v`
  | write (n : Nat)          -- producer: granted reservation of `n` bytes, payload stores, `finish_write n`
  | commitW                  -- producer: `commit_write`
  | loadW (v : Nat)          -- consumer: load of the writer position inside `empty()`, result `v`
  | read (n : Nat)           -- consumer: payload loads of the record at `rpos`, `finish_read n`
  | commitR (pub : Bool)     -- consumer: `commit_read`; `pub`: whether it stores the reader position
                             -- (safety holds for every publication policy; the C++ policy is `publishes`)
  deriving Repr

/-- what the C++ tests before each step, plus the legality of a load result -/
def Enabled (s : St) : Op → Prop
  | .reloadR v => v ∈ s.rHist ∧ s.rcache ≤ v
  | .write n   => 0 < n ∧ n ≤ s.cap - (s.wpos - s.rcache)
  | .commitW   => True
  | .loadW v   => v ∈ s.wHist ∧ s.wcache ≤ v
  | .read n    => s.rpos < s.wcache ∧ n = s.endOf s.rpos - s.rpos
  | .commitR _ => True

instance (s : St) (op : Op) : Decidable (Enabled s op) := by
  cases op <;> unfold Enabled <;> infer_instance

/-- `commit_read` publishes when the batch threshold is reached or (repaired code) the queue is drained. -/
def publishes (o : Params) (s : St) : Bool :=
  decide (s.batch ≤ s.rpos - s.rHist.headD 0) || (o.drainPublish && decide (s.rpos = s.wcache))

def step (o : Params) (s : St) : Op → St
  | .reloadR v => { s with rcache := v, pHb := if o.syncR then max s.pHb v else s.pHb }
  | .write n   => { s with
      mem := fun c => if s.wpos % s.cap ≤ c ∧ c < s.wpos % s.cap + n
                      then some (s.wpos + (c - s.wpos % s.cap)) else s.mem c,
      startOf := fun x => if s.wpos ≤ x ∧ x < s.wpos + n then s.wpos else s.startOf x,
      endOf := fun x => if s.wpos ≤ x ∧ x < s.wpos + n then s.wpos + n else s.endOf x,
      wpos := s.wpos + n,
      recs := s.recs ++ [n] }
  | .commitW   => { s with wHist := s.wpos :: s.wHist }
  | .loadW v   => { s with wcache := v, cHb := if o.syncW then max s.cHb v else s.cHb }
  | .read n    => { s with rpos := s.rpos + n, nread := s.nread + 1 }
  | .commitR b => if b then { s with rHist := s.rpos :: s.rHist } else s

/-- safety obligations of a step: what must never go wrong -/
def Safe (s : St) : Op → Prop
  | .write n   => (s.wpos % s.cap + n ≤ 2 * s.cap) ∧
                  (∀ c x, s.wpos % s.cap ≤ c → c < s.wpos % s.cap + n → s.mem c = some x → x < s.pHb)
  | .read n    => s.rpos + n ≤ s.cHb ∧
                  (∀ j, j < n → s.mem (s.phys (s.rpos + j)) = some (s.rpos + j))
  | _ => True

/-- executable rendering of `Safe` (used by the driver and by the schedule search) -/
def safeB (s : St) : Op → Bool
  | .write n   => decide (s.wpos % s.cap + n ≤ 2 * s.cap) &&
                  (List.range n).all (fun j => match s.mem (s.wpos % s.cap + j) with
                                               | some x => decide (x < s.pHb) | none => true)
  | .read n    => decide (s.rpos + n ≤ s.cHb) &&
                  (List.range n).all (fun j => s.mem (s.phys (s.rpos + j)) == some (s.rpos + j))
  | _ => true

/-- a boundary never splits a written record -/
def Bnd (s : St) (b : Nat) : Prop := b ≤ s.wpos ∧ ∀ x, x < s.wpos → b ≤ s.startOf x ∨ s.endOf x ≤ b

/-- start position of the `k`-th record -/
def startK (recs : List Nat) (k : Nat) : Nat := (recs.take k).sum

structure QInv (s : St) : Prop where
  capPos : 0 < s.cap
  rh0 : s.rHist ≠ []
  rhLe : ∀ v ∈ s.rHist, v ≤ s.rHist.headD 0
  whLe : ∀ v ∈ s.wHist, v ≤ s.wHist.headD 0
  rcIn : s.rcache ≤ s.pHb
  pHbLe : s.pHb ≤ s.rHist.headD 0
  rNew : s.rHist.headD 0 ≤ s.rpos
  rw : s.rpos ≤ s.wcache
  wcLe : s.wcache ≤ s.cHb
  cHbLe : s.cHb ≤ s.wHist.headD 0
  wNew : s.wHist.headD 0 ≤ s.wpos
  room : s.wpos - s.rcache ≤ s.cap
  ext : ∀ x, x < s.wpos → s.startOf x ≤ x ∧ x < s.endOf x ∧ s.endOf x ≤ s.wpos ∧ s.endOf x - s.startOf x ≤ s.cap
  extS : ∀ x y, x < s.wpos → s.startOf x ≤ y → y < s.endOf x → s.startOf y = s.startOf x ∧ s.endOf y = s.endOf x
  bRc : Bnd s s.rcache
  bRp : Bnd s s.rpos
  bWc : Bnd s s.wcache
  bRh : ∀ v ∈ s.rHist, Bnd s v
  bWh : ∀ v ∈ s.wHist, Bnd s v
  memAt : ∀ c x, s.mem c = some x → c = s.phys x ∧ x < s.wpos
  live : ∀ x, s.rpos ≤ x → x < s.wpos → s.mem (s.phys x) = some x
  -- FIFO ghost
  recPos : ∀ n ∈ s.recs, 0 < n
  wSum : s.wpos = s.recs.sum
  nreadLe : s.nread ≤ s.recs.length
  rSum : s.rpos = startK s.recs s.nread
  recExt : ∀ k, k < s.recs.length → ∀ x, startK s.recs k ≤ x → x < startK s.recs (k + 1) →
             s.startOf x = startK s.recs k ∧ s.endOf x = startK s.recs (k + 1)

def init (cap batch : Nat) : St :=
  { cap, batch, wpos := 0, rcache := 0, pHb := 0, rpos := 0, wcache := 0, cHb := 0,
    wHist := [0], rHist := [0], mem := fun _ => none, startOf := fun _ => 0, endOf := fun _ => 0,
    recs := [], nread := 0 }

/-- a schedule: every op is enabled in the state it is applied to -/
def Run (o : Params) : St → List Op → Prop
  | _, [] => True
  | s, op :: ops => Enabled s op ∧ Run o (step o s op) ops

def run (o : Params) : St → List Op → St
  | s, [] => s
  | s, op :: ops => run o (step o s op) ops

def decRun (o : Params) : (s : St) → (ops : List Op) → Decidable (Run o s ops)
  | _, [] => isTrue trivial
  | s, op :: ops =>
      match (inferInstance : Decidable (Enabled s op)), decRun o (step o s op) ops with
      | isTrue h1, isTrue h2 => isTrue ⟨h1, h2⟩
      | isFalse h1, _ => isFalse (fun h => h1 h.1)
      | _, isFalse h2 => isFalse (fun h => h2 h.2)

instance (o : Params) (s : St) (ops : List Op) : Decidable (Run o s ops) := decRun o s ops

end Spsc
