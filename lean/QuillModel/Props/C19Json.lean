import QuillModel.NamedArgs.Json
/-!
# C19 / C10 — a throwing JSON sink leaves nothing behind

C19 "one JSON object per line" and C10 "a throwing sink disturbs nothing else: every other statement is still delivered
intact", for the JSON sinks: `JsonSink::write_log` builds every line in the member buffer `_json_message`; the record is
appended by the virtual `generate_json_message` (a documented customisation point), the base `write_log` runs the
`before_write` hook and `fwrite`. Either may throw; the backend reports the exception and goes on. The theorems say
that with the buffer emptied at the START of `write_log` (extracted: `clearBefore`; obligation
`named_json_clear_before_generate`) the file is, for every sequence of statements and every fault schedule, exactly the
lines of the statements that did not fault. Model: `Named.jsonWrite` (`NamedArgs/Model.lean`).
-/
namespace Named

theorem jsonLine_eq_record (layout : List (Str × HdrField)) (h : Hdr) (tmpl : Str) (pairs : Option (List (Str × Str))) :
    jsonLine layout h tmpl pairs = jsonRecord layout h tmpl pairs ++ ['}', '\n'] := by
  simp [jsonLine, jsonRecord]

/-- one statement, buffer emptied first: the line reaches the file iff nothing threw, a throw is reported once -/
theorem jsonWrite_clearFirst (p : JSinkParams) (hp : p.clearBefore = true) (s : JSink) (record : Str) (f : JFault) :
    (jsonWrite p s record f).file = s.file ++ (if f = .none then record ++ ['}', '\n'] else []) ∧
    (jsonWrite p s record f).reports = s.reports + (if f = .none then 0 else 1) := by
  cases f <;> cases hc : p.clearAfter <;>
    simp [jsonWrite, hp, hc, JSink.clear, JSink.generate, JSink.write, JSink.report]

/-- **the next statement starts from an empty buffer**: whatever an earlier (faulted or not) statement left in
    `_json_message` has no influence on what `write_log` does -/
theorem C19_json_write_ignores_leftover (p : JSinkParams) (hp : p.clearBefore = true) (s : JSink) (leftover : Str)
    (record : Str) (f : JFault) :
    jsonWrite p { s with buf := leftover } record f = jsonWrite p s record f := by
  simp [jsonWrite, hp, JSink.clear]

theorem runRecords_clearFirst (p : JSinkParams) (hp : p.clearBefore = true) :
    ∀ (rs : List (Str × JFault)) (s : JSink),
      (runRecords p s rs).file =
        s.file ++ (rs.filter (fun rf => decide (rf.2 = .none))).flatMap (fun rf => rf.1 ++ ['}', '\n']) ∧
      (runRecords p s rs).reports = s.reports + (rs.filter (fun rf => decide (rf.2 ≠ .none))).length
  | [], s => by simp [runRecords]
  | rf :: rest, s => by
    obtain ⟨h1, h2⟩ := runRecords_clearFirst p hp rest (jsonWrite p s rf.1 rf.2)
    obtain ⟨w1, w2⟩ := jsonWrite_clearFirst p hp s rf.1 rf.2
    simp only [runRecords, h1, h2, w1, w2]
    by_cases hf : rf.2 = .none
    · simp [hf]
    · simp [hf]; omega

/-- **C19/C10, faults leave nothing behind.** For every sequence of statements and every fault schedule
    (`generate_json_message` throwing after any number of bytes of the record, or the base write throwing), with the
    buffer emptied before `generate_json_message`: the file content is the concatenation, in order, of the lines of the
    statements that did not fault — each exactly `jsonLine` of that statement (`C19_json_members`: one object with its
    own header and pairs, one line) —, nothing of a faulted statement is in it, and every fault was reported once. -/
theorem C19_json_faults_leave_nothing (layout : List (Str × HdrField)) (p : JSinkParams) (hp : p.clearBefore = true)
    (stmts : List JStmt) :
    (runJson layout p {} stmts).file =
      (stmts.filter (fun st => decide (st.fault = .none))).flatMap (fun st => jsonLine layout st.h st.tmpl st.pairs) ∧
    (runJson layout p {} stmts).reports = (stmts.filter (fun st => decide (st.fault ≠ .none))).length := by
  obtain ⟨h1, h2⟩ := runRecords_clearFirst p hp
    (stmts.map (fun st => (jsonRecord layout st.h st.tmpl st.pairs, st.fault))) {}
  refine ⟨?_, ?_⟩
  · rw [runJson, h1]
    simp only [List.nil_append, List.filter_map, List.flatMap_map, Function.comp_def, jsonLine_eq_record]
  · rw [runJson, h2]
    simp only [Nat.zero_add, List.filter_map, List.length_map, Function.comp_def]

/-- … from any state of the sink (any leftover in the buffer), for the statements that follow -/
theorem C19_json_faults_leave_nothing_from (layout : List (Str × HdrField)) (p : JSinkParams) (hp : p.clearBefore = true)
    (s : JSink) (stmts : List JStmt) :
    (runJson layout p s stmts).file =
      s.file ++ (stmts.filter (fun st => decide (st.fault = .none))).flatMap (fun st => jsonLine layout st.h st.tmpl st.pairs) := by
  obtain ⟨h1, _⟩ := runRecords_clearFirst p hp
    (stmts.map (fun st => (jsonRecord layout st.h st.tmpl st.pairs, st.fault))) s
  rw [runJson, h1]
  simp only [List.filter_map, List.flatMap_map, Function.comp_def, jsonLine_eq_record]

/-- non-vacuity: five statements, faults of all three kinds at 2, 3 and 5 -/
example :
    let h : Hdr := { timestamp := ['7'], fileName := ['f'], line := ['1'], threadId := ['2'], logger := ['l'], logLevel := ['I'] }
    let st (v : Char) (f : JFault) : JStmt := { h := h, tmpl := "m {x}".toList, pairs := some [(['x'], [v])], fault := f }
    let layout : List (Str × HdrField) := [("t".toList, .timestamp), ("message".toList, .messageFormat)]
    String.ofList (runJson layout {} {} [st 'a' .none, st 'b' (.generate 9), st 'c' .write, st 'd' .none, st 'e' (.generate 99)]).file
      = "{\"t\":\"7\",\"message\":\"m {x}\",\"x\":\"a\"}\n{\"t\":\"7\",\"message\":\"m {x}\",\"x\":\"d\"}\n" ∧
    (runJson layout {} {} [st 'a' .none, st 'b' (.generate 9), st 'c' .write, st 'd' .none, st 'e' (.generate 99)]).reports = 3 := by
  decide

/-- **negative witness (the buffer emptied after the write instead of before it: `/tmp/mut5/C10/out/m2`)**: an
    override that throws after 4 bytes of its record leaves them in the buffer; they are glued in front of the NEXT
    statement's record — that line is not one JSON object and holds a fragment of the statement reported as failed -/
theorem C19_json_clear_after_leaks_partial_record :
    let p : JSinkParams := { clearBefore := false, clearAfter := true }
    let rs : List (Str × JFault) := [("{\"a\":\"1\"".toList, .generate 4), ("{\"b\":\"2\"".toList, .none)]
    String.ofList (runRecords p {} rs).file = "{\"a\"{\"b\":\"2\"}\n" ∧
    String.ofList (runRecords {} {} rs).file = "{\"b\":\"2\"}\n" := by decide

/-- … and when the base write throws (the `before_write` hook, `fwrite`), the complete line of the failed statement is
    sent again together with the next one -/
theorem C19_json_clear_after_resends_failed_line :
    let p : JSinkParams := { clearBefore := false, clearAfter := true }
    let rs : List (Str × JFault) := [("{\"a\":\"1\"".toList, .write), ("{\"b\":\"2\"".toList, .none)]
    String.ofList (runRecords p {} rs).file = "{\"a\":\"1\"}\n{\"b\":\"2\"}\n" ∧
    String.ofList (runRecords {} {} rs).file = "{\"b\":\"2\"}\n" := by decide

/-- no clear at all: every line repeats everything before it -/
theorem C19_json_no_clear_accumulates :
    let p : JSinkParams := { clearBefore := false, clearAfter := false }
    String.ofList (runRecords p {} [(['a'], .none), (['b'], .none)]).file = "a}\na}\nb}\n" := by decide

end Named
