import QuillModel.Props.C10Faults
import QuillModel.Props.C03Whole
import QuillModel.Props.C08
import QuillModel.Backend.LiftFuel
/-!
# C10 (format round) — a statement whose formatting throws

Model extension (minimal hunks: `Backend/Model.lean`, `Backend/Sched.lean`, and the same one-line hunk in the two copies of
the read loop, `readQueueU` in `Backend/USched.lean` and `readQueueF` in `Backend/Fault.lean`, so that the three machines
agree): a fault assignment
`Cfg.fmtFaults : List (id × kind)` (kind 1 = `std::exception`, 2 = anything else; default `[]`), `Cfg.fmtFault`, and in
`readQueue` — where the real `_read_and_decode_frontend_queue` calls `_populate_formatted_log_message` — the decoded
record passes through `fmtNote`: for an `Event::Log` record whose formatting throws, the exception is caught, the error
text replaces the message and the error notifier is called once (`Ev.notify "n:fmterr"`, the harness' canonical name for
"Could not format log statement"). The record then takes the normal path (transit buffer, pop, dispatch), which is why
every delivery theorem of C03/C10 (`C03_exactly_once_after_drain`, `C10_unfaulted_exactly_once`, `C03_at_most_once`, the
order theorems, …) holds unchanged for runs that contain bad-format statements: they quantify over every `Cfg`, hence over
every fault assignment, and were re-checked against the extended `readQueue` (skeleton repairs: `PA.readOneF`,
`PC.ClosedB.note`, `PB.rqMove0`, `US.readQ_of_steps`, `ClosedC.note`).

This models the REPAIRED catch (`catchAllFormat = true`, `catch (...)` after `catch (std::exception const&)`). The pinned F4
behaviour (a non-`std` exception escapes the whole poll before `finish_read`; the record is re-read for ever) is **not**
modelled at backend level in this round: an early `fin` exit in `readQueue` for such a record would let the other queues
go on while this one is stuck, which the real code does not do (the whole poll is abandoned) and which would falsify the
ordering invariant `PI.readQueue_first` of C05; it needs the aborted-poll control flow (builder-faults' branch).

**partial**: the whole-run count "number of `n:fmterr` notifications = number of decoded bad-format statements" is proved
per decode step only (`C10_fmt_note_step`); over `runOps` it needs an invariant under which `readOneSt` and the
notification are one primitive (the `PC` skeleton lists them separately) — not done. The non-vacuity run below shows the
count on a concrete schedule.
-/
namespace Backend
open Backend.PA Backend.PC

/-- **One decode.** Formatting a decoded record changes nothing but the event history: exactly one `n:fmterr`
    notification for an `Event::Log` record that the fault assignment marks, nothing for any other record. -/
theorem C10_fmt_note_step (s : BSt) (st : Stmt) :
    (fmtNote s st).log =
      (if isLogKind st.kind && s.cfg.fmtFault st.id != 0 then Ev.notify "n:fmterr" :: s.log else s.log) ∧
    (fmtNote s st).ths = s.ths ∧ (fmtNote s st).sinks = s.sinks ∧ (fmtNote s st).lgs = s.lgs ∧
    (fmtNote s st).cfg = s.cfg ∧ (fmtNote s st).reported = s.reported := by
  unfold fmtNote
  split <;> exact ⟨rfl, rfl, rfl, rfl, rfl, rfl⟩

/-- a bad-format statement still takes the normal path: the record is in the transit buffer after the decode -/
theorem C10_fmt_fault_keeps_record (s : BSt) (i : Nat) (st : Stmt) (rest : List Stmt) :
    (readOneF s i st rest).ths = (readOne s i st rest).ths :=
  (readOneF_eq s i st rest).2.1

/-- the fault assignment is constant along every schedule -/
theorem C10_fmt_faults_constant (s0 : BSt) (ops : List Op) : (runOps s0 ops).cfg.fmtFaults = s0.cfg.fmtFaults := by
  rw [C08_cfg_constant]

/-- statement 1's formatter throws a `std::exception`, statement 2's throws something else -/
def c10FmtInit : BSt :=
  { c03TightInit with cfg := { c03TightInit.cfg with fmtFaults := [(1, 1), (2, 2)] } }

/-- non-vacuity: three statements of two threads, two of them unformattable; after the drain every statement — the
    faulted ones included — was written exactly once at each of the two sinks, in order, and the log holds exactly two
    `n:fmterr` notifications; sink faults are not involved -/
example :
    ((runOps (runOps c10FmtInit c03TightPre) [.front (.tick 0), .poll [], .poll [], .poll []]).log.reverse.filterMap
      (fun e => match e with | .write s i _ _ _ => some (s, i) | _ => none)) =
      [(1, 0), (2, 0), (1, 1), (2, 1), (1, 2), (2, 2)] ∧
    (runOps (runOps c10FmtInit c03TightPre) [.front (.tick 0), .poll [], .poll [], .poll []]).log.countP
      (isNote "n:fmterr") = 2 ∧
    (runOps (runOps c03TightInit c03TightPre) [.front (.tick 0), .poll [], .poll [], .poll []]).log.countP
      (isNote "n:fmterr") = 0 := by
  refine ⟨by decide, by decide, by decide⟩

end Backend
