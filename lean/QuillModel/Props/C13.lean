import QuillModel.Time.FormatterProofs
/-!
# C13 — rendered time = `strftime` of the instant + exact fractional digits

"For every supported strftime-style timestamp pattern, in GMT or local time (across daylight-saving changes),
and for any sequence of timestamps — increasing, repeated or going backwards — the rendered text equals what
strftime produces for that instant, with %Qms, %Qus or %Qns replaced by the zero-padded milli-, micro- or
nanosecond fraction. Caching of the previously formatted string never lets a later timestamp show stale or wrong
fields; using more than one fractional specifier, or %X, is rejected."

Model: `Time.TF` / `Time.SFT` (`Time/Cache.lean`) — the character-level machine of `TimestampFormatter.h` and
`StringFromTime.h`; reference: `Time.strftimeRef` (`Time/Strftime.lean`) — the C-locale `strftime` of the broken-down
instant (`Time.gmtime`, `Time.mkTm`) with the fraction rendered.

* `C13_gmt`, `C13_local`: the full statement for every supported pattern (`supportedToks (lex p)`, no `%X`, at most
  one fractional specifier), every history of instants of 2001–2100 in any order; GMT unconditionally, local time
  for every zone function satisfying the explicit premise `ZoneOK P tz` (`P` = recalculation period of the header).
* `C13_rejects`: `%X`, two different fractional specifiers and (F21, repaired by a `fix:` commit; the flag `rr` is
  extracted from the header) a repeated fractional specifier throw; `C13_dupfrac_unrepaired_accepted` is the witness
  for the unrepaired constructor.
* The statement is **false of the pinned code** outside these hypotheses, with proved witnesses:
  `C13_F8_stale` (`%c %Ec %EX %OH %OI %OM %OS`: accepted, cached, stale — DESIGN §7 F8),
  `C13_pctpct_miswritten` (F20: a literal `%%` directly before `r R T X Q`, beyond the `H M S I k l s` the property
  itself excludes),
  `C13_offgrid_transition_stale` (F22 — local time: a zone transition that is not on the quarter-hour grid — the premise
  `ZoneOK` is not met by America/St_Johns 2001–2011 — leaves hour and offset stale).
* Core pieces at full generality, used by the above and kept as named results: `C13_frac_writer`,
  `C13_patch_fields`, `C13_recalc_points`, `C13_civil_roundtrip`.

The statement without the three exclusions —
  `∀ p accepted by the constructor, ∀ tz from the tz database, ∀ history, renderAll … = some (history.map (strftimeRef p …))` —
is what the property asks for and is refuted by the witnesses; the hypotheses `supportedToks (lex p)` (decidable,
evaluated by the correspondence driver on every generated pattern) and `ZoneOK P tz` (checked per zone by the harness)
exclude exactly the classes F8 / F20 and F22. The machine is the code as written: per-modifier `find`s with the cut at
the lowest position (`splitOnceCpp_eq`), the `_replace_all` loop (`replaceAllCpp_eq`), 32-bit `_cached_seconds`.
-/
namespace Time

/-- the texts rendered for a history of instants (nanoseconds since the epoch); `none` when the constructor throws -/
def renderAll (rr : Bool) (P : Nat) (tz : Nat → ZInfo) (p : List Char) (loc : Bool) (nss : List Nat) :
    Option (List (List Char)) :=
  match TF.init rr p loc with
  | .ok f => some (TF.run P tz f nss)
  | .error _ => none

/-- instants the property quantifies over: 2001-01-01 ≤ t < 2101-01-01, and ten-digit epochs when `%s` is used -/
def InRange (p : List Char) (ns : Nat) : Prop :=
  tMin ≤ ns / 1000000000 ∧ ns / 1000000000 < tMax ∧ (usesEpoch (lex p) = true → 1000000000 ≤ ns / 1000000000)

theorem good_of_inRange (p : List Char) (ns : Nat) (h : InRange p ns) : Good (lex p) (ns / 1000000000) :=
  ⟨h.1, h.2.1, fun hm => h.2.2 (by simpa [usesEpoch] using hm)⟩

/-- common core of the two mode theorems -/
theorem C13_core (rr : Bool) (P : Nat) (tz : Nat → ZInfo) (loc : Bool) (hz : loc = true → ZoneOK P tz) (p : List Char)
    (hs : supportedToks (lex p) = true) (hx : hasX (lex p) = false) (hf : fracCount (lex p) ≤ 1)
    (nss : List Nat) (hr : ∀ ns ∈ nss, InRange p ns) :
    renderAll rr P tz p loc nss =
      some (nss.map (fun ns => strftimeRef p (tmOf loc tz (ns / 1000000000)) (ns % 1000000000))) := by
  obtain ⟨f, hinit, hinv⟩ := TF.init_spec rr P tz loc (lex p) hs hx hf
  rw [charsOf_lex] at hinit
  simp only [renderAll, hinit]
  rw [TF.run_spec P tz loc (lex p) hs hx hz nss f hinv (fun ns hns => good_of_inRange p ns (hr ns hns))]
  rfl

/-- **C13, GMT mode.** Every supported pattern, every history of instants in range — increasing, repeated,
    going backwards, jumping — renders, at every call, exactly `strftime` of `gmtime` of that instant with the
    fractional specifier replaced by the zero-padded fraction. (`tz` and `P` are irrelevant in this mode; `rr` —
    whether the constructor has the F21 repair — is irrelevant for accepted patterns.) -/
theorem C13_gmt (rr : Bool) (P : Nat) (tz : Nat → ZInfo) (p : List Char)
    (hs : supportedToks (lex p) = true) (hx : hasX (lex p) = false) (hf : fracCount (lex p) ≤ 1)
    (nss : List Nat) (hr : ∀ ns ∈ nss, InRange p ns) :
    renderAll rr P tz p false nss =
      some (nss.map (fun ns => strftimeRef p (gmtime (ns / 1000000000)) (ns % 1000000000))) := by
  have := C13_core rr P tz false (fun e => by cases e) p hs hx hf nss hr
  simpa [tmOf] using this

/-- **C13, local-time mode**, for every zone function that meets the premise `ZoneOK P tz`: zone data constant
    on the recalculation windows `[kP, (k+1)P)` the code uses and offsets multiples of `P`. -/
theorem C13_local (rr : Bool) (P : Nat) (tz : Nat → ZInfo) (hz : ZoneOK P tz) (p : List Char)
    (hs : supportedToks (lex p) = true) (hx : hasX (lex p) = false) (hf : fracCount (lex p) ≤ 1)
    (nss : List Nat) (hr : ∀ ns ∈ nss, InRange p ns) :
    renderAll rr P tz p true nss =
      some (nss.map (fun ns =>
        strftimeRef p (mkTm (ns / 1000000000) (tz (ns / 1000000000))) (ns % 1000000000))) := by
  have := C13_core rr P tz true (fun _ => hz) p hs hx hf nss hr
  simpa [tmOf] using this

/-- non-vacuity: a pattern with every kind of token meets the hypotheses; instants of the range exist; a
    constant-offset zone (Asia/Kolkata) and a zone with a DST change on the grid meet the zone premise -/
example : supportedToks (lex "%a %d %b %Y [%%] %H:%M:%S.%Qus %p %I|%k|%l %r %R %T %EY %Od %z %Z %s".toList) = true ∧
    hasX (lex "%a %d %b %Y [%%] %H:%M:%S.%Qus %p %I|%k|%l %r %R %T %EY %Od %z %Z %s".toList) = false ∧
    fracCount (lex "%a %d %b %Y [%%] %H:%M:%S.%Qus %p %I|%k|%l %r %R %T %EY %Od %z %Z %s".toList) ≤ 1 := by
  decide +kernel
example : InRange "%s %H".toList 1700000000123456789 ∧ InRange "%H".toList 978307200000000000 := by
  refine ⟨⟨by decide +kernel, by decide +kernel, fun _ => by decide +kernel⟩,
    ⟨by decide +kernel, by decide +kernel, fun h => ?_⟩⟩
  revert h; decide +kernel
example : ZoneOK 900 (fun _ => ⟨19800, false, "IST".toList⟩) :=
  ⟨by decide, by decide, fun _ _ _ => rfl, fun _ => by decide, fun _ => by decide⟩
example : ZoneOK 900 (fun t => if t / 900 < 1111111 then ⟨3600, false, "CET".toList⟩ else ⟨7200, true, "CEST".toList⟩) :=
  ⟨by decide, by decide, fun t t' h => by simp only [h], fun t => by split <;> decide, fun t => by split <;> decide⟩

/-! ### rejections -/

theorem hasKind_false_not_mem (k : Frac) (toks : List Tok) (h : hasKind k toks = false) :
    ∀ t ∈ toks, hitFrac k t = false := by
  intro t ht
  cases hh : hitFrac k t with
  | false => rfl
  | true =>
    cases t with
    | frac k' =>
      simp only [hitFrac, beq_iff_eq] at hh; subst hh
      have : hasKind k toks = true := by simpa [hasKind] using ht
      rw [h] at this; cases this
    | _ => simp [hitFrac] at hh

theorem hasX_append (a b : List Tok) : hasX (a ++ b) = (hasX a || hasX b) := by
  simp [hasX, List.contains_eq_mem, List.mem_append, Bool.decide_or]

theorem fracCount_append (a b : List Tok) : fracCount (a ++ b) = fracCount a + fracCount b := by
  simp [fracCount, List.filter_append]

theorem mem_frac_of_fracCount_pos : ∀ (toks : List Tok), 1 ≤ fracCount toks → ∃ k, Tok.frac k ∈ toks := by
  intro toks
  induction toks with
  | nil => intro h; simp [fracCount] at h
  | cons t ts ih =>
    intro h
    rw [fracCount_cons] at h
    cases hh : isFracTok t with
    | true =>
      cases t with
      | frac k => exact ⟨k, by simp⟩
      | _ => simp [isFracTok] at hh
    | false =>
      simp only [hh, Bool.false_eq_true, if_false, Nat.zero_add] at h
      obtain ⟨k, hk⟩ := ih h
      exact ⟨k, by simp [hk]⟩

theorem hasKind_of_mem (k : Frac) (toks : List Tok) (h : Tok.frac k ∈ toks) : hasKind k toks = true := by
  simpa [hasKind] using h

/-- with one fractional specifier (`a ++ %Q?s ++ b`, none in `a` and `b`): a `%X` anywhere makes `init` of the part
    that contains it throw -/
theorem TF.init_percentX_one (rr : Bool) (k : Frac) (a b : List Tok) (loc : Bool)
    (h : supportedToks (a ++ .frac k :: b) = true) (ha : ∀ t ∈ a, isFracTok t = false)
    (hb : ∀ t ∈ b, isFracTok t = false) (hx : hasX (a ++ .frac k :: b) = true) :
    TF.init rr (charsOf (a ++ .frac k :: b)) loc = .error .percentX := by
  obtain ⟨hsa, hsb⟩ := supported_append a (.frac k :: b) h
  rw [supported_cons] at hsb
  have hkf := findFrac_some k a b h (fun t ht => hitFrac_false_of_not_frac k t (ha t ht))
  have ho : ∀ k', k' ≠ k → findFrac k' (charsOf (a ++ .frac k :: b)) = none := by
    intro k' hne
    apply findFrac_none k' _ h
    intro t ht
    simp only [List.mem_append, List.mem_cons] at ht
    rcases ht with ht | rfl | ht
    · exact hitFrac_false_of_not_frac k' t (ha t ht)
    · simpa [hitFrac] using hne
    · exact hitFrac_false_of_not_frac k' t (hb t ht)
  have hbn : ∀ k', findFrac k' (charsOf b) = none :=
    fun k' => findFrac_none k' b hsb.2.2 (fun t ht => hitFrac_false_of_not_frac k' t (hb t ht))
  have hnr : ¬ (rr = true ∧ ((findFrac .ms (charsOf b)).isSome = true ∨ (findFrac .us (charsOf b)).isSome = true ∨
      (findFrac .ns (charsOf b)).isSome = true)) := by simp [hbn]
  rw [TF.init_one rr _ loc k _ _ hkf ho]
  have hxab : hasX a = true ∨ (hasX a = false ∧ hasX b = true) := by
    have : hasX (a ++ [Tok.frac k] ++ b) = true := by simpa using hx
    rw [hasX_append, hasX_append] at this
    have hmid : hasX [Tok.frac k] = false := by cases k <;> decide
    rw [hmid] at this
    cases hA : hasX a <;> cases hB : hasX b <;> simp_all
  rcases hxab with hA | ⟨hA, hB⟩
  · rw [SFT.init_reject a loc hsa hA]; rfl
  · rw [SFT.init_accept a loc hsa hA]
    have hbe : charsOf b ≠ [] := by
      intro e
      have := (charsOf_eq_nil b).1 e
      subst this
      revert hB; decide
    rw [SFT.init_reject b loc hsb.2.2 hB]
    simp only [Except.bind, if_neg hnr, if_neg hbe, Except.map]

/-- one kind of fractional specifier, used more than once: with the F21 repair the constructor throws (the `%X`
    error if part 1 contains a `%X`, which is initialised first; the "only once" error otherwise) -/
theorem TF.init_repeated (toks : List Tok) (loc : Bool) (h : supportedToks toks = true) (hk : kindCount toks ≤ 1)
    (hf : 2 ≤ fracCount toks) :
    TF.init true (charsOf toks) loc = .error .repeated ∨ TF.init true (charsOf toks) loc = .error .percentX := by
  obtain ⟨k, hkm⟩ := mem_frac_of_fracCount_pos toks (by omega)
  have hk1 := hasKind_of_mem k toks hkm
  have hko : ∀ k', k' ≠ k → hasKind k' toks = false := by
    intro k' hne
    cases hh : hasKind k' toks with
    | false => rfl
    | true =>
      exfalso
      simp only [kindCount] at hk
      cases k <;> cases k' <;> first | exact hne rfl | (simp [hk1, hh] at hk <;> omega)
  cases hs : splitHit (hitFrac k) toks with
  | none =>
    have := splitHit_none _ toks hs _ hkm
    simp [hitFrac] at this
  | some r =>
    obtain ⟨a, x, b⟩ := r
    obtain ⟨he, hhit, ha⟩ := splitHit_some _ toks a x b hs
    have hxk : x = .frac k := by
      cases x with
      | frac k' => simp only [hitFrac, beq_iff_eq] at hhit; rw [hhit]
      | _ => simp [hitFrac] at hhit
    subst hxk
    subst he
    obtain ⟨hsa, hsb⟩ := supported_append a (.frac k :: b) h
    rw [supported_cons] at hsb
    have hkf := findFrac_some k a b h ha
    have ho : ∀ k', k' ≠ k → findFrac k' (charsOf (a ++ .frac k :: b)) = none :=
      fun k' hne => findFrac_none k' _ h (hasKind_false_not_mem k' _ (hko k' hne))
    -- no fractional token of any kind before the first `%Q k`
    have hna : ∀ t ∈ a, isFracTok t = false := by
      intro t ht
      cases t with
      | frac k' =>
        exfalso
        by_cases e : k' = k
        · subst e
          have := ha _ ht
          simp [hitFrac] at this
        · have := hko k' e
          have hm : hasKind k' (a ++ Tok.frac k :: b) = true := hasKind_of_mem k' _ (by simp [ht])
          rw [this] at hm; cases hm
      | _ => rfl
    have hfa : fracCount a = 0 := by
      simp only [fracCount, List.length_eq_zero_iff, List.filter_eq_nil_iff]
      intro t ht; simp [hna t ht]
    have hfb : 1 ≤ fracCount b := by
      have : fracCount (a ++ ([Tok.frac k] ++ b)) = fracCount a + (fracCount [Tok.frac k] + fracCount b) := by
        rw [fracCount_append, fracCount_append]
      have h1 : fracCount [Tok.frac k] = 1 := by cases k <;> decide
      simp only [List.singleton_append] at this
      omega
    obtain ⟨k', hk'⟩ := mem_frac_of_fracCount_pos b hfb
    have hkk : k' = k := by
      by_cases e : k' = k
      · exact e
      · have := hko k' e
        have hm : hasKind k' (a ++ Tok.frac k :: b) = true := hasKind_of_mem k' _ (by simp [hk'])
        rw [this] at hm; cases hm
    subst hkk
    have hbs := findFrac_isSome_of_mem k' b hsb.2.2 hk'
    have hcond : (true = true ∧ ((findFrac .ms (charsOf b)).isSome = true ∨ (findFrac .us (charsOf b)).isSome = true ∨
        (findFrac .ns (charsOf b)).isSome = true)) := by
      refine ⟨rfl, ?_⟩
      cases k' <;> simp [hbs]
    rw [TF.init_one true _ loc k' _ _ hkf ho]
    cases hA : hasX a with
    | true => right; rw [SFT.init_reject a loc hsa hA]; rfl
    | false => left; rw [SFT.init_accept a loc hsa hA]; simp only [Except.bind]; rw [if_pos ⟨trivial, hcond.2⟩]

/-- **C13, rejections.** For every supported pattern: two different fractional specifiers throw the exclusivity
    error; the same specifier used more than once throws (F21 repair; the `%X` error if the text before the first
    specifier has a `%X`, the "only once" error otherwise); with at most one specifier a `%X` conversion throws the
    `%X` error. -/
theorem C13_rejects (rr : Bool) (p : List Char) (loc : Bool) (hs : supportedToks (lex p) = true) :
    (2 ≤ kindCount (lex p) → TF.init rr p loc = .error .exclusive) ∧
    (kindCount (lex p) ≤ 1 → 2 ≤ fracCount (lex p) →
      TF.init true p loc = .error .repeated ∨ TF.init true p loc = .error .percentX) ∧
    (fracCount (lex p) ≤ 1 → hasX (lex p) = true → TF.init rr p loc = .error .percentX) := by
  refine ⟨?_, ?_, ?_⟩
  · intro hk
    have := TF.init_exclusive rr (lex p) loc hs hk
    rwa [charsOf_lex] at this
  · intro hk hf
    have := TF.init_repeated (lex p) loc hs hk hf
    rwa [charsOf_lex] at this
  · intro hf hx
    rcases Nat.lt_or_ge (fracCount (lex p)) 1 with h0 | h1
    · have hn := fracCount_zero (lex p) (by omega)
      have hnone : ∀ k, findFrac k (charsOf (lex p)) = none :=
        fun k => findFrac_none k (lex p) hs (fun t ht => hitFrac_false_of_not_frac k t (hn t ht))
      have : TF.init rr (charsOf (lex p)) loc = .error .percentX := by
        rw [TF.init_none rr _ _ hnone, SFT.init_reject (lex p) loc hs hx]; rfl
      rwa [charsOf_lex] at this
    · obtain ⟨k, a, b, he, ha, hb⟩ := fracCount_one (lex p) (by omega)
      have := TF.init_percentX_one rr k a b loc (he ▸ hs) ha hb (he ▸ hx)
      rw [← he, charsOf_lex] at this
      exact this

example : supportedToks (lex "%H:%M.%Qms %Qus".toList) = true ∧ 2 ≤ kindCount (lex "%H:%M.%Qms %Qus".toList) := by
  decide +kernel
example : supportedToks (lex "%d %X.%Qms".toList) = true ∧ fracCount (lex "%d %X.%Qms".toList) ≤ 1 ∧
    hasX (lex "%d %X.%Qms".toList) = true := by decide +kernel
example : supportedToks (lex "%S.%Qms %Qms".toList) = true ∧ kindCount (lex "%S.%Qms %Qms".toList) ≤ 1 ∧
    2 ≤ fracCount (lex "%S.%Qms %Qms".toList) := by decide +kernel

/-! ### the core pieces, at full generality -/

/-- **fraction writer**: for every instant and every specifier, the zeros-then-right-aligned-digits writer produces
    the zero-padded fixed-width fraction of the sub-second part -/
theorem C13_frac_writer (k : Frac) (ns : Nat) :
    writeFrac k.width (k.value (ns - ns / 1000000000 * 1000000000)) = fixedDigits k.width (k.value (ns % 1000000000)) := by
  have hex : ns - ns / 1000000000 * 1000000000 = ns % 1000000000 := by omega
  rw [hex]; exact writeFrac_frac k _ (by omega)

/-- **digit patching**: the cache holds second-of-day `sod0`; `d` seconds later (same day: `sod0 + d < 86400`, which
    the recalculation points guarantee) the hours/minutes/seconds computed by `format_timestamp` from the 32-bit sum
    are those of second-of-day `sod0 + d`, and each patched field is the two-character text `strftime` gives -/
theorem C13_patch_fields (sod0 d : Nat) (h : sod0 + d < 86400) (tm : Tm) (htm : tm.sod = sod0 + d) (ft : FT)
    (hs : ft = .s → 1000000000 ≤ tm.epoch ∧ tm.epoch < 10000000000) :
    let cs := (sod0 + d % 4294967296) % 4294967296
    patchText ft (cs / 3600) ((cs - cs / 3600 * 3600) / 60) (cs - cs / 3600 * 3600 - (cs - cs / 3600 * 3600) / 60 * 60)
        tm.epoch = renderConv ft.char tm ∧
      (renderConv ft.char tm).length = ft.back := by
  intro cs
  have hcs : cs = tm.sod := by simp only [cs]; omega
  obtain ⟨_, hmin, hsec⟩ := hms_decompose tm.sod
  obtain ⟨r, l⟩ := field_render ft tm (by omega) hs
  rw [hcs, hsec, hmin]
  exact ⟨r.symm, by rw [r]; exact l⟩

example : ∃ tm : Tm, tm.sod = 43199 + 1 ∧ (43199 : Nat) + 1 < 86400 := ⟨gmtime 43200, by decide +kernel, by decide⟩

/-- **recalculation points**: the GMT point computed through `gmtime`/`timegm` is the end of the current half day,
    the local point the end of the current period; both lie after the instant, and every instant before them (and
    not before the cached one) has the cached instant's civil day and AM/PM in GMT -/
theorem C13_recalc_points (t : Nat) :
    nextNoonOrMidnight t = (t / 43200 + 1) * 43200 ∧ t < nextNoonOrMidnight t ∧
    (∀ P, 0 < P → nextQuarterHour P t = (t / P + 1) * P ∧ t < nextQuarterHour P t) ∧
    (∀ u, t ≤ u → u < nextNoonOrMidnight t →
      (gmtime u).days = (gmtime t).days ∧ (gmtime u).pm = (gmtime t).pm ∧ (gmtime u).sod = (gmtime t).sod + (u - t)) := by
  refine ⟨nextNoonOrMidnight_eq t, nextNoonOrMidnight_gt t, ?_, ?_⟩
  · intro P hP
    have e : nextQuarterHour P t = (t / P + 1) * P := by simp only [nextQuarterHour, Nat.succ_mul]
    exact ⟨e, by rw [e]; exact lt_next_window P t hP⟩
  · intro u htu hu
    rw [nextNoonOrMidnight_eq] at hu
    simp only [gmtime_days, gmtime_sod, Tm.pm]
    refine ⟨by omega, ?_, by omega⟩
    first | (congr 1; apply propext; omega) | (simp only [decide_eq_decide]; omega)

/-- **civil round trip**: `timegm (gmtime t)` is `t`, and the civil fields are in range -/
theorem C13_civil_roundtrip (t : Nat) :
    daysFromCivil (yearOf (gmtime t).days) (monOf (gmtime t).days) (mdayOf (gmtime t).days) * 86400 +
        (gmtime t).hour * 3600 + (gmtime t).min * 60 + (gmtime t).sec = t ∧
    1 ≤ monOf (gmtime t).days ∧ monOf (gmtime t).days ≤ 12 ∧ 1 ≤ mdayOf (gmtime t).days ∧ mdayOf (gmtime t).days ≤ 31 := by
  have hr := civilFromDays_ranges (gmtime t).days
  refine ⟨?_, hr⟩
  simp only [yearOf, monOf, mdayOf, daysFromCivil_civilFromDays, gmtime_days, Tm.hour, Tm.min, Tm.sec, gmtime_sod]
  omega

/-! ### where the property fails on the pinned code (proved witnesses) -/

/-- **F8** — `%OS` (likewise `%c %Ec %EX %OH %OI %OM`) is accepted, cached as static text and rendered stale: one
    second later the formatter still prints `20` where `strftime` prints `21`. -/
theorem C13_F8_stale :
    renderAll true 900 (fun _ => gmtZ) "%OS".toList false [1700000000000000000, 1700000001000000000] =
      some ["20".toList, "20".toList] ∧
    strftimeRef "%OS".toList (gmtime 1700000001) 0 = "21".toList ∧
    f8Tok (.mod 'O' 'S') = true ∧ supportedToks (lex "%OS".toList) = false := by decide +kernel

/-- **`%%` before `T`** (likewise `r R`; `X` → spurious rejection; `Q?s` → fraction inserted): the substring
    rewrite turns the literal `%%T` into `%%H:%M:%S`. -/
theorem C13_pctpct_miswritten :
    renderAll true 900 (fun _ => gmtZ) "%%T".toList false [1700000000000000000] = some ["%22:13:20".toList] ∧
    strftimeRef "%%T".toList (gmtime 1700000000) 0 = "%T".toList ∧
    renderAll true 900 (fun _ => gmtZ) "%%X".toList false [1700000000000000000] = none ∧
    strftimeRef "%%X".toList (gmtime 1700000000) 0 = "%X".toList ∧
    renderAll true 900 (fun _ => gmtZ) "%%Qms".toList false [1700000000123000000] = some ["%123".toList] ∧
    supportedToks (lex "%%T".toList) = false := by decide +kernel

/-- **F21 (repaired)** — without the second search of the constructor (`rr = false`, the pinned tree) the same
    fractional specifier twice is not rejected and the second one is handed to `strftime`; with it, it throws. -/
theorem C13_dupfrac_unrepaired_accepted :
    renderAll false 900 (fun _ => gmtZ) "%Qms%Qms".toList false [1700000000123000000] = some ["123%Qms".toList] ∧
    renderAll true 900 (fun _ => gmtZ) "%Qms%Qms".toList false [1700000000123000000] = none ∧
    fracCount (lex "%Qms%Qms".toList) = 2 ∧ kindCount (lex "%Qms%Qms".toList) = 1 := by decide +kernel

/-- America/St_Johns around 2001-04-01 00:01 local (03:31:00 UTC), as a zone function -/
def stJohns2001 (t : Nat) : ZInfo :=
  if t < 986095860 then ⟨-12600, false, "NST".toList⟩ else ⟨-9000, true, "NDT".toList⟩

/-- **a zone transition off the quarter-hour grid**: the cache keeps offset and hour of 03:30:59 UTC until 03:45. -/
theorem C13_offgrid_transition_stale :
    renderAll true 900 stJohns2001 "%H:%M:%S %z".toList true [986095859000000000, 986095860000000000] =
      some ["00:00:59 -0330".toList, "00:01:00 -0330".toList] ∧
    strftimeRef "%H:%M:%S %z".toList (mkTm 986095860 (stJohns2001 986095860)) 0 = "01:01:00 -0230".toList ∧
    986095859 / 900 = 986095860 / 900 ∧ stJohns2001 986095859 ≠ stJohns2001 986095860 := by decide +kernel

end Time
