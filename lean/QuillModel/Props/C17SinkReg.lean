import QuillModel.SinkReg.Proofs
/-!
# C17 (part) — the by-name sink registry is idempotent, whatever expired entries it holds

"… creating or looking up loggers and sinks by name is idempotent …; any number of remove/re-create cycles over the same
names, with sinks shared between loggers in every pattern."

`SinkReg.step` transcribes `SinkManager::create_or_get_sink / get_sink / cleanup_unused_sinks` over the sorted vector of
`(name, weak_ptr)` (model: `SinkReg/Model.lean`); `drop i` is the moment the last owner of object `i` lets go. All
theorems quantify over EVERY sequence `ops` of these four operations from the empty registry (so: over every pattern of
expired entries that can coexist with live ones) and hold for `Params.OK` = both private helpers use `lower_bound`
(obligation on the extracted structure, `Obligations/SinkReg.lean`). The thread-safety half of the sentence is the
spinlock's (`Props/C17Spin.lean`); ownership by loggers is the backend model's (`Props/C17.lean`).
-/
namespace SinkReg

/-- **sorted**: the vector stays sorted by name (so `std::lower_bound` is applicable and is the model's `bound`) -/
theorem C17_sinkreg_sorted (p : Params) (hp : p.OK) (ops : List Op) :
    (run p {} ops).entries.Pairwise (fun a b => a.name ≤ b.name) :=
  (rinv_run p hp ops {} rinv_init).pw.imp (fun h => h.1)

/-- **at most one ALIVE entry per name** (and it is the first entry of that name) -/
theorem C17_sinkreg_one_alive_per_name (p : Params) (hp : p.OK) (ops : List Op) (n : Nat) :
    (aliveIds (run p {} ops) n).length ≤ 1 := by
  simp only [aliveIds, List.length_map]
  exact filter_alive_le_one _ n (rinv_run p hp ops {} rinv_init).pw

/-- identities are never reused: every entry was constructed before the counter's current value, all differ -/
theorem C17_sinkreg_ids_fresh (p : Params) (hp : p.OK) (ops : List Op) :
    (∀ e ∈ (run p {} ops).entries, e.id < (run p {} ops).next) ∧
    (run p {} ops).entries.Pairwise (fun a b => a.id ≠ b.id) :=
  ⟨(rinv_run p hp ops {} rinv_init).lt, (rinv_run p hp ops {} rinv_init).pw.imp (fun h => h.2.2)⟩

/-- `aliveOf s n = some i` says exactly: some entry of name `n` is alive and is object `i` -/
theorem aliveOf_some_iff (s : St) (hs : RInv s) (n i : Nat) :
    aliveOf s n = some i ↔ ∃ e ∈ s.entries, e.name = n ∧ e.alive = true ∧ e.id = i := by
  rw [aliveOf_def]
  constructor
  · intro h
    rw [Option.map_eq_some_iff] at h
    obtain ⟨e, he, rfl⟩ := h
    have hm := List.mem_of_find?_eq_some he
    have hq := List.find?_some he
    simp only [isAliveOf, Bool.and_eq_true, beq_iff_eq] at hq
    exact ⟨e, hm, hq.1, hq.2, rfl⟩
  · rintro ⟨e, he, hn, ha, rfl⟩
    have hq : isAliveOf n e = true := by simp [isAliveOf, hn, ha]
    cases hf : s.entries.find? (isAliveOf n) with
    | none => rw [List.find?_eq_none] at hf; exact absurd hq (hf e he)
    | some a =>
      have hma : a ∈ s.entries.filter (isAliveOf n) := List.mem_filter.2 ⟨List.mem_of_find?_eq_some hf, List.find?_some hf⟩
      have hme : e ∈ s.entries.filter (isAliveOf n) := List.mem_filter.2 ⟨he, hq⟩
      have hlen := filter_alive_le_one s.entries n hs.pw
      match hl : s.entries.filter (isAliveOf n), hlen with
      | [], _ => rw [hl] at hma; simp at hma
      | [x], _ =>
        rw [hl] at hma hme
        simp only [List.mem_cons, List.not_mem_nil, or_false] at hma hme
        simp [hma, hme]
      | _ :: _ :: _, h2 => simp at h2

/-- **`create_or_get(name)`**: returns the alive entry of that name if there is one (nothing changes); otherwise
    constructs a fresh object (identity = the counter, different from every identity in the vector), after which that
    object is the alive entry of the name and no other name's answer has changed -/
theorem C17_sinkreg_create_or_get (p : Params) (hp : p.OK) (ops : List Op) (n : Nat) :
    let s := run p {} ops
    (∀ i, aliveOf s n = some i → step p s (.createOrGet n) = (s, .id i)) ∧
    (aliveOf s n = none →
      (step p s (.createOrGet n)).2 = .id s.next ∧ (∀ e ∈ s.entries, e.id ≠ s.next) ∧
      aliveOf (step p s (.createOrGet n)).1 n = some s.next ∧
      ∀ m, m ≠ n → aliveOf (step p s (.createOrGet n)).1 m = aliveOf s m) := by
  intro s
  have hs : RInv s := rinv_run p hp ops {} rinv_init
  refine ⟨fun i hi => by rw [step_createOrGet p hp s hs n, hi], fun hn => ?_⟩
  rw [step_createOrGet p hp s hs n, hn]
  refine ⟨rfl, fun e he => Nat.ne_of_lt (hs.lt e he), by simp [aliveOf_created], fun m hm => by simp [aliveOf_created, hm]⟩

/-- **`get(name)`** changes nothing, returns the alive entry of the name, and fails (throws) iff every entry of that
    name has expired (in particular when there is none) -/
theorem C17_sinkreg_get (p : Params) (hp : p.OK) (ops : List Op) (n : Nat) :
    let s := run p {} ops
    (step p s (.get n)).1 = s ∧
    (∀ i, (step p s (.get n)).2 = .id i ↔ ∃ e ∈ s.entries, e.name = n ∧ e.alive = true ∧ e.id = i) ∧
    ((step p s (.get n)).2 = .notFound ↔ ∀ e ∈ s.entries, e.name = n → e.alive = false) := by
  intro s
  have hs : RInv s := rinv_run p hp ops {} rinv_init
  rw [step_get p hp s hs n]
  refine ⟨rfl, fun i => ?_, ?_⟩
  · rw [← aliveOf_some_iff s hs n i]
    cases aliveOf s n <;> simp
  · rw [← aliveOf_none_iff s n]
    cases aliveOf s n <;> simp

/-- what survives any further operations that do not release object `i` -/
theorem alive_kept (p : Params) (hp : p.OK) (n i : Nat) (ops2 : List Op) (hno : ∀ op ∈ ops2, op ≠ .drop i) :
    ∀ (s : St), RInv s → aliveOf s n = some i → RInv (run p s ops2) ∧ aliveOf (run p s ops2) n = some i := by
  induction ops2 with
  | nil => intro s hs h; exact ⟨hs, h⟩
  | cons op rest ih =>
    intro s hs h
    have hrest : ∀ op ∈ rest, op ≠ .drop i := fun o ho => hno o (List.mem_cons_of_mem _ ho)
    have hstep : aliveOf (step p s op).1 n = some i := by
      cases op with
      | createOrGet m =>
        rw [step_createOrGet p hp s hs m]
        cases hm : aliveOf s m with
        | some j => exact h
        | none =>
          have : n ≠ m := by intro e; rw [e, hm] at h; cases h
          simp [aliveOf_created, this, h]
      | get m => rw [step_get p hp s hs m]; exact h
      | drop j =>
        have hj : j ≠ i := by intro e; exact hno (.drop j) (List.mem_cons_self ..) (by rw [e])
        show aliveOf { s with entries := s.entries.map (kill j) } n = some i
        rw [aliveOf_drop s hs j n, h]
        simp [Ne.symm hj]
      | cleanup => exact (aliveOf_cleanup s n).trans h
    exact ih hrest _ (rinv_step p hp s hs op) hstep

/-- **idempotence**: whatever `create_or_get(name)` returned — the existing alive object or a fresh one —, after ANY
    further operations other than the release of that object (creation, lookup and release of any other object under
    any name, sweeps, in any number), `get(name)` and every further `create_or_get(name)` return that same object and
    construct nothing; whatever expired entries of that or other names the vector holds -/
theorem C17_sinkreg_idempotent (p : Params) (hp : p.OK) (ops : List Op) (n : Nat) (ops2 : List Op) :
    let r := step p (run p {} ops) (.createOrGet n)
    ∀ i, r.2 = .id i → (∀ op ∈ ops2, op ≠ .drop i) →
      step p (run p r.1 ops2) (.get n) = (run p r.1 ops2, .id i) ∧
      step p (run p r.1 ops2) (.createOrGet n) = (run p r.1 ops2, .id i) := by
  intro r i hi hno
  have hs : RInv (run p {} ops) := rinv_run p hp ops {} rinv_init
  have hr1 : RInv r.1 := rinv_step p hp _ hs _
  have halive : aliveOf r.1 n = some i := by
    have hc := C17_sinkreg_create_or_get p hp ops n
    simp only at hc
    cases ha : aliveOf (run p {} ops) n with
    | some j =>
      have := hc.1 j ha
      have e : r = (run p {} ops, .id j) := this
      rw [e] at hi ⊢
      cases hi; exact ha
    | none =>
      obtain ⟨h1, _, h3, _⟩ := hc.2 ha
      have e : r.2 = .id (run p {} ops).next := h1
      rw [e] at hi
      cases hi; exact h3
  obtain ⟨hinv, hal⟩ := alive_kept p hp n i ops2 hno r.1 hr1 halive
  exact ⟨by rw [step_get p hp _ hinv n, hal], by rw [step_createOrGet p hp _ hinv n, hal]⟩

/-- **release**: when the last owner of object `i` lets go, the name it was registered under has no alive entry any
    more (the entry itself stays, expired, until the next sweep) and no other answer changes -/
theorem C17_sinkreg_drop (p : Params) (hp : p.OK) (ops : List Op) (i m : Nat) :
    let s := run p {} ops
    aliveOf (step p s (.drop i)).1 m = if aliveOf s m = some i then none else aliveOf s m :=
  aliveOf_drop _ (rinv_run p hp ops {} rinv_init) i m

/-! ### the sweep -/

/-- the count returned by `cleanup_unused_sinks` is not an answer about a name -/
def Obs.eraseCount : Obs → Obs
  | .removed _ => .removed 0
  | o => o

/-- two registries with the same alive objects under the same names and the same construction counter -/
structure SameAlive (s t : St) : Prop where
  l : RInv s
  r : RInv t
  next : s.next = t.next
  alive : ∀ n, aliveOf s n = aliveOf t n

theorem sameAlive_step (p : Params) (hp : p.OK) (s t : St) (h : SameAlive s t) (op : Op) :
    SameAlive (step p s op).1 (step p t op).1 ∧ (step p s op).2.eraseCount = (step p t op).2.eraseCount := by
  have hl' := rinv_step p hp s h.l op
  have hr' := rinv_step p hp t h.r op
  cases op with
  | createOrGet n =>
    rw [step_createOrGet p hp s h.l n, step_createOrGet p hp t h.r n] at *
    rw [← h.alive n] at *
    cases ha : aliveOf s n with
    | some i => simp only [ha] at hl' hr' ⊢; exact ⟨h, by first | trivial | rfl⟩
    | none =>
      simp only [ha] at hl' hr' ⊢
      refine ⟨⟨hl', hr', by simp [created, h.next], fun m => ?_⟩, by rw [h.next]⟩
      rw [aliveOf_created, aliveOf_created, h.next, h.alive m]
  | get n =>
    rw [step_get p hp s h.l n, step_get p hp t h.r n, h.alive n]
    exact ⟨h, rfl⟩
  | drop i =>
    refine ⟨⟨hl', hr', h.next, fun m => ?_⟩, rfl⟩
    show aliveOf { s with entries := s.entries.map (kill i) } m = aliveOf { t with entries := t.entries.map (kill i) } m
    rw [aliveOf_drop s h.l, aliveOf_drop t h.r, h.alive m]
  | cleanup =>
    refine ⟨⟨hl', hr', h.next, fun m => ?_⟩, rfl⟩
    show aliveOf { s with entries := s.entries.filter (fun e => e.alive) } m =
      aliveOf { t with entries := t.entries.filter (fun e => e.alive) } m
    rw [aliveOf_cleanup, aliveOf_cleanup, h.alive m]

/-- **expired entries are invisible**: every answer of every later operation is a function of the alive objects and
    the counter alone -/
theorem C17_sinkreg_expired_invisible (p : Params) (hp : p.OK) (ops : List Op) :
    ∀ (s t : St), SameAlive s t → (trace p s ops).map Obs.eraseCount = (trace p t ops).map Obs.eraseCount := by
  induction ops with
  | nil => intro s t _; rfl
  | cons op rest ih =>
    intro s t h
    obtain ⟨h1, h2⟩ := sameAlive_step p hp s t h op
    simp only [trace, List.map_cons, h2, ih _ _ h1]

/-- **the sweep** removes exactly the expired entries (keeps the alive ones in their order), reports how many it
    removed, and changes no answer: not the alive entry of any name, and not any observation of any later sequence
    of operations (up to the counts reported by later sweeps) -/
theorem C17_sinkreg_cleanup (p : Params) (hp : p.OK) (ops : List Op) :
    let s := run p {} ops
    (step p s .cleanup).1.entries = s.entries.filter (fun e => e.alive) ∧
    (step p s .cleanup).2 = .removed (s.entries.filter (fun e => !e.alive)).length ∧
    (∀ e ∈ (step p s .cleanup).1.entries, e.alive = true) ∧
    (∀ n, aliveOf (step p s .cleanup).1 n = aliveOf s n) ∧
    (∀ n, find p (step p s .cleanup).1 n = find p s n) ∧
    (∀ ops2, (trace p (step p s .cleanup).1 ops2).map Obs.eraseCount = (trace p s ops2).map Obs.eraseCount) := by
  intro s
  have hs : RInv s := rinv_run p hp ops {} rinv_init
  have hs' : RInv (step p s .cleanup).1 := rinv_step p hp s hs .cleanup
  have hal : ∀ n, aliveOf (step p s .cleanup).1 n = aliveOf s n := fun n => aliveOf_cleanup s n
  refine ⟨rfl, rfl, ?_, hal, ?_, ?_⟩
  · intro e he
    exact (List.mem_filter.1 he).2
  · intro n
    rw [find_eq_aliveOf p hp _ hs' n, find_eq_aliveOf p hp _ hs n, hal n]
  · intro ops2
    exact C17_sinkreg_expired_invisible p hp ops2 _ _ ⟨hs', hs, rfl, hal⟩

/-! ### non-vacuity and the negative witnesses -/

/-- an expired entry coexisting with a live re-created entry of the same name is reachable (the user was the last
    owner, dropped the sink and re-created the name before the next sweep); the live one is in front -/
example : (run {} {} [.createOrGet 0, .drop 1, .createOrGet 0]).entries =
    [{ name := 0, id := 2, alive := true }, { name := 0, id := 1, alive := false }] := by decide

/-- a concrete life over three names with sharing, expiry, re-creation and a sweep: the answers -/
example : trace {} {} [.createOrGet 1, .createOrGet 0, .createOrGet 1, .drop 1, .get 1, .createOrGet 1, .get 1,
                       .createOrGet 2, .drop 2, .cleanup, .get 0, .createOrGet 1, .get 2] =
    [.id 1, .id 2, .id 1, .ok, .notFound, .id 3, .id 3, .id 4, .ok, .removed 2, .notFound, .id 3, .id 4] := by decide

/-- the hypotheses of `C17_sinkreg_idempotent` are met by a prefix that leaves expired entries of the name behind -/
example : let r := step {} (run {} {} [.createOrGet 0, .drop 1, .createOrGet 0, .drop 2]) (.createOrGet 0)
    r.2 = .id 3 ∧ (∀ op ∈ [Op.createOrGet 1, .drop 4, .createOrGet 0, .cleanup], op ≠ .drop 3) ∧
    (r.1.entries.filter (fun e => !e.alive)).length = 2 := by decide

/-- **negative witness (insert at the upper bound: `/tmp/mut5/C17/out/m2`)**: the re-created sink goes BEHIND the
    expired entry of its name, `_find_sink` keeps looking at the expired one: the next `create_or_get` of the same
    name constructs a second object — two alive objects under one name -/
theorem C17_sinkreg_upper_insert_second_object :
    let p : Params := { insertAt := .upper }
    let ops : List Op := [.createOrGet 0, .drop 1, .createOrGet 0, .createOrGet 0]
    trace p {} ops = [.id 1, .ok, .id 2, .id 3] ∧ aliveIds (run p {} ops) 0 = [2, 3] ∧
    trace {} {} ops = [.id 1, .ok, .id 2, .id 2] := by decide

/-- … and `get` fails although an alive object of that name exists -/
theorem C17_sinkreg_upper_insert_get_fails :
    let p : Params := { insertAt := .upper }
    let ops : List Op := [.createOrGet 0, .drop 1, .createOrGet 0]
    (step p (run p {} ops) (.get 0)).2 = .notFound ∧ aliveIds (run p {} ops) 0 = [2] ∧
    (step {} (run {} {} ops) (.get 0)).2 = .id 2 := by decide

/-- looking at the upper bound in `_find_sink` never finds anything -/
theorem C17_sinkreg_upper_find_never_finds :
    let p : Params := { findAt := .upper }
    trace p {} [.createOrGet 0, .createOrGet 0, .get 0] = [.id 1, .id 2, .notFound] := by decide

end SinkReg
