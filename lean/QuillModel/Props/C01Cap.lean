import QuillModel.Props.C01
import QuillModel.MathUtil.Ctor
/-!
# C01 — the constructor discharges the capacity hypotheses for every requested capacity

`C01_reachable_safe` needs `0 < cap`; `C01_wrap` needs `cap ∣ 2^w` and `cap < 2^w`; the model's storage has `2·cap`
cells and offsets are `pos % cap`. `BoundedSPSCQueueImpl<T>(capacity, …, reader_store_percent)` computes
`_capacity = next_power_of_two(capacity)`, `_mask = _capacity - 1`, `_bytes_per_batch` and allocates
`2ull * uint64_t(_capacity)` bytes (`MathUtil.boundedCtor w req pct`, `w` = bits of `T`). For **every** `w ≥ 1`,
every request and every percentage the hypotheses hold — except that for `w = 64` and a request above `2^62` the
byte count wraps to 0 (`C01_size_t_request_above_2pow62_has_no_storage`): the queue reports a capacity of `2^63`
over an empty allocation.
-/
namespace MathUtil
open Spsc

/-- safety for the queue the constructor builds, whatever was requested -/
theorem C01_any_requested_capacity (w : Nat) (hw : 1 ≤ w) (req pct : Nat) (o : Params) (ho : OrdersOK o)
    (ops : List Op)
    (hr : Run o (init (boundedCtor w req pct).capacity (boundedCtor w req pct).bytesPerBatch) ops) (op : Op)
    (he : Enabled (run o (init (boundedCtor w req pct).capacity (boundedCtor w req pct).bytesPerBatch) ops) op) :
    Safe (run o (init (boundedCtor w req pct).capacity (boundedCtor w req pct).bytesPerBatch) ops) op := by
  obtain ⟨_, _, _, _, hpos, _⟩ := boundedCtor_ok hw req pct
  exact C01_reachable_safe o ho _ _ hpos ops hr op he

/-- wrap-around refinement for the queue the constructor builds, whatever was requested: the `w`-bit machine with
    `_mask` equals the free-running one through any number of wraps -/
theorem C01_wrap_any_requested_capacity (w : Nat) (hw : 1 ≤ w) (req pct : Nat) (o : Params) (ho : OrdersOK o)
    (as : List Api)
    (hr : ApiRun o (init (boundedCtor w req pct).capacity (boundedCtor w req pct).bytesPerBatch) as) :
    modRun (2 ^ w) o (absM (2 ^ w) (init (boundedCtor w req pct).capacity (boundedCtor w req pct).bytesPerBatch))
        (as.map (Api.modM (2 ^ w))) =
      (absM (2 ^ w) (apiRun o (init (boundedCtor w req pct).capacity (boundedCtor w req pct).bytesPerBatch) as).1,
       (apiRun o (init (boundedCtor w req pct).capacity (boundedCtor w req pct).bytesPerBatch) as).2.map
         (Obs.modM (2 ^ w))) := by
  obtain ⟨_, _, _, _, hpos, hdvd, hlt, _⟩ := boundedCtor_ok hw req pct
  exact C01_wrap (2 ^ w) o ho as _ (init_inv _ _ hpos) hdvd hlt hr

/-- the C++ offset `pos & _mask` is the model's `pos % cap`, also on a wrapped `w`-bit position -/
theorem C01_mask_is_mod (w : Nat) (hw : 1 ≤ w) (req pct pos : Nat) :
    slot (pos % 2 ^ w) (boundedCtor w req pct).mask = pos % (boundedCtor w req pct).capacity := by
  obtain ⟨j, hj, hc, hm, _⟩ := boundedCtor_ok hw req pct
  rw [hm, hc]; exact slot_wrap pos (by omega)

/-- **Storage.** With the repaired constructor (`_checked_capacity`, extracted flag `ctorRejectsOversized = true`) every
    request has one of two outcomes, for every integer type: it is *accepted* and the byte count handed to the allocator is
    exactly the `2·capacity` the model's storage has, or it is *rejected* with a `QuillError` before any storage exists. -/
theorem C01_storage_exact (w req pct : Nat) :
    (∃ c, boundedCtorR true w req pct = some c ∧ c = boundedCtor w req pct ∧ c.allocBytes = 2 * c.capacity) ∨
    (boundedCtorR true w req pct = none ∧ 2 ^ 63 ≤ nextPow2W w req) := by
  by_cases hr : ctorRejects true w req = true
  · right
    exact ⟨by simp only [boundedCtorR, hr, if_true], (ctorRejects_iff w req).mp hr⟩
  · left
    have h : boundedCtorR true w req pct = some (boundedCtor w req pct) := by simp only [boundedCtorR, hr]; rfl
    exact ⟨_, h, rfl, accepted_alloc_exact h⟩

/-- which requests are rejected: none for an integer type below 64 bits; for `size_t` exactly those above `2^62` -/
theorem C01_rejected_iff (req pct : Nat) :
    (boundedCtorR true 64 req pct = none ↔ 2 ^ 62 < req) ∧
    ∀ w, 1 ≤ w → w ≤ 63 → boundedCtorR true w req pct = some (boundedCtor w req pct) := by
  constructor
  · rw [← ctorRejects_64_iff]
    simp only [boundedCtorR]
    split <;> simp_all
  · intro w hw hw63
    simp only [boundedCtorR, ctorRejects_narrow hw hw63 req]; rfl

/-- the pinned constructor (flag `false`) never rejects -/
theorem C01_unrepaired_never_rejects (w req pct : Nat) : boundedCtorR false w req pct = some (boundedCtor w req pct) := by
  simp only [boundedCtorR, ctorRejects_false]; rfl

/-- **Finding (F32).** `BoundedSPSCQueueImpl<size_t>` with a request above `2^62` (in particular every request
    `≥ 2^63`): capacity `2^63`, `2ull * capacity` = **0** bytes requested; every reservation up to `2^63` bytes is then
    granted over storage that does not exist. -/
theorem C01_size_t_request_above_2pow62_has_no_storage (req pct : Nat) (h : 2 ^ 62 < req) :
    (boundedCtor 64 req pct).capacity = 2 ^ 63 ∧ (boundedCtor 64 req pct).allocBytes = 0 ∧
    (boundedCtor 64 req pct).allocBytes ≠ 2 * (boundedCtor 64 req pct).capacity := by
  obtain ⟨h1, h2⟩ := alloc_wraps_to_zero (pct := pct) h
  refine ⟨h1, h2, ?_⟩
  rw [h1, h2]; decide

/-- Observation: a request above `max_power_of_two<T>()` is rounded *down* — exactly then the request itself no longer
    fits the queue it asked for (the property's quantifier ranges over the capacity, not the request). -/
theorem C01_request_fits_iff (w : Nat) (hw : 1 ≤ w) (req pct : Nat) :
    req ≤ (boundedCtor w req pct).capacity ↔ req ≤ 2 ^ (w - 1) := boundedCtor_fits_iff hw req pct

/-- non-vacuity / concrete values: `uint8_t` requests 0, 100, 128, 200; `size_t` request `2^62 + 1` -/
example : (boundedCtor 8 0 5).capacity = 1 ∧ (boundedCtor 8 100 5) = ⟨128, 127, 6, 256⟩ ∧
    (boundedCtor 8 200 5).capacity = 128 ∧ (boundedCtor 16 1000 5) = ⟨1024, 1023, 51, 2048⟩ ∧
    (boundedCtor 64 (2 ^ 62 + 1) 5).allocBytes = 0 := by decide

/-- the witness for the unrepaired flag stays: the pinned constructor accepts `2^62 + 1` with 0 bytes of storage, the
    repaired one rejects it (and `SIZE_MAX`), and still accepts `2^62` (which the allocator then refuses) -/
theorem C01_unrepaired_flag_witness :
    (boundedCtorR false 64 (2 ^ 62 + 1) 5).map (·.allocBytes) = some 0 ∧
    (boundedCtorR false 64 (2 ^ 62 + 1) 5).map (·.capacity) = some (2 ^ 63) ∧
    boundedCtorR true 64 (2 ^ 62 + 1) 5 = none ∧ boundedCtorR true 64 (2 ^ 64 - 1) 5 = none ∧
    (boundedCtorR true 64 (2 ^ 62) 5).map (·.allocBytes) = some (2 ^ 63) := by decide

end MathUtil
