import QuillModel.Props.C03Transit
import QuillModel.MathUtil.TransitW
/-!
# C03 — `TransitEventBuffer`: the constructor and the 64-bit index arithmetic discharge `C03_transit_refines`' premises

`C03_transit_refines` is about a ring with free-running natural positions, `pos % cap`, any initial capacity `> 0`.
The C++ has `_initial_capacity = next_power_of_two(initial_capacity)` (the option is a `uint32_t`), `_mask`,
`size_t` positions that wrap at `2^64`, `_capacity * 2`. For every request the premise holds, and the `w`-bit machine is
the image of the free-running ring from every well-formed state (positions arbitrarily large — through any counter
wrap) as long as the buffer never holds more than `L` events with `max(initial, 2L)·2 < 2^w`.
-/
namespace MathUtil
open Transit
variable {α : Type}

/-- FIFO refinement for the buffer the constructor builds, whatever initial capacity was requested -/
theorem C03_transit_any_requested_capacity (w : Nat) (hw : 1 ≤ w) (req : Nat) (d : α) (ops : List (Op α)) :
    (Transit.run (TB.init (transitCtor w req).capacity d) ops).abs = specRun [] ops ∧
    TInv (Transit.run (TB.init (transitCtor w req).capacity d) ops) := by
  obtain ⟨_, _, _, _, _, hpos⟩ := transitCtor_ok hw req
  exact C03_transit_refines _ d hpos ops

/-- the `w`-bit buffer (wrapping positions, `& _mask`) is the free-running ring: from any well-formed state with
    power-of-two capacities, for any history that never holds more than `L` events -/
theorem C03_transit_wbit_refines (w L : Nat) (b : TB α) (ops : List (Op α)) (hi : TInv b)
    (hi0 : ∃ j, b.initCap = 2 ^ j) (hc : ∃ j, b.cap = 2 ^ j) (hcap : b.cap ≤ max b.initCap (2 * L))
    (hfit : max b.initCap (2 * L) * 2 < 2 ^ w) (hs : SizesLE L b ops) :
    ops.foldl (stepW w) (toW w b) = toW w (ops.foldl step b) ∧
    (toW w (ops.foldl step b)).front = (ops.foldl step b).front ∧
    (toW w (ops.foldl step b)).size w = (ops.foldl step b).size ∧
    (toW w (ops.foldl step b)).isEmpty = (ops.foldl step b).isEmpty :=
  runW_toW w ops b hi hi0 hc (capsOK_of_sizes w L ops b hcap hfit hs)

/-- instantiated for the real types: `uint32_t` option, `size_t` buffer, at most `2^32` events buffered per thread
    (`transit_events_hard_limit` is a `uint32_t`) — the premises about widths are discharged by computation -/
theorem C03_transit_real_widths (req L : Nat) (hreq : req < 2 ^ 32) (hL : L ≤ 2 ^ 32) (d : α) (ops : List (Op α))
    (hs : SizesLE L (TB.init (transitCtor 64 req).capacity d) ops) :
    ops.foldl (stepW 64) (toW 64 (TB.init (transitCtor 64 req).capacity d)) =
      toW 64 (ops.foldl step (TB.init (transitCtor 64 req).capacity d)) := by
  obtain ⟨j, hj, hc, _, _, hpos⟩ := transitCtor_ok (w := 64) (by decide) req
  have hle : (transitCtor 64 req).capacity ≤ 2 ^ 32 := by
    have h1 := nextPow2W_isNext (w := 64) (n := req) (by decide) (by omega)
    exact h1.2.2 32 (Nat.le_of_lt hreq)
  refine (C03_transit_wbit_refines 64 L _ ops (init_inv _ d hpos) ⟨j, hc⟩ ⟨j, hc⟩ (Nat.le_max_left _ _) ?_ hs).1
  show max (transitCtor 64 req).capacity (2 * L) * 2 < 2 ^ 64
  have : max (transitCtor 64 req).capacity (2 * L) ≤ 2 ^ 33 := Nat.max_le.mpr ⟨by omega, by omega⟩
  omega

/-- Observation: `_expand` on a capacity of `2^(w-1)` computes a new capacity of 0 (`_capacity * 2` wraps) — needs
    `2^63` buffered events, unreachable -/
theorem C03_expand_wraps_at_top (w : Nat) (hw : 1 ≤ w) : dblW w (2 ^ (w - 1)) = 0 := by
  obtain ⟨k, rfl⟩ : ∃ k, w = k + 1 := ⟨w - 1, by omega⟩
  simp only [dblW, Nat.add_sub_cancel, ← Nat.pow_succ, Nat.mod_self]

/-- non-vacuity: a buffer whose positions sit just below `2^8` wraps its counters and still shows the FIFO -/
example :
    let b : TB Nat := { initCap := 2, cap := 4, store := fun i => 100 + i, rpos := 253, wpos := 255 }
    let ops : List (Op Nat) := [.push 7, .push 8, .pop, .pop, .push 9]
    (ops.foldl (stepW 8) (toW 8 b)).rpos = 255 ∧ (ops.foldl (stepW 8) (toW 8 b)).wpos = 2 ∧
    (ops.foldl (stepW 8) (toW 8 b)).front = some 7 ∧ (ops.foldl (stepW 8) (toW 8 b)).size 8 = 3 := by decide

end MathUtil
