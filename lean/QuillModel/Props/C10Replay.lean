import QuillModel.Props.C10
/-!
# C10 / C18 (audit round) — a sink fault during a backtrace replay: the stored statements are replayed AGAIN

Every delivery theorem of `Props/C10.lean` (`C10_at_most_once_under_faults`, `C10_unfaulted_exactly_once`,
`C10_order_under_faults`, `C10_write_fault_reported`) carries `isOrd st = true` (`st.lvl ≠ 9`): statements logged with
`LOG_BACKTRACE` are outside all of them, and `wcount` does not count level-9 writes. For those statements the property
("at most that one statement is missing from that sink …; every other statement is still delivered exactly once") is
**false of the model and of the code it mirrors**: `BacktraceStorage::process` clears `_stored_events` only *after* the
loop over the callback (`replayRing`, `Backend/Sched.lean`: "the ring is cleared only if no exception escaped"), so when
a sink's `write_log` throws in the middle of a replay the ring keeps everything and the next flush replays all of it —
the statements that had already been written are written a second time.

This file pins that behaviour with a proved witness (negation of "exactly once" for replayed statements under a sink
fault). Smallest repair of the code: clear (or pop) the stored events on every exit of `process` — e.g. move the
contents out before iterating (`auto evs = std::move(_stored_events); _stored_events.clear(); _index = 0;`) — after which
the faulted replay loses at most the statements from the faulting one on, for that sink only, which is what the property
allows.
-/
namespace Backend
open Backend.PA

/-- one logger, one sink whose 2nd `write_log` throws -/
def c10ReplayInit : BSt :=
  { cfg := c03Cfg, now := 1000, sinks := [{ sid := 1, wthrow := [2] }],
    lgs := [{ gid := 0, sinks := [1] }], names := [(0, 0)] }

/-- `init_backtrace(4)`, three `LOG_BACKTRACE` statements (ids 0, 1, 2), `flush_backtrace()` twice, polls -/
def c10ReplaySched : List Op :=
  [.front (.tstart 0), .front (.initBt 0 0 4 10), .front (.logBt 0 0 10), .front (.logBt 0 0 10), .front (.logBt 0 0 10),
   .front (.flushBt 0 0), .front (.flushBt 0 0)] ++ List.replicate 8 (.poll [])

/-- the `write_log` calls (sink, statement id, level) and throws of a log, oldest first -/
def c10Writes (log : List Ev) : List (Nat × Nat × Nat) :=
  log.reverse.filterMap (fun e => match e with
    | .write s i l _ _ => some (s, i, l)
    | .wthrow s i => some (s, i, 99)
    | _ => none)

/-- **Witness (finding candidate; not excluded by any hypothesis of the property).** The first replay writes statement 0,
    the sink throws on statement 1 (reported), and the second `flush_backtrace()` replays 0, 1, 2: statement 0 — which
    never faulted — reaches the sink **twice**; `wcount`, the counting function of the C03/C10 theorems, does not see it
    (it is 0 for a level-9 write), which is why no theorem of `Props/C10.lean` is contradicted. -/
theorem C10_replay_fault_duplicates :
    c10Writes (runOps c10ReplayInit c10ReplaySched).log =
      [(1, 0, 9), (1, 1, 99), (1, 0, 9), (1, 1, 9), (1, 2, 9)] ∧
    (runOps c10ReplayInit c10ReplaySched).log.countP
      (fun e => match e with | .write 1 0 9 _ _ => true | _ => false) = 2 ∧
    wcount (runOps c10ReplayInit c10ReplaySched).log 1 0 = 0 := by
  decide

/-- without the fault the same schedule writes each stored statement once (the second flush finds the ring empty) -/
theorem C10_replay_without_fault_once :
    c10Writes (runOps { c10ReplayInit with sinks := [{ sid := 1 }] } c10ReplaySched).log =
      [(1, 0, 9), (1, 1, 9), (1, 2, 9)] := by
  decide

end Backend
