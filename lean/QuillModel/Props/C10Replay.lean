import QuillModel.Props.C10
/-!
# C10 / C18 — a sink fault during a backtrace replay (finding F26)

`BacktraceStorage::process` clears `_stored_events` only *after* the loop over the callback. With the pinned callback
(plain `_dispatch_transit_event_to_sinks`) a sink whose `write_log` throws in the middle of a replay lets the exception
escape `process`: the ring keeps everything, and the next flush (`flush_backtrace()` or a statement at the flush level)
replays all of it — statements that had already been written are written a **second time**
(`C10_replay_fault_duplicates`, a `decide` witness for `replayCatchesPerEvent = false`). The delivery theorems of
`Props/C10.lean` all carry `isOrd st` (`st.lvl ≠ 9`) and count with `wcount`, which ignores level-9 writes, so none of
them saw it.

Repair (extracted as `Cfg.replayCatchesPerEvent`, obligation `Obligations.C10_replay_extracted`): both `process`
callbacks go through `_replay_backtrace_event` = `try { dispatch } catch → error_notifier`. For that value this file
proves, for **every** state, ring content, sink list and fault schedule:

* `C10_replay_is_per_event`: the replay is the fold of `replayStep` over the stored statements in ring order — every
  stored statement gets its own `dispatch` whatever happened to the ones before it, a fault is reported once
  (`n:wfail`) and the replay goes on: a write fault loses only that statement at that sink and the sinks after it
  (`C03_dispatch_exact` says what one `dispatch` writes);
* `C10_replay_never_escapes` / `C10_replay_clears_ring`: no exception escapes `process` and the ring is empty after
  every replay — so nothing can be replayed twice;
* `C10_replay_twice_writes_nothing`: a second replay directly after a replay emits nothing at all.
* level-inclusive counting `bwcount` and `C10_replay_once_per_flush`: during one replay a stored statement with a
  ring-unique id is handed to a sink at most as often as that sink occurs in the logger's sink list — for every fault
  schedule.

**partial** — stated here, not proved: the whole-log form "for every schedule `ops` and every backtrace statement id,
`bwcount (runOps s0 ops).log sid id ≤ (sinks of its logger).count sid`" (`C03_at_most_once` for level 9). It needs one
more clause in the `Closed` skeleton of bundle A (a stored id is either in exactly one ring with `bwcount = 0`, or in no
ring) — the per-replay facts below are its only non-frame closures.
-/
namespace Backend
open Backend.PA

/-- one logger, one sink whose 2nd `write_log` throws; `rc` = the extracted repair flag -/
def c10ReplayInit (rc : Bool) : BSt :=
  { cfg := { c03Cfg with replayCatchesPerEvent := rc }, now := 1000, sinks := [{ sid := 1, wthrow := [2] }],
    lgs := [{ gid := 0, sinks := [1] }], names := [(0, 0)] }

/-- `init_backtrace(4)`, three `LOG_BACKTRACE` statements (ids 0, 1, 2), `flush_backtrace()` twice, polls -/
def c10ReplaySched : List Op :=
  [.front (.tstart 0), .front (.initBt 0 0 4 10), .front (.logBt 0 0 10), .front (.logBt 0 0 10), .front (.logBt 0 0 10),
   .front (.flushBt 0 0), .front (.flushBt 0 0)] ++ List.replicate 8 (.poll [])

/-- the `write_log` calls (sink, statement id, level) and throws (level shown as 99) of a log, oldest first -/
def c10Writes (log : List Ev) : List (Nat × Nat × Nat) :=
  log.reverse.filterMap (fun e => match e with
    | .write s i l _ _ => some (s, i, l)
    | .wthrow s i => some (s, i, 99)
    | _ => none)

/-- writes of statement `id` to sink `sid`, **backtrace level included** (`wcount` counts ordinary writes only) -/
def bwcount (log : List Ev) (sid id : Nat) : Nat :=
  log.countP (fun e => match e with | .write s i _ _ _ => s == sid && i == id | _ => false)

/-- **F26, pinned callback (witness).** The first replay writes statement 0, the sink throws on statement 1 (reported),
    and the second `flush_backtrace()` replays 0, 1, 2: statement 0 — which never faulted — reaches the sink **twice**;
    `wcount`, the counting function of the C03/C10 theorems, does not see it. -/
theorem C10_replay_fault_duplicates :
    c10Writes (runOps (c10ReplayInit false) c10ReplaySched).log =
      [(1, 0, 9), (1, 1, 99), (1, 0, 9), (1, 1, 9), (1, 2, 9)] ∧
    bwcount (runOps (c10ReplayInit false) c10ReplaySched).log 1 0 = 2 ∧
    wcount (runOps (c10ReplayInit false) c10ReplaySched).log 1 0 = 0 := by
  decide

/-- **F26, repaired callback on the same schedule:** statement 0 written once, statement 1 lost at the throwing sink and
    reported, statement 2 written, and the second flush replays nothing -/
theorem C10_replay_fault_repaired :
    c10Writes (runOps (c10ReplayInit true) c10ReplaySched).log = [(1, 0, 9), (1, 1, 99), (1, 2, 9)] ∧
    bwcount (runOps (c10ReplayInit true) c10ReplaySched).log 1 0 = 1 ∧
    bwcount (runOps (c10ReplayInit true) c10ReplaySched).log 1 1 = 0 ∧
    bwcount (runOps (c10ReplayInit true) c10ReplaySched).log 1 2 = 1 ∧
    (runOps (c10ReplayInit true) c10ReplaySched).log.countP (fun e => e matches .notify "n:wfail") = 1 := by
  decide

/-- without a fault the schedule writes each stored statement once, whatever the flag -/
theorem C10_replay_without_fault_once (rc : Bool) :
    c10Writes (runOps { c10ReplayInit rc with sinks := [{ sid := 1 }] } c10ReplaySched).log =
      [(1, 0, 9), (1, 1, 9), (1, 2, 9)] := by
  cases rc <;> decide

/-! ### the repaired replay, for every state and fault schedule -/

/-- what the repaired callback does with one stored statement: dispatch it; if a sink threw, report and go on -/
def replayStep (s : BSt) (x : Stmt) : BSt :=
  if (dispatch s x).2 then (dispatch s x).1.emit (.notify "n:wfail") else (dispatch s x).1

theorem replayStep_cfg (s : BSt) (x : Stmt) : (replayStep s x).cfg = s.cfg := by
  unfold replayStep
  split
  · exact (dispatch_core s x).cfg
  · exact (dispatch_core s x).cfg

theorem replayGo_repaired : ∀ (l : List Stmt) (s : BSt), s.cfg.replayCatchesPerEvent = true →
    replayRing.go s l = (l.foldl replayStep s, false)
  | [], _, _ => rfl
  | x :: xs, s, h => by
    have hc : (dispatch s x).1.cfg.replayCatchesPerEvent = true := by rw [(dispatch_core s x).cfg]; exact h
    unfold replayRing.go
    simp only [List.foldl_cons]
    by_cases hd : (dispatch s x).2 = true
    · have e : replayStep s x = (dispatch s x).1.emit (.notify "n:wfail") := by simp [replayStep, hd]
      simp only [hd, hc, if_true]
      rw [e]
      exact replayGo_repaired xs _ hc
    · have hd' : (dispatch s x).2 = false := by simpa using hd
      have e : replayStep s x = (dispatch s x).1 := by simp [replayStep, hd']
      simp only [hd', Bool.false_eq_true, if_false]
      rw [e]
      exact replayGo_repaired xs _ hc

/-- **the repaired replay is per event:** with the ring `r` of logger `lgi`, the state after the replay is the fold of
    `replayStep` over `r.replay` (ring order, oldest first) with the ring cleared — for every state and fault schedule -/
theorem C10_replay_is_per_event (s : BSt) (lgi : Nat) (r : Ring) (hc : s.cfg.replayCatchesPerEvent = true)
    (hr : (s.lgOf lgi).bt = some r) :
    replayRing s lgi = ((r.replay.foldl replayStep s).setLg lgi (fun l => { l with bt := some r.cleared }), false) := by
  unfold replayRing
  rw [hr]
  simp only [replayGo_repaired r.replay s hc, Bool.false_eq_true, if_false]

/-- **no exception escapes a repaired replay** (so `_process_transit_event`'s own handler is not involved) -/
theorem C10_replay_never_escapes (s : BSt) (lgi : Nat) (hc : s.cfg.replayCatchesPerEvent = true) :
    (replayRing s lgi).2 = false := by
  cases hr : (s.lgOf lgi).bt with
  | none => simp [replayRing, hr]
  | some r => rw [C10_replay_is_per_event s lgi r hc hr]

theorem foldl_replayStep_lgsLen : ∀ (l : List Stmt) (s : BSt), (l.foldl replayStep s).lgs.length = s.lgs.length
  | [], _ => rfl
  | x :: xs, s => by
    rw [List.foldl_cons, foldl_replayStep_lgsLen xs]
    unfold replayStep
    split
    · exact (dispatch_core s x).lgsLen
    · exact (dispatch_core s x).lgsLen

/-- **the ring is empty after every repaired replay** — whatever the sinks did -/
theorem C10_replay_clears_ring (s : BSt) (lgi : Nat) (r : Ring) (hc : s.cfg.replayCatchesPerEvent = true)
    (hr : (s.lgOf lgi).bt = some r) (hl : lgi < s.lgs.length) :
    ((replayRing s lgi).1.lgOf lgi).bt = some r.cleared ∧ r.cleared.replay = [] := by
  rw [C10_replay_is_per_event s lgi r hc hr]
  refine ⟨?_, by simp [Ring.cleared, Ring.replay]⟩
  rw [lgOf_setLg]
  simp [foldl_replayStep_lgsLen, hl]

/-- **nothing is replayed twice:** a second replay directly after a repaired replay changes nothing but re-clearing the
    empty ring — in particular it emits no event -/
theorem C10_replay_twice_writes_nothing (s : BSt) (lgi : Nat) (r : Ring) (hc : s.cfg.replayCatchesPerEvent = true)
    (hr : (s.lgOf lgi).bt = some r) (hl : lgi < s.lgs.length) :
    (replayRing (replayRing s lgi).1 lgi).1.log = (replayRing s lgi).1.log := by
  obtain ⟨h1, h2⟩ := C10_replay_clears_ring s lgi r hc hr hl
  have hc' : (replayRing s lgi).1.cfg.replayCatchesPerEvent = true := by
    rw [(replayRing_core s lgi).cfg]; exact hc
  rw [C10_replay_is_per_event _ lgi _ hc' h1, h2]
  rfl

/-! ### counting writes of any level during a replay -/

/-- is this event a write of statement `id` to sink `sid` (any level)? -/
def anyWrite (sid id : Nat) : Ev → Bool
  | .write s i _ _ _ => s == sid && i == id
  | _ => false

theorem bwcount_eq (log : List Ev) (sid id : Nat) : bwcount log sid id = log.countP (anyWrite sid id) := by
  unfold bwcount; congr 1

theorem writeToSinks_bwcount (st : Stmt) (sid id : Nat) : ∀ (sids : List Nat) (s : BSt),
    bwcount (writeToSinks s st sids).1.log sid id ≤
      bwcount s.log sid id + (if st.id = id then sids.count sid else 0)
  | [], s => by simp [writeToSinks]
  | x :: rest, s => by
    unfold writeToSinks
    dsimp only
    split
    · split
      · show bwcount (Ev.wthrow x st.id :: s.log) sid id ≤ _
        rw [bwcount_eq, bwcount_eq, List.countP_cons]
        simp [anyWrite]
      · have ih := writeToSinks_bwcount st sid id rest
          ((s.setSink x (fun _ => { s.sinkOf x with wcalls := (s.sinkOf x).wcalls + 1 })).emit
            (.write x st.id st.lvl st.ts st.named))
        have h1 : bwcount ((s.setSink x (fun _ => { s.sinkOf x with wcalls := (s.sinkOf x).wcalls + 1 })).emit
            (.write x st.id st.lvl st.ts st.named)).log sid id =
            bwcount s.log sid id + (if x = sid ∧ st.id = id then 1 else 0) := by
          show bwcount (Ev.write x st.id st.lvl st.ts st.named :: s.log) sid id = _
          rw [bwcount_eq, bwcount_eq, List.countP_cons]
          congr 1
          by_cases h1 : x = sid <;> by_cases h2 : st.id = id <;> simp [anyWrite, h1, h2]
        rw [List.count_cons]
        by_cases h1' : x = sid <;> by_cases h2 : st.id = id <;> simp_all <;> omega
    · have ih := writeToSinks_bwcount st sid id rest s
      rw [List.count_cons]
      split at ih <;> simp_all <;> omega

theorem replayStep_bwcount (s : BSt) (x : Stmt) (sid id : Nat) :
    bwcount (replayStep s x).log sid id ≤
      bwcount s.log sid id + (if x.id = id then (s.lgOf x.lg).sinks.count sid else 0) := by
  have h := writeToSinks_bwcount x sid id (s.lgOf x.lg).sinks s
  unfold replayStep
  split
  · show bwcount (Ev.notify "n:wfail" :: (dispatch s x).1.log) sid id ≤ _
    rw [bwcount_eq, List.countP_cons]
    simp only [anyWrite, Bool.false_eq_true, if_false, Nat.add_zero]
    rw [← bwcount_eq]; exact h
  · exact h

theorem replayStep_sinks (s : BSt) (x : Stmt) (i : Nat) : ((replayStep s x).lgOf i).sinks = (s.lgOf i).sinks := by
  unfold replayStep
  split
  · exact ((dispatch_core s x).lgs i).2
  · exact ((dispatch_core s x).lgs i).2

theorem foldl_replayStep_bwcount (lgi sid id : Nat) : ∀ (l : List Stmt) (s : BSt), (∀ x ∈ l, x.lg = lgi) →
    bwcount (l.foldl replayStep s).log sid id ≤
      bwcount s.log sid id + (l.filter (fun x => x.id == id)).length * (s.lgOf lgi).sinks.count sid
  | [], s, _ => by simp
  | x :: xs, s, hl => by
    rw [List.foldl_cons]
    have ih := foldl_replayStep_bwcount lgi sid id xs (replayStep s x) (fun y hy => hl y (List.mem_cons_of_mem _ hy))
    rw [replayStep_sinks] at ih
    have h1 := replayStep_bwcount s x sid id
    rw [hl x List.mem_cons_self] at h1
    rw [List.filter_cons]
    by_cases hx : x.id = id
    · simp only [hx, beq_self_eq_true, if_true, List.length_cons] at h1 ⊢
      rw [Nat.succ_mul]; omega
    · have : (x.id == id) = false := by simpa using hx
      simp only [hx, if_false, this, Bool.false_eq_true] at h1 ⊢
      omega

/-- **once per flush, level 9 included, under every fault schedule:** during one repaired replay a stored statement whose
    id occurs once in the ring is handed to sink `sid` at most as often as `sid` occurs in the logger's sink list (once,
    for a duplicate-free list) -/
theorem C10_replay_once_per_flush (s : BSt) (lgi : Nat) (r : Ring) (hc : s.cfg.replayCatchesPerEvent = true)
    (hr : (s.lgOf lgi).bt = some r) (hlg : ∀ x ∈ r.items, x.lg = lgi) (sid id : Nat)
    (hu : (r.items.filter (fun x => x.id == id)).length ≤ 1) :
    bwcount (replayRing s lgi).1.log sid id ≤ bwcount s.log sid id + (s.lgOf lgi).sinks.count sid := by
  rw [C10_replay_is_per_event s lgi r hc hr]
  show bwcount (r.replay.foldl replayStep s).log sid id ≤ _
  have hmem : ∀ x ∈ r.replay, x.lg = lgi := by
    intro x hx
    simp only [Ring.replay, List.mem_append] at hx
    rcases hx with hx | hx
    · exact hlg x (List.mem_of_mem_drop hx)
    · exact hlg x (List.mem_of_mem_take hx)
  have h := foldl_replayStep_bwcount lgi sid id r.replay s hmem
  have hlen : (r.replay.filter (fun x => x.id == id)).length = (r.items.filter (fun x => x.id == id)).length := by
    simp only [Ring.replay, List.filter_append, List.length_append]
    rw [Nat.add_comm, ← List.length_append, ← List.filter_append, List.take_append_drop]
  rw [hlen] at h
  have : (r.items.filter (fun x => x.id == id)).length * (s.lgOf lgi).sinks.count sid ≤ (s.lgOf lgi).sinks.count sid := by
    rcases Nat.le_one_iff_eq_zero_or_eq_one.mp hu with h0 | h0 <;> rw [h0] <;> simp
  omega

end Backend
