import QuillModel.Backend.ConsProofsFault
import QuillModel.Props.C03
/-!
# C10 — a sink that throws disturbs nothing else

Property theorems only (helper lemmas: `QuillModel/Backend/ConsProofsFault.lean` and the C03 files). Object: the
end-to-end model `Backend/{Model,Sched,Ops}.lean`; a sink carries an **arbitrary fault assignment**: `wthrow` /
`fthrow` list the call numbers at which its `write_log` / `flush_sink` throws. Quantifiers: every fault
assignment of every sink, every schedule `ops : List Op` (with injections inside polls), every configuration,
every initial state satisfying `Inv` (every `Fresh` system — whose sinks, with their fault lists, are arbitrary).
A backtrace statement logged without `init_backtrace` is the third fault covered here. Formatter exceptions
(unformattable statement, finding F4) are not part of this model: statements are abstract records; the format
step is modelled and tied to the code in C04's bundle (`Cfg.catchAllFormat` is carried for the driver only).
-/
namespace Backend
open Backend.PA

/-- **Faults do not disturb conservation and order.** Whatever the sinks throw, for every context in every
    reachable state `accepted = popped ++ buf ++ qStmts`: each statement of each thread is popped exactly once,
    in issue order — no record is re-read after an exception, none is skipped. (This is C03's invariant; its
    proof never looks at what the sinks do.) -/
theorem C10_conservation_under_faults (s0 : BSt) (h0 : Inv s0) (ops : List Op) (i : Nat) :
    ((runOps s0 ops).th i).accepted =
      ((runOps s0 ops).th i).popped ++ ((runOps s0 ops).th i).buf ++ ((runOps s0 ops).th i).qStmts :=
  C03_conservation s0 h0 ops i

/-- **The event is popped on the exception path too.** In any state, processing the front event `st` of
    context `i` — whether or not an exception escapes from a sink or the backtrace replay — removes exactly that
    event from that buffer, appends it to the pop histories and leaves every other context untouched. -/
theorem C10_pop_on_every_path (s : BSt) (i : Nat) (st : Stmt) (rest : List Stmt) (hb : (s.th i).buf = st :: rest) :
    ((popStep s i st rest).th i).buf = rest ∧ ((popStep s i st rest).th i).popped = (s.th i).popped ++ [st] ∧
    (popStep s i st rest).popLog = st :: s.popLog ∧ ∀ j, j ≠ i → (popStep s i st rest).th j = s.th j :=
  popStep_pops s i st rest hb

/-- whenever a transit buffer holds an event, `_process_lowest_timestamp_transit_event` processes one (the
    backend does not get stuck on a faulty statement: the event it processed is gone afterwards, previous theorem) -/
theorem C10_process_makes_progress (inj : BSt → Nat → BSt) (s : BSt) (i : Nat) (st : Stmt) (rest : List Stmt)
    (hl : lowest s = some i) (hb : (s.th i).buf = st :: rest) : (processLowest inj s).2 = true := by
  rw [processLowest_eq, hl]
  dsimp only
  rw [hb]
  dsimp only
  split <;> rfl

/-- **A write fault loses at most that statement on that sink and the sinks after it.** If an exception escapes
    from the dispatch of `st`, the sink list of its logger splits as `pre ++ sid :: post` where `sid` is the
    first accepting sink whose `write_log` throws: every accepting sink in `pre` has received the statement
    exactly once, `sid` left a `wthrow`, the sinks in `post` were not called. Nothing else is touched: no
    context, queue, buffer, actor, registry, pop history, logger sink list, sink configuration (`Core`). -/
theorem C10_write_fault_local (s : BSt) (st : Stmt) (hx : (dispatch s st).2 = true) :
    (∃ pre sid post, (s.lgOf st.lg).sinks = pre ++ sid :: post ∧ acc s st sid = true ∧
      (dispatch s st).1.log = Ev.wthrow sid st.id :: ((pre.filter (acc s st)).map (W st)).reverse ++ s.log) ∧
    Core s (dispatch s st).1 := by
  refine ⟨?_, dispatch_core s st⟩
  rcases C03_dispatch_exact s st with ⟨h1, _⟩ | ⟨pre, sid, post, h1, _, h3, h4⟩
  · rw [hx] at h1; cases h1
  · exact ⟨pre, sid, post, h1, h3, h4⟩

/-- processing any event changes nothing but sink call counters, backtrace rings and the history -/
theorem C10_process_event_local (s : BSt) (st : Stmt) : Core s (processEvent s st).1 := processEvent_core s st

/-- **The fault assignment itself is never altered**: in every reachable state every sink still has the
    `write_log` / `flush_sink` fault schedule, filters and id it started with (so "the k-th call throws" means
    the same thing throughout, and the statements not hit by a fault are dispatched by `C03_dispatch_exact`). -/
theorem C10_fault_schedule_constant (s0 : BSt) (ops : List Op) (sid : Nat) :
    ((runOps s0 ops).sinkOf sid).wthrow = (s0.sinkOf sid).wthrow ∧
    ((runOps s0 ops).sinkOf sid).fthrow = (s0.sinkOf sid).fthrow ∧
    ((runOps s0 ops).sinkOf sid).filtM = (s0.sinkOf sid).filtM ∧
    ((runOps s0 ops).sinkOf sid).filtR = (s0.sinkOf sid).filtR := by
  have h := runOps_closed (SinkCfgSame.closed s0) ops s0 (fun _ => ⟨rfl, rfl, rfl, rfl, rfl⟩) sid
  exact ⟨h.2.2.2.1, h.2.2.2.2, h.2.1, h.2.2.1⟩

/-- **Still at most once under faults**: whatever throws, an accepted ordinary statement is never written to a
    sink more often than the sink occurs in its logger's sink list (no duplicate caused by a retry). -/
theorem C10_at_most_once_under_faults (s0 : BSt) (h0 : Inv s0) (ops : List Op) (i : Nat) (st : Stmt)
    (hm : st ∈ ((runOps s0 ops).th i).accepted) (hord : isOrd st = true) (sid : Nat) :
    wcount (runOps s0 ops).log sid st.id ≤ ((runOps s0 ops).lgOf st.lg).sinks.count sid :=
  C03_at_most_once s0 h0 ops i st hm hord sid

/-- **`_flush_and_run_active_sinks` visits every active sink whatever throws**: the flush events it appends to
    the history, read in order, name exactly the active sinks, each once, in `LoggerManager` order; a sink
    whose `flush_sink` throws leaves `fthrow` and the notification `n:ffail` instead of `flushed`, and the sinks
    after it are still flushed. -/
theorem C10_flush_visits_every_sink (s : BSt) :
    ∃ evs, (flushSinks s).log = evs ++ s.log ∧ evs.reverse.filterMap flushVisit = activeSinks s ∧
      ∀ e ∈ evs, isFlushEv e = true :=
  flushSinks_spec s

/-- **A flush fault loses nothing**: flushing touches no context, actor, queue, buffer, pop history, logger or
    sink configuration and emits no `write` (`Frame`). -/
theorem C10_flush_fault_loses_nothing (s : BSt) : Frame s (flushSinks s) := flushSinks_frame s

/-- **Flush flags are still raised**: when the front event chosen by the backend is a Flush request, its flag
    is raised by that very call of `_process_lowest_timestamp_transit_event`, whatever the sinks throw while
    being flushed (so `flush_log()` still returns). -/
theorem C10_flush_flag_raised (inj : BSt → Nat → BSt) (s : BSt) (i : Nat) (st : Stmt) (rest : List Stmt) (f : Nat)
    (hl : lowest s = some i) (hb : (s.th i).buf = st :: rest) (hk : st.kind = .flush f) :
    f ∈ (processLowest inj s).1.flags :=
  (processLowest_flush_flag inj s i st rest f hl hb hk).1

/-- **Backtrace statement without `init_backtrace`**: reported (`n:nobt`), skipped, popped; nothing else changes. -/
theorem C10_backtrace_without_init (s : BSt) (st : Stmt) (hk : st.kind = .log) (hl : st.lvl = 9)
    (hn : (s.lgOf st.lg).bt = none) : processEvent s st = (s, some "n:nobt", none) := by
  unfold processEvent
  rw [hk]
  simp [hl, hn]

/-! ### every other statement: exactly once, in order; every fault reported -/

/-- **A statement whose own dispatch hit no write fault is delivered exactly once, whatever faults hit others.** With
    arbitrary `write_log` / `flush_sink` fault schedules on every sink: when the backend processes the ordinary
    statement `st` and no `write_log` call made for `st` throws (`(dispatch s st).2 = false` — a hypothesis about
    `st` alone; statements before and after may fault on any sink, flushes may fault), then at the end of that
    processing call and after EVERY further schedule the whole history contains, at every sink `sid`, exactly as many
    ordinary writes of `st.id` as `sid` occurs among the sinks of `st`'s logger that accepted it at dispatch time:
    exactly one per accepting sink listed once, none otherwise. (`Inv` puts no condition on the sinks' fault lists.) -/
theorem C10_unfaulted_exactly_once (s : BSt) (h : Inv s) (table : List (Nat × Nat × List FOp)) (i : Nat) (st : Stmt)
    (rest : List Stmt) (hl : lowest s = some i) (hb : (s.th i).buf = st :: rest) (hord : isOrd st = true)
    (hnf : (dispatch s st).2 = false) (ops : List Op) (sid : Nat) :
    wcount (runOps (processLowest (runInj table) s).1 ops).log sid st.id =
      ((s.lgOf st.lg).sinks.filter (acc s st)).count sid :=
  C03_exactly_once s h table i st rest hl hb hord hnf ops sid

/-- **Order under faults**: with arbitrary fault schedules, two ordinary statements issued by one thread in the order
    `st1`, `st2` are never written to a sink in the opposite order — a fault removes writes (of the faulted statement,
    at the faulting sink and the sinks after it), it never reorders the others. (`log` is newest first.) -/
theorem C10_order_under_faults (s0 : BSt) (sid : Nat) (h0 : OrdInv sid s0) (ops : List Op) (i : Nat)
    (l1 l2 l3 : List Stmt) (st1 st2 : Stmt)
    (ha : ((runOps s0 ops).th i).accepted = l1 ++ st1 :: (l2 ++ st2 :: l3))
    (ho1 : isOrd st1 = true) (ho2 : isOrd st2 = true) (a b c : List Ev) (e1 e2 : Ev)
    (hlog : (runOps s0 ops).log = a ++ e1 :: (b ++ e2 :: c)) :
    ¬ (ordWrite sid st1.id e1 = true ∧ ordWrite sid st2.id e2 = true) :=
  C03_thread_order_at_sink s0 sid h0 ops i l1 l2 l3 st1 st2 ha ho1 ho2 a b c e1 e2 hlog

/-- **A write fault is reported through the notifier, once, in the same step**: when the dispatch of the ordinary
    statement `st` throws, the pop appends to the history the events of the dispatch — which end with the `wthrow` of
    the faulting sink (`C10_write_fault_local`) — and then exactly the notification `n:wfail`. -/
theorem C10_write_fault_reported (s : BSt) (i : Nat) (st : Stmt) (rest : List Stmt) (hord : isOrd st = true)
    (hx : (dispatch s st).2 = true) :
    (popStep s i st rest).log = Ev.notify "n:wfail" :: (dispatch s st).1.log :=
  popStep_wfault_reported s i st rest hord hx

/-- **Every flush fault is reported through the notifier, once, in the same step**: among the events one call of
    `_flush_and_run_active_sinks` appends there are exactly as many `n:ffail` notifications as `fthrow` events, and each
    `fthrow` is immediately followed (next newer event) by its notification. -/
theorem C10_flush_fault_reported (s : BSt) :
    ∃ evs, (flushSinks s).log = evs ++ s.log ∧ evs.countP isFthrow = evs.countP isFfail ∧
      ∀ a b e, evs = a ++ e :: b → isFthrow e = true → ∃ a', a = a' ++ [Ev.notify "n:ffail"] :=
  flushSinks_reported s

/-! ### non-vacuity: a system whose sinks throw -/

/-- sink 1 throws on its 2nd write and its 1st flush, sink 2 on its 1st write -/
def c10Init : BSt :=
  { cfg := c03Cfg, now := 1000,
    sinks := [{ sid := 1, wthrow := [2], fthrow := [1] }, { sid := 2, wthrow := [1] }],
    lgs := [{ gid := 0, sinks := [1, 2] }], names := [(0, 0)] }

theorem c10Init_fresh : Fresh c10Init :=
  ⟨by decide, rfl, rfl, rfl, rfl, fun i => by
    cases i with
    | zero => rfl
    | succ j => rw [lgOf_default_of_ge _ _ (by simp [c10Init])]; rfl⟩

/-- three statements, a backtrace statement without init, a flush request, one poll per event -/
def c10Sched : List Op :=
  [.front (.tstart 0), .front (.log 0 0 4 10 true), .front (.log 0 0 4 10 true), .front (.logBt 0 0 10),
   .front (.log 0 0 4 10 true), .front (.flush 0 0), .poll [], .poll [], .poll [], .poll [], .poll [],
   .front (.resume 0)]

/-- what the model does on it: statement 0 reaches sink 1 and faults on sink 2; statement 1 faults on sink 1 (and
    is not offered to sink 2); the backtrace statement is reported; statement 3 reaches both sinks; the flush of
    sink 1 throws, sink 2 is flushed all the same; the flag is raised and the caller returns; all five events
    were popped in order -/
example : ((runOps c10Init c10Sched).th 0).popped.map (·.id) = [0, 1, 2, 3, 0] ∧
    ((runOps c10Init c10Sched).th 0).buf.length = 0 ∧
    wcount (runOps c10Init c10Sched).log 1 0 = 1 ∧ wcount (runOps c10Init c10Sched).log 2 0 = 0 ∧
    wcount (runOps c10Init c10Sched).log 1 1 = 0 ∧ wcount (runOps c10Init c10Sched).log 2 1 = 0 ∧
    wcount (runOps c10Init c10Sched).log 1 3 = 1 ∧ wcount (runOps c10Init c10Sched).log 2 3 = 1 ∧
    (runOps c10Init c10Sched).flags = [0] ∧ (runOps c10Init c10Sched).actors.map isParked = [false] ∧
    ((runOps c10Init c10Sched).log.filterMap flushVisit).reverse = [1, 2] := by decide

/-- non-vacuity of "every other statement": statements 0 and 1 fault (on sink 2 resp. sink 1), the backtrace statement is
    rejected, the flush of sink 1 faults — statement 3, issued after them, is written exactly once to each sink, after
    statement 0's write at sink 1; one `n:wfail` per write fault, one `n:ffail` for the flush fault -/
example : wcount (runOps c10Init c10Sched).log 1 3 = 1 ∧ wcount (runOps c10Init c10Sched).log 2 3 = 1 ∧
    ((runOps c10Init c10Sched).log.reverse.filterMap
      (fun e => match e with | .write 1 id _ _ _ => some id | _ => none)) = [0, 3] ∧
    (runOps c10Init c10Sched).log.countP (fun e => match e with | .wthrow _ _ => true | _ => false) = 2 ∧
    (runOps c10Init c10Sched).log.countP (fun e => match e with | .notify m => m == "n:wfail" | _ => false) = 2 ∧
    (runOps c10Init c10Sched).log.countP isFthrow = 1 ∧ (runOps c10Init c10Sched).log.countP isFfail = 1 := by decide

end Backend
