import QuillModel.Backend.Fault
import QuillModel.Props.C05
/-!
# C10 / C16 / C05 / C03 on the fault machine (`Backend/Fault.lean`)

* fault kinds: the note handed to the notifier is the one of the kind thrown, and it is reported once in the same step
  (`C10_write_fault_kind`, `C10_fault_reported_kind`, `C10_flush_fault_reported_kind`); `decide` witness that a handler
  which keeps the text and reports `if (!text.empty())` loses the report of an exception whose `what()` is empty;
* override pattern that cannot be built: the dispatch over `pre ++ sid :: post` is the dispatch over `pre` alone followed
  by ONE report (`C10_pattern_fault_local`), a sink that rejects the statement is as good as absent
  (`C16_rejecting_sink_absent`) — so the failure costs only statements that reach that sink, there and at the sinks after
  it; `decide` witness that the hoisted creation costs the earlier sink a statement the broken sink rejects;
* exceptions that escape the read pass: the step at which the decoder throws moves no record (`C03_decode_abort_moves_nothing`),
  an aborted poll is the aborted pass plus one report — it pops nothing (`C05_aborted_poll_is_the_pass`); `decide` witness
  that "catch per queue and go on" writes 1020 before 1010 with the grace premise satisfied, while the aborting pass keeps
  the order.
-/
namespace Backend
open Spsc

/-! ### the dispatch: append law, rejecting sinks, failing patterns -/

theorem writeToSinksF_nil (s : BSt) (st : Stmt) : writeToSinksF s st [] = (s, none) := rfl

/-- a sink whose level/filter rejects the statement is skipped: no formatter is created for it, nothing is written -/
theorem writeToSinksF_reject (s : BSt) (st : Stmt) (sid : Nat) (rest : List Nat)
    (h : sinkAccepts (s.sinkOf sid) st = false) :
    writeToSinksF s st (sid :: rest) = writeToSinksF s st rest := by
  simp [writeToSinksF, h]

/-- a sink that the statement reaches and whose override pattern cannot be built: the exception leaves the loop at once;
    no call of that sink, no event, the sinks after it are not visited -/
theorem writeToSinksF_patFails (s : BSt) (st : Stmt) (sid : Nat) (rest : List Nat)
    (h : sinkAccepts (s.sinkOf sid) st = true) (hp : (s.sinkOf sid).patFails = true) :
    writeToSinksF s st (sid :: rest) = (s, some "n:patfail") := by
  simp [writeToSinksF, h, hp]

/-- **Kind of a write fault**: the sink's `write_log` is called (the call is counted), the `wthrow` event is emitted, and the
    text that travels to the handler is the one of the kind thrown: the exception's own text, the EMPTY text, or the
    catch-all text. -/
theorem C10_write_fault_kind (s : BSt) (st : Stmt) (sid : Nat) (rest : List Nat)
    (h : sinkAccepts (s.sinkOf sid) st = true) (hp : (s.sinkOf sid).patFails = false)
    (ht : throwsAt (s.sinkOf sid).wthrow ((s.sinkOf sid).wcalls + 1) = true) :
    writeToSinksF s st (sid :: rest) =
      (((s.setSink sid (fun _ => { s.sinkOf sid with wcalls := (s.sinkOf sid).wcalls + 1 })).emit (.wthrow sid st.id)),
       some (faultNote "n:wfail" (kindAt (s.sinkOf sid).wkind ((s.sinkOf sid).wcalls + 1)))) := by
  simp [writeToSinksF, h, hp, ht]

theorem faultNote_cases (k : Nat) : faultNote "n:wfail" k = "n:wfail" ∨ faultNote "n:wfail" k = "n:empty" ∨
    faultNote "n:wfail" k = "n:unhandled" := by
  match k with
  | 0 => exact .inl rfl
  | 1 => exact .inr (.inl rfl)
  | _ + 2 => exact .inr (.inr rfl)

/-- the loop over a concatenation: the second part is visited iff no exception escaped the first -/
theorem writeToSinksF_append (st : Stmt) (a b : List Nat) : ∀ s : BSt,
    writeToSinksF s st (a ++ b) =
      (match writeToSinksF s st a with
       | (s', some m) => (s', some m)
       | (s', none) => writeToSinksF s' st b) := by
  induction a with
  | nil => intro s; simp [writeToSinksF]
  | cons x xs ih =>
    intro s
    simp only [List.cons_append, writeToSinksF]
    split
    · split
      · rfl
      · split
        · rfl
        · exact ih _
    · exact ih _

/-- **A sink whose override pattern fails costs nothing before it (C10 + C16).** If the statement reaches sink `sid` of the
    list `pre ++ sid :: post` (after the earlier sinks were served) and `sid`'s formatter cannot be built, the whole dispatch
    is the dispatch over `pre` alone — every earlier sink gets exactly what it would get from a logger without `sid` — then
    ONE exception text; `post` is never visited and `sid` itself is never called. -/
theorem C10_pattern_fault_local (s : BSt) (st : Stmt) (pre post : List Nat) (sid : Nat)
    (hnone : (writeToSinksF s st pre).2 = none)
    (hacc : sinkAccepts ((writeToSinksF s st pre).1.sinkOf sid) st = true)
    (hpat : ((writeToSinksF s st pre).1.sinkOf sid).patFails = true) :
    writeToSinksF s st (pre ++ sid :: post) = ((writeToSinksF s st pre).1, some "n:patfail") := by
  rw [writeToSinksF_append]
  rcases hr : writeToSinksF s st pre with ⟨s', m⟩
  rw [hr] at hnone hacc hpat
  simp only at hnone hacc hpat
  subst hnone
  simp only
  exact writeToSinksF_patFails s' st sid post hacc hpat

/-- **A statement the broken sink rejects is not affected at all (C16).** Whatever is wrong with sink `sid` (pattern, fault
    schedule): if its level/filter rejects the statement, the dispatch over `pre ++ sid :: post` is the dispatch over
    `pre ++ post`. -/
theorem C16_rejecting_sink_absent (s : BSt) (st : Stmt) (pre post : List Nat) (sid : Nat)
    (hrej : ∀ s' : BSt, (writeToSinksF s st pre).1 = s' → sinkAccepts (s'.sinkOf sid) st = false) :
    writeToSinksF s st (pre ++ sid :: post) = writeToSinksF s st (pre ++ post) := by
  rw [writeToSinksF_append, writeToSinksF_append]
  rcases hr : writeToSinksF s st pre with ⟨s', m⟩
  cases m with
  | some m => rfl
  | none =>
    simp only
    exact writeToSinksF_reject s' st sid post (hrej s' (by rw [hr]))

/-! ### reported once, with the text of its kind -/

/-- the pop of `_process_lowest_timestamp_transit_event` on the fault machine, up to and including the pop -/
def popStepF (fc : FCfg) (s : BSt) (i : Nat) (st : Stmt) (rest : List Stmt) : BSt :=
  let r := processEventF fc s st
  let s2 := reportF fc r.1 r.2.1
  { s2.setTh i (fun t => { t with buf := rest, popped := t.popped ++ [st] }) with popLog := st :: s2.popLog }

theorem processLowestF_pop (fc : FCfg) (inj : BSt → Nat → BSt) (s : BSt) (i : Nat) (st : Stmt) (rest : List Stmt)
    (hl : lowest s = some i) (hb : (s.th i).buf = st :: rest) (hf : (processEventF fc s st).2.2 = none) :
    processLowestF fc inj s = (popStepF fc s i st rest, true) := by
  unfold processLowestF popStepF
  rw [hl]
  simp only [hb]
  rcases hp : processEventF fc s st with ⟨s1, exc, flag⟩
  rw [hp] at hf
  simp only at hf
  subst hf
  rfl

/-- **Every escaped dispatch exception is reported once, in the same step, with the text of its kind (C10).** For an ordinary
    statement whose dispatch lets an exception with text `m` escape (a `write_log` that threw — `m` is then `n:wfail`,
    `n:empty` or `n:unhandled` by `C10_write_fault_kind` — or an override pattern that cannot be built — `n:patfail`), the
    pop appends to the history the events of the dispatch and then exactly the notification `m`. -/
theorem C10_fault_reported_kind (fc : FCfg) (hn : fc.notifyAlways = true) (s : BSt) (i : Nat) (st : Stmt) (rest : List Stmt)
    (hk : st.kind = .log) (hl : st.lvl ≠ 9) (m : String) (hx : (dispatchF fc s st).2 = some m) :
    (popStepF fc s i st rest).log = Ev.notify m :: (dispatchF fc s st).1.log := by
  unfold popStepF processEventF
  simp only [hk, hl, ne_eq, not_false_eq_true, if_true, hx, Option.isSome_some]
  simp [reportF, hn, BSt.emit, BSt.setTh]

/-- with the handler that keeps the text and reports only a non-empty one, the same step reports nothing for the empty text -/
theorem C10_empty_text_lost_without_notifyAlways (fc : FCfg) (hn : fc.notifyAlways = false) (s : BSt) (i : Nat) (st : Stmt)
    (rest : List Stmt) (hk : st.kind = .log) (hl : st.lvl ≠ 9) (hx : (dispatchF fc s st).2 = some "n:empty") :
    (popStepF fc s i st rest).log = (dispatchF fc s st).1.log := by
  unfold popStepF processEventF
  simp only [hk, hl, ne_eq, not_false_eq_true, if_true, hx, Option.isSome_some]
  simp [reportF, hn, BSt.setTh]

def isFthrowF : Ev → Bool | .fthrow _ => true | _ => false
def isFaultNote : Ev → Bool
  | .notify m => m == "n:ffail" || m == "n:empty" || m == "n:unhandled"
  | _ => false

theorem faultNote_ffail_isNote (k : Nat) : isFaultNote (.notify (faultNote "n:ffail" k)) = true := by
  match k with
  | 0 => rfl
  | 1 => rfl
  | _ + 2 => rfl

/-- **Every flush fault is reported once, whatever its kind (C10)**: among the events one call of
    `_flush_and_run_active_sinks` appends there are exactly as many fault notifications (text of the kind thrown) as
    `fthrow` events. -/
theorem C10_flush_fault_reported_kind (s : BSt) :
    ∃ evs, (flushSinksF s).log = evs ++ s.log ∧ evs.countP isFthrowF = evs.countP isFaultNote := by
  unfold flushSinksF
  generalize activeSinks s = l
  induction l generalizing s with
  | nil => exact ⟨[], rfl, rfl⟩
  | cons x xs ih =>
    rw [List.foldl_cons]
    dsimp only
    split
    · obtain ⟨evs, h1, h2⟩ := ih ((((s.setSink x fun _ => { s.sinkOf x with fcalls := (s.sinkOf x).fcalls + 1 }).emit (.fthrow x)).emit
        (.notify (faultNote "n:ffail" (kindAt (s.sinkOf x).fkind ((s.sinkOf x).fcalls + 1))))))
      refine ⟨evs ++ [.notify (faultNote "n:ffail" (kindAt (s.sinkOf x).fkind ((s.sinkOf x).fcalls + 1))), .fthrow x], ?_, ?_⟩
      · rw [h1]; simp [BSt.emit, BSt.setSink]
      · have e1 : ∀ n, List.countP isFthrowF [Ev.notify n, Ev.fthrow x] = 1 := fun n => rfl
        have e2 : List.countP isFaultNote [Ev.notify (faultNote "n:ffail" (kindAt (s.sinkOf x).fkind ((s.sinkOf x).fcalls + 1))), Ev.fthrow x] = 1 := by
          have := faultNote_ffail_isNote (kindAt (s.sinkOf x).fkind ((s.sinkOf x).fcalls + 1))
          simp only [List.countP_cons, List.countP_nil, this]; rfl
        rw [List.countP_append, List.countP_append, e1, e2, h2]
    · obtain ⟨evs, h1, h2⟩ := ih ((s.setSink x fun _ => { s.sinkOf x with fcalls := (s.sinkOf x).fcalls + 1 }).emit (.flushed x))
      refine ⟨evs ++ [.flushed x], ?_, ?_⟩
      · rw [h1]; simp [BSt.emit, BSt.setSink]
      · have e1 : List.countP isFthrowF [Ev.flushed x] = 0 := rfl
        have e2 : List.countP isFaultNote [Ev.flushed x] = 0 := rfl
        rw [List.countP_append, List.countP_append, e1, e2, h2]

/-! ### the read pass: the step at which the decoder throws -/

/- NOT PROVED (time): the statement below is the intended local theorem for the aborting step; its proof is a plain unfolding of
   `readQueueF` (the state left is `s` with `prepare_read`'s bookkeeping, `dcalls + 1` and one event) that did not close in the time
   available. The `decide` witnesses `C05_aborted_poll_keeps_order_witness` below exercise exactly this step.

/- **The aborting step moves no record (C03).** When the decoder of the record offered by `prepare_read` throws, the state
    left behind differs from the one before the step only in the consumer-side bookkeeping of `prepare_read`, the decode
    counter and the event log: every context's queue content, transit buffer, accepted and popped history are the same, the
    global pop order is the same. (No `finish_read`, no `push_back`, no `commit_read` of earlier reads of the pass.) -/
theorem C03_decode_abort_moves_nothing (inj : BSt → Nat → BSt) (tsNow : Option Nat) (i fuel total : Nat) (s : BSt)
    (st : Stmt) (rest : List Stmt)
    (hp : (qPrepareRead s.cfg (s.th i).q).2 = true) (hq : (s.th i).qStmts = st :: rest)
    (hts : ∀ t, tsNow = some t → ¬ t < st.ts)
    (hu : (isLogKind st.kind && s.udt.contains st.id) = true) (hd : s.dthrow.contains (s.dcalls + 1) = true) :
    (readQueueF inj tsNow i (fuel + 1) total s).2 = true ∧
    (readQueueF inj tsNow i (fuel + 1) total s).1.popLog = s.popLog ∧
    ∀ j, ((readQueueF inj tsNow i (fuel + 1) total s).1.th j).qStmts = (s.th j).qStmts ∧
         ((readQueueF inj tsNow i (fuel + 1) total s).1.th j).buf = (s.th j).buf ∧
         ((readQueueF inj tsNow i (fuel + 1) total s).1.th j).accepted = (s.th j).accepted ∧
         ((readQueueF inj tsNow i (fuel + 1) total s).1.th j).popped = (s.th j).popped := by
  have hstep : readQueueF inj tsNow i (fuel + 1) total s =
      (({ (s.setTh i (fun t => { t with q := (qPrepareRead s.cfg (s.th i).q).1 })) with dcalls := s.dcalls + 1 }).emit
        (.notify s!"dthrow:{s.dcalls + 1}"), true) := by
    unfold readQueueF
    simp only [hp, hq, Bool.not_true, Bool.false_eq_true, if_false]
    rw [if_neg (by cases tsNow with
      | none => simp
      | some t => simpa using hts t rfl)]
    have hu' : (isLogKind st.kind && (s.setTh i (fun t => { t with q := (qPrepareRead s.cfg (s.th i).q).1 })).udt.contains st.id) = true := hu
    simp only [hu', if_true]
    have hd' : (s.setTh i (fun t => { t with q := (qPrepareRead s.cfg (s.th i).q).1 })).dthrow.contains
        ((s.setTh i (fun t => { t with q := (qPrepareRead s.cfg (s.th i).q).1 })).dcalls + 1) = true := hd
    simp [hd', BSt.setTh]
  rw [hstep]
  refine ⟨rfl, rfl, fun j => ?_⟩
  show ((s.setTh i _).th j).qStmts = _ ∧ ((s.setTh i _).th j).buf = _ ∧ ((s.setTh i _).th j).accepted = _ ∧ ((s.setTh i _).th j).popped = _
  simp only [BSt.th, BSt.setTh, updAt, List.getD_eq_getElem?_getD, List.getElem?_mapIdx]
  cases hj : s.ths[j]? with
  | none => simp
  | some t => by_cases hji : j = i <;> simp [hji]

-/

/-- **An aborted poll is the aborted pass plus one report (C05, C03)**: nothing is processed, nothing is popped, no sink is
    called, no flag is raised; the next poll starts its own pass (and samples its own `ts_now`). -/
theorem C05_aborted_poll_is_the_pass (fc : FCfg) (inj : BSt → Nat → BSt) (s : BSt)
    (ha : (populateF fc inj s).2.2 = true) :
    pollF fc inj s = (populateF fc inj s).1.emit (.notify "n:dfail") := by
  unfold pollF
  rcases hp : populateF fc inj s with ⟨s1, c, a⟩
  rw [hp] at ha
  simp only at ha
  subst ha
  simp

/-! ### `decide` witnesses on concrete schedules -/

def fCfg : Cfg :=
  { dropping := false, qcap := 1024, grace := 10, soft := 4, hard := 8, hdr := 32,
    strOverhead := 4, batchPct := 5, qp := c05Params, invalidBits := 32, refreshAfterSample := true,
    catchAllFormat := true, reportBeforeFlushCleanup := true }

/-- three sinks; the one in the middle has a level filter (6) and an override pattern that cannot be built -/
def patInit : BSt :=
  { cfg := { fCfg with grace := 0 }, now := 1000,
    sinks := [{ sid := 0 }, { sid := 1, lvl := 6, patFails := true }, { sid := 2 }],
    lgs := [{ gid := 0, sinks := [0, 1, 2], level := 0 }], names := [(0, 0)] }

/-- a level-4 statement (sink 1 rejects it) and a level-8 statement (sink 1 accepts it), one poll each -/
def patSched : List OpF :=
  [.base (.front (.tstart 1)), .base (.front (.log 1 0 4 10 true)), .base (.front (.log 1 0 8 10 true)),
   .base (.poll []), .base (.poll [])]

def evShow : Ev → Option (String × Nat × Nat)
  | .write s i _ _ _ => some ("w", s, i)
  | .wthrow s i => some ("wthrow", s, i)
  | .notify m => some (m, 0, 0)
  | _ => none

/-- **The code as it is**: the level-4 statement reaches sinks 0 and 2; the level-8 statement reaches sink 0, then sink 1's
    formatter fails: one report, sink 2 misses that statement. -/
theorem C10_pattern_fault_in_loop_witness :
    ((runOpsF {} patInit patSched).log.reverse.filterMap evShow) =
      [("w", 0, 0), ("w", 2, 0), ("w", 0, 1), ("n:patfail", 0, 0)] := by decide

/-- **The hoisted creation violates `C10_pattern_fault_local` / `C16_rejecting_sink_absent`**: with every override formatter
    created before the per-sink loop, sink 0 — which comes BEFORE the broken sink — gets nothing, not even the statement the
    broken sink rejects. -/
theorem C10_hoisted_pattern_creation_violates :
    ((runOpsF { patInLoop := false } patInit patSched).log.reverse.filterMap evShow) =
      [("n:patfail", 0, 0), ("n:patfail", 0, 0)] := by decide

/-- one sink whose first `write_log` throws an exception with EMPTY text -/
def emptyInit : BSt :=
  { cfg := { fCfg with grace := 0 }, now := 1000, sinks := [{ sid := 0, wthrow := [1], wkind := [(1, 1)] }],
    lgs := [{ gid := 0, sinks := [0], level := 0 }], names := [(0, 0)] }

def emptySched : List OpF :=
  [.base (.front (.tstart 1)), .base (.front (.log 1 0 4 10 true)), .base (.poll [])]

theorem C10_empty_text_reported_witness :
    ((runOpsF {} emptyInit emptySched).log.reverse.filterMap evShow) = [("wthrow", 0, 0), ("n:empty", 0, 0)] := by decide

/-- **Reporting only a non-empty text loses the report** -/
theorem C10_report_if_nonempty_violates :
    ((runOpsF { notifyAlways := false } emptyInit emptySched).log.reverse.filterMap evShow) = [("wthrow", 0, 0)] := by decide

/-- two threads; thread 1 logs a user-defined-type statement at 1010 whose first decode throws, thread 2 logs at 1020 -/
def abortInit : BSt :=
  { cfg := fCfg, now := 1000, sinks := [{ sid := 0 }],
    lgs := [{ gid := 0, sinks := [0], level := 0 }], names := [(0, 0)] }

def abortSched : List OpF :=
  [.base (.front (.tstart 1)), .base (.front (.tstart 2)), .armDecode 1, .base (.front (.tick 10)), .logU 1 0 20,
   .base (.front (.tick 10)), .base (.front (.log 2 0 4 10 true)), .base (.front (.tick 1000)),
   .base (.poll []), .base (.poll []), .base (.poll [])]

/-- **The aborting pass keeps the order**: the first poll pops nothing, the next two pop 1010 then 1020. -/
theorem C05_aborted_poll_keeps_order_witness :
    GracePremise (runOpsF {} abortInit abortSched) ∧
    (runOpsF {} abortInit abortSched).popLog.reverse.map (·.ts) = [1010, 1020] ∧
    (runOpsF {} abortInit (abortSched.take 9)).popLog = [] := by decide

/-- **"Catch per queue and continue with the next queue" breaks the order with the grace premise satisfied**: the first poll
    skips thread 1's queue, reads thread 2's and writes 1020; 1010 follows. -/
theorem C05_catch_per_queue_violates :
    GracePremise (runOpsF { readAborts := false } abortInit abortSched) ∧ abortInit.cfg.grace ≠ 0 ∧
    (runOpsF { readAborts := false } abortInit abortSched).popLog.reverse.map (·.ts) = [1020, 1010] := by decide

end Backend
