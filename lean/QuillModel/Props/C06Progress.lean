import QuillModel.Props.C06
import QuillModel.Backend.ConcBound
import QuillModel.Backend.ConcMono
import QuillModel.Backend.ConcPrio
/-!
# C06 / C09 — progress of `flush_log()` while other threads keep logging

`C06_flush_log_returns_committed`, `C06_flush_log_returns` and `C09_blocked_call_resumes` assume a *quiet* drain
continuation (`quietOp`). Here the continuation is **arbitrary**: frontend operations of any number of threads between the
polls and injected at every hook site inside them.

What is true, and what is not.

* The statement "enough polls after the clock advance ⇒ the flag is raised" is **false** in the model *and in the code*
  (`C06_batch_guard_starves`, replayed on the real `BackendWorker` through H2: `findings/candidate_C06_starvation_*.txt`):
  in batch mode (the pass counted at least `transit_events_soft_limit` events) the loop
  `while (!has_pending_events_for_caching_when_transit_event_buffer_empty() && _process_lowest…())` is left **before anything
  is processed** whenever some context has an empty transit buffer and an unread queue — e.g. a thread whose first statement
  is still inside the grace period, or that logged after its queue was read. A supply of such contexts (one fresh thread
  per poll) keeps every poll from writing anything, for ever; the moment it stops, one poll drains everything.
* What holds for **every** continuation:
  - `C06_poll_pops_unless_batch_guard`: a poll (any injection table) that starts with some context's oldest pending
    record past its grace period pops at least one event **or** is such a blocked batch poll (explicitly: count ≥ soft and
    the guard answered true). No other way of making no progress exists: not the hard limit, not the capacity exit of the
    read loop, not a full queue, not any interleaving of other threads.
  - `C06_flush_not_overtaken`: under the hypotheses of C05, while the Flush request is pending nothing with a larger
    timestamp is processed — later statements of other threads do not delay it.
  - `C06_flush_log_returns_concurrent`: hence, with `T` the request's timestamp, as soon as the number of *productive*
    polls (polls that pop anything — by the first item: all polls that are not blocked batch polls) reaches the number of
    records with timestamp `≤ T` not yet popped (those pending ahead of the request when it was accepted, plus whatever the
    schedule still adds with a timestamp `≤ T` — nothing, once the clock is past `T + grace`, by the grace premise), the flag
    is raised and the caller's `resume` answers "done".

Property theorems only; helpers in `Backend/ConcGrow.lean`, `ConcProgress.lean`, `ConcBound.lean`.
-/
namespace Backend
open Backend.PB

/-- **A poll makes progress unless the batch guard stops it.** Every schedule `ops` from a start state, every
    configuration, the backend running; let some context `i0` hold a pending record whose oldest one `h0` is past its grace
    period (`h0.ts + grace ≤ now`; automatic with ordering disabled). Then the next poll, **whatever frontend operations
    are injected at its hook sites**, pops at least one event — or its pass counted at least `soft` events and the guard
    `hasPending` answered true on the state after the pass (batch mode left before anything was processed). -/
theorem C06_poll_pops_unless_batch_guard (s0 : BSt) (h0 : Start s0) (ops : List Op) (table : List (Nat × Nat × List FOp))
    (hrun : (runOps s0 ops).backendGone = false) (i0 : Nat) (r0 : Stmt)
    (hd : (chain ((runOps s0 ops).th i0)).head? = some r0)
    (hripe : r0.ts + (runOps s0 ops).cfg.grace ≤ (runOps s0 ops).now) :
    (runOps s0 ops).popLog.length < (applyOp (runOps s0 ops) (.poll table)).1.popLog.length ∨
    ((runOps s0 ops).cfg.soft ≤ (populate (runInj table) { runOps s0 ops with siteCnt := [] }).2 ∧
     (hasPending (populate (runInj table) { runOps s0 ops with siteCnt := [] }).1).2 = true) := by
  obtain ⟨fl, hI⟩ := (start_GI h0).runOps ops
  have hI' : PIo (runOps s0 ops).cfg fl { runOps s0 ops with siteCnt := [] } := hI.frame rfl
  have e : (applyOp (runOps s0 ops) (.poll table)).1 = Backend.poll (runInj table) { runOps s0 ops with siteCnt := [] } := by
    simp only [applyOp, hrun]; rfl
  rw [e]
  exact poll_pops_or_blocked table hI' i0 r0 hd hripe

/-- **The Flush request is not overtaken** (hypotheses of C05). In every reachable state in which a record `st` (e.g. the
    caller's Flush request) is still pending, every event processed so far has a timestamp `≤ st.ts`: statements that other
    threads issue later do not get in front of it. -/
theorem C06_flush_not_overtaken (s0 : BSt) (h0 : Start s0) (hg : s0.cfg.grace ≠ 0) (hr : s0.cfg.refreshAfterSample = true)
    (ops : List Op) (hp : GracePremise (runOps s0 ops)) (i : Nat) (st : Stmt)
    (hst : st ∈ chain ((runOps s0 ops).th i)) : ∀ p ∈ (runOps s0 ops).popLog, p.ts ≤ st.ts := by
  have hc := (start_GI h0).cfg_runOps ops
  exact pending_not_overtaken ((start_GI h0).runOps ops) (by rw [hc]; exact hg) (by rw [hc]; exact hr) hp hst

/-- **`flush_log()` returns while other threads keep logging.** Hypotheses of C05 (ordering enabled, repaired refresh
    order, the grace premise on the whole run). The schedule is `pre ++ suffix`, both **arbitrary** (any frontend operations,
    polls with any injections). Let `st` be a Flush request (flag `f`, timestamp `T`) accepted somewhere in the run. If the
    number of events popped by the end of `pre` plus the number of *productive* operations of `suffix` (those that pop at
    least one event) reaches `accLE … T` — the number of records with timestamp `≤ T` accepted by any context in the whole run
    (popped ones included) — then the flag is raised at the end and every caller parked on it is released by its next
    `resume` ("done"). -/
theorem C06_flush_log_returns_concurrent (s0 : BSt) (hA : PA.Fresh s0) (hF : StartF s0) (hg : s0.cfg.grace ≠ 0)
    (hr : s0.cfg.refreshAfterSample = true) (pre suffix : List Op) (i : Nat) (st : Stmt) (f : Nat)
    (hp : GracePremise (runOps s0 (pre ++ suffix)))
    (hst : st ∈ ((runOps s0 (pre ++ suffix)).th i).accepted) (hk : st.kind = .flush f)
    (hn : accLE (runOps s0 (pre ++ suffix)) st.ts ≤ (runOps s0 pre).popLog.length + productive (runOps s0 pre) suffix) :
    f ∈ (runOps s0 (pre ++ suffix)).flags ∧
    ∀ a x, (runOps s0 (pre ++ suffix)).actor a = some x → x.pend = .flag f →
      (resume (runOps s0 (pre ++ suffix)) a).2 = "done" := by
  have hfi := (start_FI hF).runOps (pre ++ suffix)
  have hgi := (start_GI hF.start).runOps (pre ++ suffix)
  have hai := hA.inv.run (pre ++ suffix)
  have hc := (start_GI hF.start).cfg_runOps (pre ++ suffix)
  have e : runOps s0 (pre ++ suffix) = runOps (runOps s0 pre) suffix := by simp [runOps, List.foldl_append]
  have hle := productive_le suffix (runOps s0 pre)
  rw [← e] at hle
  have hflag : f ∈ (runOps s0 (pre ++ suffix)).flags := by
    have hacc := hst
    rw [hfi.cons i, List.append_assoc] at hacc
    rcases List.mem_append.mp hacc with h1 | h1
    · rcases hfi.popFlag i st h1 f hk with h2 | h2
      · exact h2
      · cases h2
    · exfalso
      have := pops_bounded hai hfi hgi (by rw [hc]; exact hg) (by rw [hc]; exact hr) hp (i := i) (st := st) h1
      omega
  exact ⟨hflag, fun a x hx hpd => ((resume_flag _ a x f hx hpd).1 hflag).2⟩

/-- **`flush_log()` returns — every configuration, no premise** (ordering enabled or disabled, either refresh order, stalled and
    blocked calls allowed). For an arbitrary schedule `pre ++ suffix`: if the events popped by the end of `pre` plus the productive
    operations of `suffix` reach the number of records accepted in the whole run, everything has been processed; in particular
    the flag of every accepted Flush request is raised. (The bound counts the statements logged during `suffix` too; the sharper
    bounds below do not.) -/
theorem C06_flush_log_returns_concurrent_total (s0 : BSt) (hA : PA.Fresh s0) (hF : StartF s0) (pre suffix : List Op)
    (i : Nat) (st : Stmt) (f : Nat) (hst : st ∈ ((runOps s0 (pre ++ suffix)).th i).accepted) (hk : st.kind = .flush f)
    (hn : accTotal (runOps s0 (pre ++ suffix)) ≤ (runOps s0 pre).popLog.length + productive (runOps s0 pre) suffix) :
    f ∈ (runOps s0 (pre ++ suffix)).flags := by
  have hfi := (start_FI hF).runOps (pre ++ suffix)
  have hai := hA.inv.run (pre ++ suffix)
  have e : runOps s0 (pre ++ suffix) = runOps (runOps s0 pre) suffix := by simp [runOps, List.foldl_append]
  have hle := productive_le suffix (runOps s0 pre)
  rw [← e] at hle
  have hacc := hst
  rw [hfi.cons i, List.append_assoc] at hacc
  rcases List.mem_append.mp hacc with h1 | h1
  · rcases hfi.popFlag i st h1 f hk with h2 | h2
    · exact h2
    · cases h2
  · exfalso
    have := pops_lt_total hai hfi (i := i) (st := st) h1
    omega

/-- **Past the grace period nothing older can arrive.** For every schedule `pre ++ suffix` satisfying the grace premise:
    once the clock (at the end of `pre`) is past `T + grace`, the number of records with timestamp `≤ T` accepted by all
    contexts does not change any more — a thread that keeps enqueueing records with timestamps below a given one does not
    exist past the premise. (Whatever is accepted later is committed at a later clock value: `mono_runOps`.) -/
theorem C06_nothing_older_arrives (s0 : BSt) (h0 : Start s0) (pre suffix : List Op) (T : Nat)
    (hp : GracePremise (runOps s0 (pre ++ suffix)))
    (hT : T + s0.cfg.grace < (runOps s0 pre).now) :
    accLE (runOps s0 (pre ++ suffix)) T = accLE (runOps s0 pre) T := by
  have e : runOps s0 (pre ++ suffix) = runOps (runOps s0 pre) suffix := by simp [runOps, List.foldl_append]
  have hc1 := (start_GI h0).cfg_runOps pre
  have hc2 := (start_GI h0).cfg_runOps (pre ++ suffix)
  rw [e] at hp hc2 ⊢
  exact accLE_const (mono_runOps suffix _) (by rw [hc2, hc1]) hp T (by rw [hc1]; exact hT)

/-- **`flush_log()` returns while other threads keep logging — explicit bound.** Hypotheses of C05. After any schedule `pre`
    a Flush request `st` (flag `f`, timestamp `T`) has been accepted and the clock is past `T + grace`. Then for **every**
    continuation `suffix` (any frontend operations of any threads, polls with any injections): if the number of productive
    operations of `suffix` reaches `pendingLE … T` — the number of records with timestamp `≤ T` that are **pending at the end of
    `pre`** (those ahead of the request in its own queue, the request itself, and the records of other threads with a timestamp
    `≤ T`) — then the flag is raised and the caller's `resume` answers "done". Statements logged during `suffix` do not
    enter the bound: they cannot have a timestamp `≤ T` (`C06_nothing_older_arrives`) and are not processed before the
    request (`C06_flush_not_overtaken`). -/
theorem C06_flush_log_returns_concurrent_explicit (s0 : BSt) (hA : PA.Fresh s0) (hF : StartF s0) (hg : s0.cfg.grace ≠ 0)
    (hr : s0.cfg.refreshAfterSample = true) (pre suffix : List Op) (i : Nat) (st : Stmt) (f : Nat)
    (hp : GracePremise (runOps s0 (pre ++ suffix)))
    (hst : st ∈ ((runOps s0 pre).th i).accepted) (hk : st.kind = .flush f)
    (hT : st.ts + s0.cfg.grace < (runOps s0 pre).now)
    (hn : pendingLE (runOps s0 pre) st.ts ≤ productive (runOps s0 pre) suffix) :
    f ∈ (runOps s0 (pre ++ suffix)).flags ∧
    ∀ a x, (runOps s0 (pre ++ suffix)).actor a = some x → x.pend = .flag f →
      (resume (runOps s0 (pre ++ suffix)) a).2 = "done" := by
  have e : runOps s0 (pre ++ suffix) = runOps (runOps s0 pre) suffix := by simp [runOps, List.foldl_append]
  have hst' : st ∈ ((runOps s0 (pre ++ suffix)).th i).accepted := by
    rw [e]; exact (mono_runOps suffix _).mem_acc hst
  have h1 := C06_nothing_older_arrives s0 hF.start pre suffix st.ts hp hT
  have h2 := accLE_le (hA.inv.run pre) ((start_FI hF).runOps pre) st.ts
  exact C06_flush_log_returns_concurrent s0 hA hF hg hr pre suffix i st f hp hst' hk (by rw [h1]; omega)

/-- **Ordering disabled: nothing overtakes a pending Flush request.** `log_timestamp_ordering_grace_period = 0`, either refresh
    order, no premise on commit times. Along any continuation that leaves the backend running, as long as the flag of an accepted
    Flush request `st` is not raised, the pop history has only been extended by events with a timestamp `≤ st.ts`: the backend
    pops the minimum front, and it pops only when the request's context has a buffered event (right after a pass, or after the
    batch guard found nothing unread). -/
theorem C06_flush_not_overtaken_grace0 (s0 : BSt) (hF : StartF s0) (hg0 : s0.cfg.grace = 0) (pre suffix : List Op) (i : Nat)
    (st : Stmt) (f : Nat) (hst : st ∈ ((runOps s0 pre).th i).accepted) (hk : st.kind = .flush f)
    (hrun : (runOps s0 (pre ++ suffix)).backendGone = false) :
    ∃ new, (runOps s0 (pre ++ suffix)).popLog = new ++ (runOps s0 pre).popLog ∧
      (f ∉ (runOps s0 (pre ++ suffix)).flags → ∀ r ∈ new, r.ts ≤ st.ts) := by
  have e : runOps s0 (pre ++ suffix) = runOps (runOps s0 pre) suffix := by simp [runOps, List.foldl_append]
  have hc := (start_GI hF.start).cfg_runOps pre
  rw [e] at hrun ⊢
  exact runOps_prio i st f hk suffix (runOps s0 pre) ((start_GI hF.start).runOps pre) ((start_FI hF).runOps pre)
    (by rw [hc]; exact hg0) hst hrun

/-- **`flush_log()` returns while other threads keep logging — ordering disabled (grace = 0), explicit bound.** The twin of
    `C06_flush_log_returns_concurrent_explicit` without the ordering invariant: grace period 0, either refresh order. After any
    schedule `pre` a Flush request `st` (flag `f`, timestamp `T`) has been accepted and the clock has moved past `T`; `suffix` is
    **arbitrary** and leaves the backend running; every record of the run is committed at its timestamp's clock value or
    earlier (the grace premise for grace 0: no call stalled between its clock read and its commit). If the productive
    operations of `suffix` reach `pendingLE … T` — the records with timestamp `≤ T` pending at the end of `pre` — the flag is
    raised and the caller's `resume` answers "done". -/
theorem C06_flush_log_returns_concurrent_explicit_grace0 (s0 : BSt) (hA : PA.Fresh s0) (hF : StartF s0)
    (hg0 : s0.cfg.grace = 0) (pre suffix : List Op) (i : Nat) (st : Stmt) (f : Nat)
    (hp : GracePremise (runOps s0 (pre ++ suffix)))
    (hst : st ∈ ((runOps s0 pre).th i).accepted) (hk : st.kind = .flush f)
    (hT : st.ts < (runOps s0 pre).now)
    (hrun : (runOps s0 (pre ++ suffix)).backendGone = false)
    (hn : pendingLE (runOps s0 pre) st.ts ≤ productive (runOps s0 pre) suffix) :
    f ∈ (runOps s0 (pre ++ suffix)).flags ∧
    ∀ a x, (runOps s0 (pre ++ suffix)).actor a = some x → x.pend = .flag f →
      (resume (runOps s0 (pre ++ suffix)) a).2 = "done" := by
  have e : runOps s0 (pre ++ suffix) = runOps (runOps s0 pre) suffix := by simp [runOps, List.foldl_append]
  have hfi := (start_FI hF).runOps (pre ++ suffix)
  have hflag : f ∈ (runOps s0 (pre ++ suffix)).flags := by
    apply Classical.byContradiction
    intro hnf
    obtain ⟨new, hpl, hle⟩ := C06_flush_not_overtaken_grace0 s0 hF hg0 pre suffix i st f hst hk hrun
    have hst' : st ∈ ((runOps s0 (pre ++ suffix)).th i).accepted := by
      rw [e]; exact (mono_runOps suffix _).mem_acc hst
    have hch : st ∈ chain ((runOps s0 (pre ++ suffix)).th i) := by
      rw [hfi.cons i, List.append_assoc] at hst'
      rcases List.mem_append.mp hst' with h1 | h1
      · rcases hfi.popFlag i st h1 f hk with h2 | h2
        · exact absurd h2 hnf
        · cases h2
      · exact h1
    have hconst := C06_nothing_older_arrives s0 hF.start pre suffix st.ts hp (by rw [hg0]; simpa using hT)
    have hb := prio_bound (hA.inv.run pre) (hA.inv.run (pre ++ suffix)) ((start_FI hF).runOps pre) hfi i st new hpl (hle hnf)
      hch hconst
    have hprod := productive_le suffix (runOps s0 pre)
    rw [← e, hpl] at hprod
    simp only [List.length_append] at hprod
    omega
  exact ⟨hflag, fun a x hx hpd => ((resume_flag _ a x f hx hpd).1 hflag).2⟩

/-! ### witnesses -/

/-- soft limit 2 (three buffered events put the backend in batch mode), grace 10 -/
def c06StarveInit : BSt := { c05Init true with cfg := { c05Cfg true with soft := 2 } }

def c06StarvePre : List Op :=
  [ .front (.tstart 1), .front (.log 1 0 4 10 true), .front (.log 1 0 4 10 true), .front (.flush 1 0), .front (.tick 100) ]

/-- a fresh thread logs right before the poll; afterwards the clock advances by ten grace periods -/
def c06StarveRound (k : Nat) : List Op :=
  [ .front (.tstart k), .front (.log k 0 4 10 true), .poll [], .front (.resume 1), .front (.tick 100) ]

def c06Starve : List Op := c06StarvePre ++ (List.range 6).flatMap (fun k => c06StarveRound (k + 2))

/-- **Starvation by the batch guard** (replayed on the real code: `findings/candidate_C06_starvation_fresh_threads_grace.txt`).
    Thread 1 logs twice and calls `flush_log()`; the clock advances by ten grace periods. Then, six times: a fresh thread
    logs one statement, the backend polls, thread 1 checks its flag, the clock advances by ten grace periods. Every pending
    record of thread 1 is past its grace period at every poll, and **no poll processes anything**: after six polls nothing is
    popped, the flag is not raised, the caller is still parked, every context's record sits in its transit buffer (the
    last one in its queue). The first poll without a newcomer drains everything (seven writes later the flag is raised).
    Without the newcomers three polls suffice. -/
theorem C06_batch_guard_starves :
    (runOps c06StarveInit c06Starve).popLog.length = 0 ∧ (runOps c06StarveInit c06Starve).flags = [] ∧
    ((runOps c06StarveInit c06Starve).actor 1).map (fun x => x.pend matches .flag 0) = some true ∧
    (runOps c06StarveInit c06Starve).ths.map (fun t => (t.buf.length, t.qStmts.length)) =
      [(3, 0), (1, 0), (1, 0), (1, 0), (1, 0), (1, 0), (0, 1)] ∧
    (runOps c06StarveInit c06Starve).now = 1700 ∧
    (runOps c06StarveInit (c06Starve ++ [.poll []])).flags = [0] ∧
    (runOps c06StarveInit (c06Starve ++ [.poll []])).popLog.length = 9 ∧
    (runOps c06StarveInit (c06StarvePre ++ [.poll [], .poll [], .poll []])).flags = [0] := by
  decide +kernel

/-- non-vacuity of `C06_poll_pops_unless_batch_guard`, second alternative: in the starving run the hypotheses hold before
    the last poll (thread 1's oldest record, timestamp 1000, is long past its grace period at 1600) and the poll is a blocked
    batch poll: the pass counts 8 ≥ soft = 2 events and the guard answers true -/
example :
    let s := runOps c06StarveInit (c06Starve.take 32)
    s.backendGone = false ∧ (chain (s.th 0)).head?.map (·.ts) = some 1000 ∧ s.cfg.grace = 10 ∧ s.now = 1600 ∧
    (applyOp s (.poll [])).1.popLog.length = s.popLog.length ∧
    (populate (runInj []) { s with siteCnt := [] }).2 = 8 ∧
    (hasPending (populate (runInj []) { s with siteCnt := [] }).1).2 = true := by
  decide +kernel

/-- thread 2 keeps logging between and *inside* the polls (site 3: while thread 1's queue is being read) -/
def c06Busy : List Op :=
  [ .poll [(3, 1, [.log 2 0 4 10 true])], .front (.log 2 0 4 10 true), .front (.resume 1),
    .poll [(2, 1, [.log 2 0 4 10 true])], .front (.log 2 0 4 10 true), .front (.resume 1),
    .poll [(1, 1, [.log 2 0 4 10 true, .tick 3])] ]

def c06BusyPre : List Op :=
  [ .front (.tstart 1), .front (.tstart 2), .front (.log 1 0 4 10 true), .front (.log 1 0 4 10 true), .front (.flush 1 0),
    .front (.tick 100) ]

/-- non-vacuity of `C06_flush_log_returns_concurrent` and of the first alternative of
    `C06_poll_pops_unless_batch_guard` (soft limit 4: single-event mode): while thread 2 logs five statements between and
    inside three polls, each poll pops one event of thread 1 (timestamps 1000 ≤ T = 1000; thread 2's statements carry 1100 and
    later), the three productive polls reach `accLE = 3`, the premise holds, the flag is raised, `resume` answers "done",
    and thread 2's five statements are all still pending. -/
example :
    let s := runOps (c05Init true) c06BusyPre
    let s' := runOps (c05Init true) (c06BusyPre ++ c06Busy)
    GracePremise s' ∧ (s'.th 0).accepted.map (fun st => (st.kind matches .flush 0, st.ts)) = [(false, 1000), (false, 1000), (true, 1000)] ∧
    accLE s' 1000 = 3 ∧ s.popLog.length = 0 ∧ productive s c06Busy = 3 ∧ pendingLE s 1000 = 3 ∧
    1000 + (c05Init true).cfg.grace < s.now ∧
    s'.flags = [0] ∧ (applyOp s' (.front (.resume 1))).2 = "done" ∧
    s'.ths.map (fun t => (t.accepted.length, t.popped.length)) = [(3, 3), (5, 0)] := by
  decide +kernel

/-- ordering disabled -/
def c06G0Init : BSt := { c05Init true with cfg := { c05Cfg true with grace := 0 } }

/-- non-vacuity of `C06_flush_log_returns_concurrent_explicit_grace0` / `C06_flush_not_overtaken_grace0`: the busy schedule with
    grace 0 — three records with timestamp 1000 pending at the end of `c06BusyPre` (clock 1100), thread 2 logging between and
    inside the polls; three productive polls; the premise holds (every record committed at its timestamp), the backend keeps
    running, the flag is raised and the caller released by a `resume` inside the schedule; the three records with timestamp 1000
    are popped first, thread 2's statements (1100) only after the request. -/
example :
    let s := runOps c06G0Init c06BusyPre
    let s' := runOps c06G0Init (c06BusyPre ++ c06Busy)
    c06G0Init.cfg.grace = 0 ∧ GracePremise s' ∧ s'.backendGone = false ∧ s.now = 1100 ∧
    (s.th 0).accepted.map (fun st => (st.kind matches .flush 0, st.ts)) = [(false, 1000), (false, 1000), (true, 1000)] ∧
    pendingLE s 1000 = 3 ∧ productive s c06Busy = 3 ∧ s'.flags = [0] ∧
    s'.popLog.reverse.map (·.ts) = [1000, 1000, 1000, 1100, 1100, 1100, 1100] ∧
    (s'.actor 1).map (fun x => x.pend matches .none) = some true := by
  decide +kernel

end Backend
