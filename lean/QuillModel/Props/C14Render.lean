import QuillModel.Rot.RenderThm
import QuillModel.Rot.RenderCal
/-!
# C14 — the rendered file names (any base file name)

"A rename never lands on an existing retained file" and "reading the retained files as the naming scheme orders them" are
proved on structured names `(suffix, index)` (Props/C14.lean). Here the rendering itself — `extract_stem_and_extension`,
`_append_string_to_filename`, `_append_index_to_filename`, `_get_filename` — is modelled on character lists for **every**
base file name (dots in the stem, no extension, hidden file, trailing dot) and proved injective on the names one scheme
produces, so distinct structured names are distinct files. The theorems also say which rotated names the start-up scan of
`_clean_and_recover_files` can see: all of them iff the base has an extension (finding F28 otherwise), none when a
FilenameAppendOption changed the name the sink writes to (finding F29).
Not proved: that the calendar rendering `%Y%m%d[_%H%M%S]` of the civil day / second is injective (it is a premise of
`C14_rendered_names_distinct_partial`; the harness compares every rendered name with the real sink's).
-/
namespace Rot

/-- **Rendering is injective.** For every non-empty base file name, two `(index, date_time)` pairs of the kind one
    naming scheme produces (`SameKind`: both without a date — Index —, both with one — Date / DateAndTime —, or one of them
    the current file) whose date strings contain no dot are rendered by `_get_filename` to the same name only if they are
    equal. (Across kinds it is false: index 20230101 without a date and index 0 with the date 20230101 collide — see
    `C14_render_collides_across_schemes`.) -/
theorem C14_render_injective (b : List Char) (hb : b ≠ []) (i i' : Nat) (d d' : List Char) (hd : DotFree d)
    (hd' : DotFree d') (hk : SameKind i d i' d') (h : getFilename b i d = getFilename b i' d') : i = i' ∧ d = d' := by
  obtain ⟨hcat, hor⟩ := splitExt_spec b
  rcases hor with he | ⟨e0, he, _, _, _⟩
  · rw [getFilename_noext b hb he i d hd, getFilename_noext b hb he i' d' hd'] at h
    exact midB_inj i i' d d' hd hd' hk (List.append_cancel_left h)
  · rw [getFilename_ext b e0 he i d, getFilename_ext b e0 he i' d'] at h
    exact midA_inj i i' d d' hd hd' hk (List.append_cancel_left (List.append_cancel_right h))

/-- the excluded class: an index that reads like a date (Index scheme) and that date (Date scheme) give the same file name -/
theorem C14_render_collides_across_schemes :
    getFilename "log.log".toList 20230101 [] = getFilename "log.log".toList 0 "20230101".toList := by decide

/-- the date string of a structured suffix -/
def sfxChars (sch : Scheme) : Option Int → List Char
  | none => []
  | some v => (renderSfx sch v).toList

/-- **Distinct tracked files have distinct rendered names** (`_partial`: premise = the calendar rendering of the suffix
    values involved is dot-free, non-empty and injective). For two entries of `_created_files` of one scheme — both
    undated (Index) or both dated, or one the current file: this is what `IndexInv` / `DatedInv` give — equal rendered
    names imply equal entries; hence a rename target that is free as a structured name is free as a file name. -/
theorem C14_rendered_names_distinct_partial (b : List Char) (hb : b ≠ []) (sch : Scheme) (a c : FileInfo)
    (hkind : (a.sfx = none ↔ c.sfx = none) ∨ a = curInfo ∨ c = curInfo)
    (hfree : ∀ v, DotFree (renderSfx sch v).toList ∧ (renderSfx sch v).toList ≠ [])
    (hinj : ∀ v v', a.sfx = some v → c.sfx = some v' → renderSfx sch v = renderSfx sch v' → v = v')
    (h : renderNameL b sch a.name = renderNameL b sch c.name) : a = c := by
  obtain ⟨sa, ia⟩ := a
  obtain ⟨sc, ic⟩ := c
  simp only [FileInfo.name, renderNameL] at h
  have hdf : ∀ s : Option Int, DotFree (sfxChars sch s) := by
    intro s
    cases s with
    | none => simp [sfxChars, DotFree]
    | some v => exact (hfree v).1
  have hda := hdf sa
  have hdc := hdf sc
  have hnil : ∀ s : Option Int, sfxChars sch s = [] ↔ s = none := by
    intro s; cases s <;> simp [sfxChars, (hfree _).2]
  have hk : SameKind ia (sfxChars sch sa) ic (sfxChars sch sc) := by
    unfold SameKind
    rcases hkind with h1 | h1 | h1
    · left; rw [hnil, hnil]; exact h1
    · right; left; simp only [curInfo, FileInfo.mk.injEq] at h1; exact ⟨h1.2, by rw [hnil]; exact h1.1⟩
    · right; right; simp only [curInfo, FileInfo.mk.injEq] at h1; exact ⟨h1.2, by rw [hnil]; exact h1.1⟩
  have key := C14_render_injective b hb ia ic (sfxChars sch sa) (sfxChars sch sc) hda hdc hk
    (by cases sa <;> cases sc <;> simpa [sfxChars] using h)
  obtain ⟨hi, hs⟩ := key
  subst hi
  cases sa with
  | none =>
    cases sc with
    | none => rfl
    | some v' => exact absurd hs.symm (by simp [sfxChars, (hfree _).2])
  | some v =>
    cases sc with
    | none => exact absurd hs (by simp [sfxChars, (hfree _).2])
    | some v' =>
      have : renderSfx sch v = renderSfx sch v' := String.toList_inj.mp (by simpa [sfxChars] using hs)
      rw [hinj v v' rfl rfl this]

/-- **Distinct tracked files have distinct rendered names** — no premise on the rendering left: the calendar strings
    `%Y%m%d[_%H%M%S]` are dot-free, non-empty (`renderSfx_dotFree_ne_nil`) and injective on instants from the epoch on
    (`renderSfx_inj`). For every non-empty base file name and two entries of `_created_files` of one scheme (both undated,
    both dated, or one the current file) whose suffix values are not before 1970: equal file names imply equal entries —
    so "a rename never lands on an existing retained file" holds for the names on disk, not only for the structured ones. -/
theorem C14_rendered_names_distinct (b : List Char) (hb : b ≠ []) (sch : Scheme) (a c : FileInfo)
    (hkind : (a.sfx = none ↔ c.sfx = none) ∨ a = curInfo ∨ c = curInfo)
    (hpos : (∀ v, a.sfx = some v → 0 ≤ v) ∧ (∀ v, c.sfx = some v → 0 ≤ v))
    (h : renderNameL b sch a.name = renderNameL b sch c.name) : a = c :=
  C14_rendered_names_distinct_partial b hb sch a c hkind (renderSfx_dotFree_ne_nil sch)
    (fun v v' ha hc he => renderSfx_inj sch v v' (hpos.1 v ha) (hpos.2 v' hc) he) h

/-- non-vacuity / sanity: two days and two seconds of 2023 render as expected and differently -/
example : renderDay 19676 = "20231115" ∧ renderSec 1700006400 = "20231115_000000" ∧
    renderSec 1700006401 = "20231115_000001" ∧ renderDay 19677 = "20231116" := by decide

/-- **What the start-up scan sees.** If the base file name has an extension (`std::filesystem` sense: a dot that is not
    the leading character), every rotated name `_get_filename` produces from it — any index, any dot-free date — passes
    the filter of `_clean_and_recover_files` (same extension, starts with `stem.`). -/
theorem C14_scan_sees_rotated (b : List Char) (e0 : List Char) (he : (splitExt b).2 = '.' :: e0) (i : Nat)
    (d : List Char) (hr : i ≠ 0 ∨ d ≠ []) : scanSees b (getFilename b i d) = true := by
  obtain ⟨hcat, hor⟩ := splitExt_spec b
  rcases hor with h | ⟨e0', h1, hfree, hs, _⟩
  · rw [he] at h; simp at h
  · have : e0' = e0 := by rw [he] at h1; simpa using h1.symm
    subst this
    obtain ⟨t, ht⟩ : ∃ t, midA i d = '.' :: t := by
      unfold midA
      by_cases h1 : d = []
      · have : i ≠ 0 := by rcases hr with h | h; exact h; exact absurd h1 h
        exact ⟨digits i, by simp [h1, this]⟩
      · exact ⟨_, by simp only [h1, ↓reduceIte, List.cons_append]; rfl⟩
    rw [getFilename_ext b e0' he i d, ht, he]
    have hsp := splitExt_of_ext ((splitExt b).1 ++ '.' :: t) e0' (by simp) hfree (by
      rintro ⟨h1', _⟩
      have := congrArg List.length h1'
      simp at this
      have hl : (splitExt b).1.length = 0 := by omega
      exact hs (List.length_eq_zero_iff.mp hl))
    unfold scanSees
    rw [show (splitExt b).1 ++ '.' :: t ++ '.' :: e0' = ((splitExt b).1 ++ '.' :: t) ++ '.' :: e0' by rfl, hsp, he]
    simp only [decide_true, Bool.true_and, List.isPrefixOf_iff_prefix]
    exact ⟨t ++ '.' :: e0', by simp⟩

/-- **F28** (excluded class of `C14_scan_sees_rotated`: empty extension). A base without a dot, or a hidden file: the
    first rotated file is *not* seen by the scan (its extension is `.1`, the base's is empty) — an append-mode start
    recovers nothing, a write-mode start cleans nothing. A trailing dot or dots in the stem are fine. The index is
    rendered *before* the date when the base has no extension. -/
theorem C14_F28_no_extension_scan_blind :
    scanSeesOwn "noext".toList "noext".toList = false ∧ scanSeesOwn ".log".toList ".log".toList = false ∧
    scanSeesOwn "trail.".toList "trail.".toList = true ∧ scanSeesOwn "a.b.log".toList "a.b.log".toList = true ∧
    String.ofList (getFilename "noext".toList 3 "20230101".toList) = "noext.3.20230101" ∧
    String.ofList (getFilename ".log".toList 3 "20230101".toList) = ".log.3.20230101" ∧
    String.ofList (getFilename "trail.".toList 3 "20230101".toList) = "trail.20230101.3." ∧
    String.ofList (getFilename "a.b.log".toList 3 "20230101".toList) = "a.b.20230101.3.log" := by decide

/-- **F29.** With a FilenameAppendOption the sink writes to `stem<stamp>.ext` (`append_datetime_to_filename`) but scans
    with the name handed to the constructor: its own rotated files do not start with `stem.` -/
theorem C14_F29_append_option_scan_blind :
    String.ofList (appendDatetime "app.log".toList "_20230101".toList) = "app_20230101.log" ∧
    scanSeesOwn "app.log".toList (appendDatetime "app.log".toList "_20230101".toList) = false ∧
    scanSeesOwn "app.log".toList "app.log".toList = true := by decide

def zUtc : Nat → Int := fun _ => 0

/-- **F28 / F29 on the model**: a start that recovers nothing (`restartBlind`) in the Index scheme, append mode, overwrite
    off, no backup limit: after the restart the first rotation renames the current file onto the previous run's
    `base.1` — statement 2 is gone; with the seeing scan (`restart`) everything is kept. -/
theorem C14_F28_blind_restart_loses_statements :
    let c : Cfg := { limit := 10, overwrite := false, append := true }
    let w1 := run Params.repaired zUtc (restart zUtc [] c 0) [.write ⟨1, 8⟩ 1, .write ⟨2, 8⟩ 2, .write ⟨3, 8⟩ 3]
    let blind := run Params.repaired zUtc (restartBlind zUtc w1.fs c 10) [.write ⟨4, 8⟩ 11]
    let seeing := run Params.repaired zUtc (restart zUtc w1.fs c 10) [.write ⟨4, 8⟩ 11]
    w1.fs.get (.file none 1) = some [⟨2, 8⟩] ∧
      blind.fs.get (.file none 1) = some [⟨3, 8⟩] ∧ blind.fs.get (.file none 2) = some [⟨1, 8⟩] ∧
      blind.fs.get (.file none 3) = none ∧
      diskSeq seeing = [⟨1, 8⟩, ⟨2, 8⟩, ⟨3, 8⟩, ⟨4, 8⟩] := by decide

/-- non-vacuity of `C14_render_injective` / `C14_scan_sees_rotated`: hypotheses met by concrete names of each kind -/
example : DotFree "20230101_120000".toList ∧ SameKind 2 "20230101".toList 0 "20230102".toList ∧
    SameKind 3 [] 0 [] ∧ (splitExt "log.tar.gz".toList).2 = ".gz".toList ∧ "x".toList ≠ [] := by decide

end Rot
