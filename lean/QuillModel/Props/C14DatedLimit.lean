import QuillModel.Props.C14More
import QuillModel.Props.C14Dated
/-!
# C14 — the size limit for every retained file, Date / DateAndTime schemes (one write)

Dated analogue of `write_limInv` (Props/C14More.lean): under the dated invariant and the write premise, a write with a
size limit `≤ L` and rotation not stopped keeps every tracked file within `L` or "single statement". Across restarts the
tracked set only shrinks to a suffix (`restart_dated_diskSeq_suffix`); the history-level statement for the dated schemes
is not proved here.
-/
namespace Rot

theorem appendCur_limInv_dated (z : Nat → Int) (L : Nat) (v : World) (st : Stmt) (hv : DatedInv z v)
    (hold : ∀ e ∈ v.sink.created, e ≠ curInfo → Within L (content v.fs e))
    (hcur : Within L (content v.fs curInfo ++ [st])) : LimInv L (appendCur v st) := by
  obtain ⟨rest, hr, hne⟩ := hv.rest_ne_cur
  intro e he
  by_cases hc : e = curInfo
  · subst hc
    simp only [appendCur, content, FileInfo.name, curInfo, FS.get_put, curName, ↓reduceIte, Option.getD_some]
    exact hcur
  · have hn : e.name ≠ curName := by
      have he' : e ∈ v.sink.created := he
      rw [hr] at he'
      rcases List.mem_append.mp he' with h1 | h1
      · exact hne e h1
      · simp only [List.mem_singleton] at h1; exact absurd h1 hc
    simp only [appendCur, content, FS.get_put, hn, ↓reduceIte]
    exact hold e he hc

/-- **One write keeps every tracked file within the bound — Date / DateAndTime** (write premise of `DatedOpOK`) -/
theorem write_limInv_dated (P : Params) (z : Nat → Int) (L : Nat) (w : World) (st : Stmt) (ts : Nat) (h : DatedInv z w)
    (hop : DatedOpOK z w (.write st ts)) (hl : LimInv L w) (hlim : w.sink.cfg.limit ≠ 0) (hle : w.sink.cfg.limit ≤ L)
    (hns : stopped w.sink = false) : LimInv L (write P z w st ts) := by
  obtain ⟨cont, hc, hsz⟩ := h.curInv
  have hinvp : DatedInv z (prepare P z w st.size ts) := prepare_dated_inv P z w st.size ts h hop
  by_cases hdue : timeDue w ts ∨ sizeDue w st.size ts
  · have hs := prepare_due P z w st.size ts hdue
    show LimInv L (appendCur (prepare P z w st.size ts) st)
    by_cases hr : rotates w
    · obtain ⟨_, cont', hc', hb⟩ := hr
      have sp := rotate_dated P z w ts cont' h hns hc' hb
      apply appendCur_limInv_dated z L _ st hinvp
      · intro e he hne
        rw [hs.created, sp.created] at he
        rcases List.mem_append.mp he with he | he
        · obtain ⟨e0, he0, rfl⟩ := List.mem_map.mp he
          simp only [content, hs.fs, sp.moved e0 he0]
          exact hl e0 ((kept_sublist P w).subset he0)
        · simp only [List.mem_singleton] at he; exact absurd he hne
      · simp only [content_cur, hs.fs, sp.cur, Option.getD_some, List.nil_append]
        exact Or.inr ⟨[], st, rfl, rfl⟩
    · have hrw := rotate_of_not_rotates' P z w ts (h.tracked curInfo h.cur_mem) hr
      have hb : bytes cont = 0 := by
        by_cases hb : bytes cont = 0
        · exact hb
        · exact absurd ⟨hns, cont, hc, hb⟩ hr
      apply appendCur_limInv_dated z L _ st hinvp
      · intro e he hne
        rw [hs.created, hrw] at he
        simp only [content, hs.fs, hrw]
        exact hl e he
      · simp only [content_cur, hs.fs, hrw, hc, Option.getD_some]
        exact Or.inr ⟨cont, st, rfl, hb⟩
  · have ht : ¬ timeDue w ts := fun x => hdue (Or.inl x)
    have hsd : ¬ sizeDue w st.size ts := fun x => hdue (Or.inr x)
    rw [write, prepare_idle P z w st.size ts ht hsd]
    apply appendCur_limInv_dated z L _ st h
    · intro e he _; exact hl e he
    · simp only [content_cur, hc, Option.getD_some]
      left
      rw [bytes_append]
      have : ¬ w.sink.fileSize + st.size > w.sink.cfg.limit := fun hgt => hsd ⟨ht, hlim, hgt⟩
      simp only [bytes, List.map_cons, List.map_nil, List.sum_cons, List.sum_nil] at *
      omega

end Rot
