import QuillModel.Backend.ResumeProgress
import QuillModel.Backend.PubInv
import QuillModel.Props.C06
/-!
# C09 (end to end, backend model) — a blocked log call resumes; no stall on an empty queue

"With a blocking queue, a log call that found the queue full returns once the backend has made room; a producer is
never refused space that the consumer has already freed."

Queue level (`Props/C09.lean`): in a drained state `commit_read` publishes the reader position and the producer's
reload is followed by a grant. Here the same is proved for the executable backend model, i.e. for the actual retry
loop of `log_statement` against the actual poll: the caller of a refused reservation is parked on
`Pend.retry st k`; `resume` performs the next attempt.

Shape of the theorems. `pre` is **any** schedule from a thread-free initial state (any configuration with the drain
rule of `commit_read`, `qp.drainPublish = true` — extracted; the pinned rule is `C09_drain_rule_needed`, F3),
including polls with arbitrary injected frontend operations. The continuation lets the clock pass the grace period
and then consists of polls without injected operations and clock ticks, with at least `pendingCount` polls (the
bound of the progress theorem of C06: every such poll pops at least one pending event). Then the caller's queue is
empty **and its reader position is published** (`rHist.headD 0`, the value a producer reload returns, equals the
writer position), the retry is granted, the record is appended to what the queue accepted, and the call returns
(`ret=1` for the macro that reports the outcome).

Why the reader position is published at the start of the continuation, whatever `pre` did: every read of a queue ends
with `commit_read` when it consumed something (all exits of `_read_and_decode_frontend_queue`), and with the drain rule
that call publishes whenever nothing is left to read. `C09_reads_committed` states this as an invariant of every
state between two operations of every schedule, with arbitrary frontend operations injected at every hook site
(`Backend/PubInv.lean`; inside a poll the context being read is exempt until the `commit_read` that ends its read).
-/
namespace Backend
open Backend.PB

/-- **Every read ends committed.** For every schedule (polls with arbitrary injected frontend operations, the exit
    drain) from a thread-free initial state, with the drain rule of `commit_read`: in the state after the schedule, a
    context whose queue holds nothing to read has its reader position published — `rHist.headD 0` (the newest value a
    producer reload can return) equals `rpos`. -/
theorem C09_reads_committed (s0 : BSt) (h0 : Start s0) (hdp : s0.cfg.qp.drainPublish = true) (ops : List Op) (i : Nat) :
    ReadsCommitted (runOps s0 ops) i :=
  readsCommitted_runOps h0 hdp ops i

/-- **The drain publishes.** After the continuation described above, the context of actor `a` holds nothing (transit
    buffer and queue empty) and the newest published reader position is the writer position: the producer's next
    reload sees the whole capacity free. -/
theorem C09_drain_publishes (s0 : BSt) (h0 : StartF s0) (pre : List Op) (a : Nat) (x : Actor)
    (hdp : s0.cfg.qp.drainPublish = true) (hx : (runOps s0 pre).actor a = some x)
    (hrun : (runOps s0 pre).backendGone = false) (dt : Nat) (hdt : s0.cfg.grace ≤ dt)
    (suffix : List Op) (hq : ∀ o ∈ suffix, quietOp o = true) (hn : pendingCount (runOps s0 pre) ≤ pollCount suffix)
    (i : Nat) (hi : x.ctx = some i) :
    ((runOps (runOps s0 pre) (.front (.tick dt) :: suffix)).th i).buf = [] ∧
    ((runOps (runOps s0 pre) (.front (.tick dt) :: suffix)).th i).qStmts = [] ∧
    ((runOps (runOps s0 pre) (.front (.tick dt) :: suffix)).th i).q.rHist.headD 0 =
      ((runOps (runOps s0 pre) (.front (.tick dt) :: suffix)).th i).q.wpos := by
  have hgi := (start_GI h0.start).runOps pre
  have hfi := (start_FI h0).runOps pre
  have hcfg := (start_GI h0.start).cfg_runOps pre
  obtain ⟨hpg, _, _, hall, hpub⟩ := drained_state hgi hfi hrun dt (by rw [hcfg]; exact hdt) suffix hq hn
    (by rw [hcfg]; exact hdp) a x hx (fun i _ => readsCommitted_runOps h0.start hdp pre i)
  have hc := hall i
  unfold chain at hc
  obtain ⟨hb, hqs⟩ := List.append_eq_nil_iff.mp hc
  obtain ⟨fl, hI⟩ := hpg.gi
  have hqc := hI.qc i
  refine ⟨hb, hqs, ?_⟩
  rw [hpub i hi hqs, hqc.wpos, hqc.sum, hqs]; simp

/-- **C09: a blocked log call resumes.** Blocking queue; after any schedule `pre` actor `a` is parked on the retry of
    a refused reservation for the record `st` (continuation `k` of the public call), and `st` fits an empty queue
    (`st.size ≤ qcap`). After the continuation (see the file header) the actor is still parked on the same request,
    and its `resume` — the next iteration of the retry loop —
    * is granted: `st` (stamped with the commit instant) is **appended to what the context's queue accepted**;
    * for a `log` call the call **returns**: the observation is that of an accepted statement (`ret=1` when made
      through the macro that reports the outcome, `k = 0`) and the actor is no longer parked. -/
theorem C09_blocked_call_resumes (s0 : BSt) (h0 : StartF s0) (pre : List Op) (a : Nat) (x : Actor) (st : Stmt) (k : Nat)
    (hdp : s0.cfg.qp.drainPublish = true) (hblk : s0.cfg.dropping = false)
    (hx : (runOps s0 pre).actor a = some x) (hp : x.pend = .retry st k) (hsz : st.size ≤ s0.cfg.qcap)
    (hrun : (runOps s0 pre).backendGone = false) (dt : Nat) (hdt : s0.cfg.grace ≤ dt)
    (suffix : List Op) (hq : ∀ o ∈ suffix, quietOp o = true) (hn : pendingCount (runOps s0 pre) ≤ pollCount suffix) :
    (runOps (runOps s0 pre) (.front (.tick dt) :: suffix)).actor a = some x ∧
    ((resume (runOps (runOps s0 pre) (.front (.tick dt) :: suffix)) a).1.th
        (ensureCtx (runOps (runOps s0 pre) (.front (.tick dt) :: suffix)) a).2).accepted =
      ((ensureCtx (runOps (runOps s0 pre) (.front (.tick dt) :: suffix)) a).1.th
        (ensureCtx (runOps (runOps s0 pre) (.front (.tick dt) :: suffix)) a).2).accepted ++
        [{ st with enqAt := (runOps (runOps s0 pre) (.front (.tick dt) :: suffix)).now }] ∧
    (st.kind = .log → k = 0 ∨ k = 5 →
      (resume (runOps (runOps s0 pre) (.front (.tick dt) :: suffix)) a).2 = obsLog st k (some true) st.size ∧
      pendOf (resume (runOps (runOps s0 pre) (.front (.tick dt) :: suffix)) a).1 a = some .none) := by
  have hgi := (start_GI h0.start).runOps pre
  have hfi := (start_FI h0).runOps pre
  have hcfg := (start_GI h0.start).cfg_runOps pre
  obtain ⟨hpg, hx2, hcfg2, hall, hpub⟩ := drained_state hgi hfi hrun dt (by rw [hcfg]; exact hdt) suffix hq hn
    (by rw [hcfg]; exact hdp) a x hx (fun i _ => readsCommitted_runOps h0.start hdp pre i)
  generalize runOps (runOps s0 pre) (.front (.tick dt) :: suffix) = s2 at hpg hx2 hcfg2 hall hpub ⊢
  obtain ⟨fl, hI⟩ := hpg.gi
  have hd : ∀ i, x.ctx = some i → (s2.th i).qStmts = [] ∧ Pub (s2.th i) := fun i hi =>
    ⟨(List.append_eq_nil_iff.mp (hall i)).2, hpub i hi⟩
  have hsz2 : st.size ≤ s2.cfg.qcap := by rw [hcfg2, hcfg]; exact hsz
  have hres := resume_retry_blocking s2 a x st k hx2 hp (by rw [hcfg2, hcfg]; exact hblk)
  obtain ⟨e1, e2⟩ := enqFlow_after_drain hI a x hx2 st hsz2 hd k false false
  refine ⟨hx2, by rw [hres]; exact e2, fun hk hk' => ?_⟩
  rw [hres, e1, afterEnq_log_obs _ a st hk k hk']
  refine ⟨rfl, ?_⟩
  obtain ⟨x1, hx1⟩ := ensureCtx_actor hx2
  exact pendOf_set_const _ a (fun x => { x with pend := .none }) (fun _ => rfl) (fun _ => rfl) .none (fun _ => rfl)
    (x := x1) ((tryEnq_actor _ _ _ _).trans hx1)

/-- what the observation of `C09_blocked_call_resumes` reads for the outcome-reporting macro -/
theorem C09_obs_ret1 (st : Stmt) : obsLog st 0 (some true) st.size = s!"id={st.id} ret=1 ev=1 bytes={st.size}" := by
  simp only [obsLog, toString]
  rw [String.append_assoc (s₁ := "id=" ++ st.id.repr) (s₂ := " ret=1") (s₃ := " ev=1 bytes=")]
  rfl

/-- **C09, a new call after the drain (either queue type, in particular the dropping one): accepted, never dropped.**
    Actor `a` (any thread that is not armed to stall) is idle or has never logged; after the continuation a new `log`
    call through logger object `lgi` whose record fits the capacity is granted: the record is appended to what the
    context's queue accepted and the observation is that of an accepted statement — `ret=1`, not the `ret=0` of a
    dropped one (`cont = 0`), and no failure counter moves (`C06`/`C04` count only refused attempts). -/
theorem C09_call_after_drain_accepted (s0 : BSt) (h0 : StartF s0) (pre : List Op) (a : Nat) (x : Actor)
    (hdp : s0.cfg.qp.drainPublish = true) (hx : (runOps s0 pre).actor a = some x) (hst : x.stallArmed = false)
    (hrun : (runOps s0 pre).backendGone = false) (dt : Nat) (hdt : s0.cfg.grace ≤ dt)
    (suffix : List Op) (hq : ∀ o ∈ suffix, quietOp o = true) (hn : pendingCount (runOps s0 pre) ≤ pollCount suffix)
    (lgi lvl len id : Nat) (dyn named : Bool) (k : Nat) (hk : k = 0 ∨ k = 5)
    (hsz : stmtSize s0.cfg .log id len dyn ((runOps (runOps s0 pre) (.front (.tick dt) :: suffix)).lgOf lgi).gid ≤ s0.cfg.qcap) :
    ∃ st : Stmt, st.id = id ∧ st.kind = .log ∧
      st.size = stmtSize s0.cfg .log id len dyn ((runOps (runOps s0 pre) (.front (.tick dt) :: suffix)).lgOf lgi).gid ∧
      (frontCall (runOps (runOps s0 pre) (.front (.tick dt) :: suffix)) a lgi .log lvl len k dyn id named).2 =
        obsLog st k (some true) st.size ∧
      ((frontCall (runOps (runOps s0 pre) (.front (.tick dt) :: suffix)) a lgi .log lvl len k dyn id named).1.th
          (ensureCtx (runOps (runOps s0 pre) (.front (.tick dt) :: suffix)) a).2).accepted =
        ((ensureCtx (runOps (runOps s0 pre) (.front (.tick dt) :: suffix)) a).1.th
          (ensureCtx (runOps (runOps s0 pre) (.front (.tick dt) :: suffix)) a).2).accepted ++
          [{ st with enqAt := (runOps (runOps s0 pre) (.front (.tick dt) :: suffix)).now }] := by
  have hgi := (start_GI h0.start).runOps pre
  have hfi := (start_FI h0).runOps pre
  have hcfg := (start_GI h0.start).cfg_runOps pre
  obtain ⟨hpg, hx2, hcfg2, hall, hpub⟩ := drained_state hgi hfi hrun dt (by rw [hcfg]; exact hdt) suffix hq hn
    (by rw [hcfg]; exact hdp) a x hx (fun i _ => readsCommitted_runOps h0.start hdp pre i)
  generalize runOps (runOps s0 pre) (.front (.tick dt) :: suffix) = s2 at hpg hx2 hcfg2 hall hpub hsz ⊢
  obtain ⟨fl, hI⟩ := hpg.gi
  have hd : ∀ i, x.ctx = some i → (s2.th i).qStmts = [] ∧ Pub (s2.th i) := fun i hi =>
    ⟨(List.append_eq_nil_iff.mp (hall i)).2, hpub i hi⟩
  have hc2 : s2.cfg = s0.cfg := hcfg2.trans hcfg
  let st : Stmt := { id := id, kind := .log, lg := lgi, lvl := lvl, ts := s2.now,
                     size := stmtSize s2.cfg .log id len dyn (s2.lgOf lgi).gid, actor := a, named := named }
  have hfc : frontCall s2 a lgi .log lvl len k dyn id named = enqFlow s2 a st k true := by
    unfold Backend.frontCall
    simp only [hx2, Option.map_some, hst, Option.getD_some, Bool.false_eq_true, if_false]
    rfl
  have hsz2 : st.size ≤ s2.cfg.qcap := by
    show stmtSize s2.cfg .log id len dyn (s2.lgOf lgi).gid ≤ s2.cfg.qcap
    rw [hc2]; exact hsz
  obtain ⟨e1, e2⟩ := enqFlow_after_drain hI a x hx2 st hsz2 hd k true true
  refine ⟨st, rfl, rfl, by show stmtSize s2.cfg .log id len dyn (s2.lgOf lgi).gid = _; rw [hc2], ?_, ?_⟩
  · rw [hfc, e1, afterEnq_log_obs _ a st rfl k hk]
  · rw [hfc]; exact e2

/-! ### witnesses -/

/-- blocking queue of 1024 bytes (reader batch 5 % = 51 bytes), ordering disabled; `dp`: the drain rule of `commit_read` -/
def c09Cfg (dp : Bool) : Cfg := { c05Cfg true with grace := 0, qp := { c05Params with drainPublish := dp } }
def c09Init (dp : Bool) : BSt := { c05Init true with cfg := c09Cfg dp }

theorem c09Init_startF (dp : Bool) : StartF (c09Init dp) := ⟨⟨by show 0 < 32; decide, rfl, rfl, rfl, rfl, rfl⟩, rfl, rfl⟩

/-- F3 schedule: a 47-byte statement (less than the 51-byte batch) is logged and processed; then the thread logs a
    1009-byte statement (capacity − 15) -/
def c09Pre : List Op :=
  [ .front (.tstart 1), .front (.log 1 0 4 10 true), .poll [], .front (.log 1 0 4 972 true) ]
/-- one more poll and one more iteration of the caller's retry loop -/
def c09Round : List Op := [ .poll [], .front (.resume 1) ]

/-- **Without the drain rule the caller stalls on an empty queue (finding F3, end to end).** Pinned `commit_read`
    (publish only when the batch threshold is reached, `drainPublish = false`), schedule `c09Pre`: the backend has
    read, processed and committed the 47-byte statement — transit buffer and queue are empty, nothing is pending, reader
    and writer position are both 47 — but the published reader position is still 0 (47 < 51). The 1009-byte request
    (≤ capacity 1024) is refused, the caller is parked on its retry, and every further poll and retry leaves exactly
    this state: the backend has nothing to read, so it never commits again, so nothing is ever published. -/
theorem C09_drain_rule_needed :
    (c09Init false).cfg.dropping = false ∧
    (runOps (c09Init false) c09Pre).actors.map (fun x => x.pend matches .retry _ 0) = [true] ∧
    (runOps (c09Init false) c09Pre).ths.map
      (fun t => (t.buf.length, t.qStmts.length, t.q.rpos, t.q.wpos, t.q.rHist.headD 0)) = [(0, 0, 47, 47, 0)] ∧
    pendingCount (runOps (c09Init false) c09Pre) = 0 ∧
    (runOps (c09Init false) (c09Pre ++ c09Round ++ c09Round ++ c09Round)).actors.map
      (fun x => x.pend matches .retry _ 0) = [true] ∧
    (runOps (c09Init false) (c09Pre ++ c09Round ++ c09Round ++ c09Round)).ths.map
      (fun t => (t.accepted.length, t.buf.length, t.qStmts.length, t.q.rpos, t.q.wpos, t.q.rHist.headD 0)) =
        [(1, 0, 0, 47, 47, 0)] ∧
    (applyOp (runOps (c09Init false) (c09Pre ++ c09Round ++ c09Round ++ c09Round)) (.front (.resume 1))).2 = "parked:sleep" := by
  decide

/-- with the drain rule (as extracted) the same schedule never parks the caller: the poll publishes position 47 and
    the 1009-byte statement is accepted at once — no stall on an empty queue -/
example :
    (runOps (c09Init true) (c09Pre.take 3)).ths.map (fun t => (t.q.rpos, t.q.rHist.headD 0)) = [(47, 47)] ∧
    (applyOp (runOps (c09Init true) (c09Pre.take 3)) (.front (.log 1 0 4 972 true))).2 = "id=1 ret=1 ev=1 bytes=1009" ∧
    (runOps (c09Init true) c09Pre).actors.map (fun x => x.pend matches .none) = [true] := by
  decide

/-- a caller blocked by a queue that is really full: 47 bytes unread, the 1009-byte request does not fit -/
def c09Block : List Op := [ .front (.tstart 1), .front (.log 1 0 4 10 true), .front (.log 1 0 4 972 true) ]

/-- non-vacuity of `C09_blocked_call_resumes`: every hypothesis is met by `c09Block` on the blocking queue with the
    drain rule (the caller is parked on the retry of a 1009-byte record; one record is pending, so one quiet poll is
    enough), and the conclusion is what the model
    computes: after `tick 0, poll` the retry is accepted and the call returns `ret=1`. -/
example :
    StartF (c09Init true) ∧ (c09Init true).cfg.qp.drainPublish = true ∧ (c09Init true).cfg.dropping = false ∧
    ((runOps (c09Init true) c09Block).actor 1).map (fun x => (x.pend matches .retry _ 0, x.ctx)) = some (true, some 0) ∧
    (∀ st k, ((runOps (c09Init true) c09Block).actor 1).map (·.pend) = some (.retry st k) → st.size ≤ (c09Init true).cfg.qcap) ∧
    (runOps (c09Init true) c09Block).backendGone = false ∧
    pendingCount (runOps (c09Init true) c09Block) ≤ pollCount [.poll []] ∧
    (applyOp (runOps (runOps (c09Init true) c09Block) [.front (.tick 0), .poll []]) (.front (.resume 1))).2 =
      "id=1 ret=1 ev=1 bytes=1009" ∧
    (runOps (runOps (c09Init true) c09Block) [.front (.tick 0), .poll [], .front (.resume 1)]).ths.map
      (fun t => t.accepted.map (·.size)) = [[47, 1009]] := by
  refine ⟨c09Init_startF true, by decide, by decide, by decide, ?_, by decide, by decide, by decide, by decide⟩
  · intro st k h
    have : ((runOps (c09Init true) c09Block).actor 1).map (fun x => (match x.pend with | .retry st _ => st.size | _ => 0)) = some 1009 := by
      decide
    cases hx : (runOps (c09Init true) c09Block).actor 1 with
    | none => rw [hx] at h; cases h
    | some x =>
      rw [hx] at h this
      simp only [Option.map_some, Option.some.injEq] at h this
      rw [h] at this
      have h2 : st.size = 1009 := this
      show st.size ≤ 1024
      omega

/-! ### no stall on an empty queue — as a statement about EVERY reachable state (audit round)

`C09_blocked_call_resumes` / `C09_call_after_drain_accepted` reach the empty queue through a *quiet* continuation (no
frontend operation injected while the backend drains). The half of the property that is a safety statement — "a
producer is never left waiting while its queue is empty; a dropping queue never rejects a fitting statement when its
queue is empty" — needs no such premise: it holds in the state after **every** schedule (other threads logging,
injections at every hook site, buffers of other contexts and even of this context still full), as soon as the
caller's own queue holds nothing unread. The quiet continuation is only what the *progress* half ("after finitely many
polls the queue is empty") is proved under. -/

/-- **C09, safety half, every reachable state (blocking queue).** After any schedule `ops` from a thread-free initial
    state, if actor `a` is parked on the retry of a refused reservation `st` that fits the capacity and its context's
    queue holds nothing unread, the next iteration of the retry loop is granted: `st` is appended to what the queue
    accepted and (for a `log` call) the call returns `ret=1`. -/
theorem C09_empty_queue_retry_granted (s0 : BSt) (h0 : StartF s0) (ops : List Op) (a : Nat) (x : Actor) (st : Stmt)
    (k : Nat) (hdp : s0.cfg.qp.drainPublish = true) (hblk : s0.cfg.dropping = false)
    (hx : (runOps s0 ops).actor a = some x) (hp : x.pend = .retry st k) (hsz : st.size ≤ s0.cfg.qcap)
    (hempty : ∀ i, x.ctx = some i → ((runOps s0 ops).th i).qStmts = []) :
    ((resume (runOps s0 ops) a).1.th (ensureCtx (runOps s0 ops) a).2).accepted =
      ((ensureCtx (runOps s0 ops) a).1.th (ensureCtx (runOps s0 ops) a).2).accepted ++
        [{ st with enqAt := (runOps s0 ops).now }] ∧
    (st.kind = .log → k = 0 ∨ k = 5 →
      (resume (runOps s0 ops) a).2 = obsLog st k (some true) st.size ∧
      pendOf (resume (runOps s0 ops) a).1 a = some .none) := by
  have hgi := (start_GI h0.start).runOps ops
  have hcfg := (start_GI h0.start).cfg_runOps ops
  have hpub : ∀ i, Pub ((runOps s0 ops).th i) := fun i => readsCommitted_runOps h0.start hdp ops i
  generalize runOps s0 ops = s2 at hgi hcfg hpub hx hempty ⊢
  obtain ⟨fl, hI⟩ := hgi
  have hd : ∀ i, x.ctx = some i → (s2.th i).qStmts = [] ∧ Pub (s2.th i) := fun i hi => ⟨hempty i hi, hpub i⟩
  have hsz2 : st.size ≤ s2.cfg.qcap := by rw [hcfg]; exact hsz
  have hres := resume_retry_blocking s2 a x st k hx hp (by rw [hcfg]; exact hblk)
  obtain ⟨e1, e2⟩ := enqFlow_after_drain hI a x hx st hsz2 hd k false false
  refine ⟨by rw [hres]; exact e2, fun hk hk' => ?_⟩
  rw [hres, e1, afterEnq_log_obs _ a st hk k hk']
  refine ⟨rfl, ?_⟩
  obtain ⟨x1, hx1⟩ := ensureCtx_actor hx
  exact pendOf_set_const _ a (fun x => { x with pend := .none }) (fun _ => rfl) (fun _ => rfl) .none (fun _ => rfl)
    (x := x1) ((tryEnq_actor _ _ _ _).trans hx1)

/-- **C09, safety half, every reachable state (either queue type — in particular the dropping one).** After any
    schedule `ops`, a new `log` call of an actor that is not armed to stall, whose record fits the capacity and whose
    context's queue holds nothing unread (or that has no context yet), is accepted: `ret=1`, never the `ret=0` of a
    dropped statement, and the record is appended to what the queue accepted. -/
theorem C09_empty_queue_call_accepted (s0 : BSt) (h0 : StartF s0) (ops : List Op) (a : Nat) (x : Actor)
    (hdp : s0.cfg.qp.drainPublish = true) (hx : (runOps s0 ops).actor a = some x) (hst : x.stallArmed = false)
    (hempty : ∀ i, x.ctx = some i → ((runOps s0 ops).th i).qStmts = [])
    (lgi lvl len id : Nat) (dyn named : Bool) (k : Nat) (hk : k = 0 ∨ k = 5)
    (hsz : stmtSize s0.cfg .log id len dyn ((runOps s0 ops).lgOf lgi).gid ≤ s0.cfg.qcap) :
    ∃ st : Stmt, st.id = id ∧ st.kind = .log ∧
      st.size = stmtSize s0.cfg .log id len dyn ((runOps s0 ops).lgOf lgi).gid ∧
      (frontCall (runOps s0 ops) a lgi .log lvl len k dyn id named).2 = obsLog st k (some true) st.size ∧
      ((frontCall (runOps s0 ops) a lgi .log lvl len k dyn id named).1.th (ensureCtx (runOps s0 ops) a).2).accepted =
        ((ensureCtx (runOps s0 ops) a).1.th (ensureCtx (runOps s0 ops) a).2).accepted ++
          [{ st with enqAt := (runOps s0 ops).now }] := by
  have hgi := (start_GI h0.start).runOps ops
  have hcfg := (start_GI h0.start).cfg_runOps ops
  have hpub : ∀ i, Pub ((runOps s0 ops).th i) := fun i => readsCommitted_runOps h0.start hdp ops i
  generalize runOps s0 ops = s2 at hgi hcfg hpub hx hempty hsz ⊢
  obtain ⟨fl, hI⟩ := hgi
  have hd : ∀ i, x.ctx = some i → (s2.th i).qStmts = [] ∧ Pub (s2.th i) := fun i hi => ⟨hempty i hi, hpub i⟩
  let st : Stmt := { id := id, kind := .log, lg := lgi, lvl := lvl, ts := s2.now,
                     size := stmtSize s2.cfg .log id len dyn (s2.lgOf lgi).gid, actor := a, named := named }
  have hfc : frontCall s2 a lgi .log lvl len k dyn id named = enqFlow s2 a st k true := by
    unfold Backend.frontCall
    simp only [hx, Option.map_some, hst, Option.getD_some, Bool.false_eq_true, if_false]
    rfl
  have hsz2 : st.size ≤ s2.cfg.qcap := by
    show stmtSize s2.cfg .log id len dyn (s2.lgOf lgi).gid ≤ s2.cfg.qcap
    rw [hcfg]; exact hsz
  obtain ⟨e1, e2⟩ := enqFlow_after_drain hI a x hx st hsz2 hd k true true
  refine ⟨st, rfl, rfl, by show stmtSize s2.cfg .log id len dyn (s2.lgOf lgi).gid = _; rw [hcfg], ?_, ?_⟩
  · rw [hfc, e1, afterEnq_log_obs _ a st rfl k hk]
  · rw [hfc]; exact e2

/-- a schedule that is **not** quiet and does not end drained: while thread 1 is parked on its 1009-byte retry, thread 2
    starts and logs, one poll reads both queues but processes a single event, thread 2 logs again -/
def c09Busy : List Op :=
  c09Block ++ [.front (.tstart 2), .front (.log 2 0 4 10 true), .poll [], .front (.log 2 0 4 20 true)]

/-- non-vacuity of `C09_empty_queue_retry_granted` on `c09Busy`: the schedule contains frontend operations after the
    caller parked (`quietOp` fails), two events are still pending (one in thread 2's transit buffer, one in its queue),
    yet thread 1's queue is empty with its reader position published, the hypotheses hold and the retry returns `ret=1` -/
example :
    c09Busy.all quietOp = false ∧ pendingCount (runOps (c09Init true) c09Busy) = 2 ∧
    (runOps (c09Init true) c09Busy).actors.map (fun x => (x.pend matches .retry _ 0, x.ctx)) =
      [(true, some 0), (false, some 1)] ∧
    (runOps (c09Init true) c09Busy).ths.map (fun t => (t.buf.length, t.qStmts.length, t.q.rpos, t.q.wpos, t.q.rHist.headD 0)) =
      [(0, 0, 47, 47, 47), (1, 1, 47, 104, 47)] ∧
    (applyOp (runOps (c09Init true) c09Busy) (.front (.resume 1))).2 = "id=1 ret=1 ev=1 bytes=1009" := by
  decide

end Backend
