import QuillModel.Uspsc.ReadPass
import QuillModel.Props.C02
/-!
# C05 on the unbounded queue: "nothing to read" means the thread's queue is drained (finding F25)

Object: the chain-of-nodes model of `UnboundedSPSCQueue` (`Uspsc/Model.lean`, the model of C02, tied to the real queue
by `h1_uspsc.cpp` vs `driver uspsc`) and, on top of its `prepare_read()` (`apiPrepareRead`),
`BackendWorker::_read_unbounded_frontend_queue` (`apiRead follow`, `Uspsc/ReadPass.lean`): call `prepare_read()`; if it
switched to the next buffer and found it empty, call again when `follow` (the repair of F25). C05's ordering argument
needs that a read pass which stops reading a thread's queue has really seen everything that was committed by then; on
the unbounded queue a buffer created by `shrink()` can stay empty while the producer is already in a third buffer, and
without `follow` the read stops in front of a committed, older record.

Quantifiers: every initial capacity `> 0`, every batch rule, every history of producer micro-steps (writes, commits,
growth and shrink publications), consumer micro-steps (loads incl. stale ones, reads, commits, switches) — `URun` from
`uinit` —, both flag values of `Flags`, release/acquire orders (`UOrdersOK`, as for C02). The read itself uses newest
loads: the statement is about what is visible at this instant (a stale load delays visibility, it cannot hide a record
for ever: coherence).
-/
namespace Uspsc
open Spsc

/-- **A read with the repair answers "nothing" only when the whole chain is drained, and otherwise answers the oldest
    unread committed record.** For every reachable state `s` of the chain model and `r = apiRead true … s`:
    * `r.1` is a legal run of consumer micro-steps (each step enabled when taken), so the state after the read is
      reachable too and C02's safety applies to every step (no node is deleted with unread records, …);
    * if the final answer is `null`, then NO node from the consumer's node `ci` to the producer's node `pi` holds a
      committed record the consumer has not read (`pend s k`: reader position below the published writer position);
    * if the final answer is `readAt nd off`, then `nd` is the FIRST node from `ci` on that holds a committed unread
      record — every node before it is drained — and `off` is its reader position (modulo the capacity): with the
      per-node FIFO of C01 this is the oldest unread committed record of the thread;
    * there is no third kind of answer. -/
theorem C05_unbounded_read_complete (o : UParams) (ho : UOrdersOK o) (f : Flags) (cap : Nat) (batch : Nat → Nat)
    (hc : 0 < cap) (ops : List UOp) (hr : URun o (uinit cap batch) ops) :
    URun o (urun o (uinit cap batch) ops)
      (apiRead true o f (urun o (uinit cap batch) ops).n (urun o (uinit cap batch) ops)).1 ∧
    ((apiRead true o f (urun o (uinit cap batch) ops).n (urun o (uinit cap batch) ops)).2.final = .null →
      ∀ k, (urun o (uinit cap batch) ops).ci ≤ k → k ≤ (urun o (uinit cap batch) ops).pi →
        ¬ pend (urun o (uinit cap batch) ops) k) ∧
    (∀ nd off, (apiRead true o f (urun o (uinit cap batch) ops).n (urun o (uinit cap batch) ops)).2.final = .readAt nd off →
      (urun o (uinit cap batch) ops).ci ≤ nd ∧ nd ≤ (urun o (uinit cap batch) ops).pi ∧
      pend (urun o (uinit cap batch) ops) nd ∧
      off = ((urun o (uinit cap batch) ops).nodes nd).q.rpos % ((urun o (uinit cap batch) ops).nodes nd).q.cap ∧
      ∀ k, (urun o (uinit cap batch) ops).ci ≤ k → k < nd → ¬ pend (urun o (uinit cap batch) ops) k) ∧
    ((apiRead true o f (urun o (uinit cap batch) ops).n (urun o (uinit cap batch) ops)).2.final = .null ∨
      ∃ nd off, (apiRead true o f (urun o (uinit cap batch) ops).n (urun o (uinit cap batch) ops)).2.final = .readAt nd off) := by
  have hi := ureachable_inv o ho ops _ (uinit_inv o cap batch hc) hr
  have hw := urun_wh o ops _ (uinit_wh cap batch)
  generalize urun o (uinit cap batch) ops = s at hi hw
  have sp := apiRead_spec o ho f s.n s hi hw (by have := hi.len; omega)
  refine ⟨sp.run, ?_, ?_, ?_⟩
  · intro hn
    rcases sp.out with ⟨_, hall⟩ | ⟨nd, hr', _⟩
    · exact hall
    · rw [hr'] at hn; cases hn
  · intro nd off hro
    rcases sp.out with ⟨hn, _⟩ | ⟨nd', hr', h1, h2, h3, h4⟩
    · rw [hn] at hro; cases hro
    · rw [hr'] at hro
      injection hro with e1 e2
      subst e1
      exact ⟨h1, h2, h3, e2.symm, h4⟩
  · rcases sp.out with ⟨hn, _⟩ | ⟨nd, hr', _⟩
    · exact Or.inl hn
    · exact Or.inr ⟨nd, _, hr'⟩

/-- the node the read answers holds, at its reader position, the next record of that node in write order: the
    `nread`-th of its records starts exactly there (C01's per-node FIFO ghost) -/
theorem C05_unbounded_read_is_next_record (o : UParams) (ho : UOrdersOK o) (cap : Nat) (batch : Nat → Nat)
    (hc : 0 < cap) (ops : List UOp) (hr : URun o (uinit cap batch) ops) (nd : Nat)
    (hn : nd < (urun o (uinit cap batch) ops).n) (hp : pend (urun o (uinit cap batch) ops) nd) :
    ((urun o (uinit cap batch) ops).nodes nd).q.nread < ((urun o (uinit cap batch) ops).nodes nd).q.recs.length ∧
    ((urun o (uinit cap batch) ops).nodes nd).q.rpos =
      startK ((urun o (uinit cap batch) ops).nodes nd).q.recs ((urun o (uinit cap batch) ops).nodes nd).q.nread := by
  have hi := ureachable_inv o ho ops _ (uinit_inv o cap batch hc) hr
  have hq := hi.qinv nd hn
  have hlt : ((urun o (uinit cap batch) ops).nodes nd).q.rpos < ((urun o (uinit cap batch) ops).nodes nd).q.wpos := by
    have := hq.wNew; unfold pend at hp; omega
  obtain ⟨hk, _, _⟩ := hq.read_is_next hlt
  exact ⟨hk, hq.rSum⟩

/-! ### the unrepaired read stops in front of a committed record (F25) -/

def f25Flags : Flags := { commitBeforePublish := true, commitReadBeforeDelete := true }

/-- capacity 512, everything consumed (nothing was written), `shrink(256)`, then a 700-byte record: it does not fit the
    256-byte node, a third node is allocated, the record is written and committed there -/
def f25State : US :=
  let s0 := uinit 512 (fun c => c * 5 / 100)
  let s1 := urun quillU s0 (apiShrink s0 256).1
  let s2 := urun quillU s1 (apiPrepareWrite quillU f25Flags 4096 s1 700 0).1
  urun quillU s2 [.p (.write 700), .p .commitW]

/-- the history that leads there is a legal run -/
theorem f25_reachable :
    let s0 := uinit 512 (fun c => c * 5 / 100)
    let ops := (apiShrink s0 256).1 ++ (apiPrepareWrite quillU f25Flags 4096 (urun quillU s0 (apiShrink s0 256).1) 700 0).1 ++
      [.p (.write 700), .p .commitW]
    URun quillU s0 ops ∧ urun quillU s0 ops = f25State := by
  refine ⟨by decide, ?_⟩
  simp only [f25State, urun_append]

/-- **F25, the code as found (`follow = false`)**: the producer is in node 2 and has committed a record there, the
    consumer is in node 0; the read switches to the empty node 1 and answers "nothing" although a committed record is
    unread. -/
theorem C05_unbounded_read_incomplete_without_follow :
    f25State.ci = 0 ∧ f25State.pi = 2 ∧ pend f25State 2 ∧
    (apiRead false quillU f25Flags f25State.n f25State).2.final.isNull = true := by
  decide

/-- the same state with the repair: the read follows the chain past the empty node and answers the record in node 2 -/
theorem C05_unbounded_read_follows :
    (apiRead true quillU f25Flags f25State.n f25State).2.final.readsAt = some (2, 0) := by
  decide

/-- non-vacuity of the completeness theorem on a longer history: two records in node 0, growth, one record in node 1;
    the consumer reads the first record; the read answers node 0 (the second record), not the newer node -/
example :
    let ops : List UOp := [.p (.write 8), .p .commitW, .p (.write 4), .p .commitW, .publish 32, .p (.write 20), .p .commitW,
      .c (.loadW 12), .c (.read 8)]
    URun quillU (uinit 16 (fun _ => 0)) ops ∧
    (apiRead true quillU f25Flags (urun quillU (uinit 16 (fun _ => 0)) ops).n (urun quillU (uinit 16 (fun _ => 0)) ops)).2.final.readsAt =
      some (0, 8) := by decide

end Uspsc
