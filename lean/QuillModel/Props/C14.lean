import QuillModel.Rot.Dated
/-!
# C14 — size rotation keeps every statement whole and in order within size / count bounds

Property theorems only (helpers in `QuillModel/Rot/*`). The model is `Rot.restart` / `Rot.write` (constructor and
`write_log` of `RotatingSink`), for **every** parameter set `P`, zone function `z`, record size and timestamp; time
rotation is part of `write`, so everything here holds for time-triggered rotations too (composition, C15).

Index scheme — proved in full: for every directory that holds no dated file of the sink's family (any unrelated files,
any index files, gaps allowed), every first configuration and every sequence of writes (any size, any timestamp) and
restarts with any configuration of the Index scheme in append mode or in write mode with clean-up (`RestartOK`).
A write-mode restart *without* clean-up (`remove_old_files = false`) orphans the files of the previous run (they are
outside `_created_files`, later renames overwrite them): modelled, exercised by the harness, outside these theorems.

Date / DateAndTime — `…_partial`, under two premises that the counter-witnesses show to be necessary:
(1) the civil suffix (day / second in the sink's zone) of the start instant and of the record timestamps never decreases
(`MonoSfx`; implied by non-decreasing timestamps in a zone of constant offset, `monoSfx_of_sorted`) — F14 is what
happens otherwise; (2) dated files of the family already in the directory that the sink does not recover are dated
strictly before the start day (Date: `≤` today, today's files being recovered in append mode or removed in write mode
with clean-up) / start second (DateAndTime). Then within a run (`C14_dated_run_partial`): the tracked files exist, are
ordered oldest → newest exactly as the scheme orders names (earlier date older; same date: larger index older; current
file last), the retained sequence is the written one minus a prefix of whole deleted files, every rename target is
absent or already vacated (`C14_dated_no_clobber_partial`); and these invariants survive restarts
(`C14_dated_restart_partial`) — but the *sequence* and the *backup bound* do not: the files of earlier days / of every
earlier run are not recovered, so they are neither counted nor deleted first (F15, `C14_F15_restart_bound_fails`).
`C14_any_scheme_write`: what holds for every scheme with no premise at all.
F18 (repaired in /repo by `if` → `while`; the model is parametric in `deletesAllExcess`): with one deletion per rotation a
set of recovered files larger than `max_backup_files` never shrinks to it; with the repaired loop
`C14_index_backup_bound_after_rotation` holds.
-/
namespace Rot

/-- the restarts the Index theorems cover -/
def OpOK : Op → Prop
  | .write _ _ => True
  | .restart c _ => RestartOK c

theorem step_inv (P : Params) (z : Nat → Int) (w : World) (op : Op) (h : IndexInv w) (hop : OpOK op) :
    IndexInv (step P z w op) := by
  cases op with
  | write st ts => exact write_inv P z w st ts h
  | restart c start => exact restart_inv z w.fs c start h.dirOK hop

theorem run_inv (P : Params) (z : Nat → Int) : ∀ (ops : List Op) (w : World), IndexInv w → (∀ op ∈ ops, OpOK op) →
    IndexInv (run P z w ops)
  | [], _, h, _ => h
  | op :: ops, w, h, hops =>
    run_inv P z ops _ (step_inv P z w op h (hops op List.mem_cons_self))
      (fun o ho => hops o (List.mem_cons_of_mem _ ho))

/-- **Invariant, every history.** After any sequence of writes and restarts: the tracked files are exactly the files
    of the sink's family on disk, all exist, are `base.k.ext` with strictly decreasing `k ≥ 1` from the oldest to the
    newest followed by the current file, `_file_size` is the size of the current file, names are distinct. -/
theorem C14_index_invariant (P : Params) (z : Nat → Int) (fs0 : FS) (hd : DirOK fs0) (c0 : Cfg) (start0 : Nat)
    (hc0 : RestartOK c0) (ops : List Op) (hops : ∀ op ∈ ops, OpOK op) :
    IndexInv (run P z (restart z fs0 c0 start0) ops) :=
  run_inv P z ops _ (restart_inv z fs0 c0 start0 hd hc0) hops

/-- statements written by a history -/
def written : List Op → List Stmt
  | [] => []
  | .write st _ :: ops => st :: written ops
  | .restart _ _ :: ops => written ops

/-- restarts that continue the sequence: Index scheme, append mode -/
def OpAppend : Op → Prop
  | .write _ _ => True
  | .restart c _ => c.scheme = .index ∧ c.append = true

theorem OpAppend.ok {op : Op} (h : OpAppend op) : OpOK op := by
  cases op with
  | write => trivial
  | restart c s => exact ⟨h.1, Or.inl h.2⟩

theorem run_sequence (P : Params) (z : Nat → Int) : ∀ (ops : List Op) (w : World), IndexInv w →
    (∀ op ∈ ops, OpAppend op) → diskSeq (run P z w ops) <:+ diskSeq w ++ written ops
  | [], w, _, _ => by simp [run, written]
  | op :: ops, w, h, hops => by
    have hop := hops op List.mem_cons_self
    have ih := run_sequence P z ops (step P z w op) (step_inv P z w op h hop.ok)
      (fun o ho => hops o (List.mem_cons_of_mem _ ho))
    cases op with
    | write st ts =>
      simp only [run, written, step]
      simp only [step] at ih
      obtain ⟨n, he, _⟩ := write_diskSeq P z w st ts h
      have h1 : diskSeq (write P z w st ts) ++ written ops <:+ diskSeq w ++ st :: written ops := by
        refine ⟨(w.sink.created.take n).flatMap (content w.fs), ?_⟩
        rw [← List.append_assoc, ← he]; simp
      exact ih.trans h1
    | restart c start =>
      simp only [run, written, step]
      simp only [step] at ih
      obtain ⟨h1, h2⟩ := restart_append_created z w c start h hop.1 hop.2
      have : diskSeq (restart z w.fs c start) = diskSeq w := by unfold diskSeq; rw [h1, h2]
      rwa [this] at ih

/-- **Order and completeness.** Reading the retained files from the oldest to the newest as the scheme orders them
    (strictly decreasing index, then the current file — `C14_index_invariant`) gives the sequence that was on disk at
    the beginning followed by every statement written, minus a prefix; by `write_diskSeq` that prefix consists of
    whole files, each deleted as the oldest one by a rotation with `overwrite_rolled_files` on and the backup limit
    reached. Across append-mode restarts with any other settings. -/
theorem C14_index_sequence (P : Params) (z : Nat → Int) (fs0 : FS) (hd : DirOK fs0) (c0 : Cfg) (start0 : Nat)
    (hc0 : RestartOK c0) (ops : List Op) (hops : ∀ op ∈ ops, OpAppend op) :
    diskSeq (run P z (restart z fs0 c0 start0) ops) <:+ diskSeq (restart z fs0 c0 start0) ++ written ops :=
  run_sequence P z ops _ (restart_inv z fs0 c0 start0 hd hc0) hops

/-- one write, precisely: the statement is appended; what disappears is nothing (`n = 0`), or the whole `n` oldest files
    when overwriting is on and `_created_files.size() > max_backup_files` (one file with the `if`, every file in excess
    with the repaired `while`) -/
theorem C14_index_write (P : Params) (z : Nat → Int) (w : World) (st : Stmt) (ts : Nat) (h : IndexInv w) :
    ∃ n, diskSeq w ++ [st] = (w.sink.created.take n).flatMap (content w.fs) ++ diskSeq (write P z w st ts) ∧
      (n = 0 ∨ (w.sink.cfg.overwrite = true ∧ w.sink.created.length > w.sink.cfg.maxBackup)) :=
  write_diskSeq P z w st ts h

/-- **Exactly one file.** If the statements on disk and the new one are pairwise distinct, then after the write every
    statement occurs exactly once in the concatenation of the tracked files (which, by the invariant, are all the
    files of the family, under distinct names) — so it is in exactly one file, once; and the new statement is the
    last one of the current file. Renames move whole files: `rotSpec_diskSeq`. -/
theorem C14_index_exactly_one_file (P : Params) (z : Nat → Int) (w : World) (st : Stmt) (ts : Nat) (h : IndexInv w)
    (hn : (diskSeq w ++ [st]).Nodup) :
    (diskSeq (write P z w st ts)).Nodup ∧ ∃ pre, (write P z w st ts).fs.get curName = some (pre ++ [st]) := by
  constructor
  · obtain ⟨n, he, _⟩ := write_diskSeq P z w st ts h
    rw [he] at hn
    exact (List.nodup_append.mp hn).2.1
  · obtain ⟨pre, h1, _⟩ := write_cur P z w st ts h.curInv
    exact ⟨pre, h1⟩

/-- **Backup bound.** The number of rotated files (`created` minus the current file) never rises above
    `max_backup_files`: after a write it is at most the larger of what it was and `max_backup_files`. -/
theorem C14_index_backup_bound (P : Params) (z : Nat → Int) (w : World) (st : Stmt) (ts : Nat) :
    (write P z w st ts).sink.created.length - 1 ≤ max (w.sink.created.length - 1) w.sink.cfg.maxBackup := by
  have := write_count P z w st ts
  omega

/-- … hence within a run that starts within the limit it stays within the limit -/
theorem C14_index_backup_bound_run (P : Params) (z : Nat → Int) :
    ∀ (l : List (Stmt × Nat)) (w : World), w.sink.created.length ≤ w.sink.cfg.maxBackup + 1 →
      (run P z w (l.map (fun p => Op.write p.1 p.2))).sink.created.length ≤ w.sink.cfg.maxBackup + 1
  | [], _, h => h
  | x :: l, w, h => by
    simp only [List.map_cons, run, step]
    have h1 := write_count P z w x.1 x.2
    have h2 := write_cfg P z w x.1 x.2
    have := C14_index_backup_bound_run P z l (write P z w x.1 x.2) (by rw [h2]; omega)
    rwa [h2] at this

/-- **Backup bound, repaired deletion loop** (`deletesAllExcess`, extracted: `while`). A write whose trigger fires and
    whose rotation takes place leaves at most `max_backup_files` rotated files — even when the start had recovered more
    (limit lowered, files already present): the bound no longer depends on what was there before (F18). With
    overwriting off nothing is deleted and rotation stops instead (`stopped`). -/
theorem C14_index_backup_bound_after_rotation (P : Params) (hP : P.deletesAllExcess = true) (z : Nat → Int) (w : World)
    (st : Stmt) (ts : Nat) (hdue : timeDue w ts ∨ sizeDue w st.size ts) (hr : rotates w) :
    (write P z w st ts).sink.created.length - 1 ≤ w.sink.cfg.maxBackup := by
  have := write_count_all P z w st ts hP hdue hr
  omega

/-- **No clobbering.** In a state satisfying the invariant every `rename` of `_rotate_files` finds its target absent
    at the moment it is performed. -/
theorem C14_index_no_clobber (z : Nat → Int) (w : World) (h : IndexInv w) :
    movesSafe w.fs (w.sink.created.filterMap (moveOf w.sink.cfg.scheme (newSuffix z w.sink.cfg.scheme w.sink.openTs))) := by
  simp only [h.scheme, newSuffix]
  rw [moves_index _ _ rfl]
  refine chain_safe _ _ h.shape.sfxNone h.shape.sorted h.tracked ?_
  intro k hk
  exact Or.inl ⟨_, h.noStale none k hk, rfl⟩

/-- **Append-mode restart.** Whatever the other settings, a start in append mode on a directory left by the sink
    recovers exactly the index sequence the previous run left (same `_created_files`, same files, same retained
    sequence) — the next rotations continue it (`C14_index_sequence`). -/
theorem C14_index_append_restart_recovers (z : Nat → Int) (w : World) (c : Cfg) (start : Nat) (h : IndexInv w)
    (hsch : c.scheme = .index) (ha : c.append = true) :
    (restart z w.fs c start).sink.created = w.sink.created ∧ (restart z w.fs c start).fs = w.fs ∧
      diskSeq (restart z w.fs c start) = diskSeq w := by
  obtain ⟨h1, h2⟩ := restart_append_created z w c start h hsch ha
  exact ⟨h1, h2, by unfold diskSeq; rw [h1, h2]⟩

/-- **Size limit** (every naming scheme). After a write with a size limit configured, the tracked size of the current
    file is within the limit, or rotation has stopped (backup limit reached, overwriting off), or no byte precedes the
    statement in its file (a single statement alone exceeds the limit). The rotation happens *before* the write. -/
theorem C14_limit (P : Params) (z : Nat → Int) (w : World) (st : Stmt) (ts : Nat) (h : CurInv w)
    (hl : w.sink.cfg.limit ≠ 0) :
    (write P z w st ts).sink.fileSize ≤ w.sink.cfg.limit ∨ stopped w.sink = true ∨
      ∃ pre, (write P z w st ts).fs.get curName = some (pre ++ [st]) ∧ bytes pre = 0 := by
  obtain ⟨cont, hc, hsz⟩ := h
  by_cases hdue : timeDue w ts ∨ sizeDue w st.size ts
  · have hs := prepare_due P z w st.size ts hdue
    rcases rotate_cur P z w ts with h1 | ⟨h1, _, _, _, _⟩
    · -- `_rotate_files` returned early
      by_cases hst : stopped w.sink = true
      · exact Or.inr (Or.inl hst)
      · right; right
        have hb : bytes cont = 0 := by
          by_cases hb : bytes cont = 0
          · exact hb
          · have hst' : stopped w.sink = false := by simpa using hst
            have := rotate_eq P z w ts cont hst' hc hb
            rw [h1] at this
            have h2 := congrArg (fun x => x.fs.get curName) this
            simp only [FS.get_put, ↓reduceIte, hc, Option.some.injEq] at h2
            rw [h2] at hb; exact absurd rfl hb
        refine ⟨cont, ?_, hb⟩
        simp [write, appendCur, FS.get_put, hs.fs, h1, hc]
    · right; right
      exact ⟨[], by simp [write, appendCur, FS.get_put, hs.fs, h1], rfl⟩
  · left
    have ht : ¬ timeDue w ts := fun x => hdue (Or.inl x)
    have hs : ¬ sizeDue w st.size ts := fun x => hdue (Or.inr x)
    rw [write, prepare_idle P z w st.size ts ht hs]
    simp only [appendCur]
    have : ¬ w.sink.fileSize + st.size > w.sink.cfg.limit := fun hgt => hs ⟨ht, hl, hgt⟩
    omega

/-- **Unrelated files.** A file the directory scan ignores is never created, changed or removed by any operation
    (any restart configuration of the Index scheme, including write mode without clean-up). -/
theorem C14_unrelated_untouched (P : Params) (z : Nat → Int) (w : World) (op : Op) (h : IndexInv w) (k : Nat)
    (hsch : ∀ c s, op = .restart c s → c.scheme = .index) :
    (step P z w op).fs.get (.foreign k) = w.fs.get (.foreign k) := by
  cases op with
  | write st ts =>
    simp only [step, write, appendCur, FS.get_put]
    have hne : Name.foreign k ≠ curName := by simp [curName]
    simp only [hne, ↓reduceIte]
    rcases prepare_cases P z w st.size ts with hs | hs
    · rw [hs.fs]
    · rw [hs.fs]
      by_cases hr : rotates w
      · obtain ⟨hns, cont, hc, hb⟩ := hr
        exact (rotate_index P z w ts cont h hns hc hb).frame _ (fun s k' => by simp)
      · rw [rotate_of_not_rotates P z w ts h hr]
  | restart c start =>
    have hs := hsch c start rfl
    have hne : Name.foreign k ≠ curName := by simp [curName]
    simp only [step, restart, hs, clean]
    have hcl : ∀ b : Bool, FS.get (if b = true then List.filter (fun p => !matchesFilter p.1) w.fs else w.fs) (.foreign k)
        = w.fs.get (.foreign k) := by
      intro b
      split
      · rw [FS.get_filter w.fs (fun n => !matchesFilter n)]; simp [matchesFilter]
      · rfl
    split
    · split
      · exact hcl _
      · rw [FS.get_put]; simp only [hne, ↓reduceIte]; exact hcl _
    · rw [FS.get_put]; simp only [hne, ↓reduceIte]; exact hcl _

/-- **Every naming scheme, no premise.** For every scheme, zone, configuration and history: the current file exists and
    `_file_size` is its size; each statement is appended whole at the end of the current file; the number of tracked
    files after a write is at most `max(before, max_backup_files + 1)`. -/
theorem C14_any_scheme_write (P : Params) (z : Nat → Int) (fs0 : FS) (c0 : Cfg) (start0 : Nat) (ops : List Op)
    (st : Stmt) (ts : Nat) :
    let w := run P z (restart z fs0 c0 start0) ops
    CurInv w ∧ CurInv (write P z w st ts) ∧
      (∃ pre, (write P z w st ts).fs.get curName = some (pre ++ [st])) ∧
      (write P z w st ts).sink.created.length ≤ max w.sink.created.length (w.sink.cfg.maxBackup + 1) := by
  intro w
  have hw : CurInv w := run_curInv P z ops _ (restart_curInv z fs0 c0 start0)
  obtain ⟨pre, h1, _⟩ := write_cur P z w st ts hw
  exact ⟨hw, write_curInv P z w st ts hw, ⟨pre, h1⟩, write_count P z w st ts⟩

/-- a directory a dated scheme can start on: distinct names; the dated files of the family are not from the future
    (Date: not after the start day; DateAndTime: strictly before the start second) -/
structure DirDated (z : Nat → Int) (sch : Scheme) (fs : FS) (start : Nat) : Prop where
  keys : fs.keys.Nodup
  past : ∀ d k, (fs.get (.file (some d) k)).isSome →
    (sch = .date → d ≤ civilDay z start) ∧ (sch = .dateTime → d < civilSec z start)

theorem restart_dated_inv (z : Nat → Int) (fs : FS) (c : Cfg) (start : Nat) (hs : c.scheme ≠ .index)
    (hmode : c.append = true ∨ c.removeOld = true) (hd : DirDated z c.scheme fs start) :
    DatedInv z (restart z fs c start) := by
  cases hsch : c.scheme with
  | index => exact absurd hsch hs
  | date => exact restart_date_inv z fs c start hsch hmode hd.keys (fun d k hk => (hd.past d k hk).1 hsch)
  | dateTime => exact restart_dateTime_inv z fs c start hsch hd.keys (fun d k hk => (hd.past d k hk).2 hsch)

/-- **Date / DateAndTime, one run** (`_partial`: premises `DirDated` and `MonoSfx`, see the header). After the start and
    any sequence of writes whose civil suffixes do not decrease: `DatedInv` — the tracked files all exist, the deque
    from back to front is sorted exactly as the scheme orders names (`olderC`: earlier date older, same date larger index
    older, current file last), no tracked file is dated after the current one, untracked dated files are strictly
    earlier — and the retained sequence is the sequence at the start followed by the statements written, minus a prefix
    (of whole deleted files, `write_dated_diskSeq`). -/
theorem C14_dated_run_partial (P : Params) (z : Nat → Int) (fs0 : FS) (c0 : Cfg) (start0 : Nat) (hs : c0.scheme ≠ .index)
    (hmode : c0.append = true ∨ c0.removeOld = true) (hd : DirDated z c0.scheme fs0 start0)
    (l : List (Stmt × Nat)) (hm : MonoSfx z c0.scheme (sfxVal z c0.scheme start0) l) :
    DatedInv z (run P z (restart z fs0 c0 start0) (l.map (fun p => Op.write p.1 p.2))) ∧
      diskSeq (run P z (restart z fs0 c0 start0) (l.map (fun p => Op.write p.1 p.2))) <:+
        diskSeq (restart z fs0 c0 start0) ++ l.map (·.1) :=
  run_dated P z l _ (restart_dated_inv z fs0 c0 start0 hs hmode hd) hm

/-- non-decreasing timestamps in a zone of constant offset satisfy `MonoSfx` -/
theorem monoSfx_of_sorted (off : Int) (sch : Scheme) (start : Nat) (l : List (Stmt × Nat))
    (h1 : ∀ x ∈ l, start ≤ x.2) (h2 : l.Pairwise (fun a b => a.2 ≤ b.2)) :
    MonoSfx (fun _ => off) sch (sfxVal (fun _ => off) sch start) l :=
  ⟨fun x hx => sfxVal_mono off sch _ _ (h1 x hx), h2.imp (fun hab => sfxVal_mono off sch _ _ hab)⟩

/-- **No clobbering, dated schemes** (`_partial`: in a state satisfying `DatedInv`). Every target of the rename loop is
    absent before the rotation or is the source of another rename of the same loop; since an earlier target is never a
    later source (`DatedInv.pairs`), that other rename has already been performed — no retained file is overwritten. -/
theorem C14_dated_no_clobber_partial (z : Nat → Int) (w : World) (h : DatedInv z w) :
    (∀ m ∈ w.sink.created.filterMap (moveOf w.sink.cfg.scheme (newSuffix z w.sink.cfg.scheme w.sink.openTs)),
      w.fs.get m.2 = none ∨
        m.2 ∈ (w.sink.created.filterMap (moveOf w.sink.cfg.scheme (newSuffix z w.sink.cfg.scheme w.sink.openTs))).map (·.1)) ∧
    w.sink.created.Pairwise (fun a b =>
      (entryAfter w.sink.cfg.scheme (newSuffix z w.sink.cfg.scheme w.sink.openTs) a).name ≠ b.name) := by
  refine ⟨dated_targets_free z w h, ?_⟩
  rw [newSuffix_dated z _ _ h.scheme]
  exact h.pairs.imp (fun hx => hx.2.2.1)

/-- **Restarts, dated schemes** (`_partial`). If the new process starts on a later-or-equal day (Date) / a strictly later
    second (DateAndTime) than the suffix the current file would get, keeps the scheme and starts in append mode or in
    write mode with clean-up, the invariant of `C14_dated_run_partial` holds again — order by name and no-clobber
    continue across the restart. What does **not** continue is the bookkeeping: files of earlier days / runs are left
    out of `_created_files` (`C14_F15_restart_bound_fails`). -/
theorem C14_dated_restart_partial (z : Nat → Int) (w : World) (c : Cfg) (start : Nat) (h : DatedInv z w)
    (hsch : c.scheme = w.sink.cfg.scheme) (hmode : c.append = true ∨ c.removeOld = true)
    (hlater : (c.scheme = .date → sfxVal z c.scheme w.sink.openTs ≤ civilDay z start) ∧
      (c.scheme = .dateTime → sfxVal z c.scheme w.sink.openTs < civilSec z start)) :
    DatedInv z (restart z w.fs c start) := by
  apply restart_dated_inv z w.fs c start (by rw [hsch]; exact h.scheme) hmode
  refine ⟨h.keys, ?_⟩
  intro d k hk
  have hle : d ≤ sfxVal z c.scheme w.sink.openTs := by
    rw [hsch]
    rcases h.ghosts d k hk with ht | ht
    · exact h.bound _ ht d rfl
    · omega
  exact ⟨fun hd => by have := hlater.1 hd; omega, fun hd => by have := hlater.2 hd; omega⟩

/-! ### counter-witnesses (proved on the model, reproduced on the real code by the harness: corpus/C14) -/

def zGmt : Nat → Int := fun _ => 0
def dayNs : Nat := 86400 * NS

/-- **F14.** Date scheme, timestamps not monotone (start on day 2, second record stamped day 1, third day 3): the file
    holding the *older* statement 1 is named day 2, the file holding the *newer* statement 2 is named day 1 — read by
    name ("earlier date is older") the directory gives 2, 1, 3. -/
theorem C14_F14_nonmonotone_order_fails :
    let c : Cfg := { scheme := .date, limit := 10, append := false }
    let w := run Params.repaired zGmt (restart zGmt [] c (2 * dayNs))
      [.write ⟨1, 8⟩ (2 * dayNs + 5), .write ⟨2, 8⟩ (1 * dayNs + 7), .write ⟨3, 8⟩ (3 * dayNs)]
    w.sink.created = [⟨some 2, 0⟩, ⟨some 1, 0⟩, curInfo] ∧
      w.fs.get (.file (some 1) 0) = some [⟨2, 8⟩] ∧ w.fs.get (.file (some 2) 0) = some [⟨1, 8⟩] ∧
      w.fs.get curName = some [⟨3, 8⟩] := by
  decide

/-- **F15.** DateAndTime, `max_backup_files = 1`, overwriting on: one rotation in each of two runs (the second started
    in append mode 100 s later) leaves two rotated files on disk while the sink tracks one. -/
theorem C14_F15_restart_bound_fails :
    let c : Cfg := { scheme := .dateTime, limit := 10, maxBackup := 1, overwrite := true, append := true }
    let w1 := run Params.repaired zGmt (restart zGmt [] c (5 * NS)) [.write ⟨1, 8⟩ (5 * NS), .write ⟨2, 8⟩ (6 * NS)]
    let w2 := run Params.repaired zGmt (restart zGmt w1.fs c (105 * NS)) [.write ⟨3, 8⟩ (106 * NS)]
    w2.fs.get (.file (some 5) 0) = some [⟨1, 8⟩] ∧ w2.fs.get (.file (some 105) 0) = some [⟨2, 8⟩] ∧
      w2.sink.created = [⟨some 105, 0⟩, curInfo] ∧ w2.sink.cfg.maxBackup = 1 := by
  decide

/-- **F18** (repaired by a `fix:` commit: `if` → `while`). Index scheme: three rotated files left by a run with
    `max_backup_files = 3`; restarted in append mode with `max_backup_files = 1`. With the pinned one-deletion-per-rotation
    rule every rotation deletes one file and adds one — three rotated files remain for ever; with the repaired loop the
    first rotation brings the set down to the limit, and what is on disk is still a suffix of what was written. -/
theorem C14_F18_lowered_max_never_shrinks :
    let c3 : Cfg := { limit := 10, maxBackup := 3, append := false }
    let c1 : Cfg := { limit := 10, maxBackup := 1, append := true }
    let hist1 : List Op := [.write ⟨1, 8⟩ 1, .write ⟨2, 8⟩ 2, .write ⟨3, 8⟩ 3, .write ⟨4, 8⟩ 4]
    let hist2 : List Op := [.write ⟨5, 8⟩ 11, .write ⟨6, 8⟩ 12]
    let pinned : Params := { advancesFromSchedule := true, deletesAllExcess := false }
    let w1 := run pinned zGmt (restart zGmt [] c3 0) hist1
    let w2 := run pinned zGmt (restart zGmt w1.fs c1 10) hist2
    let r1 := run Params.repaired zGmt (restart zGmt [] c3 0) hist1
    let r2 := run Params.repaired zGmt (restart zGmt r1.fs c1 10) hist2
    w1.sink.created.length = 4 ∧ w2.sink.created.length = 4 ∧ w2.sink.cfg.maxBackup = 1 ∧
      diskSeq w2 = [⟨3, 8⟩, ⟨4, 8⟩, ⟨5, 8⟩, ⟨6, 8⟩] ∧
      r1.sink.created.length = 4 ∧ r2.sink.created.length = 2 ∧ diskSeq r2 = [⟨5, 8⟩, ⟨6, 8⟩] ∧
      r2.fs.keys.length = 2 := by
  decide

/-! ### non-vacuity -/

/-- a directory with unrelated files and a gap in the indices satisfies `DirOK`; the default configuration is `RestartOK` -/
example : DirOK [(.foreign 1, []), (.junk 0, []), (.file none 5, [⟨9, 3⟩])] ∧ RestartOK {} ∧
    RestartOK { append := false, removeOld := true } := by
  refine ⟨⟨by decide, ?_⟩, ⟨rfl, Or.inl rfl⟩, ⟨rfl, Or.inr rfl⟩⟩
  intro sfx k hk
  simp only [FS.get] at hk
  split at hk
  · simp_all
  · simp at hk
    exact hk.1.symm

/-- `C14_dated_run_partial`: its premises are met by a directory holding an older dated file and an unrelated one, a Date
    configuration and records over two days (three rotations, one of them bumping an index) -/
example :
    let c : Cfg := { scheme := .date, limit := 10, append := true }
    let fs0 : FS := [(.file (some 0) 0, [⟨7, 3⟩]), (.foreign 2, [])]
    let l : List (Stmt × Nat) := [(⟨1, 8⟩, dayNs + 1), (⟨2, 8⟩, dayNs + 2), (⟨3, 8⟩, dayNs + 3), (⟨4, 8⟩, 2 * dayNs)]
    c.scheme ≠ .index ∧ fs0.keys.Nodup ∧ MonoSfx zGmt c.scheme (sfxVal zGmt c.scheme dayNs) l ∧
      (run Params.repaired zGmt (restart zGmt fs0 c dayNs) (l.map (fun p => Op.write p.1 p.2))).sink.created =
        [⟨some 1, 2⟩, ⟨some 1, 1⟩, ⟨some 1, 0⟩, curInfo] := by
  refine ⟨by decide, by decide, ⟨by decide, by decide⟩, by decide⟩

/-- the hypotheses of the per-write theorems are met by a reachable state in which a rotation deletes a file -/
example :
    let c : Cfg := { limit := 10, maxBackup := 1, append := true }
    let w := run Params.repaired zGmt (restart zGmt [(.foreign 1, [])] c 0) [.write ⟨1, 8⟩ 1, .write ⟨2, 8⟩ 2]
    (diskSeq w ++ [(⟨3, 8⟩ : Stmt)]).Nodup ∧ diskSeq (write Params.repaired zGmt w ⟨3, 8⟩ 3) = [⟨2, 8⟩, ⟨3, 8⟩] ∧
      w.sink.cfg.limit ≠ 0 := by
  decide

end Rot
