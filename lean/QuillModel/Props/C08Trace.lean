import QuillModel.Props.C08Log
import QuillModel.Backend.LiftObsRun
import QuillModel.Backend.LiftObsRet0
/-!
# C08 (trace level) — the outcome and accounting theorems on the OBSERVABLE strings of whole runs

`Props/C08.lean` states "refused ⇔ `ret=0`" for one call (`C08_log_call_outcome`) and the accounting with ghost counters.
Here the same facts are read off what the harness prints: the observation text of every top-level operation
(`runObs`, which keeps what `runOps` drops; `runObs_fst`) and the result text recorded in the `Ev.inj site k op res`
event of every operation injected at a hook site inside a poll (`PC.injT log` lists the `res` texts).

Classifiers (on `String.toList`, `Backend/LiftObsDefs.lean`): `isDropObs t` — `t` ends with ` ev=1 bytes=0` (the line of a
refused ordinary log call: `id=<n> ret=0 ev=1 bytes=0` for LOG_DYNAMIC, `id=<n> ev=1 bytes=0` for the static macros);
`isRet0Obs t` — ends with ` ret=0 ev=1 bytes=0`; `isAttemptObs t` — ends with ` ev=1 bytes=<digits>` (an ordinary log call
that reached the reservation, accepted or refused). `C08_obs_classification` classifies every format `applyFront` can
print (`PC.Quiet` lists the twelve formats that are no attempt line).

Premises of the run theorems: dropping queue; `Started s0` (no context yet); empty history; `NoCallInFlight s0` — no
actor of the initial state owns a context or is parked in a call (true when there is no actor yet, `Fresh`). The last one
is needed: an actor of an arbitrary initial state could carry a context index that does not exist (its refused call
prints `ret=0` and no counter moves) or a parked empty statement (accepted, prints `bytes=0`).

Nothing is left partial. Helper lemmas: `Backend/LiftObs{Defs,Walk,View,Step,Front,Str,Run,Ret0}.lean`.
-/
namespace Backend
open Backend.PA Backend.PC

/-- number of texts of a list the classifier accepts (`PC.cntT`, as a `countP`) -/
theorem C08_cntT_eq_countP (w : String → Bool) : ∀ l : List String, cntT w l = l.countP w
  | [] => rfl
  | t :: l => by
    rw [List.countP_cons, ← C08_cntT_eq_countP w l]
    simp only [cntT, wt]; omega

/-- the result texts of the injected operations, as a `filterMap` over the history -/
theorem C08_injT_eq_filterMap : ∀ l : List Ev,
    injT l = l.filterMap (fun e => match e with | .inj _ _ _ r => some r | _ => none)
  | [] => rfl
  | e :: l => by
    cases e <;> simp [injT, C08_injT_eq_filterMap l]

/-- no actor of the state owns a context or is parked in a call -/
def NoCallInFlight (s : BSt) : Prop := ∀ x ∈ s.actors, x.ctx = none ∧ x.pend = Pend.none

theorem C08_no_actor_no_call (s : BSt) (h : s.actors = []) : NoCallInFlight s := by
  intro x hx; rw [h] at hx; cases hx

theorem NoCallInFlight.aok {s : BSt} (h : NoCallInFlight s) : AOK s := by
  intro x hx
  obtain ⟨h1, h2⟩ := h x hx
  refine ⟨fun i hi => ?_, ?_⟩
  · rw [h1] at hi; cases hi
  · rw [h2]; exact True.intro

/-- **Every observation format, classified.** A quiet format is no drop, no `ret=0`, no attempt line; the accept line of an
    ordinary statement (`cont` 0 = LOG_DYNAMIC, 5 = static macro; non-empty record) is an attempt line and no drop line; the
    two refusal lines are attempt and drop lines, and only LOG_DYNAMIC's is a `ret=0` line; a `ret=0` line is a drop line. -/
theorem C08_obs_classification :
    (∀ t, Quiet t → isDropObs t = false ∧ isRet0Obs t = false ∧ isAttemptObs t = false) ∧
    (∀ (st : Stmt) (c : Nat), c = 0 ∨ c = 5 → 0 < st.size →
      isDropObs (obsLog st c (some true) st.size) = false ∧ isRet0Obs (obsLog st c (some true) st.size) = false ∧
      isAttemptObs (obsLog st c (some true) st.size) = true) ∧
    (∀ n : Nat, isDropObs s!"id={n} ret=0 ev=1 bytes=0" = true ∧ isRet0Obs s!"id={n} ret=0 ev=1 bytes=0" = true ∧
      isAttemptObs s!"id={n} ret=0 ev=1 bytes=0" = true) ∧
    (∀ n : Nat, isDropObs s!"id={n} ev=1 bytes=0" = true ∧ isRet0Obs s!"id={n} ev=1 bytes=0" = false ∧
      isAttemptObs s!"id={n} ev=1 bytes=0" = true) ∧
    (∀ t, isRet0Obs t = true → isDropObs t = true) :=
  ⟨fun _ h => quiet_cls h, acc_cls, drop0_cls, drop5_cls, ret0_drop⟩

/-- **What one frontend operation prints and what it does to the counters** (dropping queue, well-formed actors — every
    state of a run from `NoCallInFlight`): the text is a quiet format and neither Σ `discarded` nor the number of accepted
    ordinary statements moves; or it is an accept line and exactly one ordinary statement was accepted; or it is a refusal
    line and Σ `discarded` grew by exactly one (`PC.Out`, with the continuation `PC.contOf s f` the call ran with). -/
theorem C08_front_outcome_on_text (s : BSt) (hd : s.cfg.dropping = true) (ha : AOK s) (f : FOp) :
    Out (contOf s f) (dsum s) (asum s) (dsum (applyFront s f).1) (asum (applyFront s f).1) (applyFront s f).2 :=
  (front_step s f hd ha).out

theorem C08_dsum_eq_ctrs (s : BSt) : dsum s = ((ctrs s).map (fun c => c.2.1)).sum := by
  rw [dsum_ths]; simp only [ctrs, List.map_map]; rfl

theorem ret0_iff_of_out {d a d' a' : Nat} {t : String} (h : Out 0 d a d' a' t) :
    (isRet0Obs t = true ↔ d' = d + 1) ∧ (isRet0Obs t = false ↔ d' = d) := by
  cases h with
  | quiet hd _ hq => rw [(quiet_cls hq).2.1, hd]; simp
  | acc hd _ hc ht =>
    obtain ⟨st, hsz, rfl⟩ := ht
    rw [(acc_cls st 0 hc hsz).2.1, hd]; simp
  | drop0 hd _ _ ht => obtain ⟨n, rfl⟩ := ht; rw [(drop0_cls n).2.1, hd]; simp
  | drop5 _ _ hc _ => cases hc

/-- **A LOG_DYNAMIC call prints `ret=0` exactly when it was refused** (`applyFront` level, any state of a run): the
    observation of `L_a_g_lvl_len` is a `ret=0` line iff Σ `discarded` grew by one, and is no `ret=0` line iff no
    `discarded` counter moved. -/
theorem C08_ret0_iff_discarded (s : BSt) (hd : s.cfg.dropping = true) (ha : AOK s) (a g lvl len : Nat) :
    (isRet0Obs (applyFront s (.log a g lvl len true)).2 = true ↔
      ((ctrs (applyFront s (.log a g lvl len true)).1).map (fun c => c.2.1)).sum = ((ctrs s).map (fun c => c.2.1)).sum + 1) ∧
    (isRet0Obs (applyFront s (.log a g lvl len true)).2 = false ↔
      ((ctrs (applyFront s (.log a g lvl len true)).1).map (fun c => c.2.1)).sum = ((ctrs s).map (fun c => c.2.1)).sum) := by
  rw [← C08_dsum_eq_ctrs, ← C08_dsum_eq_ctrs]
  exact ret0_iff_of_out (front_step s (.log a g lvl len true) hd ha).out

/-- the same for a LOG_DYNAMIC call that was stalled after reading its timestamp and is resumed (`R_a`) -/
theorem C08_ret0_iff_discarded_resumed (s : BSt) (hd : s.cfg.dropping = true) (ha : AOK s) (a : Nat) (x : Actor) (st : Stmt)
    (hx : s.actor a = some x) (hp : x.pend = .stall st 0) :
    (isRet0Obs (applyFront s (.resume a)).2 = true ↔
      ((ctrs (applyFront s (.resume a)).1).map (fun c => c.2.1)).sum = ((ctrs s).map (fun c => c.2.1)).sum + 1) ∧
    (isRet0Obs (applyFront s (.resume a)).2 = false ↔
      ((ctrs (applyFront s (.resume a)).1).map (fun c => c.2.1)).sum = ((ctrs s).map (fun c => c.2.1)).sum) := by
  rw [← C08_dsum_eq_ctrs, ← C08_dsum_eq_ctrs]
  have h := (front_step s (.resume a) hd ha).out
  have hc : contOf s (.resume a) = 0 := by simp [contOf, hx, hp]
  rw [hc] at h
  exact ret0_iff_of_out h

theorem pd_start {mw : Nat → Nat → Nat} {w : String → Bool} (hz : mw 0 0 = 0) (s0 : BSt) (hd : s0.cfg.dropping = true)
    (hs : Started s0) (hl : s0.log = []) (hn : NoCallInFlight s0) : Pd mw w 0 s0 := by
  refine ⟨hd, hn.aok, ?_⟩
  have h1 : dsum s0 = 0 := by simp [dsum, dk, hs.ths]
  have h2 : asum s0 = 0 := by simp [asum, dk, hs.ths]
  rw [h1, h2, hl, hz]; rfl

/-- the well-formedness of the actors that the two call-level theorems assume holds in every state of a run -/
theorem C08_actors_wf_along_run (s0 : BSt) (hd : s0.cfg.dropping = true) (hs : Started s0) (hl : s0.log = [])
    (hn : NoCallInFlight s0) (ops : List Op) : (runOps s0 ops).cfg.dropping = true ∧ AOK (runOps s0 ops) :=
  have h := Pd.run stepOK_drop (fun _ h => (quiet_cls h).1) ops 0 s0 (pd_start rfl s0 hd hs hl hn)
  ⟨h.1, h.2.1⟩

/-- **(T1) Every discarded statement is one drop line of the trace, and vice versa.** Over every schedule (frontend
    operations at top level and injected at every hook site of every poll and of the exit loop): Σ over all contexts of
    `discarded` = number of drop lines among the top-level observations + number of drop lines among the result texts of
    the `Ev.inj` events of the history. -/
theorem C08_drops_are_observed (s0 : BSt) (hd : s0.cfg.dropping = true) (hs : Started s0) (hl : s0.log = [])
    (hn : NoCallInFlight s0) (ops : List Op) :
    ((ctrs (runOps s0 ops)).map (fun c => c.2.1)).sum =
      (runObs s0 ops).2.countP isDropObs + (injT (runOps s0 ops).log).countP isDropObs := by
  have h := (Pd.run stepOK_drop (fun _ h => (quiet_cls h).1) ops 0 s0 (pd_start rfl s0 hd hs hl hn)).2.2
  rw [← C08_dsum_eq_ctrs, ← C08_cntT_eq_countP, ← C08_cntT_eq_countP]
  have h' : dsum (runOps s0 ops) =
      cntT isDropObs (injT (runOps s0 ops).log) + (0 + cntT isDropObs (runObs s0 ops).2) := h
  omega

/-- **(T2, counting form) `ret=0` lines never exceed the discarded statements**: every `ret=0` line is a drop line
    (`C08_obs_classification`), so their number in the trace is at most Σ `discarded`. -/
theorem C08_ret0_lines_le_discarded (s0 : BSt) (hd : s0.cfg.dropping = true) (hs : Started s0) (hl : s0.log = [])
    (hn : NoCallInFlight s0) (ops : List Op) :
    (runObs s0 ops).2.countP isRet0Obs + (injT (runOps s0 ops).log).countP isRet0Obs ≤
      ((ctrs (runOps s0 ops)).map (fun c => c.2.1)).sum := by
  rw [C08_drops_are_observed s0 hd hs hl hn ops, ← C08_cntT_eq_countP, ← C08_cntT_eq_countP, ← C08_cntT_eq_countP,
    ← C08_cntT_eq_countP]
  have h1 := cntT_mono ret0_drop (runObs s0 ops).2
  have h2 := cntT_mono ret0_drop (injT (runOps s0 ops).log)
  omega

/-- **(T3) attempted = accepted + discarded**, on the trace: the number of attempt lines (`ev=1`; top level + injected) =
    Σ over contexts of the ordinary statements ever accepted + Σ `discarded`. -/
theorem C08_attempted_eq_accepted_discarded (s0 : BSt) (hd : s0.cfg.dropping = true) (hs : Started s0) (hl : s0.log = [])
    (hn : NoCallInFlight s0) (ops : List Op) :
    (runObs s0 ops).2.countP isAttemptObs + (injT (runOps s0 ops).log).countP isAttemptObs =
      (((runOps s0 ops).ths.map (fun t => (t.accepted.filter (fun x => isLogKind x.kind)).length)).sum) +
      ((ctrs (runOps s0 ops)).map (fun c => c.2.1)).sum := by
  have h := (Pd.run stepOK_attempt (fun _ h => (quiet_cls h).2.2) ops 0 s0 (pd_start rfl s0 hd hs hl hn)).2.2
  rw [← C08_dsum_eq_ctrs, ← C08_cntT_eq_countP, ← C08_cntT_eq_countP, ← asum_ths]
  have h' : dsum (runOps s0 ops) + asum (runOps s0 ops) =
      cntT isAttemptObs (injT (runOps s0 ops).log) + (0 + cntT isAttemptObs (runObs s0 ops).2) := h
  omega

theorem sum_map_add' {α} (f g : α → Nat) : ∀ l : List α, (l.map (fun x => f x + g x)).sum = (l.map f).sum + (l.map g).sum
  | [] => rfl
  | x :: l => by simp only [List.map_cons, List.sum_cons, sum_map_add' f g l]; omega

/-- **(T3) attempted = delivered + pending + discarded**, on the trace, from a freshly started system (`Fresh`, nothing reported yet): the number of
    attempt lines = Σ ordinary statements popped from the transit buffers (processed by the backend) + Σ ordinary statements
    still in a transit buffer or a queue + Σ `discarded` (uses `C03_conservation`). -/
theorem C08_attempted_eq_delivered_discarded_pending (s0 : BSt) (hd : s0.cfg.dropping = true) (hf : Fresh s0)
    (hs : Started s0) (ops : List Op) :
    (runObs s0 ops).2.countP isAttemptObs + (injT (runOps s0 ops).log).countP isAttemptObs =
      (((runOps s0 ops).ths.map (fun t => (t.popped.filter (fun x => isLogKind x.kind)).length)).sum) +
      (((runOps s0 ops).ths.map (fun t => ((t.buf ++ t.qStmts).filter (fun x => isLogKind x.kind)).length)).sum) +
      ((ctrs (runOps s0 ops)).map (fun c => c.2.1)).sum := by
  rw [C08_attempted_eq_accepted_discarded s0 hd hs hf.log (C08_no_actor_no_call s0 hf.actors) ops,
    ← sum_map_add']
  congr 1
  refine congrArg List.sum (List.map_congr_left ?_)
  intro t ht
  obtain ⟨i, hi, e⟩ := List.mem_iff_getElem.mp ht
  have hth : t = (runOps s0 ops).th i := by rw [th_eq_getElem _ i hi, e]
  rw [hth, C03_conservation s0 hf.inv ops i]
  simp only [List.filter_append, List.length_append, List.append_assoc]

/-! ### non-vacuity: `f23Sched` under the repaired flags — thread 2's second 300-byte statement is refused at top level
(`id=2 ret=0 ev=1 bytes=0`), and thread 1's 5000-byte statement is refused inside the third poll, injected at hook site 8
(`Ev.inj 8 1 "L_1_0_4_5000" "id=3 ret=0 ev=1 bytes=0"`) -/

theorem c08Init_fresh (rep keep : Bool) : Fresh (c08Init rep keep) :=
  ⟨(by decide : 0 < 32), rfl, rfl, rfl, rfl, fun i => by
    cases i with
    | zero => rfl
    | succ j => rw [lgOf_default_of_ge _ _ (by simp [c08Init])]; rfl⟩

/-- the premises hold, two statements are discarded, one drop line at top level and one in an `Ev.inj` result -/
example : (c08Init true true).cfg.dropping = true ∧ Started (c08Init true true) ∧ (c08Init true true).log = [] ∧
    NoCallInFlight (c08Init true true) ∧
    ((ctrs (runOps (c08Init true true) f23Sched)).map (fun c => c.2.1)).sum = 2 ∧
    (runObs (c08Init true true) f23Sched).2.countP isDropObs = 1 ∧
    (injT (runOps (c08Init true true) f23Sched).log).countP isDropObs = 1 ∧
    (runObs (c08Init true true) f23Sched).2 =
      ["ok", "ok", "id=0 ret=1 ev=1 bytes=48", "id=1 ret=1 ev=1 bytes=338", "id=2 ret=0 ev=1 bytes=0", "ev", "ev", "ev"] ∧
    injT (runOps (c08Init true true) f23Sched).log = ["ok", "id=3 ret=0 ev=1 bytes=0"] := by
  refine ⟨rfl, c08Init_started true true, rfl, C08_no_actor_no_call _ rfl, by decide, by decide, by decide, by decide,
    by decide⟩

/-- `ret=0` lines: one at top level, one injected, both discarded; and the call-level equivalence is exercised in both
    directions: the second 300-byte call of thread 2 prints `ret=0` and Σ `discarded` grows, the first prints `ret=1` and
    it does not -/
example :
    (runObs (c08Init true true) f23Sched).2.countP isRet0Obs = 1 ∧
    (injT (runOps (c08Init true true) f23Sched).log).countP isRet0Obs = 1 ∧
    isRet0Obs (applyFront (runOps (c08Init true true) (f23Sched.take 4)) (.log 2 0 4 300 true)).2 = true ∧
    ((ctrs (applyFront (runOps (c08Init true true) (f23Sched.take 4)) (.log 2 0 4 300 true)).1).map (fun c => c.2.1)).sum =
      ((ctrs (runOps (c08Init true true) (f23Sched.take 4))).map (fun c => c.2.1)).sum + 1 ∧
    isRet0Obs (applyFront (runOps (c08Init true true) (f23Sched.take 3)) (.log 2 0 4 300 true)).2 = false ∧
    ((ctrs (applyFront (runOps (c08Init true true) (f23Sched.take 3)) (.log 2 0 4 300 true)).1).map (fun c => c.2.1)).sum =
      ((ctrs (runOps (c08Init true true) (f23Sched.take 3))).map (fun c => c.2.1)).sum := by
  refine ⟨by decide, by decide, by decide, by decide, by decide, by decide⟩

/-- attempt lines: three at top level (ids 0, 1, 2), one injected (id 3) = two accepted (both popped by the polls, nothing
    pending) + two discarded; `Fresh` holds of the initial state -/
example : Fresh (c08Init true true) ∧
    (runObs (c08Init true true) f23Sched).2.countP isAttemptObs = 3 ∧
    (injT (runOps (c08Init true true) f23Sched).log).countP isAttemptObs = 1 ∧
    (((runOps (c08Init true true) f23Sched).ths.map (fun t => (t.accepted.filter (fun x => isLogKind x.kind)).length)).sum) = 2 ∧
    (((runOps (c08Init true true) f23Sched).ths.map (fun t => (t.popped.filter (fun x => isLogKind x.kind)).length)).sum) = 2 ∧
    (((runOps (c08Init true true) f23Sched).ths.map
      (fun t => ((t.buf ++ t.qStmts).filter (fun x => isLogKind x.kind)).length)).sum) = 0 := by
  refine ⟨c08Init_fresh true true, by decide, by decide, by decide, by decide, by decide⟩

/-- **(T2, counting form, equality)** In a run without static-macro log operations (`PC.opOK`: no `LOG_<LEVEL>`, no named
    `LOG_INFO`, no `LOG_BACKTRACE`, neither at top level nor in an injection table — a decidable premise on `ops`) every
    discarded statement is a `ret=0` line of the trace and vice versa: the number of `ret=0` lines = Σ `discarded`. -/
theorem C08_ret0_count_eq_discarded (s0 : BSt) (hd : s0.cfg.dropping = true) (hs : Started s0) (hl : s0.log = [])
    (hn : NoCallInFlight s0) (ops : List Op) (hok : ∀ o ∈ ops, opOK o = true) :
    (runObs s0 ops).2.countP isRet0Obs + (injT (runOps s0 ops).log).countP isRet0Obs =
      ((ctrs (runOps s0 ops)).map (fun c => c.2.1)).sum := by
  have hn5 : N5 s0 := fun x hx => by rw [(hn x hx).2]; simp [pendCont]
  have h := (P0.run ops 0 s0 hok ⟨pd_start rfl s0 hd hs hl hn, hn5⟩).1.2.2
  have h' : dsum (runOps s0 ops) =
      cntT isRet0Obs (injT (runOps s0 ops).log) + (0 + cntT isRet0Obs (runObs s0 ops).2) := h
  rw [← C08_dsum_eq_ctrs, ← C08_cntT_eq_countP, ← C08_cntT_eq_countP]
  omega

/-- non-vacuity: `f23Sched` has no static-macro log operation; two `ret=0` lines, two statements discarded -/
example : (∀ o ∈ f23Sched, opOK o = true) ∧
    (runObs (c08Init true true) f23Sched).2.countP isRet0Obs + (injT (runOps (c08Init true true) f23Sched).log).countP isRet0Obs = 2 ∧
    ((ctrs (runOps (c08Init true true) f23Sched)).map (fun c => c.2.1)).sum = 2 := by
  refine ⟨by decide, by decide, by decide⟩

/-- the premise is needed: a refused static-macro call is discarded without a `ret=0` line (`id=2 ev=1 bytes=0`) -/
example :
    (runObs (c08Init true true) [.front (.tstart 2), .front (.log 2 0 4 300 true), .front (.log 2 0 4 300 false)]).2 =
      ["ok", "id=0 ret=1 ev=1 bytes=338", "id=1 ev=1 bytes=0"] ∧
    ((ctrs (runOps (c08Init true true) [.front (.tstart 2), .front (.log 2 0 4 300 true), .front (.log 2 0 4 300 false)])).map
      (fun c => c.2.1)).sum = 1 := by
  refine ⟨by decide, by decide⟩

end Backend
