import QuillModel.Backend.LiftOnceNodup
import QuillModel.Props.C03Delivery
/-!
# C03 (lift) — exactly once as ONE equality over the whole run

`C03_pop_writes_exactly` is a statement per pop, `C03_delivered_after_quiet_drain` says `accepted = popped` after the
drain; this file composes them. The acceptance decision (sink level, filters, `write_log` faults) is taken in the state
of the pop, which the final state no longer records (`setSinkLevel` may run between the log call and the pop, and after
it), so the equality is stated against the decision function on states, with no ghost field:

`dispatchCount s st sid` (`Backend/LiftOnce.lean`) = what `_write_log_statement` for `st` writes at sink `sid` when it
runs in state `s`, computed by a recursion that mirrors `writeToSinks`. For a logger whose sink list has no duplicates it
is `1` exactly when `sid` is in the list, accepts `st` in `s` and neither `sid` nor an accepting sink before it throws on
this call, else `0` (`C03_dispatchCount_eq_one_iff`, `C03_dispatchCount_le_one`).

* `C03_whole_run_count`: after **every** schedule, for every popped ordinary statement, the WHOLE history holds at every
  sink exactly `dispatchCount s st sid` writes, where `s` is a state satisfying the invariants with `st` at the front of
  its context's transit buffer — the state in which the backend popped it.
* `C03_exactly_once_after_drain`: after any schedule followed by a quiet drain, the same for every ACCEPTED ordinary
  statement: nothing accepted is lost, nothing is written twice, and what is written is exactly the pop-time decision.
-/
namespace Backend
open Backend.PA Backend.PB

/-- **Whole-run equality.** From every initial state satisfying `Inv` in which nothing has been popped yet, after every
    schedule: for every ordinary statement `st` in the `popped` history of any context `i` there is a state `s` — `Inv s`,
    `st` at the front of context `i`'s transit buffer: the state in which `_process_lowest_timestamp_transit_event` popped
    it — such that at every sink the number of ordinary writes of `st.id` in the whole final history is what the dispatch
    decided in `s`. -/
theorem C03_whole_run_count (s0 : BSt) (h0 : Inv s0) (hp0 : ∀ i, (s0.th i).popped = []) (ops : List Op) (i : Nat)
    (st : Stmt) (hm : st ∈ ((runOps s0 ops).th i).popped) (hord : isOrd st = true) :
    ∃ s, Inv s ∧ (s.th i).buf.head? = some st ∧
      ∀ sid, wcount (runOps s0 ops).log sid st.id = dispatchCount s st sid :=
  ((WInv.of_start h0 hp0).run ops).dec i st hm hord

/-- the count a dispatch decides, for a logger that lists every sink once: 0 or 1 -/
theorem C03_dispatchCount_le_one (s : BSt) (st : Stmt) (sid : Nat) (hn : (s.lgOf st.lg).sinks.Nodup) :
    dispatchCount s st sid ≤ 1 :=
  dispatchCount_le_one s st sid hn

/-- … and it is 1 exactly when `sid` is one of the logger's sinks, accepts `st` in `s` (`acc`: sink level and filters as
    they are in `s`), and no accepting sink up to and including `sid` throws on this `write_log` call
    (`sinkThrows s k`: the fault schedule of `k` contains its next call number) -/
theorem C03_dispatchCount_eq_one_iff (s : BSt) (st : Stmt) (sid : Nat) (hn : (s.lgOf st.lg).sinks.Nodup) :
    dispatchCount s st sid = 1 ↔
      ∃ pre post, (s.lgOf st.lg).sinks = pre ++ sid :: post ∧ acc s st sid = true ∧
        ∀ k ∈ pre ++ [sid], acc s st k = true → sinkThrows s k = false :=
  dispatchCount_eq_one_iff s st sid hn

/-- **Exactly once after a drain, as one equality.** Under the premises of `C03_delivered_after_quiet_drain` (any start
    without threads, any schedule `ops`, the grace period passes, then at least `pendingCount` quiet polls), for the final
    state `F`: every ordinary statement that any context ever ACCEPTED has, at every sink, exactly the writes its dispatch
    decided in the state `s` of its pop — in the whole history of the run. -/
theorem C03_exactly_once_after_drain (s0 : BSt) (h0 : StartF s0) (hi0 : Inv s0) (ops : List Op)
    (hrun : (runOps s0 ops).backendGone = false) (dt : Nat) (hdt : (runOps s0 ops).cfg.grace ≤ dt)
    (suffix : List Op) (hq : ∀ o ∈ suffix, quietOp o = true)
    (hn : pendingCount (runOps s0 ops) ≤ pollCount suffix) (i : Nat) (st : Stmt)
    (hm : st ∈ ((runOps (runOps s0 ops) (.front (.tick dt) :: suffix)).th i).accepted) (hord : isOrd st = true) :
    ∃ s, Inv s ∧ (s.th i).buf.head? = some st ∧
      ∀ sid, wcount (runOps (runOps s0 ops) (.front (.tick dt) :: suffix)).log sid st.id = dispatchCount s st sid := by
  have hd := (C03_delivered_after_quiet_drain s0 h0 ops hrun dt hdt suffix hq hn i).1
  rw [hd] at hm
  have e : runOps (runOps s0 ops) (.front (.tick dt) :: suffix) = runOps s0 (ops ++ .front (.tick dt) :: suffix) := by
    simp [runOps, List.foldl_append]
  rw [e] at hm ⊢
  refine C03_whole_run_count s0 hi0 (fun j => ?_) _ i st hm hord
  rw [th_default_of_ge s0 j (by rw [h0.start.ths]; exact Nat.zero_le _)]
  rfl

/-- the same, spelled out for a logger without duplicate sinks: the count is 0 or 1, and 1 exactly under the pop-time
    decision -/
theorem C03_exactly_once_after_drain_nodup (s0 : BSt) (h0 : StartF s0) (hi0 : Inv s0) (ops : List Op)
    (hrun : (runOps s0 ops).backendGone = false) (dt : Nat) (hdt : (runOps s0 ops).cfg.grace ≤ dt)
    (suffix : List Op) (hq : ∀ o ∈ suffix, quietOp o = true)
    (hn : pendingCount (runOps s0 ops) ≤ pollCount suffix) (i : Nat) (st : Stmt)
    (hm : st ∈ ((runOps (runOps s0 ops) (.front (.tick dt) :: suffix)).th i).accepted) (hord : isOrd st = true) :
    ∃ s, Inv s ∧ (s.th i).buf.head? = some st ∧ ((s.lgOf st.lg).sinks.Nodup → ∀ sid,
      wcount (runOps (runOps s0 ops) (.front (.tick dt) :: suffix)).log sid st.id ≤ 1 ∧
      (wcount (runOps (runOps s0 ops) (.front (.tick dt) :: suffix)).log sid st.id = 1 ↔
        ∃ pre post, (s.lgOf st.lg).sinks = pre ++ sid :: post ∧ acc s st sid = true ∧
          ∀ k ∈ pre ++ [sid], acc s st k = true → sinkThrows s k = false)) := by
  obtain ⟨s, h1, h2, h3⟩ := C03_exactly_once_after_drain s0 h0 hi0 ops hrun dt hdt suffix hq hn i st hm hord
  refine ⟨s, h1, h2, fun hnd sid => ?_⟩
  rw [h3 sid]
  exact ⟨dispatchCount_le_one s st sid hnd, dispatchCount_eq_one_iff s st sid hnd⟩

/-! ### non-vacuity -/

theorem c03TightInit_fresh : Fresh c03TightInit :=
  ⟨by decide, rfl, rfl, rfl, rfl, fun i => by
    cases i with
    | zero => rfl
    | succ j => rw [lgOf_default_of_ge _ _ (by simp [c03TightInit, c03Init])]; rfl⟩

/-- the premises hold on `c03TightInit` / `c03TightPre` with three quiet polls (see `C03Delivery.lean`), the start
    satisfies `Inv`, statement 0 is accepted and ordinary, and the whole final history has exactly one write of it at each
    of the two sinks — which is what the decision function gives in the start state's sink configuration (both sinks
    accept, no fault) -/
example : Inv c03TightInit ∧
    (((runOps (runOps c03TightInit c03TightPre) [.front (.tick 0), .poll [], .poll [], .poll []]).th 0).accepted.filter
      isOrd).map (·.id) = [0, 1] ∧
    wcount (runOps (runOps c03TightInit c03TightPre) [.front (.tick 0), .poll [], .poll [], .poll []]).log 1 0 = 1 ∧
    wcount (runOps (runOps c03TightInit c03TightPre) [.front (.tick 0), .poll [], .poll [], .poll []]).log 2 0 = 1 ∧
    (c03TightInit.lgOf 0).sinks.Nodup :=
  ⟨c03TightInit_fresh.inv, by decide, by decide, by decide, by decide⟩

/-- two statements of one thread, the first one processed -/
def c03WholeMid : BSt :=
  runOps c03Init [.front (.tstart 0), .front (.log 0 0 4 10 true), .front (.log 0 0 4 10 true), .poll []]

/-- the decision function on a concrete state with a fault and a level change: statement 1 is at the front of the transit
    buffer; sink 2 throws on its 2nd call, so the dispatch in this state writes it once at sink 1 and not at sink 2; after
    `setSinkLevel 1 5` (above the statement's level 4) sink 1 rejects it as well — the decision is the pop-time one -/
example :
    ((c03WholeMid.th 0).buf.map (·.id)) = [1] ∧ ((c03WholeMid.th 0).popped.map (·.id)) = [0] ∧
    (c03WholeMid.th 0).buf.head?.map (fun st =>
      (dispatchCount c03WholeMid st 1, dispatchCount c03WholeMid st 2,
       dispatchCount (applyFront c03WholeMid (.setSinkLevel 1 5)).1 st 1)) = some (1, 0, 0) ∧
    wcount (runOps c03WholeMid [.poll []]).log 1 1 = 1 ∧ wcount (runOps c03WholeMid [.poll []]).log 2 1 = 0 ∧
    wcount (runOps c03WholeMid [.front (.setSinkLevel 1 5), .poll []]).log 1 1 = 0 := by decide

end Backend
